#!/bin/bash
# usage: ./mk Properties/C04.vo ...   (regenerates _CoqProject/Makefile when the file set changed)
cd /verif/coq && /venv/bin/python -c "import sys; sys.path.insert(0,'../harness'); import vlib; vlib.ensure_makefile()" && timeout ${MK_TIMEOUT:-900} make "$@" 2>&1 | grep -v "^COQDEP\|^Closed under"
