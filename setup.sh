#!/bin/bash
# Build the whole Coq development from files on disk (offline) and refuse forbidden declarations.
set -e
cd "$(dirname "$0")"
mkdir -p evidence replays corpus coq/Cases coq/Generated /var/tmp/verif-numba-cache
export PYTHONPATH=/repo PYTHONHASHSEED=0 OPENDSM_EEMETER_VERIF=1 PYTHONWARNINGS=ignore
# regenerate translator output so that Generated/*.v exists before the full build
if [ -f harness/translate_all.py ]; then /venv/bin/python -W ignore harness/translate_all.py; fi
/venv/bin/python -c "import sys; sys.path.insert(0,'harness'); import vlib; vlib.ensure_makefile()"
cd coq
timeout 3600 make -k -j16 2>&1 | grep -v "^Closed under\|^COQC\|^COQDEP" || true
cd ..
/venv/bin/python - <<'PY'
import sys
sys.path.insert(0, "harness")
import vlib, os, re
bad = vlib.forbidden_tokens()
if bad:
    print("FORBIDDEN:", bad); sys.exit(1)   # every check also refuses to pass with these present
missing = []
for line in open("coq/_CoqProject"):
    line = line.strip()
    if line.endswith(".v") and not os.path.exists("coq/" + line[:-2] + ".vo"):
        missing.append(line)
if missing:
    # not fatal here: a file that does not build fails the check(s) that need it (check_proofs / ensure_models
    # rebuild what they use and report a broken proof); the other properties stay checkable
    print("WARNING, NOT BUILT:", missing)
print("setup ok")
PY
