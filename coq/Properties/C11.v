(* C11 — the daily model curve is continuous, monotone and its load components add up.

   Statements only.  The model is Model/DailyCurve.v (one text, written over the numeric dictionary of
   Model/Num.v), here at the real-number instance [RNum] (exp-clip bounds = the exact values of the
   package's two binary64 constants); the lemmas are in Proofs/DailyCurveProofs.v.  The same text at
   [FNum] (binary64) is what harness/c11.py runs against the implementation's columns.

   Reading guide
     coeffs / tconstr          a stored sub-model document: ModelCoefficients + temperature_constraints
     predict_submodel c tc T   DailyModel._predict_submodel: Some (predicted, heating_load, cooling_load)
     admissible c tc           the document lies in the optimiser's box with the stored sign convention
                               (Print below)
     eff c tc                  the 7-vector full_model is called with (after get_full_model_x,
                               fix_full_model_x and, for hdd_tidd_cdd_smooth, get_smooth_coeffs):
                               x_hdd_bp / x_cdd_bp are the *shifted* balance points bp', x_hdd_k / x_cdd_k the
                               smoothing lengths k, x_hdd_beta / x_cdd_beta the slope magnitudes
     off_corner c tc           the guard: NOT (bp_h' = bp_c' >= T_max with a non-zero slope); there the kernel's
                               regime switch evaluates the heating branch on both sides (finding C11-F1, D16)   *)
From Coq Require Import Reals Lra List PrimFloat String Permutation.
From V Require Import Model.Num Model.NumR Model.NumF Model.DailyCurve Proofs.DailyCurveProofs.
Import ListNotations.
Local Open Scope R_scope.

Notation lo := R_ln_min.
Notation hi := R_ln_max.
Definition Hlo : lo <= 0 := proj1 R_ln_bounds.
Definition Hhi : 0 <= hi := proj2 R_ln_bounds.

Notation adm := (admissible lo hi).
Notation offc := (off_corner lo hi).
Notation E := (predicted lo hi).
Notation Hload := (heating_load lo hi).
Notation Cload := (cooling_load lo hi).
Notation x_of := (eff lo hi).

Print admissible.
Print off_corner.
Print off_corner_x.
Print curve.
Print branch.
Print sm.

(* ------------------------------------------------------------------ the full statement *)

(* everything the property text says about one document *)
Definition C11_holds (c : coeffs RNum) (tc : tconstr RNum) : Prop :=
  let x := x_of c tc in
  (* continuous *)
  continuity (E c tc) /\
  (* equals the temperature-independent load between the balance points *)
  (forall T, x_hdd_bp x <= T <= x_cdd_bp x -> E c tc T = intercept c) /\
  (* never decreases as it gets colder below the heating balance point / hotter above the cooling one *)
  (forall T1 T2, T1 <= T2 -> T2 <= x_hdd_bp x -> E c tc T2 <= E c tc T1) /\
  (forall T1 T2, x_cdd_bp x <= T1 -> T1 <= T2 -> E c tc T1 <= E c tc T2) /\
  (* exactly a straight line with the fitted slope beyond each balance point when unsmoothed *)
  (x_hdd_k x = 0 -> forall T, T <= x_hdd_bp x -> E c tc T = intercept c + x_hdd_beta x * (x_hdd_bp x - T)) /\
  (x_cdd_k x = 0 -> forall T, x_cdd_bp x <= T -> E c tc T = intercept c + x_cdd_beta x * (T - x_cdd_bp x)) /\
  (* asymptotically when smoothed (down to the floor beta k e^lo < beta k 2^-331 that the exp clip leaves) *)
  (forall eps, 0 < eps -> exists M, forall T, T < M ->
     0 <= E c tc T - (intercept c + x_hdd_beta x * ((x_hdd_bp x - x_hdd_k x) - T))
       <= x_hdd_beta x * x_hdd_k x * (eps + exp lo)) /\
  (forall eps, 0 < eps -> exists M, forall T, M < T ->
     0 <= E c tc T - (intercept c + x_cdd_beta x * (T - (x_cdd_bp x + x_cdd_k x)))
       <= x_cdd_beta x * x_cdd_k x * (eps + exp lo)) /\
  (* loads: non-negative, at most one non-zero, base + heating + cooling = prediction *)
  (forall T, 0 <= Hload c tc T /\ 0 <= Cload c tc T) /\
  (forall T, Hload c tc T = 0 \/ Cload c tc T = 0) /\
  (forall T, intercept c + Hload c tc T + Cload c tc T = E c tc T).

Definition C11_statement : Prop := forall c tc, adm c tc -> C11_holds c tc.

(* ------------------------------------------------------------------ what is proved *)

(* an admissible document always evaluates, and the vector the kernel sees is ordered and sign-correct *)
Theorem C11_effective_vector : forall c tc, adm c tc ->
  exists x, effective_x RNum c tc = Some x /\ good lo hi x /\ x_intercept x = intercept c /\
            lower_bp lo hi c <= x_hdd_bp x /\ x_cdd_bp x <= upper_bp lo hi c /\
            (x_hdd_beta x = heat_slope lo hi c \/ x_hdd_beta x = 0) /\
            (x_cdd_beta x = cool_slope lo hi c \/ x_cdd_beta x = 0) /\
            (interior lo hi c tc -> x_hdd_beta x = heat_slope lo hi c /\ x_cdd_beta x = cool_slope lo hi c) /\
            match model_type c with
            | HddTiddCddSmooth => x_hdd_bp x - x_hdd_k x = lower_bp lo hi c /\ x_cdd_bp x + x_cdd_k x = upper_bp lo hi c
            | _ => x_hdd_bp x = lower_bp lo hi c /\ x_cdd_bp x = upper_bp lo hi c
            end /\
            match model_type c with
            | HddTiddCdd | HddTidd | TiddCdd | Tidd => x_hdd_k x = 0 /\ x_cdd_k x = 0
            | _ => True
            end.
Proof. exact (effective_good lo hi). Qed.
Print Assumptions C11_effective_vector.

(* closed form of the three columns: the documented smoothed hinge on each side *)
Theorem C11_closed_form : forall c tc, adm c tc -> offc c tc -> forall T,
  predict_submodel RNum c tc T =
    Some (intercept c + heat_part lo hi (x_of c tc) T + cool_part lo hi (x_of c tc) T,
          heat_part lo hi (x_of c tc) T, cool_part lo hi (x_of c tc) T).
Proof. exact (predict_closed lo hi Hlo Hhi). Qed.
Print Assumptions C11_closed_form.

Theorem C11_curve_continuous : forall c tc, adm c tc -> offc c tc -> continuity (E c tc).
Proof. exact (p_continuous lo hi Hlo Hhi). Qed.
Print Assumptions C11_curve_continuous.

Theorem C11_curve_lipschitz : forall c tc, adm c tc -> offc c tc -> forall T1 T2,
  Rabs (E c tc T1 - E c tc T2) <= Rmax (x_hdd_beta (x_of c tc)) (x_cdd_beta (x_of c tc)) * Rabs (T1 - T2).
Proof. exact (p_lipschitz lo hi Hlo Hhi). Qed.
Print Assumptions C11_curve_lipschitz.

(* ... and in terms of the stored slopes (what the oracle evaluates on the implementation's column) *)
Theorem C11_curve_lipschitz_stored : forall c tc, adm c tc -> offc c tc -> forall T1 T2,
  Rabs (E c tc T1 - E c tc T2) <= Rmax (heat_slope lo hi c) (cool_slope lo hi c) * Rabs (T1 - T2).
Proof. exact (p_lipschitz_stored lo hi Hlo Hhi). Qed.
Print Assumptions C11_curve_lipschitz_stored.

Theorem C11_flat_between : forall c tc, adm c tc -> offc c tc -> forall T,
  x_hdd_bp (x_of c tc) <= T <= x_cdd_bp (x_of c tc) -> E c tc T = intercept c.
Proof. exact (p_flat lo hi Hlo Hhi). Qed.
Print Assumptions C11_flat_between.

Theorem C11_never_below_base_load : forall c tc, adm c tc -> offc c tc -> forall T, intercept c <= E c tc T.
Proof. exact (p_ge_base lo hi Hlo Hhi). Qed.
Print Assumptions C11_never_below_base_load.

Theorem C11_heating_monotone : forall c tc, adm c tc -> offc c tc -> forall T1 T2,
  T1 <= T2 -> T2 <= x_hdd_bp (x_of c tc) -> E c tc T2 <= E c tc T1.
Proof. exact (p_heating_monotone lo hi Hlo Hhi). Qed.
Print Assumptions C11_heating_monotone.

Theorem C11_cooling_monotone : forall c tc, adm c tc -> offc c tc -> forall T1 T2,
  x_cdd_bp (x_of c tc) <= T1 -> T1 <= T2 -> E c tc T1 <= E c tc T2.
Proof. exact (p_cooling_monotone lo hi Hlo Hhi). Qed.
Print Assumptions C11_cooling_monotone.

Theorem C11_unsmoothed_linear_heating : forall c tc, adm c tc -> offc c tc -> forall T,
  x_hdd_k (x_of c tc) = 0 -> T <= x_hdd_bp (x_of c tc) ->
  E c tc T = intercept c + x_hdd_beta (x_of c tc) * (x_hdd_bp (x_of c tc) - T).
Proof. exact (p_heating_linear lo hi Hlo Hhi). Qed.
Print Assumptions C11_unsmoothed_linear_heating.

Theorem C11_unsmoothed_linear_cooling : forall c tc, adm c tc -> offc c tc -> forall T,
  x_cdd_k (x_of c tc) = 0 -> x_cdd_bp (x_of c tc) <= T ->
  E c tc T = intercept c + x_cdd_beta (x_of c tc) * (T - x_cdd_bp (x_of c tc)).
Proof. exact (p_cooling_linear lo hi Hlo Hhi). Qed.
Print Assumptions C11_unsmoothed_linear_cooling.

(* smoothed: exact distance to the asymptote  intercept + beta ((bp' - k) - T);  for hdd_tidd_cdd_smooth
   bp' - k is the stored balance point (C11_effective_vector), so the line is the one "with the fitted
   slope beyond the balance point" *)
Theorem C11_smoothed_remainder_heating : forall c tc, adm c tc -> offc c tc -> forall T,
  T <= x_hdd_bp (x_of c tc) -> lo <= - ((x_hdd_bp (x_of c tc) - T) / x_hdd_k (x_of c tc)) ->
  E c tc T - (intercept c + x_hdd_beta (x_of c tc) * ((x_hdd_bp (x_of c tc) - x_hdd_k (x_of c tc)) - T)) =
  x_hdd_beta (x_of c tc) * x_hdd_k (x_of c tc) * exp (- ((x_hdd_bp (x_of c tc) - T) / x_hdd_k (x_of c tc))).
Proof. exact (p_heating_remainder_exp lo hi Hlo Hhi). Qed.
Print Assumptions C11_smoothed_remainder_heating.

Theorem C11_smoothed_remainder_cooling : forall c tc, adm c tc -> offc c tc -> forall T,
  x_cdd_bp (x_of c tc) <= T -> lo <= - ((T - x_cdd_bp (x_of c tc)) / x_cdd_k (x_of c tc)) ->
  E c tc T - (intercept c + x_cdd_beta (x_of c tc) * (T - (x_cdd_bp (x_of c tc) + x_cdd_k (x_of c tc)))) =
  x_cdd_beta (x_of c tc) * x_cdd_k (x_of c tc) * exp (- ((T - x_cdd_bp (x_of c tc)) / x_cdd_k (x_of c tc))).
Proof. exact (p_cooling_remainder_exp lo hi Hlo Hhi). Qed.
Print Assumptions C11_smoothed_remainder_cooling.

Theorem C11_asymptote_heating : forall c tc, adm c tc -> offc c tc -> forall eps, 0 < eps ->
  exists M, forall T, T < M ->
    0 <= E c tc T - (intercept c + x_hdd_beta (x_of c tc) * ((x_hdd_bp (x_of c tc) - x_hdd_k (x_of c tc)) - T))
      <= x_hdd_beta (x_of c tc) * x_hdd_k (x_of c tc) * (eps + exp lo).
Proof. exact (p_heating_asymptote lo hi Hlo Hhi). Qed.
Print Assumptions C11_asymptote_heating.

Theorem C11_asymptote_cooling : forall c tc, adm c tc -> offc c tc -> forall eps, 0 < eps ->
  exists M, forall T, M < T ->
    0 <= E c tc T - (intercept c + x_cdd_beta (x_of c tc) * (T - (x_cdd_bp (x_of c tc) + x_cdd_k (x_of c tc))))
      <= x_cdd_beta (x_of c tc) * x_cdd_k (x_of c tc) * (eps + exp lo).
Proof. exact (p_cooling_asymptote lo hi Hlo Hhi). Qed.
Print Assumptions C11_asymptote_cooling.

(* the floor that the package's clip of the exponent leaves *)
Theorem C11_clip_floor_tiny : exp lo <= / 2 ^ 331.
Proof. exact exp_ln_min_tiny. Qed.
Print Assumptions C11_clip_floor_tiny.

Theorem C11_loads_nonneg : forall c tc, adm c tc -> offc c tc -> forall T,
  0 <= Hload c tc T /\ 0 <= Cload c tc T.
Proof. exact (loads_nonneg lo hi Hlo Hhi). Qed.
Print Assumptions C11_loads_nonneg.

Theorem C11_loads_exclusive : forall c tc, adm c tc -> offc c tc -> forall T,
  Hload c tc T = 0 \/ Cload c tc T = 0.
Proof. exact (loads_exclusive lo hi Hlo Hhi). Qed.
Print Assumptions C11_loads_exclusive.

Theorem C11_loads_add_up : forall c tc, adm c tc -> offc c tc -> forall T,
  intercept c + Hload c tc T + Cload c tc T = E c tc T.
Proof. exact (loads_add_up lo hi Hlo Hhi). Qed.
Print Assumptions C11_loads_add_up.

Theorem C11_heating_load_only_below : forall c tc, adm c tc -> offc c tc -> forall T,
  x_hdd_bp (x_of c tc) <= T -> Hload c tc T = 0.
Proof. exact (heating_load_zero_above lo hi Hlo Hhi). Qed.
Print Assumptions C11_heating_load_only_below.

Theorem C11_cooling_load_only_above : forall c tc, adm c tc -> offc c tc -> forall T,
  T <= x_cdd_bp (x_of c tc) -> Cload c tc T = 0.
Proof. exact (cooling_load_zero_below lo hi Hlo Hhi). Qed.
Print Assumptions C11_cooling_load_only_above.

(* get_smooth_coeffs keeps the balance points ordered ... *)
Theorem C11_smooth_coeffs_order : forall hbp ph cbp pc : R, hbp <= cbp -> 0 <= ph -> 0 <= pc ->
  let '(hbp', hk, cbp', ck) := get_smooth_coeffs RNum hbp ph cbp pc in
  hbp <= hbp' /\ hbp' <= cbp' /\ cbp' <= cbp /\ 0 <= hk /\ 0 <= ck.
Proof. exact (smooth_coeffs_order lo hi). Qed.
Print Assumptions C11_smooth_coeffs_order.

(* ... so the swap that opens full_model never fires on an admissible document *)
Theorem C11_swap_never_fires : forall c tc, adm c tc -> order_bps RNum (x_of c tc) = x_of c tc.
Proof. exact (effective_ordered lo hi). Qed.
Print Assumptions C11_swap_never_fires.

(* a sufficient condition for the guard, on the stored document alone *)
Theorem C11_off_corner_if_upper_bp_below_T_max : forall c tc, adm c tc ->
  upper_bp lo hi c < T_max tc -> offc c tc.
Proof. exact (upper_below_Tmax_off_corner lo hi). Qed.
Print Assumptions C11_off_corner_if_upper_bp_below_T_max.

(* the full statement under the guard *)
Theorem C11_statement_partial : forall c tc, adm c tc -> offc c tc -> C11_holds c tc.
Proof.
  intros c tc A O. unfold C11_holds.
  repeat split.
  - exact (p_continuous lo hi Hlo Hhi c tc A O).
  - exact (p_flat lo hi Hlo Hhi c tc A O).
  - exact (p_heating_monotone lo hi Hlo Hhi c tc A O).
  - exact (p_cooling_monotone lo hi Hlo Hhi c tc A O).
  - intros K T; revert K. exact (p_heating_linear lo hi Hlo Hhi c tc A O T).
  - intros K T; revert K. exact (p_cooling_linear lo hi Hlo Hhi c tc A O T).
  - exact (p_heating_asymptote lo hi Hlo Hhi c tc A O).
  - exact (p_cooling_asymptote lo hi Hlo Hhi c tc A O).
  - apply (loads_nonneg lo hi Hlo Hhi c tc A O).
  - apply (loads_nonneg lo hi Hlo Hhi c tc A O).
  - exact (loads_exclusive lo hi Hlo Hhi c tc A O).
  - exact (loads_add_up lo hi Hlo Hhi c tc A O).
Qed.
Print Assumptions C11_statement_partial.

(* ------------------------------------------------------------------ the corner (finding C11-F1 / D16) *)

(* a heating-only document whose balance point sits on T_max (allowed by the optimiser's box whenever
   T_max_seg = T_max): hdd_tidd, base load 20, slope -1 per degree, balance point 70 = T_max *)
Definition corner_c : coeffs RNum :=
  Build_coeffs RNum HddTidd 20 (Some 70) (Some (-1)) None None None None.
Definition corner_tc : tconstr RNum := Build_tconstr RNum 10 70 10 70.

Example corner_admissible : adm corner_c corner_tc.
Proof. unfold admissible, bounds_ok; cbn. lra. Qed.

(* above T_max the heating line is extrapolated: at 95 F the prediction is 20 - 25 and the whole deficit is
   reported as a NEGATIVE cooling load *)
Theorem C11_corner_heating_line : forall (i bp beta Tmin Tminseg T : R),
  Tminseg <= bp -> beta < 0 -> bp < T ->
  predict_submodel RNum (Build_coeffs RNum HddTidd i (Some bp) (Some beta) None None None None)
                        (Build_tconstr RNum Tmin bp Tminseg bp) T
  = Some (i + - beta * (bp - T), 0, - beta * (bp - T)).
Proof. exact (corner_hdd_tidd lo hi). Qed.
Print Assumptions C11_corner_heating_line.

Lemma corner_value : predict_submodel RNum corner_c corner_tc 95 = Some (-5, 0, -25).
Proof.
  unfold corner_c, corner_tc. rewrite C11_corner_heating_line by lra.
  f_equal. apply f_equal2; [apply f_equal2|]; lra.
Qed.

Theorem C11_statement_refuted : ~ C11_statement.
Proof.
  intros S. destruct (S corner_c corner_tc corner_admissible) as (_ & _ & _ & _ & _ & _ & _ & _ & NN & _).
  destruct (NN 95) as [_ H]. unfold cooling_load in H.
  change (RNumOf lo hi) with RNum in H. rewrite corner_value in H. lra.
Qed.
Print Assumptions C11_statement_refuted.

(* the same document through the binary64 instance of the same text (what the implementation returns:
   predicted 15 - 20 ... see harness/c11.py, stream "corner") *)
Definition corner_cf : coeffs FNum :=
  Build_coeffs FNum HddTidd 20%float (Some 70%float) (Some (-1)%float) None None None None.
Definition corner_tcf : tconstr FNum := Build_tconstr FNum 10%float 70%float 10%float 70%float.
Example C11_corner_value_binary64 :
  predict_submodel FNum corner_cf corner_tcf 95%float = Some ((-5)%float, 0%float, (-25)%float).
Proof. vm_compute. reflexivity. Qed.

(* ------------------------------------------------------------------ the shifted balance points never cross (was finding C11-F2) *)

(* Over the reals get_smooth_coeffs keeps the order (C11_smooth_coeffs_order); when the two smoothing fractions add
   up to one or more the shifted balance points MEET.  Until /repo 742a3de4 they were computed independently in
   binary64 and could cross by one ulp, after which full_model swapped the two sides, slopes included (finding
   C11-F2, now fixed).  The model text contains the guard exactly as coded, and the order now holds for EVERY numeric
   instance whose comparisons are irreflexive / consistent -- no property of + - * / is used: *)
Theorem C11_smooth_coeffs_never_cross_any_num : forall N : num,
  (forall x : N, @n_ltb N x x = false) ->
  (forall a b : N, @n_leb N a b = true -> @n_ltb N b a = false) ->
  forall hb ph cb pc : N, @n_leb N hb cb = true ->
  let '(hb', _, cb', _) := get_smooth_coeffs N hb ph cb pc in @n_ltb N cb' hb' = false.
Proof. exact smooth_coeffs_never_cross. Qed.
Print Assumptions C11_smooth_coeffs_never_cross_any_num.

(* ... so the swap that opens full_model cannot fire on what get_smooth_coeffs returned for an ordered pair *)
Theorem C11_smooth_vector_not_swapped_any_num : forall N : num,
  (forall x : N, @n_ltb N x x = false) ->
  (forall a b : N, @n_leb N a b = true -> @n_ltb N b a = false) ->
  forall hb ph cb pc hbeta cbeta i : N, @n_leb N hb cb = true ->
  let '(hb', hk, cb', ck) := get_smooth_coeffs N hb ph cb pc in
  order_bps N (Build_fullx N hb' hbeta hk cb' cbeta ck i) = Build_fullx N hb' hbeta hk cb' cbeta ck i.
Proof. exact smooth_vector_not_swapped. Qed.
Print Assumptions C11_smooth_vector_not_swapped_any_num.

(* the real instance satisfies the two comparison facts (no hypothesis left) *)
Theorem C11_smooth_coeffs_never_cross_R : forall hb ph cb pc : R, hb <= cb ->
  let '(hb', _, cb', _) := get_smooth_coeffs RNum hb ph cb pc in ~ cb' < hb'.
Proof.
  intros hb ph cb pc H.
  pose proof (smooth_coeffs_never_cross RNum Rltb_irrefl Rleb_not_gt hb ph cb pc (proj2 (Rleb_true hb cb) H)) as P.
  destruct (get_smooth_coeffs RNum hb ph cb pc) as [[[hb' hk] cb'] ck].
  change (Rltb cb' hb' = false) in P. apply Rltb_false in P. lra.
Qed.
Print Assumptions C11_smooth_coeffs_never_cross_R.

(* the old witness of C11-F2 at binary64 (hdd_bp 12.106478702938013, pct_hdd_k 0.4126133326537498,
   cdd_bp 16.12505849339802, pct_cdd_k 0.6380378622932393): the shifted points no longer cross ... *)
Definition cross_hb : float := (0x1.836846065adb4p+3)%float.
Definition cross_ph : float := (0x1.a6841c0690d18p-2)%float.
Definition cross_cb : float := (0x1.02003d55b3b45p+4)%float.
Definition cross_pc : float := (0x1.46ace61051849p-1)%float.
Example C11_old_rounding_witness_ordered_binary64 :
  let '(hbp', _, cbp', _) := get_smooth_coeffs FNum cross_hb cross_ph cross_cb cross_pc in
  PrimFloat.ltb cbp' hbp' = false /\ PrimFloat.eqb cbp' hbp' = true.
Proof. vm_compute. split; reflexivity. Qed.

(* ... and the heating side follows the heating slope again: slope 1.75, base load 58, at -60 F the heating load is
   below 1.75 * (12.11 + 60) < 130 (it was more than 370 when the sides were swapped) *)
Definition cross_c : coeffs FNum :=
  Build_coeffs FNum HddTiddCddSmooth 58%float (Some cross_hb) (Some 1.75%float) (Some cross_ph)
                                              (Some cross_cb) (Some 5.25%float) (Some cross_pc).
Definition cross_tc : tconstr FNum := Build_tconstr FNum 10%float 84%float 12%float 83%float.
Example C11_old_rounding_witness_slopes_kept :
  match predict_submodel FNum cross_c cross_tc (-60)%float with
  | Some (_, h, _) => PrimFloat.ltb h 130%float = true /\ PrimFloat.ltb 100%float h = true
  | None => False
  end.
Proof. vm_compute. split; reflexivity. Qed.

(* ------------------------------------------------------------------ the stored document is an unordered mapping *)

(* temperature_constraints is a JSON object read by key: any permutation of its (duplicate-free) entries gives the same
   constraints and therefore the same three prediction columns -- for every numeric instance (reals and binary64) *)
Theorem C11_lookup_permutation_invariant : forall (A : Type) (l l' : list (String.string * A)),
  Permutation.Permutation l l' -> NoDup (map fst l) -> forall k, lookup A k l = lookup A k l'.
Proof. exact lookup_permutation. Qed.
Print Assumptions C11_lookup_permutation_invariant.

Theorem C11_prediction_independent_of_key_order : forall (N : num) (c : coeffs N) (l l' : list (String.string * N)) (Ti : N),
  Permutation.Permutation l l' -> NoDup (map fst l) ->
  predict_submodel_doc N c l Ti = predict_submodel_doc N c l' Ti.
Proof. exact predict_key_order_irrelevant. Qed.
Print Assumptions C11_prediction_independent_of_key_order.

(* the sorted key order of json.dumps(sort_keys=True), binary64 *)
Example C11_sorted_keys_same_constraints :
  tconstr_of_assoc FNum [("T_max", 70); ("T_max_seg", 68); ("T_min", 10); ("T_min_seg", 12)]%string%float =
  tconstr_of_assoc FNum [("T_min", 10); ("T_max", 70); ("T_min_seg", 12); ("T_max_seg", 68)]%string%float.
Proof. vm_compute. reflexivity. Qed.

(* ------------------------------------------------------------------ non-vacuity *)

(* a smoothed two-sided document strictly inside the fitted range satisfies both hypotheses *)
Definition ex_c : coeffs RNum :=
  Build_coeffs RNum HddTiddCddSmooth 20 (Some 50) (Some 2) (Some (1/4)) (Some 70) (Some 1) (Some (1/2)).
Definition ex_tc : tconstr RNum := Build_tconstr RNum 0 100 10 90.
Example ex_admissible : adm ex_c ex_tc.
Proof. unfold admissible, bounds_ok; cbn. lra. Qed.
Example ex_off_corner : offc ex_c ex_tc.
Proof. apply C11_off_corner_if_upper_bp_below_T_max; [exact ex_admissible | cbn; lra]. Qed.
Example ex_holds : C11_holds ex_c ex_tc.
Proof. exact (C11_statement_partial ex_c ex_tc ex_admissible ex_off_corner). Qed.

(* every shape has admissible off-corner documents *)
Example ex_all_shapes : forall s, exists c tc, model_type c = s /\ adm c tc /\ offc c tc.
Proof.
  intros s.
  exists (Build_coeffs RNum s 20 (Some 50) (Some (match s with HddTiddSmooth | HddTidd => -2 | _ => 2 end))
            (Some (1/4)) (Some 70) (Some 1) (Some (1/2))), ex_tc.
  assert (A : adm (Build_coeffs RNum s 20 (Some 50) (Some (match s with HddTiddSmooth | HddTidd => -2 | _ => 2 end))
            (Some (1/4)) (Some 70) (Some 1) (Some (1/2))) ex_tc)
    by (destruct s; unfold admissible, bounds_ok; cbn; lra).
  split; [reflexivity|]. split; [exact A|].
  apply C11_off_corner_if_upper_bp_below_T_max; [exact A | destruct s; cbn; lra].
Qed.

(* the corner document is admissible but not off-corner: the guard is what excludes it *)
Example corner_not_off_corner : ~ offc corner_c corner_tc.
Proof.
  intros O. pose proof (C11_loads_nonneg corner_c corner_tc corner_admissible O 95) as [_ H].
  unfold cooling_load in H. change (RNumOf lo hi) with RNum in H. rewrite corner_value in H. lra.
Qed.
