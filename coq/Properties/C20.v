(* C20 — baseline and reporting windows never leak across the intervention.
   Statements only; proofs are in Proofs/WindowsProofs.v; the model is Model/Windows.v. *)
From Coq Require Import ZArith List Bool.
From V Require Import Model.Windows Proofs.WindowsProofs.
From V Require Import Model.WindowsSrc Proofs.WindowsSrcProofs Generated.WindowsGen.
Import ListNotations.
Open Scope Z_scope.

(* only rows at or before the requested end *)
Theorem C20_baseline_no_leak : forall o data rows we ws e,
  get_baseline_data o data = Ok rows we ws -> b_end o = Some e ->
  forall r, In r rows -> ts r <= e.
Proof. exact baseline_no_leak_l. Qed.
Print Assumptions C20_baseline_no_leak.

(* ... and no earlier than max_days before the (effective) end; the effective end is the requested
   end unless ignore_billing_period_gap_for_day_count moves it onto the last reading before it *)
Theorem C20_baseline_not_too_early : forall o data rows we ws e m,
  get_baseline_data o data = Ok rows we ws ->
  b_end o = Some e -> b_max_days o = Some m -> b_overshoot o = false ->
  exists eff, baseline_end_limit o (baseline_before o data) = Some eff /\
    (b_ignore_gap o = false -> eff = e) /\
    forall r, In r rows -> eff - m * DAY <= ts r.
Proof. exact baseline_not_too_early_l. Qed.
Print Assumptions C20_baseline_not_too_early.

Theorem C20_baseline_effective_end : forall o data e eff, sorted data ->
  b_end o = Some e -> baseline_before o data <> [] ->
  baseline_end_limit o (baseline_before o data) = Some eff ->
  (eff = e \/ (b_ignore_gap o = true /\ In eff (map ts data) /\ eff <= e /\
               forall r, In r data -> ts r <= e -> ts r <= eff)).
Proof. exact baseline_end_limit_cases. Qed.
Print Assumptions C20_baseline_effective_end.

(* with overshoot allowed the window starts at the reading nearest to the max_days boundary *)
Theorem C20_baseline_overshoot_nearest : forall o data rows we ws e m, sorted data ->
  get_baseline_data o data = Ok rows we ws ->
  b_end o = Some e -> b_max_days o = Some m -> b_overshoot o = true ->
  exists eff n, baseline_end_limit o (baseline_before o data) = Some eff /\
    In n (map ts data) /\ n <= e /\
    (forall r, In r data -> ts r <= e -> Z.abs (n - (eff - m * DAY)) <= Z.abs (ts r - (eff - m * DAY))) /\
    forall r, In r rows -> n <= ts r.
Proof. exact baseline_overshoot_l. Qed.
Print Assumptions C20_baseline_overshoot_nearest.

Theorem C20_reporting_no_leak : forall o data rows we ws s,
  get_reporting_data o data = Ok rows we ws -> r_start o = Some s ->
  forall r, In r rows -> s <= ts r.
Proof. exact reporting_no_leak_l. Qed.
Print Assumptions C20_reporting_no_leak.

Theorem C20_reporting_not_too_late : forall o data rows we ws s m,
  get_reporting_data o data = Ok rows we ws ->
  r_start o = Some s -> r_max_days o = Some m -> r_overshoot o = false ->
  exists eff, reporting_start_limit o (reporting_after o data) = Some eff /\
    (r_ignore_gap o = false -> eff = s) /\
    forall r, In r rows -> ts r <= eff + m * DAY.
Proof. exact reporting_not_too_late_l. Qed.
Print Assumptions C20_reporting_not_too_late.

Theorem C20_reporting_effective_start : forall o data s eff, sorted data ->
  r_start o = Some s -> reporting_after o data <> [] ->
  reporting_start_limit o (reporting_after o data) = Some eff ->
  (eff = s \/ (r_ignore_gap o = true /\ In eff (map ts data) /\ s <= eff /\
               forall r, In r data -> s <= ts r -> eff <= ts r)).
Proof. exact reporting_start_limit_cases. Qed.
Print Assumptions C20_reporting_effective_start.

Theorem C20_reporting_overshoot_nearest : forall o data rows we ws s m, sorted data ->
  get_reporting_data o data = Ok rows we ws ->
  r_start o = Some s -> r_max_days o = Some m -> r_overshoot o = true ->
  exists eff n, reporting_start_limit o (reporting_after o data) = Some eff /\
    In n (map ts data) /\ s <= n /\
    (forall r, In r data -> s <= ts r -> Z.abs (n - (eff + m * DAY)) <= Z.abs (ts r - (eff + m * DAY))) /\
    forall r, In r rows -> ts r <= n.
Proof. exact reporting_overshoot_l. Qed.
Print Assumptions C20_reporting_overshoot_nearest.

(* a contiguous slice of the input, values unchanged apart from the final row being blanked *)
Theorem C20_baseline_contiguous_unchanged : forall o data rows we ws, sorted data ->
  get_baseline_data o data = Ok rows we ws ->
  exists pre body l post, data = pre ++ (body ++ [l]) ++ post /\ rows = body ++ [blank l].
Proof. exact baseline_contiguous_l. Qed.
Print Assumptions C20_baseline_contiguous_unchanged.

Theorem C20_reporting_contiguous_unchanged : forall o data rows we ws, sorted data ->
  get_reporting_data o data = Ok rows we ws ->
  exists pre body l post, data = pre ++ (body ++ [l]) ++ post /\ rows = body ++ [blank l].
Proof. exact reporting_contiguous_l. Qed.
Print Assumptions C20_reporting_contiguous_unchanged.

(* "A gap between the requested limits and the data is always reported as a warning."
   Full statement (kept visible): a warning exactly when there is a gap. *)
Definition C20_baseline_gap_statement : Prop := forall o data rows we ws, sorted data ->
  get_baseline_data o data = Ok rows we ws ->
  (we = true <-> gap_end (b_end o) data) /\ (ws = true <-> gap_start (b_start o) data).
Definition C20_reporting_gap_statement : Prop := forall o data rows we ws, sorted data ->
  get_reporting_data o data = Ok rows we ws ->
  (we = true <-> gap_end (r_end o) data) /\ (ws = true <-> gap_start (r_start o) data).

(* never a spurious warning, whatever the options *)
Theorem C20_baseline_gap_sound : forall o data rows we ws, sorted data ->
  get_baseline_data o data = Ok rows we ws ->
  (we = true -> gap_end (b_end o) data) /\ (ws = true -> gap_start (b_start o) data).
Proof. exact baseline_gap_sound_l. Qed.
Print Assumptions C20_baseline_gap_sound.

Theorem C20_reporting_gap_sound : forall o data rows we ws, sorted data ->
  get_reporting_data o data = Ok rows we ws ->
  (we = true -> gap_end (r_end o) data) /\ (ws = true -> gap_start (r_start o) data).
Proof. exact reporting_gap_sound_l. Qed.
Print Assumptions C20_reporting_gap_sound.

(* the full equivalence holds under the exact guard that the option which moves that limit onto the
   data is off; this is all the faithful model of the code satisfies (see the refutations below) *)
Theorem C20_baseline_gap_warned_partial : forall o data rows we ws, sorted data ->
  get_baseline_data o data = Ok rows we ws ->
  (b_ignore_gap o = false -> (we = true <-> gap_end (b_end o) data)) /\
  (b_overshoot o = false -> (ws = true <-> gap_start (b_start o) data)).
Proof. exact baseline_gap_warned_partial_l. Qed.
Print Assumptions C20_baseline_gap_warned_partial.

Theorem C20_reporting_gap_warned_partial : forall o data rows we ws, sorted data ->
  get_reporting_data o data = Ok rows we ws ->
  (r_overshoot o = false -> (we = true <-> gap_end (r_end o) data)) /\
  (r_ignore_gap o = false -> (ws = true <-> gap_start (r_start o) data)).
Proof. exact reporting_gap_warned_partial_l. Qed.
Print Assumptions C20_reporting_gap_warned_partial.

(* refutations of the full statement on the faithful model (each witness is replayed on the
   implementation by harness/c20.py and recorded as a known finding C20-K1..K4) *)
Definition two_rows : list row := [(0, [Some 1]); (DAY, [Some 2])].
Lemma two_rows_sorted : sorted two_rows.
Proof. repeat constructor. Qed.

Theorem C20_baseline_end_gap_refuted : exists o data rows ws,
  sorted data /\ get_baseline_data o data = Ok rows false ws /\ gap_end (b_end o) data.
Proof.
  exists {| b_start := None; b_end := Some (5 * DAY); b_max_days := Some 30; b_overshoot := false;
            b_n_over := None; b_ignore_gap := true |}, two_rows, [(0, [Some 1]); (DAY, [None])], false.
  split; [exact two_rows_sorted|]. split; [vm_compute; reflexivity|].
  exists (5 * DAY). split; [reflexivity|]. intros r [<-|[<-|[]]]; vm_compute; reflexivity.
Qed.
Print Assumptions C20_baseline_end_gap_refuted.

Theorem C20_baseline_start_gap_refuted : exists o data rows we,
  sorted data /\ get_baseline_data o data = Ok rows we false /\ gap_start (b_start o) data.
Proof.
  exists {| b_start := Some (- DAY); b_end := None; b_max_days := None; b_overshoot := true;
            b_n_over := None; b_ignore_gap := false |}, two_rows, [(0, [Some 1]); (DAY, [None])], false.
  split; [exact two_rows_sorted|]. split; [vm_compute; reflexivity|].
  exists (- DAY). split; [reflexivity|]. intros r [<-|[<-|[]]]; vm_compute; reflexivity.
Qed.
Print Assumptions C20_baseline_start_gap_refuted.

Theorem C20_reporting_end_gap_refuted : exists o data rows ws,
  sorted data /\ get_reporting_data o data = Ok rows false ws /\ gap_end (r_end o) data.
Proof.
  exists {| r_start := None; r_end := Some (5 * DAY); r_max_days := None; r_overshoot := true;
            r_ignore_gap := false |}, two_rows, [(0, [Some 1]); (DAY, [None])], false.
  split; [exact two_rows_sorted|]. split; [vm_compute; reflexivity|].
  exists (5 * DAY). split; [reflexivity|]. intros r [<-|[<-|[]]]; vm_compute; reflexivity.
Qed.
Print Assumptions C20_reporting_end_gap_refuted.

Theorem C20_reporting_start_gap_refuted : exists o data rows we,
  sorted data /\ get_reporting_data o data = Ok rows we false /\ gap_start (r_start o) data.
Proof.
  exists {| r_start := Some (- DAY); r_end := None; r_max_days := Some 30; r_overshoot := false;
            r_ignore_gap := true |}, two_rows, [(0, [Some 1]); (DAY, [None])], false.
  split; [exact two_rows_sorted|]. split; [vm_compute; reflexivity|].
  exists (- DAY). split; [reflexivity|]. intros r [<-|[<-|[]]]; vm_compute; reflexivity.
Qed.
Print Assumptions C20_reporting_start_gap_refuted.

(* non-vacuity of the guarded equivalences: a gap that *is* reported *)
Example C20_gap_reported_example :
  get_baseline_data {| b_start := None; b_end := Some (5 * DAY); b_max_days := Some 30; b_overshoot := false;
                       b_n_over := None; b_ignore_gap := false |} two_rows
  = Ok [(0, [Some 1]); (DAY, [None])] true false.
Proof. vm_compute. reflexivity. Qed.

(* total outcome: the dedicated error exactly when the selection has no complete row *)
Theorem C20_baseline_outcome : forall o data,
  match get_baseline_data o data with
  | ErrValue => b_args_ok o = false
  | ErrNoData => b_args_ok o = true /\ forall r, In r (baseline_selection o data) -> complete r = false
  | Ok _ _ _ => b_args_ok o = true /\ exists r, In r (baseline_selection o data) /\ complete r = true
  end.
Proof. exact baseline_outcome_l. Qed.
Print Assumptions C20_baseline_outcome.

Theorem C20_reporting_outcome : forall o data,
  match get_reporting_data o data with
  | ErrValue => r_args_ok o = false
  | ErrNoData => r_args_ok o = true /\ forall r, In r (reporting_selection o data) -> complete r = false
  | Ok _ _ _ => r_args_ok o = true /\ exists r, In r (reporting_selection o data) /\ complete r = true
  end.
Proof. exact reporting_outcome_l. Qed.
Print Assumptions C20_reporting_outcome.

(* non-vacuity: a concrete sorted series on which every hypothesis above is met *)
Definition ex_data : list row :=
  map (fun k => (k * DAY, [Some k])) [0; 1; 2; 3; 4; 5; 6; 7; 8; 9].
Definition ex_bopts := {| b_start := None; b_end := Some (5 * DAY + DAY / 2); b_max_days := Some 2;
                          b_overshoot := true; b_n_over := None; b_ignore_gap := false |}.
Example C20_nonvacuous_baseline :
  sorted ex_data /\
  get_baseline_data ex_bopts ex_data = Ok [(4 * DAY, [Some 4]); (5 * DAY, [None])] false false.
Proof.
  split; [|vm_compute; reflexivity].
  unfold ex_data. cbn [map]. unfold sorted.
  repeat (constructor; [|repeat (constructor; [unfold ts, DAY; cbn [fst]; reflexivity|]); constructor]).
  constructor.
Qed.
Definition ex_ropts := {| r_start := Some (2 * DAY - 1); r_end := None; r_max_days := Some 3;
                          r_overshoot := false; r_ignore_gap := true |}.
Example C20_nonvacuous_reporting :
  get_reporting_data ex_ropts ex_data =
  Ok [(2 * DAY, [Some 2]); (3 * DAY, [Some 3]); (4 * DAY, [Some 4]); (5 * DAY, [None])] false false.
Proof. vm_compute. reflexivity. Qed.

(* ---- what the facts of the source mean on the model (for all inputs) *)
Theorem C20_max_days_counts_elapsed_days : forall o before e m,
  b_end o = Some e -> b_ignore_gap o = false -> b_max_days o = Some m ->
  baseline_start_target o before = Some (e - m * DAY).
Proof. exact modelled_max_days_l. Qed.
Print Assumptions C20_max_days_counts_elapsed_days.

Theorem C20_max_days_counts_elapsed_days_reporting : forall o after s m,
  r_start o = Some s -> r_ignore_gap o = false -> r_max_days o = Some m ->
  reporting_end_target o after = Some (s + m * DAY).
Proof. exact modelled_max_days_reporting_l. Qed.
Print Assumptions C20_max_days_counts_elapsed_days_reporting.

Theorem C20_max_days_zero_is_a_limit : forall o before e,
  b_end o = Some e -> b_ignore_gap o = false -> b_max_days o = Some 0 ->
  baseline_start_target o before = Some e.
Proof. exact modelled_max_days_zero_l. Qed.
Print Assumptions C20_max_days_zero_is_a_limit.

Theorem C20_slices_keep_both_bounds : forall e d r,
  (In r (slice_to e d) <-> In r d /\ cmpz CLe (ts r) e = true) /\
  (In r (slice_from e d) <-> In r d /\ cmpz CLe e (ts r) = true).
Proof. exact modelled_slices_l. Qed.
Print Assumptions C20_slices_keep_both_bounds.

Theorem C20_overshoot_tolerance_test : forall o before e n,
  b_end o = Some e -> b_ignore_gap o = true -> b_n_over o = Some n ->
  baseline_end_limit o before =
    if cmpz (w_overshoot_tolerance_cmp modelled_wsrc) (e - n * DAY) (last_ts before e)
    then Some (last_ts before e) else Some e.
Proof. exact modelled_overshoot_tolerance_l. Qed.
Print Assumptions C20_overshoot_tolerance_test.

Example C20_modelled_facts_nonvacuous :
  day_ns (w_day_unit modelled_wsrc) = Some DAY /\ lookup_fn (w_boundary_lookup modelled_wsrc) = nearest /\
  day_ns WallClockDays = None.
Proof. repeat split. Qed.

(* ---- tie to the source, regenerated on every run (kept last: an edit of the day arithmetic, of a slice, of a
   comparison operator, of a max_days guard, of the boundary lookup, of the blanking or of the empty-selection errors
   changes Generated/WindowsGen.v - or makes the translator fail closed - and breaks exactly this obligation) *)
Theorem C20_source_facts_are_the_modelled_ones : gen_wsrc = modelled_wsrc.
Proof. vm_compute. reflexivity. Qed.
Print Assumptions C20_source_facts_are_the_modelled_ones.
