(* C16 — reported fit statistics are the true statistics of the model predictions.
   Statements only; proofs are in Proofs/MetricsProofs.v; the model is Model/Metrics.v
   (exact rationals; every square root is kept as its square: [Root neg s] = (-1)^neg sqrt s). *)
From Coq Require Import ZArith QArith Qabs Qreals Reals List Bool.
From V Require Import Model.Metrics Proofs.MetricsProofs Proofs.MetricsRealProofs.
Import ListNotations.
Open Scope Q_scope.

(* a small series used for the non-vacuity examples: observed 1 2 3 4 6, predicted 3/2 3/2 7/2 4 5 *)
Definition ex_d : list (Q * Q) := [(1, 3 # 2); (2, 3 # 2); (3, 7 # 2); (4, 4); (6, 5)].
Definition ex_mn : Q := 1 # 1000.

(* ------------------------------------------------------------------ only finite pairs count *)

Theorem C16_finite_pairs : forall rows o p, In (o, p) (finite_pairs rows) <-> In (Some o, Some p) rows.
Proof. exact finite_pairs_in. Qed.
Print Assumptions C16_finite_pairs.

Theorem C16_nonfinite_rows_ignored : forall pl a r b p mn, nonfinite r ->
  baseline_of_rows_p pl (a ++ r :: b) p mn = baseline_of_rows_p pl (a ++ b) p mn.
Proof. exact baseline_ignores_nonfinite. Qed.
Print Assumptions C16_nonfinite_rows_ignored.

Example C16_nonfinite_example :
  baseline_of_rows [(Some 1, Some 2); (None, Some 5); (Some 3, Some 3)] 1 ex_mn =
  baseline_of_rows [(Some 1, Some 2); (Some 3, Some 3)] 1 ex_mn /\
  baseline_of_rows [(Some 1, Some 2); (Some 3, Some 3)] 1 ex_mn <> None.
Proof. split; [reflexivity|discriminate]. Qed.

(* ------------------------------------------------------------------ identities, for every series
   (and for both division policies: the repository as it stands, [AsCoded], and the proposed repair) *)

Theorem C16_n_mse_sse : forall pl d p mn, d <> [] ->
  let m := baseline_p pl d p mn in
  b_n m = Z.of_nat (length d) /\ inject_Z (b_n m) * b_mse m == b_sse m /\ b_rmse m = Root false (b_mse m).
Proof. exact n_mse_sse_l. Qed.
Print Assumptions C16_n_mse_sse.

Theorem C16_ddof_rmse_adj : forall pl d p mn, d <> [] ->
  let m := baseline_p pl d p mn in
  b_ddof m = Z.max 1 (b_n m - p) /\ (1 <= b_ddof m)%Z /\
  inject_Z (b_ddof m) * b_rmse_adj_sq m == b_sse m /\ b_rmse_adj m = Root false (b_rmse_adj_sq m).
Proof. exact ddof_rmse_adj_l. Qed.
Print Assumptions C16_ddof_rmse_adj.

Theorem C16_ddof_autocorr_ge_1 : forall np p, 1 <= ddof_autocorr_of np p.
Proof. exact ddof_autocorr_ge_1. Qed.
Print Assumptions C16_ddof_autocorr_ge_1.

Theorem C16_sse_mse_nonneg : forall pl d p mn, d <> [] ->
  0 <= b_sse (baseline_p pl d p mn) /\ 0 <= b_mse (baseline_p pl d p mn) /\ 0 <= b_mae (baseline_p pl d p mn).
Proof. exact nonneg_l. Qed.
Print Assumptions C16_sse_mse_nonneg.

(* |bias| <= MAE <= RMSE (the second one squared) *)
Theorem C16_bias_mae_rmse : forall pl d p mn, d <> [] ->
  let m := baseline_p pl d p mn in Qabs (b_mbe m) <= b_mae m /\ b_mae m * b_mae m <= b_mse m.
Proof. exact bias_mae_rmse_l. Qed.
Print Assumptions C16_bias_mae_rmse.

(* var = mean(x^2) - mean^2, and it is not negative *)
Theorem C16_variance_identity : forall l, l <> [] ->
  c_var (column l) == c_sum_sq (column l) / qlen l - c_mean (column l) * c_mean (column l) /\
  0 <= c_var (column l) /\ c_std (column l) = Root false (c_var (column l)).
Proof. exact variance_identity_l. Qed.
Print Assumptions C16_variance_identity.

(* 0 <= R^2 <= 1 and 0 <= rho^2 <= 1 (Cauchy-Schwarz) *)
Theorem C16_r_squared_bounds : forall pl d p mn r, b_r2 (baseline_p pl d p mn) = Some r -> 0 <= r /\ r <= 1.
Proof. exact r2_bounds. Qed.
Print Assumptions C16_r_squared_bounds.

Theorem C16_autocorr_bounds : forall pl d p mn neg r2, b_rho (baseline_p pl d p mn) = Some (neg, r2) -> 0 <= r2 /\ r2 <= 1.
Proof. exact rho_bounds. Qed.
Print Assumptions C16_autocorr_bounds.

Theorem C16_cauchy_schwarz : forall l : list (Q * Q), sB l * sB l <= sA l * sC l.
Proof. exact cauchy_schwarz. Qed.
Print Assumptions C16_cauchy_schwarz.

(* an accepted n' solves n' (1 + rho) = n (1 - rho) for the residuals' lag-1 autocorrelation *)
Theorem C16_n_prime : forall n neg r2 np,
  nprime_fallback (Some (neg, r2)) = false -> nprime_exact n (Some (neg, r2)) np = true ->
  let r := rho_of_nprime n np in
  r * r == r2 /\ (if neg then r <= 0 else 0 <= r) /\ np * (1 + r) == inject_Z n * (1 - r).
Proof. exact nprime_exact_sound. Qed.
Print Assumptions C16_n_prime.

Theorem C16_n_prime_fallback : forall n rho np,
  nprime_fallback rho = true -> nprime_exact n rho np = true -> np == 1.
Proof. exact nprime_fallback_value. Qed.
Print Assumptions C16_n_prime_fallback.

Example C16_identities_example :
  let m := baseline ex_d 2 ex_mn in
  ex_d <> [] /\ b_n m = 5%Z /\ b_ddof m = 3%Z /\ b_sse m == 7 # 4 /\ b_mse m == 7 # 20 /\
  b_rmse_adj_sq m == 7 # 12 /\ b_mae m == 1 # 2 /\ b_mbe m == 1 # 10 /\
  b_r2 m = Some (3249 # 3589) /\ b_rho m = Some (true, 9 # 55).
Proof. vm_compute. repeat split; try reflexivity; discriminate. Qed.

(* residuals 0 1 0 0: rho = -1/2, n' = 4 (1 + 1/2) / (1 - 1/2) = 12 *)
Example C16_n_prime_example :
  let m := baseline [(1, 1); (2, 1); (3, 3); (4, 4)] 1 ex_mn in
  b_rho m = Some (true, 1 # 4) /\ nprime_fallback (b_rho m) = false /\ nprime_exact (b_n m) (b_rho m) 12 = true /\
  nprime_exact (b_n m) (b_rho m) 11 = false /\
  nprime_fallback (b_rho (baseline [(1, 0); (2, 3); (3, 2)] 1 ex_mn)) = true.
Proof. vm_compute. repeat split; try reflexivity; discriminate. Qed.

(* ------------------------------------------------------------------ ratios *)

(* CVRMSE * mean = RMSE whenever CVRMSE is reported as a root (the same for the adjusted form and for
   PNRMSE over the interquartile range) *)
Theorem C16_cvrmse_times_mean : forall pl d p mn neg s,
  let m := baseline_p pl d p mn in
  b_cvrmse m = Root neg s ->
  s * (c_mean (b_obs m) * c_mean (b_obs m)) == b_mse m /\ neg = Qltb (c_mean (b_obs m)) 0 /\ ~ c_mean (b_obs m) == 0.
Proof. exact cvrmse_times_mean_l. Qed.
Print Assumptions C16_cvrmse_times_mean.

Theorem C16_ratio_root_defined : forall msq den mn neg s,
  safe_divide_root msq den mn = Root neg s ->
  ~ den == 0 /\ s * (den * den) == msq /\ neg = Qltb den 0 /\ (mn < den \/ root_gtb msq (10 * mn) = false).
Proof. exact safe_divide_root_defined. Qed.
Print Assumptions C16_ratio_root_defined.

Example C16_cvrmse_example :
  b_cvrmse (baseline ex_d 2 ex_mn) = Root false (35 # 1024) /\
  b_pnrmse_adj (baseline ex_d 2 ex_mn) = Root false (7 # 48).
Proof. vm_compute. split; reflexivity. Qed.

(* _safe_divide: the exact region where None is returned ... *)
Theorem C16_safe_divide_region : forall num den mn,
  safe_divide num den mn = RNone <-> (den <= mn /\ 10 * mn < num).
Proof. exact safe_divide_none_iff. Qed.
Print Assumptions C16_safe_divide_region.

Theorem C16_safe_divide_number : forall num den mn q,
  safe_divide num den mn = RNum q -> ~ den == 0 /\ q == num / den /\ (mn < den \/ num <= 10 * mn).
Proof. exact safe_divide_num. Qed.
Print Assumptions C16_safe_divide_number.

(* ... against the statement: "a ratio whose denominator is not safely positive is reported as undefined
   rather than as a number".  Full statement (kept visible): *)
Definition C16_safe_divide_statement : Prop := forall num den mn, 0 <= mn ->
  safe_divide num den mn = safe_divide_spec num den mn.

(* it holds exactly where the denominator is safely positive or the numerator exceeds 10 * min_denominator *)
Theorem C16_safe_divide_partial : forall num den mn, 0 <= mn ->
  (safe_divide num den mn = safe_divide_spec num den mn <-> (mn < den \/ 10 * mn < num)).
Proof. exact safe_divide_spec_iff. Qed.
Print Assumptions C16_safe_divide_partial.

Example C16_safe_divide_partial_example :
  safe_divide (1 # 2) (1 # 2000) ex_mn = RNone /\ safe_divide (-5) 2 ex_mn = RNum (-5 # 2) /\
  safe_divide_spec (-5) 2 ex_mn = RNum (-5 # 2).
Proof. vm_compute. repeat split; try reflexivity; discriminate. Qed.

(* refutations on the faithful model (each witness is replayed on _safe_divide by harness/c16.py and is
   recorded as known finding C16-K1..K3) *)
Theorem C16_safe_divide_refuted : ~ C16_safe_divide_statement.
Proof. exact safe_divide_statement_refuted_l. Qed.
Print Assumptions C16_safe_divide_refuted.

Theorem C16_safe_divide_tiny_denominator_refuted : exists num den mn,
  0 < den /\ den <= mn /\ safe_divide num den mn = RNum (-10000).
Proof. exists (-5), (1 # 2000), ex_mn. vm_compute. repeat split; try reflexivity; discriminate. Qed.
Print Assumptions C16_safe_divide_tiny_denominator_refuted.

Theorem C16_safe_divide_negative_denominator_refuted : exists num den mn,
  0 < mn /\ den < 0 /\ safe_divide num den mn = RNum 5 /\
  safe_divide (1 # 200) den mn = RNum (-1 # 200).
Proof. exists (-5), (-1), ex_mn. vm_compute. repeat split; try reflexivity; discriminate. Qed.
Print Assumptions C16_safe_divide_negative_denominator_refuted.

Theorem C16_safe_divide_zero_denominator_refuted : exists num mn,
  0 < mn /\ 0 < num /\ safe_divide num 0 mn = RDivZero 1 /\ safe_divide 0 0 mn = RDivZero 0.
Proof. exists (1 # 200), ex_mn. vm_compute. repeat split; try reflexivity; discriminate. Qed.
Print Assumptions C16_safe_divide_zero_denominator_refuted.

(* the same for the reported CVRMSE: full statement, guard, refutation (a perfect fit of a net-metered
   site: observed = predicted = -1, -3) *)
Definition C16_cvrmse_undefined_statement : Prop := forall d p mn, d <> [] -> 0 <= mn ->
  c_mean (b_obs (baseline d p mn)) <= mn -> b_cvrmse (baseline d p mn) = Undef.

Theorem C16_cvrmse_undefined_partial : forall d p mn, d <> [] -> 0 <= mn ->
  let m := baseline d p mn in
  c_mean (b_obs m) <= mn -> (b_cvrmse m = Undef <-> 10 * mn * (10 * mn) < b_mse m).
Proof. exact cvrmse_undefined_partial_l. Qed.
Print Assumptions C16_cvrmse_undefined_partial.

Theorem C16_cvrmse_undefined_refuted : ~ C16_cvrmse_undefined_statement.
Proof. exact cvrmse_undefined_refuted_l. Qed.
Print Assumptions C16_cvrmse_undefined_refuted.

Example C16_cvrmse_undefined_example :
  b_cvrmse (baseline [(-1, 1); (-3, -1)] 1 ex_mn) = Undef /\
  b_cvrmse (baseline [(-1, -1); (-3, -3)] 1 ex_mn) = Root true 0.
Proof. vm_compute. split; reflexivity. Qed.

(* ------------------------------------------------------------------ hourly model *)

(* the stored baseline metrics are those of the measured (non-interpolated) hours *)
Theorem C16_hourly_metrics_on_measured_rows : forall pl rows rows' p mn,
  measured_rows rows = measured_rows rows' ->
  hourly_baseline_metrics_p pl rows p mn = hourly_baseline_metrics_p pl rows' p mn.
Proof. exact hourly_measured_only. Qed.
Print Assumptions C16_hourly_metrics_on_measured_rows.

Theorem C16_hourly_interpolated_ignored : forall pl a o q b p mn,
  hourly_baseline_metrics_p pl (a ++ (o, q, true) :: b) p mn = hourly_baseline_metrics_p pl (a ++ b) p mn.
Proof. exact hourly_ignores_interpolated. Qed.
Print Assumptions C16_hourly_interpolated_ignored.

Theorem C16_hourly_measured_rows : forall rows o q, In (o, q) (measured_rows rows) <-> In (o, q, false) rows.
Proof. exact measured_rows_in. Qed.
Print Assumptions C16_hourly_measured_rows.

Example C16_hourly_measured_example :
  hourly_baseline_metrics [(Some 1, Some 2, false); (Some 9, Some 100, true); (Some 3, Some 3, false)] 1 ex_mn =
  baseline_of_rows [(Some 1, Some 2); (Some 3, Some 3)] 1 ex_mn.
Proof. reflexivity. Qed.

(* disqualified for poor fit exactly when it misses both thresholds *)
Theorem C16_hourly_dq_iff : forall m tcv tpn,
  hourly_disqualified m tcv tpn = true <->
  (~ (b_cvrmse_adj m <> Undef /\ val_ltb (b_cvrmse_adj m) tcv = true) /\
   ~ (b_pnrmse_adj m <> Undef /\ val_ltb (b_pnrmse_adj m) tpn = true)).
Proof. exact hourly_dq_iff. Qed.
Print Assumptions C16_hourly_dq_iff.

(* what "below the threshold" means for a root kept as its square *)
Theorem C16_root_below_threshold : forall neg s t, 0 < t ->
  (val_ltb (Root neg s) t = true <-> (neg = true \/ s < t * t)).
Proof. exact val_ltb_root_pos. Qed.
Print Assumptions C16_root_below_threshold.

(* against the statement's reading (a ratio over a denominator that is not safely positive is undefined and
   so misses its threshold): full statement, guard, refutation *)
Definition C16_hourly_gate_statement : Prop := forall d p mn tcv tpn, d <> [] -> 0 <= mn ->
  hourly_disqualified (baseline d p mn) tcv tpn = hourly_disqualified_spec (baseline d p mn) mn tcv tpn.

Theorem C16_hourly_gate_partial : forall d p mn tcv tpn, 0 <= mn ->
  let m := baseline d p mn in
  (mn < c_mean (b_obs m) \/ b_cvrmse_adj m = Undef) ->
  (mn < c_iqr (b_obs m) \/ b_pnrmse_adj m = Undef) ->
  hourly_disqualified m tcv tpn = hourly_disqualified_spec m mn tcv tpn.
Proof. exact hourly_gate_partial. Qed.
Print Assumptions C16_hourly_gate_partial.

Example C16_hourly_gate_example :
  let m := baseline ex_d 2 ex_mn in
  ex_mn < c_mean (b_obs m) /\ ex_mn < c_iqr (b_obs m) /\
  hourly_disqualified m (7 # 5) (11 # 5) = false /\ hourly_disqualified m (1 # 10) (1 # 10) = true.
Proof. vm_compute. repeat split; try reflexivity; discriminate. Qed.

(* a flat net-metered series (observed = predicted = -2): both ratios are over denominators that are not
   safely positive, the code reports CVRMSE_adj = -0 < 1.4 and accepts the model *)
Theorem C16_hourly_gate_refuted : ~ C16_hourly_gate_statement.
Proof. exact hourly_gate_refuted_l. Qed.
Print Assumptions C16_hourly_gate_refuted.

(* with the proposed repair of _safe_divide (denominator <= min_denominator -> None) the full statements hold *)
Theorem C16_repaired_safe_divide : forall num den mn, sdiv Repaired num den mn = safe_divide_spec num den mn.
Proof. exact sdiv_repaired_statement. Qed.
Print Assumptions C16_repaired_safe_divide.

Theorem C16_repaired_ratios_undefined : forall d p mn,
  let m := baseline_p Repaired d p mn in
  (c_mean (b_obs m) <= mn ->
     b_nmae m = Undef /\ b_nmbe m = Undef /\ b_cvrmse m = Undef /\ b_cvrmse_adj m = Undef) /\
  (c_iqr (b_obs m) <= mn ->
     b_pnmae m = Undef /\ b_pnmbe m = Undef /\ b_pnrmse m = Undef /\ b_pnrmse_adj m = Undef).
Proof. exact repaired_unsafe_undefined. Qed.
Print Assumptions C16_repaired_ratios_undefined.

Theorem C16_repaired_hourly_gate : forall d p mn tcv tpn, 0 <= mn ->
  hourly_disqualified (baseline_p Repaired d p mn) tcv tpn = hourly_disqualified_spec (baseline_p Repaired d p mn) mn tcv tpn.
Proof. exact hourly_gate_repaired. Qed.
Print Assumptions C16_repaired_hourly_gate.

Example C16_repaired_example :
  b_cvrmse (baseline_p Repaired [(-1, -1); (-3, -3)] 1 ex_mn) = Undef /\
  hourly_disqualified (baseline_p Repaired [(-2, -2); (-2, -2)] 1 ex_mn) (7 # 5) (11 # 5) = true /\
  b_cvrmse (baseline_p Repaired ex_d 2 ex_mn) = b_cvrmse (baseline ex_d 2 ex_mn).
Proof. vm_compute. repeat split; reflexivity. Qed.

(* ------------------------------------------------------------------ daily / billing model *)

Theorem C16_daily_dq_iff : forall resid obs t, 0 <= t -> ~ mean obs == 0 ->
  (daily_disqualified (daily_error resid obs) t = true <->
   (0 < mean obs /\ t * t * (mean obs * mean obs) < d_mse (daily_error resid obs))).
Proof. exact daily_dq_iff. Qed.
Print Assumptions C16_daily_dq_iff.

Theorem C16_daily_dq_zero_mean : forall resid obs t, mean obs == 0 ->
  daily_disqualified (daily_error resid obs) t = negb (Qeq_bool (d_mse (daily_error resid obs)) 0).
Proof. exact daily_dq_zero_mean. Qed.
Print Assumptions C16_daily_dq_zero_mean.

Example C16_daily_example :
  let e := daily_error [1; -1; 2; -2] [10; 12; 8; 10] in
  d_mse e == 5 # 2 /\ d_mae e == 3 # 2 /\ d_cvrmse e = Root false (1 # 40) /\
  daily_disqualified e 1 = false /\ daily_disqualified e (1 # 10) = true /\ ~ mean [10; 12; 8; 10] == 0.
Proof. vm_compute. repeat split; try reflexivity; discriminate. Qed.

(* ------------------------------------------------------------------ savings *)

Theorem C16_savings : forall rows,
  let r := reporting rows in
  r_savings r == r_predicted_sum r - r_observed_sum r /\
  r_observed_sum r == rsum (observed_of (finite_pairs rows)) /\
  r_predicted_sum r == rsum (predicted_of (finite_pairs rows)) /\
  r_n r = Z.of_nat (length (finite_pairs rows)).
Proof. exact savings_l. Qed.
Print Assumptions C16_savings.

Theorem C16_savings_nonfinite_ignored : forall a r b, nonfinite r -> reporting (a ++ r :: b) = reporting (a ++ b).
Proof. exact reporting_ignores_nonfinite. Qed.
Print Assumptions C16_savings_nonfinite_ignored.

Example C16_savings_example :
  r_savings (reporting [(Some 1, Some 2); (None, Some 7); (Some 3, Some (9 # 2))]) == 5 # 2.
Proof. vm_compute. reflexivity. Qed.

(* ------------------------------------------------------------------ what the squares mean (over the reals)
   [Root neg s] stands for (-1)^neg * sqrt s; the model only ever compares and divides squares.
   These theorems tie that to the roots themselves (standard-library Reals axioms). *)

Theorem C16_root_below_threshold_R : forall neg s t, 0 <= s ->
  (val_ltb (Root neg s) t = true <-> (root_R neg s < Q2R t)%R).
Proof. exact val_ltb_root_R. Qed.
Print Assumptions C16_root_below_threshold_R.

Theorem C16_root_above_threshold_R : forall neg s t, 0 <= s ->
  (val_gtb (Root neg s) t = true <-> (Q2R t < root_R neg s)%R).
Proof. exact val_gtb_root_R. Qed.
Print Assumptions C16_root_above_threshold_R.

(* CVRMSE = RMSE / mean(observed), as real numbers, whenever it is reported *)
Theorem C16_cvrmse_is_rmse_over_mean_R : forall pl d p mn, d <> [] -> forall neg s,
  let m := baseline_p pl d p mn in
  b_cvrmse m = Root neg s ->
  (root_R neg s = sqrt (Q2R (b_mse m)) / Q2R (c_mean (b_obs m)))%R /\ Q2R (c_mean (b_obs m)) <> 0%R.
Proof. exact cvrmse_is_quotient_R. Qed.
Print Assumptions C16_cvrmse_is_rmse_over_mean_R.

(* |bias| <= MAE <= RMSE *)
Theorem C16_bias_mae_rmse_R : forall pl d p mn, d <> [] ->
  let m := baseline_p pl d p mn in
  (Rabs (Q2R (b_mbe m)) <= Q2R (b_mae m))%R /\ (Q2R (b_mae m) <= sqrt (Q2R (b_mse m)))%R.
Proof. exact mae_le_rmse_R. Qed.
Print Assumptions C16_bias_mae_rmse_R.

(* |R| <= 1 *)
Theorem C16_r_abs_le_1_R : forall pl d p mn r, b_r2 (baseline_p pl d p mn) = Some r -> (sqrt (Q2R r) <= 1)%R.
Proof. exact r_abs_le_1_R. Qed.
Print Assumptions C16_r_abs_le_1_R.

(* daily / billing: disqualified exactly when RMSE / mean(observed) > threshold (any threshold) *)
Theorem C16_daily_dq_R : forall resid obs t, resid <> [] -> ~ mean obs == 0 ->
  (daily_disqualified (daily_error resid obs) t = true <->
   (Q2R t < sqrt (Q2R (d_mse (daily_error resid obs))) / Q2R (mean obs))%R).
Proof. exact daily_dq_R. Qed.
Print Assumptions C16_daily_dq_R.

Example C16_root_R_example :
  val_ltb (Root false (1 # 4)) (3 # 5) = true /\ val_ltb (Root false (1 # 4)) (1 # 2) = false /\
  val_gtb (Root true (1 # 4)) (-3 # 5) = true /\ val_gtb (Root true (1 # 4)) (-1 # 2) = false /\ 0 <= 1 # 4.
Proof. vm_compute. repeat split; try reflexivity; discriminate. Qed.
