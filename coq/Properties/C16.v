(* C16 — reported fit statistics are the true statistics of the model predictions.
   Statements only; proofs are in Proofs/MetricsProofs.v; the model is Model/Metrics.v
   (exact rationals; every square root is kept as its square: [Root neg s] = (-1)^neg sqrt s). *)
From Coq Require Import ZArith QArith Qabs Qreals Reals List Bool.
From V Require Import Model.Metrics Proofs.MetricsProofs Proofs.MetricsRealProofs.
Import ListNotations.
Open Scope Q_scope.

(* a small series used for the non-vacuity examples: observed 1 2 3 4 6, predicted 3/2 3/2 7/2 4 5 *)
Definition ex_d : list (Q * Q) := [(1, 3 # 2); (2, 3 # 2); (3, 7 # 2); (4, 4); (6, 5)].
Definition ex_mn : Q := 1 # 1000.

(* ------------------------------------------------------------------ only finite pairs count *)

Theorem C16_finite_pairs : forall rows o p, In (o, p) (finite_pairs rows) <-> In (Some o, Some p) rows.
Proof. exact finite_pairs_in. Qed.
Print Assumptions C16_finite_pairs.

Theorem C16_nonfinite_rows_ignored : forall pl a r b p mn, nonfinite r ->
  baseline_of_rows_p pl (a ++ r :: b) p mn = baseline_of_rows_p pl (a ++ b) p mn.
Proof. exact baseline_ignores_nonfinite. Qed.
Print Assumptions C16_nonfinite_rows_ignored.

Example C16_nonfinite_example :
  baseline_of_rows [(Some 1, Some 2); (None, Some 5); (Some 3, Some 3)] 1 ex_mn =
  baseline_of_rows [(Some 1, Some 2); (Some 3, Some 3)] 1 ex_mn /\
  baseline_of_rows [(Some 1, Some 2); (Some 3, Some 3)] 1 ex_mn <> None.
Proof. split; [reflexivity|discriminate]. Qed.

(* ------------------------------------------------------------------ identities, for every series
   (and for both division policies: the repository as it stands, [AsCoded], and the proposed repair) *)

Theorem C16_n_mse_sse : forall pl d p mn, d <> [] ->
  let m := baseline_p pl d p mn in
  b_n m = Z.of_nat (length d) /\ inject_Z (b_n m) * b_mse m == b_sse m /\ b_rmse m = Root false (b_mse m).
Proof. exact n_mse_sse_l. Qed.
Print Assumptions C16_n_mse_sse.

Theorem C16_ddof_rmse_adj : forall pl d p mn, d <> [] ->
  let m := baseline_p pl d p mn in
  b_ddof m = Z.max 1 (b_n m - p) /\ (1 <= b_ddof m)%Z /\
  inject_Z (b_ddof m) * b_rmse_adj_sq m == b_sse m /\ b_rmse_adj m = Root false (b_rmse_adj_sq m).
Proof. exact ddof_rmse_adj_l. Qed.
Print Assumptions C16_ddof_rmse_adj.

Theorem C16_ddof_autocorr_ge_1 : forall np p, 1 <= ddof_autocorr_of np p.
Proof. exact ddof_autocorr_ge_1. Qed.
Print Assumptions C16_ddof_autocorr_ge_1.

Theorem C16_sse_mse_nonneg : forall pl d p mn, d <> [] ->
  0 <= b_sse (baseline_p pl d p mn) /\ 0 <= b_mse (baseline_p pl d p mn) /\ 0 <= b_mae (baseline_p pl d p mn).
Proof. exact nonneg_l. Qed.
Print Assumptions C16_sse_mse_nonneg.

(* |bias| <= MAE <= RMSE (the second one squared) *)
Theorem C16_bias_mae_rmse : forall pl d p mn, d <> [] ->
  let m := baseline_p pl d p mn in Qabs (b_mbe m) <= b_mae m /\ b_mae m * b_mae m <= b_mse m.
Proof. exact bias_mae_rmse_l. Qed.
Print Assumptions C16_bias_mae_rmse.

(* var = mean(x^2) - mean^2, and it is not negative *)
Theorem C16_variance_identity : forall l, l <> [] ->
  c_var (column l) == c_sum_sq (column l) / qlen l - c_mean (column l) * c_mean (column l) /\
  0 <= c_var (column l) /\ c_std (column l) = Root false (c_var (column l)).
Proof. exact variance_identity_l. Qed.
Print Assumptions C16_variance_identity.

(* 0 <= R^2 <= 1 and 0 <= rho^2 <= 1 (Cauchy-Schwarz) *)
Theorem C16_r_squared_bounds : forall pl d p mn r, b_r2 (baseline_p pl d p mn) = Some r -> 0 <= r /\ r <= 1.
Proof. exact r2_bounds. Qed.
Print Assumptions C16_r_squared_bounds.

Theorem C16_autocorr_bounds : forall pl d p mn neg r2, b_rho (baseline_p pl d p mn) = Some (neg, r2) -> 0 <= r2 /\ r2 <= 1.
Proof. exact rho_bounds. Qed.
Print Assumptions C16_autocorr_bounds.

Theorem C16_cauchy_schwarz : forall l : list (Q * Q), sB l * sB l <= sA l * sC l.
Proof. exact cauchy_schwarz. Qed.
Print Assumptions C16_cauchy_schwarz.

(* an accepted n' solves n' (1 + rho) = n (1 - rho) for the residuals' lag-1 autocorrelation *)
Theorem C16_n_prime : forall n neg r2 np,
  nprime_fallback (Some (neg, r2)) = false -> nprime_exact n (Some (neg, r2)) np = true ->
  let r := rho_of_nprime n np in
  r * r == r2 /\ (if neg then r <= 0 else 0 <= r) /\ np * (1 + r) == inject_Z n * (1 - r).
Proof. exact nprime_exact_sound. Qed.
Print Assumptions C16_n_prime.

Theorem C16_n_prime_fallback : forall n rho np,
  nprime_fallback rho = true -> nprime_exact n rho np = true -> np == 1.
Proof. exact nprime_fallback_value. Qed.
Print Assumptions C16_n_prime_fallback.

Example C16_identities_example :
  let m := baseline ex_d 2 ex_mn in
  ex_d <> [] /\ b_n m = 5%Z /\ b_ddof m = 3%Z /\ b_sse m == 7 # 4 /\ b_mse m == 7 # 20 /\
  b_rmse_adj_sq m == 7 # 12 /\ b_mae m == 1 # 2 /\ b_mbe m == 1 # 10 /\
  b_r2 m = Some (3249 # 3589) /\ b_rho m = Some (true, 9 # 55).
Proof. vm_compute. repeat split; try reflexivity; discriminate. Qed.

(* residuals 0 1 0 0: rho = -1/2, n' = 4 (1 + 1/2) / (1 - 1/2) = 12 *)
Example C16_n_prime_example :
  let m := baseline [(1, 1); (2, 1); (3, 3); (4, 4)] 1 ex_mn in
  b_rho m = Some (true, 1 # 4) /\ nprime_fallback (b_rho m) = false /\ nprime_exact (b_n m) (b_rho m) 12 = true /\
  nprime_exact (b_n m) (b_rho m) 11 = false /\
  nprime_fallback (b_rho (baseline [(1, 0); (2, 3); (3, 2)] 1 ex_mn)) = true.
Proof. vm_compute. repeat split; try reflexivity; discriminate. Qed.

(* ------------------------------------------------------------------ ratios *)

(* CVRMSE * mean = RMSE whenever CVRMSE is reported as a root (the same for the adjusted form and for
   PNRMSE over the interquartile range) *)
Theorem C16_cvrmse_times_mean : forall pl d p mn neg s,
  let m := baseline_p pl d p mn in
  b_cvrmse m = Root neg s ->
  s * (c_mean (b_obs m) * c_mean (b_obs m)) == b_mse m /\ neg = Qltb (c_mean (b_obs m)) 0 /\ ~ c_mean (b_obs m) == 0.
Proof. exact cvrmse_times_mean_l. Qed.
Print Assumptions C16_cvrmse_times_mean.

Theorem C16_ratio_root_defined : forall msq den mn neg s,
  safe_divide_root msq den mn = Root neg s ->
  ~ den == 0 /\ s * (den * den) == msq /\ neg = Qltb den 0 /\ (mn < den \/ root_gtb msq (10 * mn) = false).
Proof. exact safe_divide_root_defined. Qed.
Print Assumptions C16_ratio_root_defined.

Example C16_cvrmse_example :
  b_cvrmse (baseline ex_d 2 ex_mn) = Root false (35 # 1024) /\
  b_pnrmse_adj (baseline ex_d 2 ex_mn) = Root false (7 # 48).
Proof. vm_compute. split; reflexivity. Qed.

(* _safe_divide: the exact region where None is returned ... *)
Theorem C16_safe_divide_region : forall num den mn,
  safe_divide num den mn = RNone <-> (den <= mn /\ 10 * mn < num).
Proof. exact safe_divide_none_iff. Qed.
Print Assumptions C16_safe_divide_region.

Theorem C16_safe_divide_number : forall num den mn q,
  safe_divide num den mn = RNum q -> ~ den == 0 /\ q == num / den /\ (mn < den \/ num <= 10 * mn).
Proof. exact safe_divide_num. Qed.
Print Assumptions C16_safe_divide_number.

(* ... against the statement: "a ratio whose denominator is not safely positive is reported as undefined
   rather than as a number".  Full statement (kept visible): *)
Definition C16_safe_divide_statement : Prop := forall num den mn, 0 <= mn ->
  safe_divide num den mn = safe_divide_spec num den mn.

(* it holds exactly where the denominator is safely positive or the numerator exceeds 10 * min_denominator *)
Theorem C16_safe_divide_partial : forall num den mn, 0 <= mn ->
  (safe_divide num den mn = safe_divide_spec num den mn <-> (mn < den \/ 10 * mn < num)).
Proof. exact safe_divide_spec_iff. Qed.
Print Assumptions C16_safe_divide_partial.

Example C16_safe_divide_partial_example :
  safe_divide (1 # 2) (1 # 2000) ex_mn = RNone /\ safe_divide (-5) 2 ex_mn = RNum (-5 # 2) /\
  safe_divide_spec (-5) 2 ex_mn = RNum (-5 # 2).
Proof. vm_compute. repeat split; try reflexivity; discriminate. Qed.

(* refutations on the faithful model (each witness is replayed on _safe_divide by harness/c16.py and is
   recorded as known finding C16-K1..K3) *)
Theorem C16_safe_divide_refuted : ~ C16_safe_divide_statement.
Proof. exact safe_divide_statement_refuted_l. Qed.
Print Assumptions C16_safe_divide_refuted.

Theorem C16_safe_divide_tiny_denominator_refuted : exists num den mn,
  0 < den /\ den <= mn /\ safe_divide num den mn = RNum (-10000).
Proof. exists (-5), (1 # 2000), ex_mn. vm_compute. repeat split; try reflexivity; discriminate. Qed.
Print Assumptions C16_safe_divide_tiny_denominator_refuted.

Theorem C16_safe_divide_negative_denominator_refuted : exists num den mn,
  0 < mn /\ den < 0 /\ safe_divide num den mn = RNum 5 /\
  safe_divide (1 # 200) den mn = RNum (-1 # 200).
Proof. exists (-5), (-1), ex_mn. vm_compute. repeat split; try reflexivity; discriminate. Qed.
Print Assumptions C16_safe_divide_negative_denominator_refuted.

Theorem C16_safe_divide_zero_denominator_refuted : exists num mn,
  0 < mn /\ 0 < num /\ safe_divide num 0 mn = RDivZero 1 /\ safe_divide 0 0 mn = RDivZero 0.
Proof. exists (1 # 200), ex_mn. vm_compute. repeat split; try reflexivity; discriminate. Qed.
Print Assumptions C16_safe_divide_zero_denominator_refuted.

(* the same for the reported CVRMSE: full statement, guard, refutation (a perfect fit of a net-metered
   site: observed = predicted = -1, -3) *)
Definition C16_cvrmse_undefined_statement : Prop := forall d p mn, d <> [] -> 0 <= mn ->
  c_mean (b_obs (baseline d p mn)) <= mn -> b_cvrmse (baseline d p mn) = Undef.

Theorem C16_cvrmse_undefined_partial : forall d p mn, d <> [] -> 0 <= mn ->
  let m := baseline d p mn in
  c_mean (b_obs m) <= mn -> (b_cvrmse m = Undef <-> 10 * mn * (10 * mn) < b_mse m).
Proof. exact cvrmse_undefined_partial_l. Qed.
Print Assumptions C16_cvrmse_undefined_partial.

Theorem C16_cvrmse_undefined_refuted : ~ C16_cvrmse_undefined_statement.
Proof. exact cvrmse_undefined_refuted_l. Qed.
Print Assumptions C16_cvrmse_undefined_refuted.

Example C16_cvrmse_undefined_example :
  b_cvrmse (baseline [(-1, 1); (-3, -1)] 1 ex_mn) = Undef /\
  b_cvrmse (baseline [(-1, -1); (-3, -3)] 1 ex_mn) = Root true 0.
Proof. vm_compute. split; reflexivity. Qed.

(* ------------------------------------------------------------------ hourly model *)

(* the stored baseline metrics are those of the measured (non-interpolated) hours *)
Theorem C16_hourly_metrics_on_measured_rows : forall pl rows rows' p mn,
  measured_rows rows = measured_rows rows' ->
  hourly_baseline_metrics_p pl rows p mn = hourly_baseline_metrics_p pl rows' p mn.
Proof. exact hourly_measured_only. Qed.
Print Assumptions C16_hourly_metrics_on_measured_rows.

Theorem C16_hourly_interpolated_ignored : forall pl a o q b p mn,
  hourly_baseline_metrics_p pl (a ++ (o, q, true) :: b) p mn = hourly_baseline_metrics_p pl (a ++ b) p mn.
Proof. exact hourly_ignores_interpolated. Qed.
Print Assumptions C16_hourly_interpolated_ignored.

Theorem C16_hourly_measured_rows : forall rows o q, In (o, q) (measured_rows rows) <-> In (o, q, false) rows.
Proof. exact measured_rows_in. Qed.
Print Assumptions C16_hourly_measured_rows.

Example C16_hourly_measured_example :
  hourly_baseline_metrics [(Some 1, Some 2, false); (Some 9, Some 100, true); (Some 3, Some 3, false)] 1 ex_mn =
  baseline_of_rows [(Some 1, Some 2); (Some 3, Some 3)] 1 ex_mn.
Proof. reflexivity. Qed.

(* disqualified for poor fit exactly when it misses both thresholds *)
Theorem C16_hourly_dq_iff : forall m tcv tpn,
  hourly_disqualified m tcv tpn = true <->
  (~ (b_cvrmse_adj m <> Undef /\ val_ltb (b_cvrmse_adj m) tcv = true) /\
   ~ (b_pnrmse_adj m <> Undef /\ val_ltb (b_pnrmse_adj m) tpn = true)).
Proof. exact hourly_dq_iff. Qed.
Print Assumptions C16_hourly_dq_iff.

(* what "below the threshold" means for a root kept as its square *)
Theorem C16_root_below_threshold : forall neg s t, 0 < t ->
  (val_ltb (Root neg s) t = true <-> (neg = true \/ s < t * t)).
Proof. exact val_ltb_root_pos. Qed.
Print Assumptions C16_root_below_threshold.

(* against the statement's reading (a ratio over a denominator that is not safely positive is undefined and
   so misses its threshold): full statement, guard, refutation *)
Definition C16_hourly_gate_statement : Prop := forall d p mn tcv tpn, d <> [] -> 0 <= mn ->
  hourly_disqualified (baseline d p mn) tcv tpn = hourly_disqualified_spec (baseline d p mn) mn tcv tpn.

Theorem C16_hourly_gate_partial : forall d p mn tcv tpn, 0 <= mn ->
  let m := baseline d p mn in
  (mn < c_mean (b_obs m) \/ b_cvrmse_adj m = Undef) ->
  (mn < c_iqr (b_obs m) \/ b_pnrmse_adj m = Undef) ->
  hourly_disqualified m tcv tpn = hourly_disqualified_spec m mn tcv tpn.
Proof. exact hourly_gate_partial. Qed.
Print Assumptions C16_hourly_gate_partial.

Example C16_hourly_gate_example :
  let m := baseline ex_d 2 ex_mn in
  ex_mn < c_mean (b_obs m) /\ ex_mn < c_iqr (b_obs m) /\
  hourly_disqualified m (7 # 5) (11 # 5) = false /\ hourly_disqualified m (1 # 10) (1 # 10) = true.
Proof. vm_compute. repeat split; try reflexivity; discriminate. Qed.

(* a flat net-metered series (observed = predicted = -2): both ratios are over denominators that are not
   safely positive, the code reports CVRMSE_adj = -0 < 1.4 and accepts the model *)
Theorem C16_hourly_gate_refuted : ~ C16_hourly_gate_statement.
Proof. exact hourly_gate_refuted_l. Qed.
Print Assumptions C16_hourly_gate_refuted.

(* with the proposed repair of _safe_divide (denominator <= min_denominator -> None) the full statements hold *)
Theorem C16_repaired_safe_divide : forall num den mn, sdiv Repaired num den mn = safe_divide_spec num den mn.
Proof. exact sdiv_repaired_statement. Qed.
Print Assumptions C16_repaired_safe_divide.

Theorem C16_repaired_ratios_undefined : forall d p mn,
  let m := baseline_p Repaired d p mn in
  (c_mean (b_obs m) <= mn ->
     b_nmae m = Undef /\ b_nmbe m = Undef /\ b_cvrmse m = Undef /\ b_cvrmse_adj m = Undef) /\
  (c_iqr (b_obs m) <= mn ->
     b_pnmae m = Undef /\ b_pnmbe m = Undef /\ b_pnrmse m = Undef /\ b_pnrmse_adj m = Undef).
Proof. exact repaired_unsafe_undefined. Qed.
Print Assumptions C16_repaired_ratios_undefined.

Theorem C16_repaired_hourly_gate : forall d p mn tcv tpn, 0 <= mn ->
  hourly_disqualified (baseline_p Repaired d p mn) tcv tpn = hourly_disqualified_spec (baseline_p Repaired d p mn) mn tcv tpn.
Proof. exact hourly_gate_repaired. Qed.
Print Assumptions C16_repaired_hourly_gate.

Example C16_repaired_example :
  b_cvrmse (baseline_p Repaired [(-1, -1); (-3, -3)] 1 ex_mn) = Undef /\
  hourly_disqualified (baseline_p Repaired [(-2, -2); (-2, -2)] 1 ex_mn) (7 # 5) (11 # 5) = true /\
  b_cvrmse (baseline_p Repaired ex_d 2 ex_mn) = b_cvrmse (baseline ex_d 2 ex_mn).
Proof. vm_compute. repeat split; reflexivity. Qed.

(* ------------------------------------------------------------------ daily / billing model *)

Theorem C16_daily_dq_iff : forall resid obs t, 0 <= t -> ~ mean obs == 0 ->
  (daily_disqualified (daily_error resid obs) t = true <->
   (0 < mean obs /\ t * t * (mean obs * mean obs) < d_mse (daily_error resid obs))).
Proof. exact daily_dq_iff. Qed.
Print Assumptions C16_daily_dq_iff.

Theorem C16_daily_dq_zero_mean : forall resid obs t, mean obs == 0 ->
  daily_disqualified (daily_error resid obs) t = negb (Qeq_bool (d_mse (daily_error resid obs)) 0).
Proof. exact daily_dq_zero_mean. Qed.
Print Assumptions C16_daily_dq_zero_mean.

Example C16_daily_example :
  let e := daily_error [1; -1; 2; -2] [10; 12; 8; 10] in
  d_mse e == 5 # 2 /\ d_mae e == 3 # 2 /\ d_cvrmse e = Root false (1 # 40) /\
  daily_disqualified e 1 = false /\ daily_disqualified e (1 # 10) = true /\ ~ mean [10; 12; 8; 10] == 0.
Proof. vm_compute. repeat split; try reflexivity; discriminate. Qed.

(* ------------------------------------------------------------------ savings *)

Theorem C16_savings : forall rows,
  let r := reporting rows in
  r_savings r == r_predicted_sum r - r_observed_sum r /\
  r_observed_sum r == rsum (observed_of (finite_pairs rows)) /\
  r_predicted_sum r == rsum (predicted_of (finite_pairs rows)) /\
  r_n r = Z.of_nat (length (finite_pairs rows)).
Proof. exact savings_l. Qed.
Print Assumptions C16_savings.

Theorem C16_savings_nonfinite_ignored : forall a r b, nonfinite r -> reporting (a ++ r :: b) = reporting (a ++ b).
Proof. exact reporting_ignores_nonfinite. Qed.
Print Assumptions C16_savings_nonfinite_ignored.

Example C16_savings_example :
  r_savings (reporting [(Some 1, Some 2); (None, Some 7); (Some 3, Some (9 # 2))]) == 5 # 2.
Proof. vm_compute. reflexivity. Qed.

(* ------------------------------------------------------------------ what the squares mean (over the reals)
   [Root neg s] stands for (-1)^neg * sqrt s; the model only ever compares and divides squares.
   These theorems tie that to the roots themselves (standard-library Reals axioms). *)

Theorem C16_root_below_threshold_R : forall neg s t, 0 <= s ->
  (val_ltb (Root neg s) t = true <-> (root_R neg s < Q2R t)%R).
Proof. exact val_ltb_root_R. Qed.
Print Assumptions C16_root_below_threshold_R.

Theorem C16_root_above_threshold_R : forall neg s t, 0 <= s ->
  (val_gtb (Root neg s) t = true <-> (Q2R t < root_R neg s)%R).
Proof. exact val_gtb_root_R. Qed.
Print Assumptions C16_root_above_threshold_R.

(* CVRMSE = RMSE / mean(observed), as real numbers, whenever it is reported *)
Theorem C16_cvrmse_is_rmse_over_mean_R : forall pl d p mn, d <> [] -> forall neg s,
  let m := baseline_p pl d p mn in
  b_cvrmse m = Root neg s ->
  (root_R neg s = sqrt (Q2R (b_mse m)) / Q2R (c_mean (b_obs m)))%R /\ Q2R (c_mean (b_obs m)) <> 0%R.
Proof. exact cvrmse_is_quotient_R. Qed.
Print Assumptions C16_cvrmse_is_rmse_over_mean_R.

(* |bias| <= MAE <= RMSE *)
Theorem C16_bias_mae_rmse_R : forall pl d p mn, d <> [] ->
  let m := baseline_p pl d p mn in
  (Rabs (Q2R (b_mbe m)) <= Q2R (b_mae m))%R /\ (Q2R (b_mae m) <= sqrt (Q2R (b_mse m)))%R.
Proof. exact mae_le_rmse_R. Qed.
Print Assumptions C16_bias_mae_rmse_R.

(* |R| <= 1 *)
Theorem C16_r_abs_le_1_R : forall pl d p mn r, b_r2 (baseline_p pl d p mn) = Some r -> (sqrt (Q2R r) <= 1)%R.
Proof. exact r_abs_le_1_R. Qed.
Print Assumptions C16_r_abs_le_1_R.

(* daily / billing: disqualified exactly when RMSE / mean(observed) > threshold (any threshold) *)
Theorem C16_daily_dq_R : forall resid obs t, resid <> [] -> ~ mean obs == 0 ->
  (daily_disqualified (daily_error resid obs) t = true <->
   (Q2R t < sqrt (Q2R (d_mse (daily_error resid obs))) / Q2R (mean obs))%R).
Proof. exact daily_dq_R. Qed.
Print Assumptions C16_daily_dq_R.

Example C16_root_R_example :
  val_ltb (Root false (1 # 4)) (3 # 5) = true /\ val_ltb (Root false (1 # 4)) (1 # 2) = false /\
  val_gtb (Root true (1 # 4)) (-3 # 5) = true /\ val_gtb (Root true (1 # 4)) (-1 # 2) = false /\ 0 <= 1 # 4.
Proof. vm_compute. repeat split; try reflexivity; discriminate. Qed.

(* ==================================================================================================
   Extension of the MODEL beyond the property's statement: order statistics, MAPE and the pure helpers of
   opendsm/common/utils.py, modelled AS CODED and characterised by theorems
   (Model/MetricsUtils.v; proofs in Proofs/MetricsQuantileProofs.v and Proofs/MetricsUtilsProofs.v).
   Kept at the end, with their own imports, so that a failure here leaves the theorems above counted. *)
From Coq Require Import Qminmax.
From V Require Import Model.MetricsUtils Proofs.MetricsQuantileProofs Proofs.MetricsUtilsProofs.

(* ------------------------------------------------------------------ quantiles (np.quantile, "linear") *)

(* min <= q <= max *)
Theorem C16_quantile_between_min_and_max : forall l a b L U, l <> [] -> (0 < b)%Z -> (0 <= a <= b)%Z ->
  (forall x, In x l -> L <= x /\ x <= U) -> L <= quantile l a b /\ quantile l a b <= U.
Proof. exact quantile_bounds. Qed.
Print Assumptions C16_quantile_between_min_and_max.

(* monotone in p *)
Theorem C16_quantile_monotone : forall l a1 a2 b, l <> [] -> (0 < b)%Z -> (0 <= a1 <= a2)%Z -> (a2 <= b)%Z ->
  quantile l a1 b <= quantile l a2 b.
Proof. exact quantile_mono. Qed.
Print Assumptions C16_quantile_monotone.

Theorem C16_iqr_nonneg : forall l, l <> [] -> 0 <= iqr l.
Proof. exact iqr_nonneg. Qed.
Print Assumptions C16_iqr_nonneg.

Theorem C16_range_5_95_nonneg : forall l, l <> [] -> 0 <= range_5_95 l.
Proof. exact range_5_95_nonneg. Qed.
Print Assumptions C16_range_5_95_nonneg.

Theorem C16_median_between_min_and_max : forall l L U, l <> [] ->
  (forall x, In x l -> L <= x /\ x <= U) -> L <= median l /\ median l <= U.
Proof. exact median_bounds. Qed.
Print Assumptions C16_median_between_min_and_max.

Example C16_quantile_example :
  quantile [5; 1; 4; 2; 9] 1 4 == 2 /\ quantile [5; 1; 4; 2; 9] 3 4 == 5 /\ iqr [5; 1; 4; 2; 9] == 3 /\
  quantile [1; 2; 3; 4] 1 2 == 5 # 2 /\ range_5_95 [0; 10; 20; 30; 40] == 36.
Proof. vm_compute. repeat split; reflexivity. Qed.

(* ------------------------------------------------------------------ median_absolute_deviation *)

(* MAD_scaled = MAD_k * median(|x - median x|) *)
Theorem C16_mad_definition : forall k l,
  median_absolute_deviation k l None == k * median (map (fun x => Qabs (x - median l)) l) /\
  (forall mu, median_absolute_deviation k l (Some mu) == k * median (map (fun x => Qabs (x - mu)) l)).
Proof. intros k l. split; [reflexivity|intros mu; reflexivity]. Qed.
Print Assumptions C16_mad_definition.

Theorem C16_mad_nonneg : forall k l mu, 0 <= k -> l <> [] -> 0 <= median_absolute_deviation k l mu.
Proof. exact mad_scaled_nonneg. Qed.
Print Assumptions C16_mad_nonneg.

Theorem C16_mad_at_most_largest_deviation : forall l D, l <> [] ->
  (forall x, In x l -> Qabs (x - median l) <= D) -> 0 <= mad l /\ mad l <= D.
Proof. exact mad_bounds. Qed.
Print Assumptions C16_mad_at_most_largest_deviation.

Example C16_mad_example :
  median_absolute_deviation (3 # 2) [1; 2; 3; 4; 100] None == 3 # 2 /\
  median_absolute_deviation (3 # 2) [1; 2; 3; 4; 100] (Some 2) == 3 # 2 /\ mad [7; 7; 7] == 0.
Proof. vm_compute. repeat split; reflexivity. Qed.

(* ------------------------------------------------------------------ MAPE *)

Theorem C16_mape_undefined_iff : forall d mn, mape_of d mn = Undef <-> (forall r, In r d -> Qabs (fst r) < mn).
Proof. exact mape_undef_iff. Qed.
Print Assumptions C16_mape_undefined_iff.

Theorem C16_mape_is_mean_abs_pct_error : forall d mn q, mape_of d mn = Num q ->
  mape_rows d mn <> [] /\
  q * qlen (mape_rows d mn) == rsum (map (fun r => Qabs ((fst r - snd r) / fst r)) (mape_rows d mn)) /\ 0 <= q.
Proof. exact mape_value. Qed.
Print Assumptions C16_mape_is_mean_abs_pct_error.

Example C16_mape_example :
  mape_of [(2, 1); (4, 5); (0, 3)] ex_mn = Num (3 # 8) /\ mape_of [(0, 1)] ex_mn = Undef.
Proof. vm_compute. split; reflexivity. Qed.

(* ------------------------------------------------------------------ OoM *)

(* floor: 10^k <= |x| < 10^(k+1) *)
Theorem C16_oom_floor : forall x k, ~ x == 0 -> oom OFloor x = Some k ->
  qpow10 k <= Qabs x /\ Qabs x < qpow10 (k + 1).
Proof. exact oom_floor_spec. Qed.
Print Assumptions C16_oom_floor.

Theorem C16_oom_ceil : forall x c, ~ x == 0 -> oom OCeil x = Some c ->
  exists k, oom OFloor x = Some k /\ ((c = k /\ Qabs x == qpow10 k) \/ (c = (k + 1)%Z /\ qpow10 k < Qabs x)).
Proof. exact oom_ceil_spec. Qed.
Print Assumptions C16_oom_ceil.

(* round: the decade k when log10|x| < k + 1/2 (x^2 < 10^(2k+1)), k + 1 otherwise *)
Theorem C16_oom_round : forall x r, ~ x == 0 -> oom ORound x = Some r ->
  exists k, oom OFloor x = Some k /\
    ((r = k /\ Qabs x * Qabs x < qpow10 (2 * k + 1)) \/ (r = (k + 1)%Z /\ qpow10 (2 * k + 1) <= Qabs x * Qabs x)).
Proof. exact oom_round_spec. Qed.
Print Assumptions C16_oom_round.

Theorem C16_oom_zero : forall m x, x == 0 -> oom m x = Some 1%Z.
Proof. exact oom_zero. Qed.
Print Assumptions C16_oom_zero.

Example C16_oom_example :
  oom OFloor 1000 = Some 3%Z /\ oom OFloor (9999 # 10) = Some 2%Z /\ oom OCeil 1000 = Some 3%Z /\
  oom OCeil 1001 = Some 4%Z /\ oom ORound (316 # 100) = Some 0%Z /\ oom ORound (317 # 100) = Some 1%Z /\
  oom OFloor (-1 # 4000) = Some (-4)%Z /\ oom OFloor (1 # 10 ^ 320) = Some (-320)%Z /\ ~ 1000 == 0.
Proof. vm_compute. repeat split; try reflexivity; discriminate. Qed.

(* ------------------------------------------------------------------ RoundToSigFigs *)

(* as coded: an integer number of units 1/mags = 10^(OoM_round(x) - p + 1), within half a unit of x *)
Theorem C16_round_sig_as_coded : forall x p r, round_sig x p = Some r ->
  exists m j, sig_mags x p = Some m /\ 0 < m /\ r * m == inject_Z j /\ Qabs (r - x) <= (1 # 2) / m.
Proof. exact round_sig_as_coded. Qed.
Print Assumptions C16_round_sig_as_coded.

(* Facts about the code as it stands (not statements of property C16: RoundToSigFigs has no caller in the
   package and the pinned test tests/daily_model/utilities/test_utils.py::test_RoundToSigFigs asserts the coded
   behaviour, 5678.1234 -> 5680 for p = 4).  The docstring, read literally ("rounds x to p significant
   figures"), would mean: within half a unit of the p-th significant digit, and idempotent: *)
Definition C16_round_sig_docstring_reading_figures : Prop := forall x p r u, ~ x == 0 -> (1 <= p)%Z ->
  round_sig x p = Some r -> sig_unit_spec x p = Some u -> Qabs (r - x) <= u / 2.
Definition C16_round_sig_docstring_reading_idempotent : Prop := forall x p r, (1 <= p)%Z ->
  round_sig x p = Some r -> round_sig r p = Some r.

(* the coded function agrees with that reading exactly for mantissas below sqrt(10), where round and floor
   of log10|x| coincide *)
Theorem C16_round_sig_figures_docstring_reading_partial : forall x p r u k, ~ x == 0 ->
  oom ORound x = Some k -> oom OFloor x = Some k ->
  round_sig x p = Some r -> sig_unit_spec x p = Some u -> Qabs (r - x) <= u / 2.
Proof. exact round_sig_figures_partial. Qed.
Print Assumptions C16_round_sig_figures_docstring_reading_partial.

(* observation: above sqrt(10) the code keeps p - 1 figures (3.5 -> 0 for p = 1), and a value that rounding
   moves across sqrt(10)*10^k changes when the function is applied again (3.16 -> 3.2 -> 3.0 for p = 2) *)
Theorem C16_round_sig_figures_docstring_reading_fails_above_sqrt10 : exists x p r u,
  ~ x == 0 /\ (1 <= p)%Z /\ round_sig x p = Some r /\ sig_unit_spec x p = Some u /\ u / 2 < Qabs (r - x).
Proof. exists (35 # 10), 1%Z, 0, 1. vm_compute. repeat split; try reflexivity; discriminate. Qed.
Print Assumptions C16_round_sig_figures_docstring_reading_fails_above_sqrt10.

Theorem C16_round_sig_twice_differs_across_sqrt10 : exists x p r r',
  (1 <= p)%Z /\ round_sig x p = Some r /\ round_sig r p = Some r' /\ ~ r' == r.
Proof. exists (316 # 100), 2%Z, (16 # 5), 3. vm_compute. repeat split; try reflexivity; discriminate. Qed.
Print Assumptions C16_round_sig_twice_differs_across_sqrt10.

Example C16_round_sig_example :
  round_sig (12345678 # 10000) 3 = Some 1230 /\ round_sig (56781234 # 10000) 4 = Some 5680 /\
  round_sig 0 3 = Some 0 /\ round_sig 25 1 = Some 20 /\ round_sig (314 # 100) 2 = Some (31 # 10) /\
  oom ORound (314 # 100) = oom OFloor (314 # 100).
Proof. vm_compute. repeat split; reflexivity. Qed.

(* ------------------------------------------------------------------ np_clip *)

Theorem C16_clip : forall x lo hi, lo <= hi ->
  exists r, clip (Some x) lo hi = Some r /\ lo <= r /\ r <= hi /\ r == Qmin (Qmax x lo) hi.
Proof. exact clip_spec. Qed.
Print Assumptions C16_clip.

Theorem C16_clip_idempotent_nan_preserved : forall a lo hi, lo <= hi ->
  match clip a lo hi with Some r => clip (Some r) lo hi = Some r | None => a = None end.
Proof. exact clip_idempotent. Qed.
Print Assumptions C16_clip_idempotent_nan_preserved.

Example C16_clip_example :
  clip (Some 5) 0 3 = Some 3 /\ clip (Some (-5)) 0 3 = Some 0 /\ clip (Some 2) 0 3 = Some 2 /\
  clip None 0 3 = None /\ clip (Some 1) 3 0 = Some 3 /\ 0 <= 3.
Proof. vm_compute. repeat split; try reflexivity; discriminate. Qed.

(* ------------------------------------------------------------------ fast_std (squared) *)

(* no weights (or one weight), no mean: the population variance, np.std(x)^2 *)
Theorem C16_fast_std_plain : forall l w, fast_var l None None = variance l /\ fast_var l (Some [w]) None = variance l.
Proof. intros l w. split; reflexivity. Qed.
Print Assumptions C16_fast_std_plain.

(* a given mean: (1/n) sum (x - mu)^2 = variance + (mean - mu)^2 >= 0 *)
Theorem C16_fast_std_given_mean : forall l mu, l <> [] ->
  fast_var l None (Some mu) == variance l + (mean l - mu) * (mean l - mu) /\ 0 <= fast_var l None (Some mu).
Proof. intros l mu H. split; [apply fast_var_given_mean; exact H|apply fast_var_given_mean_nonneg; exact H]. Qed.
Print Assumptions C16_fast_std_given_mean.

Example C16_fast_std_example :
  fast_var [1; 2; 4; 7] None None == 21 # 4 /\ fast_var [1; 2; 4; 7] None (Some 3) == 11 # 2 /\
  fast_var [1; 2; 4; 7] (Some [3 # 4; 3 # 4; 3 # 4; 3 # 4]) None == 21 # 4 /\
  fast_var [1; 2; 4; 7] (Some [1 # 10; 2 # 10; 3 # 10; 4 # 10]) None == 101 # 15 /\
  fast_var [1; 2; 4; 7] (Some [1; 2; 3; 4]) (Some 3) == 146 # 15.
Proof. vm_compute. repeat split; reflexivity. Qed.

(* ------------------------------------------------------------------ t_stat / unc_factor plumbing *)

Theorem C16_t_stat_arguments : forall alpha n,
  t_args alpha n 1 = Some (1 - alpha, (n - 1)%Z) /\ t_args alpha n 2 = Some (1 - alpha / 2, (n - 1)%Z) /\
  (forall tail, tail <> 1%Z -> tail <> 2%Z -> t_args alpha n tail = None).
Proof. exact t_args_spec. Qed.
Print Assumptions C16_t_stat_arguments.

Theorem C16_t_stat_percentile_range : forall alpha n tail pc d, 0 < alpha -> alpha < 1 ->
  t_args alpha n tail = Some (pc, d) -> 0 < pc /\ pc < 1 /\ d = (n - 1)%Z.
Proof. exact t_args_percentile_range. Qed.
Print Assumptions C16_t_stat_percentile_range.

(* unc_factor = base + root: root^2 * n = t^2 with the sign of t; base = 0 for "CI", t for "PI" *)
Theorem C16_unc_factor : forall t n i b neg s, (0 < n)%Z -> unc_factor t n i = Some (b, Root neg s) ->
  s * inject_Z n == t * t /\ neg = Qltb t 0 /\ (i = CI -> b == 0) /\ (i = PI -> b == t).
Proof. exact unc_factor_spec. Qed.
Print Assumptions C16_unc_factor.

Example C16_unc_factor_example :
  unc_factor 2 4 PI = Some (2, Root false 1) /\ unc_factor 2 4 CI = Some (0, Root false 1) /\
  unc_factor 2 4 OtherInterval = None /\ t_args (1 # 10) 10 2 = Some (19 # 20, 9%Z) /\ t_args (1 # 10) 10 3 = None.
Proof. vm_compute. repeat split; reflexivity. Qed.

(* ==================================================================================================
   Savings uncertainty (ReportingMetrics.total_savings_uncertainty, fsu, predicted_data_point_unc) computed by the
   model itself - month count M, frequency factor, ASHRAE approximation factor - over the constants that
   harness/translate_metrics.py reads off the source on every run (Generated/MetricsGen.v); scipy's t quantile stays
   an input.  Own imports, at the end: a failure here leaves the theorems above counted. *)
From V Require Import Generated.MetricsGen Model.MetricsReport Proofs.MetricsReportProofs.

(* U^2 = (factor * E * t)^2 * cvrmse_autocorr_adj^2 * n / (m n') * (1 + K / n'), with the sign of factor * E * t * cv *)
Theorem C16_total_savings_uncertainty : forall f M E t neg s n m np neg' s',
  total_savings_uncertainty f M E t (Root neg s) n m np = Root neg' s' ->
  (0 < m)%Z /\ 0 < np /\
  s' == sqr (freq_factor f M * E * t) * s * (inject_Z n / (inject_Z m * np) * (1 + gen_approx_const / np)) /\
  neg' = xorb neg (Qltb (freq_factor f M * E * t) 0).
Proof. exact tsu_spec. Qed.
Print Assumptions C16_total_savings_uncertainty.

Theorem C16_total_savings_uncertainty_undefined : forall f M E t cv n m np,
  total_savings_uncertainty f M E t cv n m np = Undef <->
  ((forall neg s, cv <> Root neg s) \/ (m <= 0)%Z \/ np <= 0).
Proof. exact tsu_undefined. Qed.
Print Assumptions C16_total_savings_uncertainty_undefined.

(* fsu * savings = U and predicted_data_point_unc^2 * m = U^2 *)
Theorem C16_fsu : forall neg s sv neg' s', fsu (Root neg s) sv = Root neg' s' ->
  ~ sv == 0 /\ s' * (sv * sv) == s /\ neg' = xorb neg (Qltb sv 0).
Proof. exact fsu_spec. Qed.
Print Assumptions C16_fsu.

Theorem C16_fsu_zero_savings : forall neg s sv, sv == 0 -> fsu (Root neg s) sv = if Qeq_bool s 0 then NaN else Inf neg.
Proof. exact fsu_zero_savings. Qed.
Print Assumptions C16_fsu_zero_savings.

Theorem C16_predicted_data_point_unc : forall neg s m neg' s', predicted_data_point_unc (Root neg s) m = Root neg' s' ->
  (0 < m)%Z /\ s' * inject_Z m == s /\ neg' = neg.
Proof. exact point_unc_spec. Qed.
Print Assumptions C16_predicted_data_point_unc.

(* M counts calendar months of rows with two finite cells only, and never exceeds 12 *)
Theorem C16_month_count : forall rows months, (forall x, In x months -> (1 <= x <= 12)%Z) ->
  (0 <= month_count rows months <= 12)%Z.
Proof. exact month_count_le_12. Qed.
Print Assumptions C16_month_count.

Theorem C16_month_count_nonfinite_ignored : forall a r b ma mr mb, nonfinite r -> length a = length ma ->
  finite_months (a ++ r :: b) (ma ++ mr :: mb) = finite_months (a ++ b) (ma ++ mb).
Proof. exact finite_months_nonfinite. Qed.
Print Assumptions C16_month_count_nonfinite_ignored.

Example C16_uncertainty_example :
  let rows := [(Some 10, Some 12); (None, Some 3); (Some 20, Some 21); (Some 30, Some 30)] in
  let u := reporting_uncertainty Daily rows [1; 1; 2; 3]%Z 2 (Root false (1 # 100)) 100 50 in
  u_M u = 3%Z /\ u_total u = Root false (337071660471 # 2500000000) /\
  u_fsu u = Root false (37452406719 # 2500000000) /\ u_point u = Root false (112357220157 # 2500000000) /\
  month_count rows [1; 1; 2; 3]%Z = month_count [(Some 10, Some 12); (Some 20, Some 21); (Some 30, Some 30)] [1; 2; 3]%Z /\
  u_total (reporting_uncertainty Hourly rows [1; 1; 2; 3]%Z 2 Undef 100 50) = Undef.
Proof. vm_compute. repeat split; reflexivity. Qed.

(* ---- obligations over the regenerated constants (closed by computation on what the source says NOW) ---- *)

(* every (field, numerator, denominator) entry of the source's _safe_divide table denotes the value the model reports
   for that field: nmae = mae / mean(observed), pnrmse_adj = rmse_adj / iqr(observed), ... *)
Theorem C16_source_ratio_table_is_the_model : forall pl d p mn np,
  let m := baseline_p pl d p mn in
  forall e, In e gen_ratio_table -> ratio_entry_value pl m np p mn e = ratio_field_value pl m np p mn (fst (fst e)).
Proof. exact ratio_table_entries. Qed.
Print Assumptions C16_source_ratio_table_is_the_model.

(* the constants the hand-written model builds in are the ones in the source: _min_denominator = 1e-3, variance ddof 0,
   IQR levels 1/4 and 3/4, ddof floors "< 1 -> 1", lag 1, fallback n' = 1, daily PNRMSE levels 5 % and 95 % *)
Theorem C16_source_constants_are_the_modelled_ones : constants_eqb generated_constants modelled_constants = true.
Proof. vm_compute. reflexivity. Qed.
Print Assumptions C16_source_constants_are_the_modelled_ones.

(* the ASHRAE constant is 2, and the frequency factor is positive and strictly increasing in M = 1 .. 12 for daily and
   billing data: more months never shrink the reported uncertainty *)
Theorem C16_source_uncertainty_constants : gen_approx_const == 2 /\ factor_table_ok = true /\
  gen_confidence_default == 9 # 10 /\ gen_t_tail_default == 2.
Proof. vm_compute. repeat split; reflexivity. Qed.
Print Assumptions C16_source_uncertainty_constants.

Example C16_source_constants_example :
  freq_factor Hourly 7 == 63 # 50 /\ freq_factor Daily 12 == 557 # 400 /\ freq_factor Billing 1 == 48669 # 50000 /\
  length gen_ratio_table = 10%nat.
Proof. vm_compute. repeat split; reflexivity. Qed.
