(* C19 — billing aggregation of predictions conserves totals.
   Statements only; proofs are in Proofs/BillingAggProofs.v and Proofs/BillingAggRoot.v; the model is Model/BillingAgg.v.
   [predict_agg mode has_obs a rows] is the part of BillingModel.predict (and BillingWeightedModel.predict: same text) that
   follows `df_res = self._predict(df)`: [rows] is that frame, [a] the `aggregation` argument, [has_obs] whether the
   reporting data carried an observed column, [mode] how the code treats its absence: ObsRequired = the code as it is
   (df_res["observed"] raises KeyError), ObsOptional = the proposed repair /var/tmp/proposed-fixes/C19-1.diff.
   The check (harness/c19.py) detects the mode on the implementation, runs the model in that mode, and reads from
   C19_mode_verdict whether the full statement is a theorem or refuted for it. *)
From Coq Require Import ZArith QArith Reals List Bool String.
From V Require Import Model.BillingAgg Model.BillingAggRun Proofs.BillingAggProofs Proofs.BillingAggRoot.
From V Require Import Generated.BillingAggGen Proofs.BillingAggGenProofs.
Import ListNotations.
Open Scope Z_scope.

(* ---- the parts of the statement ---- *)
(* one row per calendar period: the labels are the first month present, then every k-th month, up to the period that
   contains the last month present (periods without any row included), each exactly once *)
Definition one_row_per_period (k : Z) (rows : list drow) (out : list arow) : Prop :=
  forall m0 m1, min_month rows = Some m0 -> max_month rows = Some m1 ->
    map a_label out = map (fun n => m0 + k * Z.of_nat n) (seq 0 (Z.to_nat ((m1 - m0) / k + 1))) /\
    NoDup (map a_label out) /\
    m0 + k * ((m1 - m0) / k) <= m1 < m0 + k * ((m1 - m0) / k + 1).

(* each row is the aggregate of the daily rows whose calendar month lies in its period *)
Definition group_values (k : Z) (rows : list drow) (out : list arow) : Prop :=
  forall o, In o out ->
    let g := period_rows k (a_label o) rows in
    a_obs o = nansum (map d_obs g) /\ a_pred o = nansum (map d_pred g) /\
    a_heat o = nansum (map d_heat g) /\ a_cool o = nansum (map d_cool g) /\
    a_temp o = nanmean (map d_temp g) /\ a_uncsq o = sumsq (map d_unc g) /\
    a_season o = first_some (map d_season g) /\ a_split o = first_some (map d_split g) /\
    a_mtype o = first_some (map d_mtype g).

(* totals over the whole span are those of the daily frame *)
Definition totals_conserved (rows : list drow) (out : list arow) : Prop :=
  (qsum (map a_obs out) == nansum (map d_obs rows))%Q /\ (qsum (map a_pred out) == nansum (map d_pred rows))%Q /\
  (qsum (map a_heat out) == nansum (map d_heat rows))%Q /\ (qsum (map a_cool out) == nansum (map d_cool rows))%Q /\
  (qsum (map a_uncsq out) == sumsq (map d_unc rows))%Q.

Definition documented (a : agg_arg) : Prop :=
  a = ArgNone \/ (exists s, a = ArgStr s /\ lower s = "none"%string) \/ a = ArgStr "monthly" \/ a = ArgStr "bimonthly".

(* ---- the full statement, for a given treatment of a missing observed column ---- *)
Definition C19_statement (mode : obs_mode) : Prop :=
  forall (has_obs : bool) (rows : list drow),
    (forall a k, (a = ArgStr "monthly" /\ k = 1) \/ (a = ArgStr "bimonthly" /\ k = 2) ->
       exists out, predict_agg mode has_obs a rows = Aggregated k out /\
                   one_row_per_period k rows out /\ group_values k rows out /\ totals_conserved rows out) /\
    (forall a, ~ documented a -> exists e, predict_agg mode has_obs a rows = Rejected e).

(* the same restricted to reporting data that carried usage *)
Definition C19_statement_with_observed (mode : obs_mode) : Prop :=
  forall (rows : list drow),
    (forall a k, (a = ArgStr "monthly" /\ k = 1) \/ (a = ArgStr "bimonthly" /\ k = 2) ->
       exists out, predict_agg mode true a rows = Aggregated k out /\
                   one_row_per_period k rows out /\ group_values k rows out /\ totals_conserved rows out) /\
    (forall a, ~ documented a -> exists e, predict_agg mode true a rows = Rejected e).

(* ---- the parts, for the aggregation function itself ---- *)
Theorem C19_one_row_per_period : forall k rows, 0 < k -> one_row_per_period k rows (aggregate k rows).
Proof.
  intros k rows Hk m0 m1 H0 H1. split; [apply aggregate_labels; assumption|]. split; [apply aggregate_labels_NoDup; exact Hk|].
  apply (aggregate_span k rows m0 m1 Hk H0 H1).
Qed.
Print Assumptions C19_one_row_per_period.

Theorem C19_group_values : forall k rows, 0 < k -> group_values k rows (aggregate k rows).
Proof. intros k rows Hk o Ho. apply aggregate_group_values_calendar; assumption. Qed.
Print Assumptions C19_group_values.

Theorem C19_totals_conserved : forall k rows, 0 < k -> totals_conserved rows (aggregate k rows).
Proof.
  intros k rows Hk. repeat split;
    [apply totals_observed | apply totals_predicted | apply totals_heating | apply totals_cooling | apply totals_uncertainty_sq];
    exact Hk.
Qed.
Print Assumptions C19_totals_conserved.

(* every daily row is counted in exactly one period *)
Theorem C19_every_row_in_exactly_one_period : forall k rows m0 m1 r, 0 < k ->
  min_month rows = Some m0 -> max_month rows = Some m1 -> In r rows ->
  exists j, In j (bins k m0 m1) /\ In r (days_of k m0 j rows) /\ forall j', In r (days_of k m0 j' rows) -> j' = j.
Proof. exact row_in_exactly_one_period. Qed.
Print Assumptions C19_every_row_in_exactly_one_period.

(* temperature is the mean: weighting the period means by their day counts gives back the daily total *)
Theorem C19_temperature_weighted_mean_conserved : forall k rows m0 m1, 0 < k ->
  min_month rows = Some m0 -> max_month rows = Some m1 ->
  (qsum (map (fun j => let g := map d_temp (days_of k m0 j rows) in inject_Z (count g) * cval (nanmean g)) (bins k m0 m1))
   == nansum (map d_temp rows))%Q.
Proof. exact temperature_weighted_mean_conserved. Qed.
Print Assumptions C19_temperature_weighted_mean_conserved.

(* uncertainty with its square root (real numbers): the root-sum-square of the returned column is the root-sum-square of
   the daily column, hence the same at every aggregation level *)
Theorem C19_uncertainty_rss_conserved : forall k rows, 0 < k ->
  rss (map unc_of (aggregate k rows)) = sqrt (Q2R (sumsq (map d_unc rows))).
Proof. exact rss_conserved. Qed.
Print Assumptions C19_uncertainty_rss_conserved.

Theorem C19_uncertainty_same_at_every_level : forall rows,
  rss (map unc_of (aggregate 1 rows)) = rss (map unc_of (aggregate 2 rows)).
Proof. exact rss_same_at_every_level. Qed.
Print Assumptions C19_uncertainty_same_at_every_level.

(* totals are the same at every aggregation level *)
Theorem C19_levels_agree : forall rows,
  (qsum (map a_obs (aggregate 1 rows)) == qsum (map a_obs (aggregate 2 rows)))%Q /\
  (qsum (map a_pred (aggregate 1 rows)) == qsum (map a_pred (aggregate 2 rows)))%Q /\
  (qsum (map a_heat (aggregate 1 rows)) == qsum (map a_heat (aggregate 2 rows)))%Q /\
  (qsum (map a_cool (aggregate 1 rows)) == qsum (map a_cool (aggregate 2 rows)))%Q.
Proof.
  intros rows. repeat split.
  - rewrite !totals_observed by reflexivity. reflexivity.
  - rewrite !totals_predicted by reflexivity. reflexivity.
  - rewrite !totals_heating by reflexivity. reflexivity.
  - rewrite !totals_cooling by reflexivity. reflexivity.
Qed.
Print Assumptions C19_levels_agree.

(* ---- the argument ---- *)
Theorem C19_bad_argument_rejected : forall mode has_obs a rows,
  ~ documented a -> exists e, predict_agg mode has_obs a rows = Rejected e.
Proof.
  intros mode has_obs a rows H. apply bad_argument_rejected.
  - intros E. apply H. left. exact E.
  - intros s E. repeat split; intros E2; apply H; unfold documented; subst.
    + right. left. exists s. split; [reflexivity | exact E2].
    + right. right. left. reflexivity.
    + right. right. right. reflexivity.
Qed.
Print Assumptions C19_bad_argument_rejected.

Theorem C19_only_documented_accepted : forall mode has_obs a rows,
  (forall e, predict_agg mode has_obs a rows <> Rejected e) -> documented a.
Proof. exact not_rejected_is_documented. Qed.
Print Assumptions C19_only_documented_accepted.

Theorem C19_none_returns_daily_frame : forall mode has_obs a rows,
  (a = ArgNone \/ exists s, a = ArgStr s /\ lower s = "none"%string) -> predict_agg mode has_obs a rows = Daily rows.
Proof. exact none_returns_frame. Qed.
Print Assumptions C19_none_returns_daily_frame.

(* ---- the full statement ---- *)
Lemma statement_body : forall mode has_obs rows, (mode = ObsOptional \/ has_obs = true) ->
  forall a k, (a = ArgStr "monthly" /\ k = 1) \/ (a = ArgStr "bimonthly" /\ k = 2) ->
    exists out, predict_agg mode has_obs a rows = Aggregated k out /\
                one_row_per_period k rows out /\ group_values k rows out /\ totals_conserved rows out.
Proof.
  intros mode has_obs rows Hm a k H. destruct (monthly_aggregates mode has_obs rows Hm) as [M1 M2].
  destruct H as [[Ea Ek]|[Ea Ek]]; subst a k.
  - exists (aggregate 1 rows). split; [exact M1|].
    split; [apply C19_one_row_per_period | split; [apply C19_group_values | apply C19_totals_conserved]]; reflexivity.
  - exists (aggregate 2 rows). split; [exact M2|].
    split; [apply C19_one_row_per_period | split; [apply C19_group_values | apply C19_totals_conserved]]; reflexivity.
Qed.

(* the code as it is satisfies the statement whenever the reporting data carried usage *)
Theorem C19_statement_with_observed_holds : forall mode, C19_statement_with_observed mode.
Proof.
  intros mode rows. split; [apply statement_body; right; reflexivity | intros a H; apply C19_bad_argument_rejected; exact H].
Qed.
Print Assumptions C19_statement_with_observed_holds.

(* with the repair (observed aggregated only when present) the full statement is a theorem *)
Theorem C19_statement_repaired : C19_statement ObsOptional.
Proof.
  intros has_obs rows. split; [apply statement_body; left; reflexivity | intros a H; apply C19_bad_argument_rejected; exact H].
Qed.
Print Assumptions C19_statement_repaired.

(* the code as it is: refuted by any reporting data without usage ("with/without observed" is in the quantifier) *)
Definition f1_witness : list drow :=
  [mkdrow 18647 (Some (50#1)) None (Some (20#1)) (Some (1#2)) (Some 0) (Some 0) (Some 2%Z) (Some 0%Z) (Some 1%Z)]%Q.
Theorem C19_statement_refuted_as_coded : ~ C19_statement ObsRequired.
Proof.
  intros H. destruct (H false f1_witness) as [H1 _].
  destruct (H1 (ArgStr "monthly") 1 (or_introl (conj eq_refl eq_refl))) as [out [E _]].
  vm_compute in E. discriminate.
Qed.
Print Assumptions C19_statement_refuted_as_coded.

(* verdict per mode: the check evaluates [obs_mode_satisfies_statement] on the mode it observed *)
Theorem C19_mode_verdict : forall mode, C19_statement mode <-> obs_mode_satisfies_statement mode = true.
Proof.
  intros [|]; cbn; split; intros H; try reflexivity; try discriminate.
  - exfalso. exact (C19_statement_refuted_as_coded H).
  - exact C19_statement_repaired.
Qed.
Print Assumptions C19_mode_verdict.

(* ---- the calendar the periods are named by (days 2000-01-01 .. 2049-12-31, closed by computation) ---- *)
Theorem C19_calendar : forall d, 10957 <= d < 29220 -> calendar_ok d = true.
Proof. exact calendar_2000_2050. Qed.
Print Assumptions C19_calendar.

(* ---- non-vacuity: 2021-01-20 .. 2021-04-02 with a hole (no row in March), NaN cells, partial first and last month ---- *)
Definition ex_day (d : Z) (t o p : cell) : drow :=
  mkdrow d t o p (Some (1#2)%Q) (match p with Some _ => Some 1%Q | None => None end) (Some 0%Q) (Some 2%Z) (Some 0%Z) (Some 1%Z).
Definition ex_rows : list drow :=
  [ ex_day 18647 (Some 30) (Some 10) (Some 12);      (* 2021-01-20 *)
    ex_day 18648 None (Some 7) None;                 (* 2021-01-21, no temperature -> no prediction *)
    ex_day 18659 (Some 40) None None;                (* 2021-02-01, no usage *)
    ex_day 18660 (Some 50) (Some 5) (Some 6);        (* 2021-02-02 *)
    ex_day 18718 (Some 60) (Some 1) (Some 2);        (* 2021-04-01 *)
    ex_day 18719 (Some 70) (Some 3) (Some 4) ]%Q.    (* 2021-04-02 *)
Example C19_nonvacuous_monthly :
  map (fun o => (a_label o, a_temp o, a_obs o, a_pred o, a_uncsq o)) (aggregate 1 ex_rows)
  = [ (24252%Z, Some 30, 17, 12, 1#2); (24253%Z, Some 45, 5, 6, 1#2); (24254%Z, None, 0, 0, 0); (24255%Z, Some 65, 4, 6, 1#2) ]%Q
  /\ min_month ex_rows = Some 24252 /\ max_month ex_rows = Some 24255.
Proof. vm_compute. repeat split. Qed.
Example C19_nonvacuous_bimonthly :
  map (fun o => (a_label o, a_temp o, a_obs o, a_pred o, a_uncsq o)) (aggregate 2 ex_rows)
  = [ (24252%Z, Some 40, 22, 18, 1); (24254%Z, Some 65, 4, 6, 1#2) ]%Q.
Proof. vm_compute. reflexivity. Qed.
Example C19_nonvacuous_arguments :
  ~ documented (ArgStr "quarterly") /\ ~ documented (ArgStr "Monthly") /\ ~ documented ArgOther /\
  documented (ArgStr "NoNe") /\ predict_agg ObsRequired true (ArgStr "quarterly") ex_rows = Rejected ValueErr.
Proof.
  repeat split; try (intros [H|[[s [H1 H2]]|[H|H]]]; try discriminate; inversion H1; subst; vm_compute in H2; discriminate).
  right. left. exists "NoNe"%string. split; reflexivity.
Qed.
Example C19_refuted_witness_is_fine_when_repaired :
  exists out, predict_agg ObsOptional false (ArgStr "monthly") f1_witness = Aggregated 1 out /\ List.length out = 1%nat.
Proof. eexists. split; vm_compute; reflexivity. Qed.

(* ================================================================================================================
   The source's own tables (Generated/BillingAggGen.v, rewritten on every run by harness/translate_billing_agg.py from
   BillingModel.predict and BillingWeightedModel.predict: the if/elif chain on `aggregation`, and which column of df_res is
   reduced by which function in which order, `observed` only when present).  [parse_arg_by], [aggregate_by] and
   [predict_agg_by] (Model/BillingAgg.v) interpret such tables.  The statement below is about the interpreted SOURCE
   tables, for every argument and every frame; the obligations C19_source_* stop checking when the source says
   something else. *)
Definition C19_source_statement (chain : arg_chain) (else_raises : err) (t : agg_table) : Prop :=
  forall (has_obs : bool) (rows : list drow),
    (forall a k, (a = ArgStr "monthly" /\ k = 1) \/ (a = ArgStr "bimonthly" /\ k = 2) ->
       exists out, predict_agg_by chain else_raises t has_obs a rows = Some (Aggregated k out) /\
                   one_row_per_period k rows out /\ group_values k rows out /\ totals_conserved rows out) /\
    (forall a, ~ documented a -> exists e, predict_agg_by chain else_raises t has_obs a rows = Some (Rejected e)) /\
    (forall a, (a = ArgNone \/ exists s, a = ArgStr s /\ lower s = "none"%string) ->
       predict_agg_by chain else_raises t has_obs a rows = Some (Daily rows)).

(* the tables of the source are the tables the model is written from (closed by computation on the regenerated file) *)
Theorem C19_source_argument_chain :
  (gen_arg_chain_billing = model_arg_chain /\ gen_arg_else_billing = ValueErr) /\
  (gen_arg_chain_weighted = model_arg_chain /\ gen_arg_else_weighted = ValueErr).
Proof. exact (conj source_arg_chain_billing source_arg_chain_weighted). Qed.
Print Assumptions C19_source_argument_chain.

Theorem C19_source_aggregation_table :
  gen_agg_table_billing = model_agg_table /\ gen_agg_table_weighted = model_agg_table.
Proof. exact (conj source_agg_table_billing source_agg_table_weighted). Qed.
Print Assumptions C19_source_aggregation_table.

(* for every argument: the source's chain decides exactly as the model's parser *)
Theorem C19_source_parse_is_model_parse : forall a,
  parse_arg_by gen_arg_chain_billing gen_arg_else_billing a = Some (parse_arg a) /\
  parse_arg_by gen_arg_chain_weighted gen_arg_else_weighted a = Some (parse_arg a).
Proof. intros a. exact (conj (source_parse_billing a) (source_parse_weighted a)). Qed.
Print Assumptions C19_source_parse_is_model_parse.

(* for every frame: reducing the columns as the source's table says gives exactly the model's aggregate *)
Theorem C19_source_aggregate_is_model_aggregate : forall k rows,
  aggregate_by gen_agg_table_billing k rows = Some (aggregate k rows) /\
  aggregate_by gen_agg_table_weighted k rows = Some (aggregate k rows).
Proof. intros k rows. exact (conj (source_aggregate_billing k rows) (source_aggregate_weighted k rows)). Qed.
Print Assumptions C19_source_aggregate_is_model_aggregate.

Lemma source_statement_from_predict : forall chain e t,
  (forall has_obs a rows, predict_agg_by chain e t has_obs a rows = Some (predict_agg ObsOptional has_obs a rows)) ->
  C19_source_statement chain e t.
Proof.
  intros chain e t H has_obs rows. destruct (C19_statement_repaired has_obs rows) as [S1 S2]. repeat split.
  - intros a k Hk. destruct (S1 a k Hk) as [out [E R]]. exists out. rewrite H, E. split; [reflexivity | exact R].
  - intros a Ha. destruct (S2 a Ha) as [x E]. exists x. rewrite H, E. reflexivity.
  - intros a Ha. rewrite H, (C19_none_returns_daily_frame ObsOptional has_obs a rows Ha). reflexivity.
Qed.

(* the full statement, for the tables read from the source of the two classes *)
Theorem C19_source_statement_billing :
  C19_source_statement gen_arg_chain_billing gen_arg_else_billing gen_agg_table_billing.
Proof. exact (source_statement_from_predict _ _ _ source_predict_billing). Qed.
Print Assumptions C19_source_statement_billing.

Theorem C19_source_statement_weighted :
  C19_source_statement gen_arg_chain_weighted gen_arg_else_weighted gen_agg_table_weighted.
Proof. exact (source_statement_from_predict _ _ _ source_predict_weighted). Qed.
Print Assumptions C19_source_statement_weighted.

(* the treatment of a missing observed column, read from the source, is the one for which C19_statement is a theorem *)
Theorem C19_source_obs_mode :
  table_obs_mode gen_agg_table_billing = ObsOptional /\ table_obs_mode gen_agg_table_weighted = ObsOptional /\
  C19_statement (table_obs_mode gen_agg_table_billing).
Proof.
  rewrite source_agg_table_billing, source_agg_table_weighted.
  split; [reflexivity | split; [reflexivity | exact C19_statement_repaired]].
Qed.
Print Assumptions C19_source_obs_mode.

(* ---- non-vacuity, and what the obligations exclude ---- *)
Example C19_source_tables_run :
  aggregate_by gen_agg_table_billing 1 ex_rows = Some (aggregate 1 ex_rows) /\
  List.length (aggregate 1 ex_rows) = 4%nat /\
  predict_agg_by gen_arg_chain_billing gen_arg_else_billing gen_agg_table_billing false (ArgStr "bimonthly") ex_rows
  = Some (Aggregated 2 (aggregate 2 ex_rows)) /\
  predict_agg_by gen_arg_chain_weighted gen_arg_else_weighted gen_agg_table_weighted true (ArgStr "quarterly") ex_rows
  = Some (Rejected ValueErr).
Proof. vm_compute. repeat split. Qed.

(* tables a careless edit could produce are NOT harmless: each of them is refuted as a replacement of the source's table *)
Definition table_with (c : string) (f : aggfn) : agg_table :=
  map (fun e => if String.eqb (fst (fst e)) c then (c, f, snd e) else e) model_agg_table.
Example C19_observed_by_mean_refuted :          (* seeded: observed aggregated by mean *)
  exists out, aggregate_by (table_with "observed" FMean) 1 ex_rows = Some out /\ ~ totals_conserved ex_rows out.
Proof. eexists. split; [vm_compute; reflexivity|]. intros [H _]. vm_compute in H. discriminate. Qed.
Example C19_uncertainty_by_sum_refuted :        (* seeded: uncertainty by plain sum: (sum u)^2 is not sum u^2 *)
  exists out, aggregate_by (table_with "predicted_unc" FSum) 2 ex_rows = Some out /\
              ~ (qsum (map (fun o => a_uncsq o * a_uncsq o) out) == sumsq (map d_unc ex_rows))%Q.
Proof. eexists. split; [vm_compute; reflexivity|]. intros H. vm_compute in H. discriminate. Qed.
Example C19_quarterly_chain_refuted :           (* seeded: "quarterly" accepted *)
  exists o, parse_arg_by (model_arg_chain ++ [(TEq "quarterly", RFreq "2MS")]) ValueErr (ArgStr "quarterly") = Some o /\
            o <> parse_arg (ArgStr "quarterly").
Proof. eexists. split; [vm_compute; reflexivity | discriminate]. Qed.
Example C19_month_end_rule_outside_model :      (* seeded: "2MS" -> "2ME": no calendar-period meaning in this model *)
  parse_arg_by [(TEq "bimonthly", RFreq "2ME")] ValueErr (ArgStr "bimonthly") = None.
Proof. reflexivity. Qed.
Example C19_other_reducer_refused :
  aggregate_by (table_with "observed" FOther) 1 ex_rows = None.
Proof. vm_compute. reflexivity. Qed.
