(* C09 — daily temperature is the local-day mean of the hourly temperatures.
   Statements only; proofs are in Proofs/TempAggProofs.v; the model is Model/TempAgg.v (exact rationals, time in whole
   UTC minutes; the meter index - one stamp per meter day: local midnights or the meter's own reading hour - is data,
   so 23-, 24- and 25-hour days and meter days that start at 06:00 are covered by the same theorems).
   Vocabulary: group tol lo hi temps = the readings merge_asof matches to the meter day that starts at lo and is closed
   by hi; agg = (mean of the present readings, number present, number absent) with the whole row blank when nothing is
   present; day_reference = the property's value of a day: mean of the present readings, missing when half or fewer
   are present. *)
From Coq Require Import ZArith QArith List Bool Lia.
From V Require Import Model.Resample Model.Cmp Model.TempAgg Generated.TempAggGen Proofs.ResampleProofs Proofs.TempAggProofs Proofs.TempAggGenProofs.
Import ListNotations.
Open Scope Z_scope.

(* ------------------------------------------------------------------------------------------------ *)
(* A. hourly feed                                                                                    *)
(* ------------------------------------------------------------------------------------------------ *)

(* day matching: the readings of the meter day [lo, hi) are exactly those stamped in it *)
Theorem C09_matching_groups : forall tol lo hi temps r,
  In r (group tol lo hi temps) <->
  In r temps /\ lo <= stamp r /\ (forall h, hi = Some h -> stamp r < h) /\ (forall d, tol = Some d -> stamp r - lo <= d).
Proof. exact matching_groups_l. Qed.
Print Assumptions C09_matching_groups.

(* no reading is used for two consecutive meter days *)
Theorem C09_groups_disjoint : forall tol lo hi lo' hi' temps r, hi = Some lo' ->
  In r (group tol lo hi temps) -> ~ In r (group tol lo' hi' temps).
Proof. exact groups_disjoint_l. Qed.
Print Assumptions C09_groups_disjoint.

(* hourly_day_mean + counts_exact: a day with at least one present reading carries the mean of its present readings
   and the exact numbers of present and absent readings *)
Theorem C09_hourly_day_mean_and_counts : forall g, 0 < n_present g ->
  t_mean (agg g) = Some (qsum (present g) / inject_Z (n_present g))%Q /\
  t_notnull (agg g) = Some (n_present g) /\ t_null (agg g) = Some (n_absent g).
Proof. exact agg_present_l. Qed.
Print Assumptions C09_hourly_day_mean_and_counts.

Theorem C09_present_plus_absent : forall g, n_present g + n_absent g = zlen g.
Proof. exact present_absent_total. Qed.
Print Assumptions C09_present_plus_absent.

(* a day without a single present reading: the row is blank, counts included ... *)
Theorem C09_all_missing_day_is_blank : forall g, n_present g = 0 -> agg g = blank.
Proof. exact agg_blank_l. Qed.
Print Assumptions C09_all_missing_day_is_blank.

(* ... which the sufficiency test (not_null / (not_null + null) > 1/2, NaN compares false) reads like the exact
   counts (0, n): an invalid temperature day *)
Theorem C09_blank_row_is_invalid_day :
  valid_temperature_day blank = false /\ forall m n, 0 <= n -> valid_temperature_day (mkT m (Some 0) (Some n)) = false.
Proof. exact blank_row_is_invalid_day_l. Qed.
Print Assumptions C09_blank_row_is_invalid_day.

(* half_rule: when the feed is recognised as sub-daily (median of the per-day totals above 1), the daily class
   reports for the readings g of a day exactly the property's value: the mean of the present ones when more than
   half are present, missing otherwise *)
Theorem C09_half_rule : forall g m2, t_mean (after_half false m2 (agg g)) = day_reference g.
Proof. exact half_rule_l. Qed.
Print Assumptions C09_half_rule.

Theorem C09_half_rule_applies : forall billing rows m2,
  median2 (somes (map total rows)) = Some m2 -> 2 < m2 -> apply_half billing rows = map (after_half billing m2) rows.
Proof. exact apply_half_l. Qed.
Print Assumptions C09_half_rule_applies.

(* the half rule never touches the counts *)
Theorem C09_half_rule_keeps_counts : forall billing rows,
  map t_notnull (apply_half billing rows) = map t_notnull rows /\ map t_null (apply_half billing rows) = map t_null rows.
Proof. exact apply_half_counts_l. Qed.
Print Assumptions C09_half_rule_keeps_counts.

(* the billing class blanks more: also days with not_null <= median / 2 (m2 = twice the median of the day totals);
   on a 23-hour day with 12 of 23 readings present (more than half) the value is dropped *)
Theorem C09_half_rule_billing : forall g m2, 0 < n_present g ->
  t_mean (after_half true m2 (agg g)) =
  if (2 * n_present g <=? zlen g) || (4 * n_present g <=? m2) then None else t_mean (agg g).
Proof. exact half_rule_billing_l. Qed.
Print Assumptions C09_half_rule_billing.

(* the class' rows: one per meter day; day j is closed by day j+1, the last one by its start + 24 elapsed hours *)
Theorem C09_hourly_rows : forall billing tol midx temps out,
  hourly_path billing tol midx temps = TRows out -> midx <> [] ->
  out = apply_half billing
          (map (fun p => agg (group tol (fst p) (Some (snd p)) temps)) (pairs (midx ++ [last midx 0 + 1440]))).
Proof. exact hourly_path_rows_l. Qed.
Print Assumptions C09_hourly_rows.

Theorem C09_one_row_per_meter_day : forall billing tol midx temps out,
  hourly_path billing tol midx temps = TRows out -> length out = length midx.
Proof. exact hourly_path_length_l. Qed.
Print Assumptions C09_one_row_per_meter_day.

(* offset_invariance: only the timing of the feed relative to the meter days matters - moving both by the same
   duration (the same site seen at another UTC offset) gives the same rows *)
Theorem C09_offset_invariance : forall billing tol d midx temps,
  hourly_path billing tol (map (fun x => x + d) midx) (shift d temps) = hourly_path billing tol midx temps.
Proof. exact hourly_path_shift_l. Qed.
Print Assumptions C09_offset_invariance.

(* ------------------------------------------------------------------------------------------------ *)
(* B. other feeds (30-minute, 15-minute, ...)                                                        *)
(* ------------------------------------------------------------------------------------------------ *)

(* the day mean as_freq(instantaneous) computes over the 1-minute grid is, for aligned readings of one common
   length, the plain mean of the readings present in the day - whatever the length of the day *)
Theorem C09_inst_mean_is_mean_of_present : forall lo hi ivs step, lo <= hi -> 0 < step -> no_straddle lo hi ivs ->
  (forall iv, In iv ivs -> inside lo hi iv = true -> ihi iv = ilo iv + step) ->
  0 < n_present_in lo hi ivs ->
  oq_eq (inst_mean lo hi ivs) (Some (readings_in lo hi ivs / inject_Z (n_present_in lo hi ivs))%Q).
Proof. exact inst_mean_regular_l. Qed.
Print Assumptions C09_inst_mean_is_mean_of_present.

(* ... and its coverage is the share of the day's minutes held by present readings *)
Theorem C09_inst_coverage : forall lo hi ivs step, lo < hi -> no_straddle lo hi ivs ->
  (forall iv, In iv ivs -> inside lo hi iv = true -> ihi iv = ilo iv + step) ->
  (coverage lo hi ivs false == inject_Z (step * n_present_in lo hi ivs) / inject_Z (hi - lo))%Q.
Proof. exact coverage_regular_l. Qed.
Print Assumptions C09_inst_coverage.

(* what the class makes of (mean, coverage): scale = true is the code as it is (the mean is divided by the coverage),
   scale = false the repair *)
Theorem C09_temp_value : forall scale v c,
  temp_value scale v c =
  if qltb half c then (if scale then option_map (fun x => (x / c)%Q) v else v) else None.
Proof. exact temp_value_l. Qed.
Print Assumptions C09_temp_value.

(* the statement for such feeds: every day of the class but the last carries day_reference of its readings and their
   exact counts.  regular: every reading is closed by the next slot; the day is in phase with the slots. *)
Definition regular_feedb (step : Z) (rs : list reading) : bool :=
  forallb (fun iv => ihi iv =? ilo iv + step) (intervals rs).

Definition C09_subhourly_statement (scale exact : bool) : Prop :=
  forall step rs bs lo hi t,
    0 < step -> regular_feedb step rs = true ->
    In (lo, hi) (removelast (filter (relevant rs) (pairs bs))) ->
    (lo - first_stamp rs) mod step = 0 -> (hi - lo) mod step = 0 -> first_stamp rs <= lo ->
    In (lo, t) (subhourly_path scale exact rs bs) ->
    oq_eq (t_mean t) (day_reference (group None lo (Some hi) rs)) /\
    (t_notnull t, t_null t) = day_counts_exact rs lo hi.

(* the witness (replayed on the implementation by harness/c09.py): half-hourly readings of 30.0 F over four UTC days,
   the 12 readings 06:00-11:30 of 2024-01-02 missing.  36 of 48 readings are present, their mean is 30.0; the class
   divides the bucket mean by the coverage 3/4 and reports 40.0, and it counts (1, 0) - the flag of the 00:00
   reading - instead of (36, 12). *)
Definition wit9_t0 : Z := 28401120.
Definition wit9_rs : list reading :=
  map (fun k => (wit9_t0 + 30 * Z.of_nat k,
                 if (60 <=? Z.of_nat k) && (Z.of_nat k <? 72) then None else Some 30%Q)) (seq 0 192).
Definition wit9_bs : list Z := map (fun k => wit9_t0 + 1440 * Z.of_nat k) (seq 0 5).

Definition wit9_row (scale : bool) : trow := snd (nth 1 (subhourly_path scale false wit9_rs wit9_bs) (0, blank)).

Theorem C09_subhourly_day_mean_refuted : ~ C09_subhourly_statement true false.
Proof.
  intro H.
  specialize (H 30 wit9_rs wit9_bs (wit9_t0 + 1440) (wit9_t0 + 2880) (wit9_row true)).
  assert (oq_eq (t_mean (wit9_row true)) (day_reference (group None (wit9_t0 + 1440) (Some (wit9_t0 + 2880)) wit9_rs)) /\
          (t_notnull (wit9_row true), t_null (wit9_row true)) = day_counts_exact wit9_rs (wit9_t0 + 1440) (wit9_t0 + 2880))
    as [E _].
  { apply H; try (vm_compute; reflexivity).
    - vm_compute. right. left. reflexivity.
    - vm_compute. discriminate.
    - vm_compute. right. left. reflexivity. }
  vm_compute in E. discriminate E.
Qed.
Print Assumptions C09_subhourly_day_mean_refuted.

(* the counts alone are refuted as well, even with the value repaired *)
Theorem C09_subhourly_counts_refuted : ~ C09_subhourly_statement false false.
Proof.
  intro H.
  specialize (H 30 wit9_rs wit9_bs (wit9_t0 + 1440) (wit9_t0 + 2880) (wit9_row false)).
  assert (oq_eq (t_mean (wit9_row false)) (day_reference (group None (wit9_t0 + 1440) (Some (wit9_t0 + 2880)) wit9_rs)) /\
          (t_notnull (wit9_row false), t_null (wit9_row false)) = day_counts_exact wit9_rs (wit9_t0 + 1440) (wit9_t0 + 2880))
    as [_ E].
  { apply H; try (vm_compute; reflexivity).
    - vm_compute. right. left. reflexivity.
    - vm_compute. discriminate.
    - vm_compute. right. left. reflexivity. }
  vm_compute in E. discriminate E.
Qed.
Print Assumptions C09_subhourly_counts_refuted.

(* what the code as it is, and the repaired code (proposed-fixes/C09-1.diff), report for the witness *)
Example C09_witness_values :
  map (fun r => (option_map Qred (t_mean (snd r)), t_notnull (snd r), t_null (snd r))) (subhourly_path true false wit9_rs wit9_bs) =
    [(Some 30%Q, Some 1, Some 0); (Some 40%Q, Some 1, Some 0); (Some 30%Q, Some 1, Some 0); (Some 30%Q, Some 1, Some 0)] /\
  map (fun r => (option_map Qred (t_mean (snd r)), t_notnull (snd r), t_null (snd r))) (subhourly_path false true wit9_rs wit9_bs) =
    [(Some 30%Q, Some 48, Some 0); (Some 30%Q, Some 36, Some 12); (Some 30%Q, Some 48, Some 0); (Some 30%Q, Some 48, Some 0)].
Proof. split; vm_compute; reflexivity. Qed.

(* ------------------------------------------------------------------------------------------------ *)
(* B'. _set_data's zero rule ("electricity data with 0 meter values are converted to NaNs")          *)
(* ------------------------------------------------------------------------------------------------ *)

(* temperature cells are never altered by the zero rule: a reading of exactly 0.0 F is a present reading, for
   electricity and for gas *)
Theorem C09_zero_rule_keeps_temperature : forall elec fr, temps_of (set_data elec fr) = temps_of fr.
Proof. exact zero_rule_keeps_temperature_l. Qed.
Print Assumptions C09_zero_rule_keeps_temperature.

(* hence the temperature side of the classes does not depend on the fuel *)
Theorem C09_temperature_independent_of_fuel : forall elec billing tol midx fr,
  class_hourly elec billing tol midx fr = hourly_path billing tol midx (temps_of fr).
Proof. exact class_hourly_fuel_l. Qed.
Print Assumptions C09_temperature_independent_of_fuel.

Theorem C09_subhourly_independent_of_fuel : forall elec scale exact fr bs,
  class_subhourly elec scale exact fr bs = subhourly_path scale exact (temps_of fr) bs.
Proof. exact class_subhourly_fuel_l. Qed.
Print Assumptions C09_subhourly_independent_of_fuel.

(* the usage column: untouched for gas (a usage of exactly 0 stays 0), zero -> NaN for electricity *)
Theorem C09_zero_rule_usage_only : forall elec fr, usage_of (set_data elec fr) = zero_to_nan elec (usage_of fr).
Proof. exact zero_rule_usage_l. Qed.
Print Assumptions C09_zero_rule_usage_only.

Example C09_nonvacuous_zero_rule :
  let fr : list frow := [(0, Some 0%Q, Some 0%Q); (60, Some 3%Q, Some 0%Q); (120, None, Some (-2)%Q)] in
  set_data true fr = [(0, None, Some 0%Q); (60, Some 3%Q, Some 0%Q); (120, None, Some (-2)%Q)] /\ set_data false fr = fr /\
  n_present (temps_of (set_data true fr)) = 3.
Proof. repeat split; vm_compute; reflexivity. Qed.

(* ------------------------------------------------------------------------------------------------ *)
(* C. non-vacuity                                                                                    *)
(* ------------------------------------------------------------------------------------------------ *)

(* hourly readings over a 25-hour day [0, 1500) followed by a 24-hour day; 13 / 12 of the 25 readings present *)
Definition ex9_temps (present25 : nat) : list reading :=
  map (fun k => (60 * Z.of_nat k, if (k <? present25)%nat then Some (inject_Z (Z.of_nat k)) else None)) (seq 0 49).

Example C09_nonvacuous_day :
  n_present (group None 0 (Some 1500) (ex9_temps 13)) = 13 /\ n_absent (group None 0 (Some 1500) (ex9_temps 13)) = 12 /\
  option_map Qred (day_reference (group None 0 (Some 1500) (ex9_temps 13))) = Some 6%Q /\
  day_reference (group None 0 (Some 1500) (ex9_temps 12)) = None /\
  n_present (group None 1500 (Some 2940) (ex9_temps 13)) = 0 /\ agg (group None 1500 (Some 2940) (ex9_temps 13)) = blank.
Proof. repeat split; vm_compute; reflexivity. Qed.

Example C09_nonvacuous_hourly_path :
  match hourly_path false None [0; 1500] (ex9_temps 13) with
  | TRows rows => map (fun r => (option_map Qred (t_mean r), t_notnull r, t_null r)) rows =
                  [(Some 6%Q, Some 13, Some 12); (None, None, None)]
  | TErrAllNaN => False
  end /\
  match hourly_path false None [0; 1500] (ex9_temps 12) with
  | TRows rows => map (fun r => (t_mean r, t_notnull r, t_null r)) rows = [(None, Some 12, Some 13); (None, None, None)]
  | TErrAllNaN => False
  end /\
  hourly_path false None [0; 1500] (ex9_temps 0) = TErrAllNaN /\
  median2 (somes (map total (map (fun p => agg (group None (fst p) (Some (snd p)) (ex9_temps 13))) (pairs [0; 1500; 2940])))) = Some 50.
Proof. repeat split; vm_compute; reflexivity. Qed.

Example C09_nonvacuous_inst :
  no_straddle 1440 2880 (intervals_inst (map (fun r => (stamp r - wit9_t0, rval r)) wit9_rs)) /\
  n_present_in 1440 2880 (intervals_inst (map (fun r => (stamp r - wit9_t0, rval r)) wit9_rs)) = 36 /\
  option_map Qred (inst_mean 1440 2880 (intervals_inst (map (fun r => (stamp r - wit9_t0, rval r)) wit9_rs))) = Some 30%Q /\
  Qred (coverage 1440 2880 (intervals_inst (map (fun r => (stamp r - wit9_t0, rval r)) wit9_rs)) false) = (3 # 4)%Q.
Proof.
  split; [|repeat split; vm_compute; reflexivity].
  intros iv Hiv.
  assert (forallb (fun iv => (ilo iv <? ihi iv) &&
                             ((ihi iv <=? 1440) || (2880 <=? ilo iv) || ((1440 <=? ilo iv) && (ihi iv <=? 2880))))
                  (intervals_inst (map (fun r => (stamp r - wit9_t0, rval r)) wit9_rs)) = true) as Hall
    by (vm_compute; reflexivity).
  rewrite forallb_forall in Hall. specialize (Hall iv Hiv).
  apply andb_true_iff in Hall. destruct Hall as [H1 H2]. apply Z.ltb_lt in H1. split; [exact H1|].
  apply orb_true_iff in H2. destruct H2 as [H2|H2].
  - apply orb_true_iff in H2. destruct H2 as [H2|H2]; [left; apply Z.leb_le; exact H2|right; left; apply Z.leb_le; exact H2].
  - apply andb_true_iff in H2. destruct H2 as [Ha Hb]. right. right. split; apply Z.leb_le; assumption.
Qed.

(* ------------------------------------------------------------------------------------------------ *)
(* D. the model's tests and constants are the source's own (Generated/TempAggGen.v, regenerated from           *)
(*    _DailyData / _BillingData._compute_temperature_features by harness/translate_resample.py on every run)   *)
(* ------------------------------------------------------------------------------------------------ *)

(* both classes follow one variant of the model *)
Theorem C09_classes_same_variant :
  gen_daily_scaled = gen_billing_scaled /\ gen_daily_keep = gen_billing_keep /\ gen_daily_median = gen_billing_median /\
  gen_daily_ratio = gen_billing_ratio /\ gen_daily_buffer = gen_billing_buffer.
Proof. exact classes_same_variant_l. Qed.
Print Assumptions C09_classes_same_variant.

(* other feeds: the day value the class keeps, by the source's test on the coverage and the source's (absence of a)
   division by the coverage *)
Theorem C09_temp_value_is_generated : forall v c,
  temp_value gen_daily_scaled v c =
  if cmpq gen_daily_keep c then (if gen_daily_scaled then option_map (fun x => (x / c)%Q) v else v) else None.
Proof. exact temp_value_generated_l. Qed.
Print Assumptions C09_temp_value_is_generated.

Theorem C09_temperature_warning_complement : forall c, cmpq gen_daily_warn c = negb (cmpq gen_daily_keep c).
Proof. exact temperature_warning_complement_l. Qed.
Print Assumptions C09_temperature_warning_complement.

(* hourly feed: the three tests of the half rule are the source's *)
Theorem C09_median_test_is_generated : forall m2, (2 <? m2) = cmpq gen_daily_median (m2 # 2).
Proof. exact median_test_generated_l. Qed.
Print Assumptions C09_median_test_is_generated.

Theorem C09_half_rule_row_test_is_generated : forall billing m2 m a b, 0 < a + b ->
  invalid_row billing m2 (mkT m (Some a) (Some b)) =
  cmpq gen_daily_ratio (a # Z.to_pos (a + b)) ||
  share_test (if billing then gen_billing_median_share else gen_daily_median_share) a m2.
Proof. exact invalid_row_generated_l. Qed.
Print Assumptions C09_half_rule_row_test_is_generated.

(* the last meter day is closed by the source's buffer (pd.Timedelta(days=1) = 1440 elapsed minutes) *)
Theorem C09_buffer_is_generated : forall billing tol midx temps,
  hourly_path billing tol midx temps = hourly_path_buf gen_daily_buffer billing tol midx temps.
Proof. exact buffer_generated_l. Qed.
Print Assumptions C09_buffer_is_generated.

Example C09_nonvacuous_generated :
  cmpq gen_daily_keep (3 # 4) = true /\ cmpq gen_daily_keep (1 # 2) = false /\
  cmpq gen_daily_ratio (12 # 24) = true /\ cmpq gen_daily_ratio (13 # 24) = false /\
  invalid_row true 48 (mkT None (Some 12) (Some 11)) = true /\ invalid_row false 48 (mkT None (Some 12) (Some 11)) = false /\
  share_test gen_billing_median_share 12 48 = true /\ gen_daily_buffer = 1440.
Proof. repeat split; vm_compute; reflexivity. Qed.

(* with the source's own variant the witness day (36 of 48 half-hours present, all 30.0 F) is reported as 30.0 *)
Example C09_witness_under_generated_variant :
  option_map Qred (t_mean (wit9_row gen_daily_scaled)) = Some 30%Q.
Proof. vm_compute. reflexivity. Qed.
