(* C04 — the disqualification gate is fail-closed and survives storage.
   Model: Model/Gate.v (guard order per family as coded; the numeric fit is the oracle [poor]).
   Every statement holds for an arbitrary oracle. *)
From Coq Require Import ZArith List Bool.
From V Require Import Model.Gate Proofs.GateProofs.
From V Require Import Generated.GateGen Proofs.GateGenProofs.
Import ListNotations.
Open Scope Z_scope.

(* fit on well-typed baseline data raises DataSufficiencyError exactly when the data carries a
   disqualification and the override is not given; otherwise it returns a fitted model (the only other
   outcome is the explicit-GHI configuration error of the hourly model) *)
Theorem C04_fit_gate : forall poor f s d i, is_baseline_of f (d_kind d) = true ->
  (snd (fit poor f s d i) = Err DataSufficiency <-> (d_dq d <> [] /\ i = false)) /\
  (snd (fit poor f s d i) = Fitted \/ snd (fit poor f s d i) = Err DataSufficiency \/
   (f = Hourly /\ m_ghi s = true /\ d_ghi d = false /\ snd (fit poor f s d i) = Err ValueMissingFeature)).
Proof. exact fit_gate_l. Qed.
Print Assumptions C04_fit_gate.

(* in particular an object restored from storage can be fitted again like any other (this corner was refuted
   by the coded behaviour until /repo commit 4e082e66: known finding C04-K1, now fixed) *)
Definition ex_hclean := {| d_id := 1; d_kind := Baseline Hourly; d_dq := []; d_tz := 3; d_ghi := false |}.
Example C04_refit_of_reloaded_hourly :
  snd (fit (fun _ => false) Hourly (reload (unfitted false)) ex_hclean false) = Fitted.
Proof. vm_compute. reflexivity. Qed.

Theorem C04_fit_wrong_type : forall poor f s d i, is_baseline_of f (d_kind d) = false ->
  fit poor f s d i = (s, Err TypeErr).
Proof. exact fit_wrong_type_l. Qed.
Print Assumptions C04_fit_wrong_type.

(* a fitted model inherits the data's disqualifications and gets the poor-fit one on top *)
Theorem C04_fit_inherits : forall poor f s d i, snd (fit poor f s d i) = Fitted ->
  let s' := fst (fit poor f s d i) in
  fitted s' = true /\ m_tz s' = d_tz d /\
  m_dq s' = d_dq d ++ (if poor d then [POOR_FIT] else []) /\
  (d_dq d = [] \/ i = true).
Proof. exact fit_ok_state. Qed.
Print Assumptions C04_fit_inherits.

Theorem C04_failed_fit_keeps_object : forall poor f s d i e,
  snd (fit poor f s d i) = Err e -> fst (fit poor f s d i) = s.
Proof. exact fit_err_keeps_state. Qed.
Print Assumptions C04_failed_fit_keeps_object.

(* predict raises DisqualifiedModelError exactly when the model carries a disqualification and the
   override is not given, and returns a frame exactly otherwise *)
Theorem C04_predict_gate : forall f s d i, guards_ok f s d ->
  (predict f s d i = Err Disqualified <-> (m_dq s <> [] /\ i = false)) /\
  (predict f s d i = Frame <-> (m_dq s = [] \/ i = true)).
Proof. exact (predict_gate_l (fun _ => false)). Qed.
Print Assumptions C04_predict_gate.

(* fail-closed: unfitted model, foreign data type, or another time zone never yield a prediction *)
Theorem C04_never_predicts_when_bad : forall f s d i,
  fitted s = false \/ is_data_of f (d_kind d) = false \/ m_tz s <> d_tz d ->
  exists e, predict f s d i = Err e.
Proof. exact never_predicts_when_bad_l. Qed.
Print Assumptions C04_never_predicts_when_bad.

Theorem C04_frame_only_behind_guards : forall f s d i, predict f s d i = Frame ->
  guards_ok f s d /\ (m_dq s = [] \/ i = true).
Proof. exact frame_only_if_l. Qed.
Print Assumptions C04_frame_only_behind_guards.

(* ... also after to_json / from_json *)
Theorem C04_gate_survives_storage : forall f s d i, fitted s = true ->
  predict f (reload s) d i = predict f s d i /\
  m_dq (reload s) = m_dq s /\ m_tz (reload s) = m_tz s /\ fitted (reload s) = true.
Proof. exact gate_survives_storage_l. Qed.
Print Assumptions C04_gate_survives_storage.

(* ... and after any history of fits (of other meters too), predictions and store/load cycles *)
Theorem C04_history_frame_guarded : forall poor f g ops d i,
  let s := fst (run poor f (unfitted g) ops) in
  snd (step poor f s (OPredict d i)) = Some Frame ->
  guards_ok f s d /\ (m_dq s = [] \/ i = true) /\
  exists d0, m_dq s = d_dq d0 ++ (if poor d0 then [POOR_FIT] else []) /\ m_tz s = d_tz d0.
Proof. exact history_frame_guarded_l. Qed.
Print Assumptions C04_history_frame_guarded.

(* non-vacuity: a disqualified baseline fitted with the override, stored, reloaded, then predicted *)
Definition ex_short := {| d_id := 1; d_kind := Baseline Daily; d_dq := [7]; d_tz := 3; d_ghi := false |}.
Definition ex_rep := {| d_id := 2; d_kind := Reporting Daily; d_dq := []; d_tz := 3; d_ghi := false |}.
Example C04_nonvacuous :
  snd (run (fun _ => true) Daily (unfitted false)
        [OFit ex_short false; OFit ex_short true; OReload; OPredict ex_rep false; OPredict ex_rep true]) =
  [Some (Err DataSufficiency); Some Fitted; None; Some (Err Disqualified); Some Frame] /\
  m_dq (fst (run (fun _ => true) Daily (unfitted false) [OFit ex_short true; OReload])) = [7; POOR_FIT].
Proof. vm_compute. split; reflexivity. Qed.

(* ---- tie to the source, regenerated on every run (kept last: a source edit that reorders, removes or re-targets a
   guard changes Generated/GateGen.v and breaks exactly these obligations; the theorems above are about Model/Gate.v
   and stay checked) *)
Theorem C04_predict_is_the_source_guard_sequence : forall f s d i,
  predict f s d i = interp_predict f (predict_guards f) s d i.
Proof. exact predict_is_guard_sequence_l. Qed.
Print Assumptions C04_predict_is_the_source_guard_sequence.

Theorem C04_fit_is_the_source_guard_sequence : forall poor f s d i,
  match interp_fit f (fit_guards f) s d i with
  | Some e => fit poor f s d i = (s, Err e)
  | None => snd (fit poor f s d i) = Fitted
  end.
Proof. exact fit_is_guard_sequence_l. Qed.
Print Assumptions C04_fit_is_the_source_guard_sequence.

(* non-vacuity: the generated lists are not empty and every family's list ends behind the type and disqualification guards *)
Example C04_source_guards_present :
  forallb (fun f => existsb (fun g => match g with PDisq => true | _ => false end) (predict_guards f) &&
                    existsb (fun g => match g with PType => true | _ => false end) (predict_guards f) &&
                    existsb (fun g => match g with PTz => true | _ => false end) (predict_guards f) &&
                    existsb (fun g => match g with PUnfitted => true | _ => false end) (predict_guards f) &&
                    existsb (fun g => match g with FDisq => true | _ => false end) (fit_guards f) &&
                    existsb (fun g => match g with FType => true | _ => false end) (fit_guards f))
          [Daily; Billing; Hourly] = true.
Proof. vm_compute. reflexivity. Qed.
