(* C13 — each day is predicted by exactly one sub-model: that of its season and day type.
   Statements only; proofs are in Proofs/SplitsProofs.v; the model is Model/Splits.v; the candidate
   list, the seasonal options, combo_dictionary and the default maps in Generated/SplitsGen.v are
   regenerated from /repo on every run. *)
From Coq Require Import ZArith List Bool String QArith.
From V Require Import Model.Splits Model.SplitsCal Generated.SplitsGen Proofs.SplitsProofs.
Import ListNotations.
Open Scope list_scope.

(* every candidate split the real generator produces today parses, prints back to itself, and
   partitions the six (season, weekday/weekend) cells: each cell lies in exactly one component *)
Theorem C13_generated_all_exact_cover :
  Forall (fun str => exists s, parse_split str = Some s /\ print_split s = str /\ exact_cover s) all_splits.
Proof. exact generated_all_exact_cover_l. Qed.
Print Assumptions C13_generated_all_exact_cover.

(* the model of _get_combinations / expand_combinations / stringify / _remove_duplicate_permutations,
   run on the seasonal options read from the code, yields exactly the list the code yields *)
Theorem C13_model_generates_same :
  exists opts, parse_options seasonal_options = Some opts /\
               map print_split (candidates opts) = all_splits.
Proof. exact model_generates_same_l. Qed.
Print Assumptions C13_model_generates_same.

Theorem C13_combo_dictionary_same :
  combo_seasons = map (fun s => (print_season s, sname_text (season_name s))) [SU; SH; WI] /\
  combo_days = map (fun d => (print_daytype d,
                              filter (fun n => day_in d (lookup_d default_weekday_map n))
                                     [1; 2; 3; 4; 5; 6; 7]%Z)) [FW; WD; WE].
Proof. exact combo_dictionary_same_l. Qed.
Print Assumptions C13_combo_dictionary_same.

(* the full routing statement: whatever the model's own maps are, every day is received by exactly
   one component of an exact cover *)
Definition C13_routing_statement : Prop :=
  forall s, exact_cover s -> forall (sm : Z -> sname) (wm : Z -> dname) (month dow : Z),
  exists c, receivers s sm wm month dow = [c].

(* it holds for ALL season maps into {summer, shoulder, winter} and ALL weekday maps into
   {weekday, weekend} (empty seasons, no weekend day, ... included) and every (month, day-of-week),
   hence for every date of every calendar; and the receiving component is the one whose cell
   contains the day *)
Theorem C13_routing_unique_partial : forall s, exact_cover s ->
  forall sm wm month dow x, cell_of (sm month) (wm dow) = Some x ->
  exists c, receivers s sm wm month dow = [c] /\ In c s /\ covers c x = true.
Proof. exact routing_unique_l. Qed.
Print Assumptions C13_routing_unique_partial.

(* ... and fails when a map uses a name outside the hard-wired ones, which the settings accept
   (season.options / weekday_weekend.options are open fields): such a day is received by no
   component.  The witness is replayed on the implementation by harness/c13.py (finding C13-F1). *)
Theorem C13_routing_refuted : ~ C13_routing_statement.
Proof. exact routing_statement_refuted_l. Qed.
Print Assumptions C13_routing_refuted.

Theorem C13_foreign_season_unrouted : forall s sm wm month dow,
  sm month = OtherSeason -> receivers s sm wm month dow = [].
Proof. exact receivers_foreign_season. Qed.
Print Assumptions C13_foreign_season_unrouted.

(* the character slices of _meter_segment (component[:2], component[3:].split("_")) select the day
   type and the season group of the printed component *)
Theorem C13_meter_segment_text : forall c sm wm month dow, snd c <> [] ->
  meter_segment_str (print_comp c) sm wm month dow = Some (routes c sm wm month dow).
Proof. exact meter_segment_str_print_l. Qed.
Print Assumptions C13_meter_segment_text.

(* trim only removes; the unsplit model survives; a surviving split other than the unsplit one has
   weekday/weekend components only if the settings allow them, a single-season component only if that
   season may be separate and has at least split_min_days days, and every component has at least
   split_min_days/3.75 weekend days *)
Theorem C13_trim_sound : forall f c l,
  incl (trim f c l) l /\
  (In unsplit l -> In unsplit (trim f c l)) /\
  (forall s, In s (trim f c l) -> print_split s <> print_split unsplit ->
     (has_wd s = true -> a_wdwe f = true) /\
     forall x, In x s ->
       (forall se, snd x = [se] -> allow_season f se = true /\ (split_min_days <= n_season c se)%Z) /\
       (4 * split_min_days <= 15 * we_count c (snd x))%Z).
Proof. exact trim_sound_l. Qed.
Print Assumptions C13_trim_sound.

Theorem C13_unsplit_always_candidate : forall opts, parse_options seasonal_options = Some opts ->
  forall f gauss sm wm h, In "fw-su_sh_wi"%string (combinations opts f gauss sm wm h).
Proof. exact unsplit_always_candidate_l. Qed.
Print Assumptions C13_unsplit_always_candidate.

Theorem C13_candidates_exact_cover : forall opts, parse_options seasonal_options = Some opts ->
  forall f gauss sm wm h str, In str (combinations opts f gauss sm wm h) ->
  exists s, parse_split str = Some s /\ print_split s = str /\ exact_cover s.
Proof. exact combinations_exact_cover_l. Qed.
Print Assumptions C13_candidates_exact_cover.

(* _best_combination: the selected split is a candidate, its criterion is a number below +inf (NaN is
   never selected) and no candidate has a strictly smaller criterion *)
Theorem C13_best_is_argmin : forall l s, best_x l = Some s ->
  exists c, In (s, c) l /\ c <> XNaN /\ c <> XPosInf /\
            forall s' c', In (s', c') l -> xlt c' c = false.
Proof. exact best_is_argmin_l. Qed.
Print Assumptions C13_best_is_argmin.

Theorem C13_best_none : forall l, best_x l = None <->
  forall s c, In (s, c) l -> c = XNaN \/ c = XPosInf.
Proof. exact best_none_l. Qed.
Print Assumptions C13_best_none.

(* composition: the split selected among the candidates of _combinations() partitions the cells and
   every day with standard names is received by exactly one of its components, the one of its cell *)
Theorem C13_selected_routes_unique : forall opts, parse_options seasonal_options = Some opts ->
  forall f gauss sm wm h crit str,
  map fst crit = combinations opts f gauss sm wm h -> best_x crit = Some str ->
  forall month dow x, cell_of (sm month) (wm dow) = Some x ->
  exists s c, parse_split str = Some s /\ receivers s sm wm month dow = [c] /\ In c s /\ covers c x = true.
Proof. exact selected_routes_unique_l. Qed.
Print Assumptions C13_selected_routes_unique.

(* the candidate list contains no partition twice (two texts that differ only in the order of their
   components), and it has as many members as the list the code yields *)
Theorem C13_candidates_distinct :
  exists opts, parse_options seasonal_options = Some opts /\
    NoDup (map canon_text (candidates opts)) /\
    List.length (candidates opts) = List.length all_splits.
Proof. exact candidates_distinct_l. Qed.
Print Assumptions C13_candidates_distinct.

(* completeness: the candidate list offers EVERY partition of the six (season, weekday/weekend) cells
   into blocks of the form "day type x set of seasons": for any exact cover s, however written, some
   candidate gives every cell the same block (own = the shape of the only component covering it) *)
Theorem C13_candidates_complete : forall opts, parse_options seasonal_options = Some opts ->
  forall s, exact_cover s ->
  exists s', In s' (candidates opts) /\ forall x, own s' x = own s x.
Proof. exact candidates_complete_l. Qed.
Print Assumptions C13_candidates_complete.

(* trim keeps a split other than the unsplit one exactly when the conditions hold (nothing the
   settings allow and the data support is dropped) *)
Theorem C13_trim_exact : forall f c s, print_split s <> print_split unsplit ->
  (trim_keep f c s = true <-> keep_spec f c s).
Proof. exact trim_keep_iff_l. Qed.
Print Assumptions C13_trim_exact.

Theorem C13_trim_complete : forall f c l s, In s l ->
  (print_split s = print_split unsplit \/ keep_spec f c s) -> In s (trim f c l).
Proof. exact trim_complete_l. Qed.
Print Assumptions C13_trim_complete.

(* "splits the settings forbid or the data cannot support are never chosen": the split selected by
   _best_combination among the candidates of _combinations() is the unsplit one or meets every
   condition of the settings flags (after the ellipsoid filter) and of the day counts *)
Theorem C13_selected_allowed : forall opts, parse_options seasonal_options = Some opts ->
  forall f gauss sm wm h crit str,
  map fst crit = combinations opts f gauss sm wm h -> best_x crit = Some str ->
  str = "fw-su_sh_wi"%string \/
  exists s, In s (candidates opts) /\ print_split s = str /\
            keep_spec (match gauss with Some g => flags_and f g | None => f end) (counts_of sm wm h) s.
Proof. exact selected_allowed_l. Qed.
Print Assumptions C13_selected_allowed.

(* ------------------------------------------------------------------ every date of the calendar *)
(* the calendar model (days since 1970-01-01 -> month, ISO weekday; Model/SplitsCal.v) stays inside
   the twelve months and seven days for every integer day number *)
Theorem C13_calendar_ranges : forall z : Z,
  (1 <= month_of z <= 12)%Z /\ (1 <= dom_of z <= 31)%Z /\ (1 <= dow_of z <= 7)%Z.
Proof. exact calendar_ranges_l. Qed.
Print Assumptions C13_calendar_ranges.

Theorem C13_weekday_advances : forall z,
  dow_of (z + 1)%Z = (if (dow_of z =? 7)%Z then 1 else dow_of z + 1)%Z.
Proof. exact dow_of_next_l. Qed.
Print Assumptions C13_weekday_advances.

(* for ALL maps the settings validators can leave behind with the hard-wired names (12 months, 7
   days; empty seasons, no weekend day, ... included), every exact cover and EVERY date (any integer
   day number, leap years and century rules included): the date is received by exactly one component,
   the one whose cell contains it *)
Theorem C13_every_date_routed_once : forall s, exact_cover s -> forall sm wm, std_maps sm wm ->
  forall z : Z,
  exists c x, cell_of (lookup_s sm (month_of z)) (lookup_d wm (dow_of z)) = Some x /\
              receivers s (lookup_s sm) (lookup_d wm) (month_of z) (dow_of z) = [c] /\
              In c s /\ covers c x = true.
Proof. exact date_routing_unique_l. Qed.
Print Assumptions C13_every_date_routed_once.

Theorem C13_date_routed_by_no_other : forall s, exact_cover s -> forall sm wm, std_maps sm wm ->
  forall z c c', receivers s (lookup_s sm) (lookup_d wm) (month_of z) (dow_of z) = [c] ->
  In c' s -> routes c' (lookup_s sm) (lookup_d wm) (month_of z) (dow_of z) = true -> c' = c.
Proof. exact date_routing_only_l. Qed.
Print Assumptions C13_date_routed_by_no_other.

(* a day whose name is neither weekday nor weekend is received by full-week components only
   (finding C13-F2) *)
Theorem C13_foreign_day_unrouted : forall c sm wm month dow,
  wm dow = OtherDay -> fst c <> FW -> routes c sm wm month dow = false.
Proof. exact routes_foreign_day. Qed.
Print Assumptions C13_foreign_day_unrouted.

(* ------------------------------------------------------------------ non-vacuity *)
Definition ex_split : split := [(FW, [SH]); (WD, [SU; WI]); (WE, [SU; WI])].
Example C13_nonvacuous_routing :
  exact_cover ex_split /\
  cell_of (lookup_s default_season_map 7) (lookup_d default_weekday_map 6) = Some (SU, true) /\
  receivers ex_split (lookup_s default_season_map) (lookup_d default_weekday_map) 7 6 = [(WE, [SU; WI])] /\
  receivers ex_split (lookup_s default_season_map) (lookup_d default_weekday_map) 4 6 = [(FW, [SH])].
Proof. split; [apply exact_coverb_spec|]; vm_compute; auto. Qed.

Definition ex_hist : hist :=   (* 8 days in every (month, day-of-week) cell *)
  flat_map (fun m => map (fun d => (m, d, 8%Z)) [1; 2; 3; 4; 5; 6; 7]%Z) [1; 2; 3; 4; 5; 6; 7; 8; 9; 10; 11; 12]%Z.
Example C13_nonvacuous_trim :
  exists opts, parse_options seasonal_options = Some opts /\
  List.length (combinations opts {| a_su := true; a_sh := false; a_wi := true; a_wdwe := true |} None
                 (lookup_s default_season_map) (lookup_d default_weekday_map) ex_hist) = 16%nat /\
  combinations opts {| a_su := true; a_sh := true; a_wi := true; a_wdwe := false |}
                 (Some {| a_su := false; a_sh := true; a_wi := true; a_wdwe := true |})
                 (lookup_s default_season_map) (lookup_d default_weekday_map) ex_hist =
    ["fw-su_sh_wi"; "fw-sh__fw-su_wi"; "fw-su_sh__fw-wi"]%string.
Proof. eexists. split; [|split]; vm_compute; reflexivity. Qed.

Example C13_nonvacuous_best :
  best_x [("a"%string, XNaN); ("b"%string, XFin (3 # 2)); ("c"%string, XPosInf); ("d"%string, XFin (-1 # 4));
          ("e"%string, XFin (-1 # 4)); ("f"%string, XNaN)] = Some "d"%string /\
  best_x [("a"%string, XNaN); ("c"%string, XPosInf)] = None.
Proof. split; vm_compute; reflexivity. Qed.

(* 19782 = 2024-02-29 (a Thursday), 11016 = 2000-02-29 (Tuesday), 47541 = 2100-03-01 (Monday; 2100 is
   not a leap year), -1 = 1969-12-31 (Wednesday) *)
Example C13_nonvacuous_calendar :
  (year_of 19782, month_of 19782, dom_of 19782, dow_of 19782) = (2024, 2, 29, 4)%Z /\
  (year_of 11016, month_of 11016, dom_of 11016, dow_of 11016) = (2000, 2, 29, 2)%Z /\
  (year_of 47541, month_of 47541, dom_of 47541, dow_of 47541) = (2100, 3, 1, 1)%Z /\
  (year_of (-1), month_of (-1), dom_of (-1), dow_of (-1)) = (1969, 12, 31, 3)%Z.
Proof. vm_compute. auto. Qed.

Example C13_nonvacuous_dates :
  std_maps default_season_map default_weekday_map /\ exact_cover ex_split /\
  (* Saturday 2024-06-01 (day 19875): summer weekend *)
  receivers ex_split (lookup_s default_season_map) (lookup_d default_weekday_map) (month_of 19875) (dow_of 19875)
    = [(WE, [SU; WI])] /\
  (* Thursday 2024-02-29: winter weekday *)
  receivers ex_split (lookup_s default_season_map) (lookup_d default_weekday_map) (month_of 19782) (dow_of 19782)
    = [(WD, [SU; WI])].
Proof.
  split; [|split; [apply exact_coverb_spec; vm_compute; reflexivity|split; vm_compute; reflexivity]].
  repeat split; try reflexivity; repeat constructor; discriminate.
Qed.

Example C13_nonvacuous_keep_spec :
  let f := {| a_su := true; a_sh := false; a_wi := true; a_wdwe := true |} in
  let c := counts_of (lookup_s default_season_map) (lookup_d default_weekday_map) ex_hist in
  keep_spec f c [(FW, [SH; WI]); (WD, [SU]); (WE, [SU])] /\
  trim_keep f c [(FW, [SH; WI]); (WD, [SU]); (WE, [SU])] = true /\
  trim_keep f c [(FW, [SU; WI]); (WD, [SH]); (WE, [SH])] = false.
Proof.
  cbv zeta. split; [|split; vm_compute; reflexivity].
  apply trim_keep_iff_l; [vm_compute; discriminate|vm_compute; reflexivity].
Qed.

(* an exact cover written unlike any candidate text (seasons repeated and out of order, components out
   of order) and the block of summer weekends in it *)
Example C13_nonvacuous_complete :
  let s := [(WE, [WI; SU; SU]); (FW, [SH]); (WD, [WI; SU])] in
  exact_cover s /\ parse_split "we-wi_su_su__fw-sh__wd-wi_su" = Some s /\
  own s (SU, true) = Some (WE, (true, false, true)) /\
  own ex_split (SU, true) = own s (SU, true).
Proof. cbv zeta. split; [apply exact_coverb_spec|]; vm_compute; auto. Qed.

(* ================================================================== the selection criterion itself
   (Model/SelCrit.v: selection_criteria.py + _combination_selection_criteria / _get_error_metrics; real-number
   instance, Proofs/SelCritProofs.v; the float instance Model/SelCritF.v is what the correspondence runs).
   Kept at the end of the file: a failure here leaves the theorems above counted. *)
From Coq Require Import Reals Lra.
From V Require Import Model.Num Model.NumR Model.SelCrit Proofs.SelCritProofs.
Local Open Scope R_scope.

(* the default criterion (BIC) as coded, for loss > 0 and N > 0:
   (-2 * (-N/2 * (ln 2pi + ln(loss/N) + 1)) + c0 * K * ln(N)**d0) / N  =  ln 2pi + ln(loss/N) + 1 + c0 K ln(N)**d0 / N;
   and it is -inf when loss <= 0 (neg_log_likelihood returns +inf) *)
Theorem C13_default_criterion_closed_form : forall c0 d0 loss tss n k, 0 < loss -> 0 < n ->
  R_selection_criteria C_BIC c0 d0 loss tss n k = Fin (bic_closed c0 d0 loss n k).
Proof. exact bic_value. Qed.
Print Assumptions C13_default_criterion_closed_form.

Theorem C13_default_criterion_nonpositive_loss : forall c0 d0 loss tss n k, loss <= 0 ->
  R_selection_criteria C_BIC c0 d0 loss tss n k = NInf.
Proof. exact bic_nonpositive_loss. Qed.
Print Assumptions C13_default_criterion_nonpositive_loss.

(* N fixed: strictly increasing in the loss (so at equal complexity the smaller loss is preferred) *)
Theorem C13_criterion_increasing_in_loss : forall c0 d0 tss1 tss2 n k l1 l2, 0 < n -> l1 < l2 -> 0 < l2 ->
  R_ext_ltb (R_selection_criteria C_BIC c0 d0 l1 tss1 n k) (R_selection_criteria C_BIC c0 d0 l2 tss2 n k) = true.
Proof. exact bic_loss_increasing_l. Qed.
Print Assumptions C13_criterion_increasing_in_loss.

(* N >= 1, penalty multiplier >= 0 (the settings enforce ge=0): increasing in the number of coefficients;
   strictly when N > 1 and the multiplier is positive (so at equal loss the simpler split is preferred) *)
Theorem C13_criterion_increasing_in_coefficients : forall c0 d0 tss1 tss2 n loss k1 k2,
  1 <= n -> 0 <= c0 -> k1 <= k2 ->
  R_ext_ltb (R_selection_criteria C_BIC c0 d0 loss tss2 n k2) (R_selection_criteria C_BIC c0 d0 loss tss1 n k1) = false.
Proof. exact bic_k_increasing_l. Qed.
Print Assumptions C13_criterion_increasing_in_coefficients.

Theorem C13_criterion_strict_in_coefficients : forall c0 d0 tss1 tss2 n loss k1 k2,
  1 < n -> 0 < c0 -> 0 < loss -> k1 < k2 ->
  R_ext_ltb (R_selection_criteria C_BIC c0 d0 loss tss1 n k1) (R_selection_criteria C_BIC c0 d0 loss tss2 n k2) = true.
Proof. exact bic_k_strict_l. Qed.
Print Assumptions C13_criterion_strict_in_coefficients.

(* the penalty terms of AIC / CAIC / BIC / SABIC / AICc are the coded expressions *)
Theorem C13_penalties_as_coded : forall c0 d0 n k,
  pen_aic RNum Rpow c0 d0 k = c0 * 2 * Rpow k d0 /\
  pen_caic RNum ln Rpow c0 d0 n k = c0 * k * Rpow (ln n + 1) d0 /\
  pen_bic RNum ln Rpow c0 d0 n k = c0 * k * Rpow (ln n) d0 /\
  pen_sabic RNum ln Rpow c0 d0 n k = c0 * k * Rpow (ln ((n + 2) / 24)) d0 /\
  (0 < n - k - 1 ->
   pen_aicc RNum Rpow R_tiny c0 d0 n k = c0 * Rpow (2 * k + 2 * k * (k + 1) / (n - k - 1)) d0) /\
  (n - k - 1 <= 0 ->
   pen_aicc RNum Rpow R_tiny c0 d0 n k = c0 * Rpow (2 * k + 2 * k * (k + 1) / R_tiny) d0).
Proof. exact penalties_as_coded_l. Qed.
Print Assumptions C13_penalties_as_coded.

(* composed: _best_combination run on the CODED criterion of every candidate (whatever the criterion type,
   computed from the components' N / TSS / wSSE with loss = wRMSE / wRMSE_base) selects a candidate whose
   criterion is not +inf and that no candidate undercuts *)
Theorem C13_selected_minimises_coded_criterion : forall ty c0 d0 base fits combos s,
  best (ext R) R_ext_ltb PInf (table ty c0 d0 base fits combos) = Some s ->
  In s combos /\ crit_of ty c0 d0 base fits s <> PInf /\
  forall s', In s' combos -> R_ext_ltb (crit_of ty c0 d0 base fits s') (crit_of ty c0 d0 base fits s) = false.
Proof. exact selected_minimises_l. Qed.
Print Assumptions C13_selected_minimises_coded_criterion.

(* default criterion: among candidates with the same number of components (and days) the selected split has the
   smallest loss; and a candidate whose loss is no larger cannot have fewer components *)
Theorem C13_selected_smallest_loss_at_equal_complexity : forall c0 d0 base fits combos s s',
  best (ext R) R_ext_ltb PInf (table C_BIC c0 d0 base fits combos) = Some s -> In s' combos ->
  0 < R_sum_n (fits s) -> R_sum_n (fits s') = R_sum_n (fits s) -> R_count (fits s') = R_count (fits s) ->
  0 < R_combo_loss base (fits s') ->
  R_combo_loss base (fits s) <= R_combo_loss base (fits s').
Proof. exact selected_bic_smallest_loss_l. Qed.
Print Assumptions C13_selected_smallest_loss_at_equal_complexity.

Theorem C13_selected_simplest_at_no_larger_loss : forall c0 d0 base fits combos s s',
  best (ext R) R_ext_ltb PInf (table C_BIC c0 d0 base fits combos) = Some s -> In s' combos ->
  0 < c0 -> 1 < R_sum_n (fits s) -> R_sum_n (fits s') = R_sum_n (fits s) ->
  0 < R_combo_loss base (fits s') -> R_combo_loss base (fits s') <= R_combo_loss base (fits s) ->
  R_count (fits s) <= R_count (fits s').
Proof. exact selected_bic_simplest_l. Qed.
Print Assumptions C13_selected_simplest_at_no_larger_loss.

(* non-vacuity: concrete numbers satisfy the hypotheses of the monotonicity theorems, and a table on which
   best selects exists (one candidate; the RMSE criterion is always finite) *)
Example C13_nonvacuous_criterion :
  R_ext_ltb (R_selection_criteria C_BIC (24/100) 2 (1/2) 1000 365 3) (R_selection_criteria C_BIC (24/100) 2 1 1000 365 3) = true /\
  R_ext_ltb (R_selection_criteria C_BIC (24/100) 2 1 1000 365 1) (R_selection_criteria C_BIC (24/100) 2 1 1000 365 3) = true.
Proof.
  split; [apply bic_loss_increasing_l|apply bic_k_strict_l]; lra.
Qed.

Example C13_nonvacuous_selected : forall base l,
  best (ext R) R_ext_ltb PInf (table C_RMSE 1 1 base (fun _ => l) ["fw-su_sh_wi"%string]) = Some "fw-su_sh_wi"%string.
Proof. intros base l. reflexivity. Qed.

(* ================================================================== the source text of the selection code
   Generated/SelectGen.v ([gen_tables]) is written on every run by harness/translate_select.py from the Python `ast`
   of _best_combination, _combination_selection_criteria, _get_error_metrics, neg_log_likelihood and
   selection_criteria.  Proofs/SelectProofs.v shows what tables equal to [reference_tables] mean (Model/SelectShape.v
   gives the meaning); here the regenerated tables are shown to BE the reference ([eq_refl]: the kernel compares the
   two values), so each theorem below speaks about today's source text.  A source edit changes the generated file and
   breaks these obligations - the last ones of the file, the earlier theorems stay counted. *)
From Coq Require Import PrimFloat.
From V Require Import Model.SelectShape Proofs.SelectProofs Proofs.SelectRProofs Model.NumF Model.SelCritF Generated.SelectGen.

Theorem C13_source_tables_as_modelled : gen_tables = reference_tables.
Proof. exact eq_refl. Qed.
Print Assumptions C13_source_tables_as_modelled.

(* the loop of _best_combination, as written today (start from +inf, `new < incumbent` alone, both fields
   updated, nothing else, the name returned, over self.combinations), is the loop modelled by [best] *)
Theorem C13_selection_loop_as_coded :
  exists f : loop_fn, loop_model (t_loop gen_tables) = Some f /\
    forall A lt top l, f A lt top l = best A lt top l.
Proof. exact (best_loop_as_coded_l gen_tables eq_refl). Qed.
Print Assumptions C13_selection_loop_as_coded.

Theorem C13_coded_loop_is_argmin : forall f : loop_fn, loop_model (t_loop gen_tables) = Some f ->
  forall l s, f Splits.xr Splits.xlt Splits.XPosInf l = Some s ->
  exists c, In (s, c) l /\ c <> Splits.XNaN /\ c <> Splits.XPosInf /\ forall s' c', In (s', c') l -> Splits.xlt c' c = false.
Proof. exact (coded_loop_is_argmin_l gen_tables eq_refl). Qed.
Print Assumptions C13_coded_loop_is_argmin.

(* selection_criteria() rebuilt from the expressions of the source text (guards of neg_log_likelihood, df_penalized and
   its fallback, one expression per criterion, the normalisation rule) equals Model/SelCrit.v for every criterion
   type, every input and every numeric instance (reals and binary64 alike) *)
Theorem C13_coded_criterion_is_model : forall (N : num) x_ln x_sqrt x_pow two_pi tiny absorb ty c0 d0 loss tss n k,
  tables_criterion N x_ln x_sqrt x_pow two_pi tiny absorb gen_tables ty c0 d0 loss tss n k
  = selection_criteria N x_ln x_sqrt x_pow two_pi tiny absorb ty c0 d0 loss tss n k.
Proof. exact (fun N x_ln x_sqrt x_pow two_pi tiny absorb =>
                criterion_as_model_l N x_ln x_sqrt x_pow two_pi tiny absorb gen_tables eq_refl). Qed.
Print Assumptions C13_coded_criterion_is_model.

(* wRMSE = sqrt(wSSE / N), loss = wRMSE / self.wRMSE_base, num_coeffs = len(components), and the order in which the
   seven arguments are passed and received *)
Theorem C13_coded_combination_expressions : forall (N : num) x_ln x_sqrt x_pow two_pi tiny (l base : list (cfit N)) (len : N),
  eval N x_ln x_sqrt x_pow two_pi tiny (env_wrmse N (sum_of N f_wsse l) (sum_of N f_n l)) (t_wrmse gen_tables) = wrmse N x_sqrt l /\
  eval N x_ln x_sqrt x_pow two_pi tiny (env_loss N (wrmse N x_sqrt l) (wrmse N x_sqrt base)) (t_loss gen_tables)
    = combo_loss N x_sqrt base l /\
  eval N x_ln x_sqrt x_pow two_pi tiny (env_len N "components"%string len) (t_num_coeffs gen_tables) = len /\
  t_components_src gen_tables = "combination.split('__')"%string /\
  t_call_args gen_tables = ["loss"; "TSS"; "N"; "num_coeffs"; "criteria_type"; "penalty_multiplier"; "penalty_power"]%string /\
  t_crit_args gen_tables = ["loss"; "TSS"; "N"; "num_coeffs"; "model_selection_criteria"; "penalty_multiplier"; "penalty_power"]%string.
Proof. exact (fun N x_ln x_sqrt x_pow two_pi tiny =>
                combination_as_model_l N x_ln x_sqrt x_pow two_pi tiny gen_tables eq_refl). Qed.
Print Assumptions C13_coded_combination_expressions.

Theorem C13_coded_constants_known : tables_consts_known gen_tables = true.
Proof. exact (constants_known_l gen_tables eq_refl). Qed.
Print Assumptions C13_coded_constants_known.

(* hence the monotonicity theorems hold for the criterion as written in the source *)
Theorem C13_coded_criterion_increasing_in_loss : forall c0 d0 tss1 tss2 n k l1 l2, 0 < n -> l1 < l2 -> 0 < l2 ->
  R_ext_ltb (R_tables_criterion gen_tables C_BIC c0 d0 l1 tss1 n k) (R_tables_criterion gen_tables C_BIC c0 d0 l2 tss2 n k) = true.
Proof. exact (coded_bic_increasing_in_loss_l gen_tables eq_refl). Qed.
Print Assumptions C13_coded_criterion_increasing_in_loss.

Theorem C13_coded_criterion_increasing_in_coefficients : forall c0 d0 tss1 tss2 n loss k1 k2, 1 <= n -> 0 <= c0 -> k1 <= k2 ->
  R_ext_ltb (R_tables_criterion gen_tables C_BIC c0 d0 loss tss2 n k2) (R_tables_criterion gen_tables C_BIC c0 d0 loss tss1 n k1) = false.
Proof. exact (coded_bic_increasing_in_coefficients_l gen_tables eq_refl). Qed.
Print Assumptions C13_coded_criterion_increasing_in_coefficients.

(* non-vacuity: loops of another shape are not accepted as [best]; the rebuilt criterion runs (binary64 instance) and
   gives the model's number on a concrete input; the hypotheses of the monotonicity statement are satisfiable *)
Example C13_nonvacuous_other_loops :
  loop_model {| ls_init := InitPosInf; ls_iter := "self.combinations"; ls_crit_call := "self._combination_selection_criteria";
                ls_cmp := CmpLe; ls_new_on_left := true; ls_extra_conditions := 0; ls_updates_name := true;
                ls_updates_crit := true; ls_other_statements := 0; ls_returns_name := true |} = None /\
  loop_model {| ls_init := InitPosInf; ls_iter := "self.combinations"; ls_crit_call := "self._combination_selection_criteria";
                ls_cmp := CmpLt; ls_new_on_left := true; ls_extra_conditions := 1; ls_updates_name := true;
                ls_updates_crit := true; ls_other_statements := 0; ls_returns_name := true |} = None.
Proof. exact other_loops_are_not_best. Qed.

Example C13_nonvacuous_coded_criterion :
  tables_criterion FNum fln fsqrt fpow f_two_pi f_tiny f_absorb gen_tables C_BIC 0x1.eb851eb851eb8p-3%float 2%float
    0x1.999999999999ap-1%float 1000%float 365%float 3%float
  = f_selection_criteria C_BIC 0x1.eb851eb851eb8p-3%float 2%float 0x1.999999999999ap-1%float 1000%float 365%float 3%float /\
  (exists v, f_selection_criteria C_BIC 0x1.eb851eb851eb8p-3%float 2%float 0x1.999999999999ap-1%float 1000%float 365%float 3%float = Fin v) /\
  tables_criterion FNum fln fsqrt fpow f_two_pi f_tiny f_absorb gen_tables C_SABIC 1%float 2%float 0%float 1000%float 365%float 3%float = NInf.
Proof. split; [vm_compute; reflexivity|split; [eexists; vm_compute; reflexivity|vm_compute; reflexivity]]. Qed.

Example C13_nonvacuous_coded_monotone :
  R_ext_ltb (R_tables_criterion gen_tables C_BIC (24/100) 2 (1/2) 1000 365 3) (R_tables_criterion gen_tables C_BIC (24/100) 2 1 1000 365 3) = true.
Proof. apply (coded_bic_increasing_in_loss_l gen_tables eq_refl); lra. Qed.
