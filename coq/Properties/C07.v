(* C07 — observed and predicted usage are masked together so savings sums are unbiased.
   Statements only; proofs are in Proofs/RowsProofs.v; the model is Model/Rows.v.
   [predict_rows f pol has_obs rows] is DailyModel._predict (also used by BillingModel.predict); [f] is the
   sub-model curve (any function of segment and temperature), [pol] the effect of the masking statement:
   MaskOff = the unchanged code (chained assignment, no effect); MaskMissingTemp = the literal one-line repair
   (.loc[temperature.isna()]); MaskNonFiniteTemp = the proposed repair /var/tmp/proposed-fixes/C07-1.diff
   (.loc[~isfinite(temperature)]); MaskDropped = observed masked on every row without prediction.
   The check (harness/c07.py) detects which of the four the implementation has, runs the model in that mode and
   reads from C07_mode_verdict whether the statement is a theorem or refuted for it. *)
From Coq Require Import ZArith QArith List Bool Permutation Sorted.
From V Require Import Model.Rows Model.RowsRun Proofs.RowsProofs.
Import ListNotations.

(* ---- the full statement, for a given masking behaviour ---- *)
Definition C07_statement (pol : mask_policy) : Prop :=
  forall (f : Z -> Q -> Q) (rows : list (row Q)),
    let out := predict_rows f pol true rows in
    both_or_neither out /\
    nansum (map (@o_pred Q) out) - nansum (map (@o_obs Q) out) == nansum (map savings out).

(* the same over the property's quantifier ("any pattern of missing/non-finite temperature and missing usage"):
   temperature cells are arbitrary (finite, NaN, +-inf), usage cells are a number or missing, never +-inf *)
Definition usage_missing_or_finite (rows : list (row Q)) : Prop := forall r, In r rows -> no_inf (obs r) = true.
Definition C07_statement_q (pol : mask_policy) : Prop :=
  forall (f : Z -> Q -> Q) (rows : list (row Q)), usage_missing_or_finite rows ->
    let out := predict_rows f pol true rows in
    both_or_neither out /\
    nansum (map (@o_pred Q) out) - nansum (map (@o_obs Q) out) == nansum (map savings out).

(* ---- the repaired code (proposed patch: mask observed where the temperature is not finite) ---- *)
Theorem C07_statement_q_nonfinite_temp_repair : C07_statement_q MaskNonFiniteTemp.
Proof.
  intros f rows H out. split; [apply both_or_neither_nonfinite_temp; exact H | apply sums_agree_nonfinite_temp; exact H].
Qed.
Print Assumptions C07_statement_q_nonfinite_temp_repair.

(* its guard is exact: with that repair an infinite usage value on a day with a temperature still breaks the row-wise
   statement (finding F3, outside the property's quantifier) *)
Theorem C07_nonfinite_temp_repair_guard_exact : forall (A : Type) (f : Z -> A -> A) rows, NoDup (map (@ts A) rows) ->
  both_or_neither (predict_rows f MaskNonFiniteTemp true rows) ->
  forall r, In r rows -> finite (temp r) = true -> no_inf (obs r) = true.
Proof. exact both_or_neither_nonfinite_temp_only_if. Qed.
Print Assumptions C07_nonfinite_temp_repair_guard_exact.

Definition f3_witness : list (row Q) := [mkrow 0%Z 0%Z (V 50) PInf].
Theorem C07_unguarded_statement_refuted_nonfinite_temp_repair : ~ C07_statement MaskNonFiniteTemp.
Proof.
  intros H. destruct (H (fun _ t => t) f3_witness) as [H1 _].
  inversion H1 as [|? ? H2 _]; subst. vm_compute in H2. discriminate.
Qed.
Print Assumptions C07_unguarded_statement_refuted_nonfinite_temp_repair.

(* with observed masked on every row without prediction the statement is a theorem without any guard *)
Theorem C07_both_or_neither : forall (A : Type) (f : Z -> A -> A) rows,
  both_or_neither (predict_rows f MaskDropped true rows).
Proof. exact both_or_neither_repaired. Qed.
Print Assumptions C07_both_or_neither.

Theorem C07_statement_repaired : C07_statement MaskDropped.
Proof. intros f rows out. split; [apply both_or_neither_repaired | apply sums_agree_repaired]. Qed.
Print Assumptions C07_statement_repaired.

(* "consequently": for ANY returned frame, columns present on the same rows => separate sums = row-wise sum *)
Theorem C07_sums_agree : forall out : list (orow Q),
  both_or_neither out -> Forall (fun o => row_no_inf o = true) out ->
  nansum (map (@o_pred Q) out) - nansum (map (@o_obs Q) out) == nansum (map savings out).
Proof. exact sums_agree. Qed.
Print Assumptions C07_sums_agree.

(* for every masking behaviour: the statement holds exactly when no dropped row keeps an observed value *)
Theorem C07_both_or_neither_iff : forall (A : Type) (f : Z -> A -> A) pol rows,
  both_or_neither (predict_rows f pol true rows) <->
  (forall r, In r (dropped_of A true rows) -> notna (mask_obs pol r) = false).
Proof. exact both_or_neither_iff. Qed.
Print Assumptions C07_both_or_neither_iff.

(* ---- the code as it is (D8) ---- *)
(* refuted: one day with usage and no temperature keeps its observed value and gets no prediction *)
Definition d8_witness : list (row Q) := [mkrow 0%Z 0%Z NaN (V (451 # 10))].
Theorem C07_both_or_neither_refuted :
  exists (f : Z -> Q -> Q) rows, ~ both_or_neither (predict_rows f MaskOff true rows).
Proof.
  exists (fun _ t => t), d8_witness. intros H. inversion H as [|? ? H1 _]; subst.
  vm_compute in H1. discriminate.
Qed.
Print Assumptions C07_both_or_neither_refuted.

Theorem C07_statement_refuted_as_coded : ~ C07_statement MaskOff.
Proof.
  intros H. destruct (H (fun _ t => t) d8_witness) as [H1 _].
  inversion H1 as [|? ? H2 _]; subst. vm_compute in H2. discriminate.
Qed.
Print Assumptions C07_statement_refuted_as_coded.

(* and the sums are then biased: a second day (complete, predicted 60, observed 50) plus the witness day *)
Theorem C07_sums_biased_refuted :
  exists (f : Z -> Q -> Q) rows, let out := predict_rows f MaskOff true rows in
    ~ nansum (map (@o_pred Q) out) - nansum (map (@o_obs Q) out) == nansum (map savings out).
Proof.
  exists (fun _ t => t), (mkrow 1%Z 0%Z (V 60) (V 50) :: d8_witness). vm_compute. intros H. discriminate.
Qed.
Print Assumptions C07_sums_biased_refuted.

(* the witness lies inside the property's quantifier (its usage value is a number) *)
Theorem C07_statement_q_refuted_as_coded : ~ C07_statement_q MaskOff.
Proof.
  intros H. destruct (H (fun _ t => t) d8_witness) as [H1 _].
  - intros r [E|[]]; subst r; reflexivity.
  - inversion H1 as [|? ? H2 _]; subst. vm_compute in H2. discriminate.
Qed.
Print Assumptions C07_statement_q_refuted_as_coded.

(* the literal one-line repair (.loc[temperature.isna()]) is refuted inside the quantifier too: +-inf temperature *)
Definition f2_witness : list (row Q) := [mkrow 0%Z 0%Z PInf (V (451 # 10))].
Theorem C07_statement_q_refuted_missing_temp_repair : ~ C07_statement_q MaskMissingTemp.
Proof.
  intros H. destruct (H (fun _ t => t) f2_witness) as [H1 _].
  - intros r [E|[]]; subst r; reflexivity.
  - inversion H1 as [|? ? H2 _]; subst. vm_compute in H2. discriminate.
Qed.
Print Assumptions C07_statement_q_refuted_missing_temp_repair.

(* ---- verdict per masking behaviour: the check evaluates [mode_satisfies_statement] on the behaviour it observed ---- *)
Theorem C07_mode_verdict : forall pol, C07_statement_q pol <-> mode_satisfies_statement pol = true.
Proof.
  intros pol. destruct pol; cbn [mode_satisfies_statement]; split; intros H; try reflexivity; try discriminate.
  - exfalso. exact (C07_statement_q_refuted_as_coded H).
  - exfalso. exact (C07_statement_q_refuted_missing_temp_repair H).
  - exact C07_statement_q_nonfinite_temp_repair.
  - intros f rows _. exact (C07_statement_repaired f rows).
Qed.
Print Assumptions C07_mode_verdict.

(* partial: the unchanged code satisfies the row-wise statement under exactly this guard *)
Theorem C07_both_or_neither_partial : forall (A : Type) (f : Z -> A -> A) rows,
  (forall r, In r rows -> complete true r = false -> notna (obs r) = false) ->
  both_or_neither (predict_rows f MaskOff true rows).
Proof. exact both_or_neither_as_coded_partial. Qed.
Print Assumptions C07_both_or_neither_partial.

Theorem C07_partial_guard_exact : forall (A : Type) (f : Z -> A -> A) rows, NoDup (map (@ts A) rows) ->
  both_or_neither (predict_rows f MaskOff true rows) ->
  forall r, In r rows -> complete true r = false -> notna (obs r) = false.
Proof. exact both_or_neither_as_coded_only_if. Qed.
Print Assumptions C07_partial_guard_exact.

(* the literal one-line repair (mask where temperature.isna()) still needs a guard: +-inf cells *)
Theorem C07_missing_temp_repair_partial : forall (A : Type) (f : Z -> A -> A) rows,
  (forall r, In r rows -> complete true r = false -> notna (temp r) = true -> notna (obs r) = false) ->
  both_or_neither (predict_rows f MaskMissingTemp true rows).
Proof. exact both_or_neither_missing_temp_partial. Qed.
Print Assumptions C07_missing_temp_repair_partial.

(* ---- holds for the code as it is and for every repair ---- *)
Theorem C07_missing_usage_gets_no_prediction : forall (A : Type) (f : Z -> A -> A) pol rows o,
  In o (predict_rows f pol true rows) -> notna (o_obs o) = false -> o_pred o = NaN.
Proof. exact missing_usage_no_prediction. Qed.
Print Assumptions C07_missing_usage_gets_no_prediction.

Theorem C07_missing_temperature_gets_no_prediction : forall (A : Type) (f : Z -> A -> A) pol has_obs rows o,
  In o (predict_rows f pol has_obs rows) -> finite (o_temp o) = false -> o_pred o = NaN.
Proof. exact missing_temperature_no_prediction. Qed.
Print Assumptions C07_missing_temperature_gets_no_prediction.

Theorem C07_prediction_only_on_complete_rows : forall (A : Type) (f : Z -> A -> A) pol has_obs rows o,
  In o (predict_rows f pol has_obs rows) -> notna (o_pred o) = true ->
  exists r, In r rows /\ complete has_obs r = true /\ o = predict_kept f has_obs r.
Proof. exact predicted_is_complete. Qed.
Print Assumptions C07_prediction_only_on_complete_rows.

(* ---- the public entry point: the data class of the object handed to predict() is not an input of the pipeline ---- *)
(* DailyReportingData or DailyBaselineData (billing: BillingReportingData or BillingBaselineData): the same frame gives
   the same rows, so the statement holds for a baseline-class object exactly when it holds for a reporting-class one *)
Theorem C07_output_depends_on_frame_only : forall (A : Type) (f : Z -> A -> A) pol dc1 dc2 has_obs rows,
  predict_public f pol dc1 has_obs rows = predict_public f pol dc2 has_obs rows.
Proof. reflexivity. Qed.
Print Assumptions C07_output_depends_on_frame_only.

Theorem C07_statement_q_every_data_class : forall pol, mode_satisfies_statement pol = true ->
  forall dc (f : Z -> Q -> Q) rows, usage_missing_or_finite rows ->
    let out := predict_public f pol dc true rows in
    both_or_neither out /\
    nansum (map (@o_pred Q) out) - nansum (map (@o_obs Q) out) == nansum (map savings out).
Proof. intros pol H dc f rows Hr. apply (proj2 (C07_mode_verdict pol) H f rows Hr). Qed.
Print Assumptions C07_statement_q_every_data_class.

(* ---- row accounting: concat + sort returns one row per input label, in index order ---- *)
Theorem C07_one_row_per_label : forall (A : Type) (f : Z -> A -> A) pol has_obs rows,
  NoDup (map (@ts A) rows) ->
  Permutation (map (@o_ts A) (predict_rows f pol has_obs rows)) (map (@ts A) rows) /\
  LocallySorted (key_le (@o_ts A)) (predict_rows f pol has_obs rows).
Proof. intros. split; [apply predict_rows_labels; assumption | apply predict_rows_sorted]. Qed.
Print Assumptions C07_one_row_per_label.

Theorem C07_rows_come_from_input : forall (A : Type) (f : Z -> A -> A) pol rows o,
  In o (predict_rows f pol true rows) ->
  exists r, In r rows /\ o_ts o = ts r /\ o_temp o = temp r /\ (o_obs o = obs r \/ o_obs o = NaN).
Proof. exact predict_rows_from_input. Qed.
Print Assumptions C07_rows_come_from_input.

(* ---- non-vacuity: a frame with every kind of row; the repaired code returns what the statement asks ---- *)
Definition ex_rows : list (row Q) :=
  [ mkrow 3%Z 0%Z (V 40) (V 10);          (* complete *)
    mkrow 1%Z 0%Z NaN (V 12);             (* usage, no temperature  -> masked by the repair *)
    mkrow 2%Z 0%Z (V 50) NaN;             (* temperature, no usage  -> no prediction *)
    mkrow 4%Z 0%Z PInf (V 15);            (* non-finite temperature *)
    mkrow 5%Z 0%Z (V 55) NInf ].          (* non-finite usage *)
Example C07_nonvacuous_repaired :
  map (fun o => (o_ts o, notna (o_obs o), notna (o_pred o))) (predict_rows (fun _ t => t + 1) MaskDropped true ex_rows)
  = [(1, false, false); (2, false, false); (3, true, true); (4, false, false); (5, false, false)]%Z
  /\ NoDup (map (@ts Q) ex_rows).
Proof. split; [vm_compute; reflexivity | repeat constructor; cbn; intuition discriminate]. Qed.
Example C07_nonvacuous_nonfinite_temp_repair :
  map (fun o => (o_ts o, notna (o_obs o), notna (o_pred o))) (predict_rows (fun _ t => t + 1) MaskNonFiniteTemp true ex_rows)
  = [(1, false, false); (2, false, false); (3, true, true); (4, false, false); (5, true, false)]%Z
  /\ usage_missing_or_finite (firstn 4 ex_rows) /\ length (dropped_of Q true (firstn 4 ex_rows)) = 3%nat.
Proof.
  split; [vm_compute; reflexivity | split; [|vm_compute; reflexivity]].
  intros r [E|[E|[E|[E|[]]]]]; subst r; reflexivity.
Qed.
Example C07_nonvacuous_as_coded :
  map (fun o => (o_ts o, notna (o_obs o), notna (o_pred o))) (predict_rows (fun _ t => t + 1) MaskOff true ex_rows)
  = [(1, true, false); (2, false, false); (3, true, true); (4, true, false); (5, true, false)]%Z.
Proof. vm_compute. reflexivity. Qed.
(* the guard of the partial theorem is satisfiable by a frame that does drop rows *)
Example C07_partial_guard_satisfiable :
  let rows := [mkrow 1%Z 0%Z (V 40) (V 10); mkrow 2%Z 0%Z NaN NaN; mkrow 3%Z 0%Z (V 50) NaN] in
  (forall r, In r rows -> complete true r = false -> notna (obs r) = false) /\
  length (dropped_of Q true rows) = 2%nat.
Proof.
  split; [|vm_compute; reflexivity].
  intros r [E|[E|[E|[]]]] H; subst r; cbn in *; congruence.
Qed.
