(* C15 — a building that follows the model is recovered by the fit.          LEVEL: PARTIAL (see below)

   Statements only; the lemmas are in Proofs/RecoveryProofs.v, the definitions in Model/Recovery.v (one text over the
   numeric dictionary: here at the reals [RNum]; at binary64 [FNum] the same text evaluates every fitted model inside
   coqc, harness/c15.py) and Model/DailyCurve.v (the stored sub-model document and its curve, shared with C11).

   What is NOT a theorem here, and cannot be with this technique: that the optimiser (NLopt DIRECT + SBPLX on an
   adaptive-loss elastic-net objective, C code and spline look-ups) converges.  There is no Gallina model of "the fit".
   The property is therefore claimed PARTIAL.  What the theorems carry:

     in sample      C15_certificate_bound, C15_noise_bound, C15_rmse_from_certificate, C15_in_sample_partial:
                    whatever produced the fitted values f, if  SSE(f,y) <= SSE(g,y) + s  (the fit is at most s worse
                    than the generating curve g on the observed usage y; s is MEASURED on every sampled fit) and the
                    noise is at most 1 %, then  RMSE(f,g) <= 0.02 RMS(g) + sqrt(s/n) ; so the statement's 5 % holds as
                    soon as  0.02 RMS(g) + sqrt(s/n) <= 0.05 mean(y).
     feasibility    C15_generator_document: the generating building, written as a stored document, evaluates to the
                    generating curve and its two loads at every temperature (so the truth is a point of the model
                    family the optimiser searches); C15_generator_in_box / C15_family_feasible: that point lies in the
                    box the code hands to the optimiser (balance-point rows from the n-th smallest / largest
                    temperature, intercept row from the 1 %-99 % usage quantiles), given a month of days in each regime.
     no load        C15_flat_has_no_load, C15_no_heating_slope_no_heating_load, C15_no_cooling_slope_no_cooling_load:
                    a stored model without a heating (cooling) slope reports zero heating (cooling) load at every
                    temperature.
     decisions      C15_nrmse_decision, C15_load_decision: the square-root-free tests evaluated in binary64 on every
                    fitted model are the statement's inequalities.

   The out-of-sample half (a different weather year) and the optimiser's slack s are sampled, not proved. *)
From Coq Require Import Reals Lra List Bool Arith Lia.
From Coq Require PrimFloat.
From V Require Import Model.Num Model.NumR Model.NumF Model.DailyCurve Model.DailyCurveRun Model.Recovery Model.RecoveryRun
                      Model.CasesLib Proofs.DailyCurveProofs Proofs.RecoveryProofs.
Import ListNotations.
Local Open Scope R_scope.

Print building.
Print gen_curve.
Print doc_of.
Print nrmse_ok.
Print load_ok.
Print final_box.
Print seg_bounds.
Print quantile_pct.
Print family_days.
Print inside.
Print days_ok.
Print slope_rows_ok.
Print icpt_ok.

(* ------------------------------------------------------------------ the full statement (not proved) *)

(* every observation within 1 % of the generating value *)
Definition noisy (y g : list R) : Prop := Forall2 (fun yi gi => Rabs (yi - gi) <= one_pct NR * gi) y g.

(* the stated ranges of the generating parameters *)
Definition stated_ranges (p : building NR) : Prop :=
  5 <= b_base p <= 50 /\
  (b_hbeta p = 0 \/ 3 / 10 <= b_hbeta p <= 3) /\ (b_cbeta p = 0 \/ 3 / 10 <= b_cbeta p <= 3) /\
  45 <= b_hbp p <= 58 /\ 64 <= b_cbp p <= 75.

Section FitOracle.
(* the fit as a black box: baseline temperatures and usage |-> (predicted, heating_load, cooling_load) at a temperature *)
Variable fit : list R -> list R -> R -> R * R * R.

Definition f_pred (T y : list R) (t : R) : R := fst (fst (fit T y t)).
Definition f_heat (T y : list R) (t : R) : R := snd (fst (fit T y t)).
Definition f_cool (T y : list R) (t : R) : R := snd (fit T y t).

Definition C15_statement : Prop :=
  forall (p : building NR) (T y T2 : list R),
    stated_ranges p -> length T = 365%nat -> length T2 = 365%nat ->
    family_days NR 30 p T = true -> noisy y (map (gen_curve NR p) T) ->
    (* within 5 % of mean usage on the baseline and on a different weather year *)
    nrmse_ok NR (five_pct NR) (map (f_pred T y) T) (map (gen_curve NR p) T) (mean NR y) = true /\
    nrmse_ok NR (five_pct NR) (map (f_pred T y) T2) (map (gen_curve NR p) T2)
             (mean NR (map (gen_curve NR p) T2)) = true /\
    (* no heating / cooling load above 5 % of usage where the generator has none *)
    (b_hbeta p = 0 -> load_ok NR (five_pct NR) (map (f_heat T y) T) y = true /\
                      load_ok NR (five_pct NR) (map (f_heat T y) T2) (map (gen_curve NR p) T2) = true) /\
    (b_cbeta p = 0 -> load_ok NR (five_pct NR) (map (f_cool T y) T) y = true /\
                      load_ok NR (five_pct NR) (map (f_cool T y) T2) (map (gen_curve NR p) T2) = true).

(* the in-sample inequality of the statement, from the certificate the harness measures on every fit *)
Theorem C15_in_sample_partial : forall (p : building NR) (T y : list R) (s : R),
  (0 < length T)%nat -> length T = length y -> 0 <= s -> 0 <= mean NR y ->
  noisy y (map (gen_curve NR p) T) ->
  sse NR (map (f_pred T y) T) y <= sse NR (map (gen_curve NR p) T) y + s ->
  2 * (1 / 100) * RMS (map (gen_curve NR p) T) + sqrt (s / INR (length T)) <= 5 / 100 * mean NR y ->
  nrmse_ok NR (five_pct NR) (map (f_pred T y) T) (map (gen_curve NR p) T) (mean NR y) = true.
Proof.
  intros p T y s Hn L Hs Hm Hnoise Hc Hb.
  apply (in_sample_from_certificate s (mean NR y) (map (f_pred T y) T) y (map (gen_curve NR p) T)).
  - rewrite map_length. exact Hn.
  - rewrite map_length. exact L.
  - exact Hs.
  - exact Hm.
  - exact Hnoise.
  - exact Hc.
  - rewrite map_length. exact Hb.
Qed.

End FitOracle.
Print Assumptions C15_in_sample_partial.

(* ------------------------------------------------------------------ l2 geometry of the certificate *)

(* SSE(f,y) <= SSE(g,y) + s  ->  RMSE(f,g) <= 2 RMSE(y,g) + sqrt(s/n)     (triangle inequality in l2) *)
Theorem C15_certificate_bound : forall (f y g : list R) (s : R),
  (0 < length f)%nat -> length f = length y -> length y = length g -> 0 <= s ->
  sse NR f y <= sse NR g y + s ->
  RMSE f g <= 2 * RMSE y g + sqrt (s / INR (length f)).
Proof. exact certificate_rmse. Qed.
Print Assumptions C15_certificate_bound.

(* |y_i - g_i| <= eps g_i  ->  RMSE(y,g) <= eps sqrt(mean g^2) *)
Theorem C15_noise_bound : forall (eps : R) (y g : list R), 0 <= eps ->
  Forall2 (fun yi gi => Rabs (yi - gi) <= eps * gi) y g ->
  RMSE y g <= eps * RMS g.
Proof. exact noise_rmse. Qed.
Print Assumptions C15_noise_bound.

Theorem C15_rmse_from_certificate : forall (eps s : R) (f y g : list R),
  (0 < length f)%nat -> length f = length y -> 0 <= eps -> 0 <= s ->
  Forall2 (fun yi gi => Rabs (yi - gi) <= eps * gi) y g ->
  sse NR f y <= sse NR g y + s ->
  RMSE f g <= 2 * eps * RMS g + sqrt (s / INR (length f)).
Proof. exact rmse_from_certificate. Qed.
Print Assumptions C15_rmse_from_certificate.

(* the same, normalised by the mean usage m: NRMSE(f,g) <= 0.02 kappa + sqrt(s/n)/m with kappa = RMS(g)/m *)
Theorem C15_nrmse_from_certificate : forall (s m : R) (f y g : list R),
  (0 < length f)%nat -> length f = length y -> 0 <= s -> 0 < m ->
  Forall2 (fun yi gi => Rabs (yi - gi) <= 1 / 100 * gi) y g ->
  sse NR f y <= sse NR g y + s ->
  RMSE f g / m <= 2 / 100 * (RMS g / m) + sqrt (s / INR (length f)) / m.
Proof.
  intros s m f y g Hn L Hs Hm Hnoise Hc.
  pose proof (rmse_from_certificate (1 / 100) s f y g Hn L ltac:(lra) Hs Hnoise Hc) as H.
  unfold Rdiv at 1. apply Rmult_le_reg_r with m; [exact Hm|].
  rewrite Rmult_assoc, Rinv_l, Rmult_1_r by lra.
  replace ((2 / 100 * (RMS g / m) + sqrt (s / INR (length f)) / m) * m)
    with (2 * (1 / 100) * RMS g + sqrt (s / INR (length f))) by (field; lra).
  exact H.
Qed.
Print Assumptions C15_nrmse_from_certificate.

(* ------------------------------------------------------------------ the decisions evaluated on every fitted model *)

Theorem C15_nrmse_decision : forall (lim m : R) (f g : list R), 0 <= lim -> 0 <= m ->
  nrmse_ok NR lim f g m = true <-> RMSE f g <= lim * m.
Proof. exact nrmse_ok_spec. Qed.
Print Assumptions C15_nrmse_decision.

Theorem C15_load_decision : forall (lim : R) (load usage : list R),
  load_ok NR lim load usage = true <-> nsum NR load <= lim * nsum NR usage.
Proof. exact load_ok_spec. Qed.
Print Assumptions C15_load_decision.

Theorem C15_thresholds : five_pct NR = 5 / 100 /\ one_pct NR = 1 / 100.
Proof. split; [exact five_pct_R | exact one_pct_R]. Qed.
Print Assumptions C15_thresholds.

(* ------------------------------------------------------------------ the truth is a feasible point *)

(* the generating building, as a stored document, IS the generating curve (and its two loads) at every temperature *)
Theorem C15_generator_document : forall (p : building NR) (tc : tconstr NR), inside p tc -> forall T : R,
  predict_submodel NR (doc_of NR p) tc T = Some (gen_curve NR p T, gen_heat NR p T, gen_cool NR p T).
Proof. exact generator_document. Qed.
Print Assumptions C15_generator_document.

(* it lies in the box of the final fit as the code constructs it *)
Theorem C15_generator_in_box : forall (p : building NR) (nmin : nat) (T obs : list R) (incoming : list (R * R)),
  0 <= b_hbeta p -> 0 <= b_cbeta p ->
  days_ok p nmin T -> slope_rows_ok p incoming -> icpt_ok p obs ->
  exists box, final_box NR (key_of_shape (shape_of NR p)) nmin T obs incoming = Some box /\
              in_box NR box (raw_of NR p) = true.
Proof. exact generator_in_box. Qed.
Print Assumptions C15_generator_in_box.

(* "at least a month of days in each regime" is what the segment bounds need (segment_minimum_count is 6 / 10) *)
Theorem C15_month_of_days_suffices : forall (p : building NR) (nmin d : nat) (T : list R),
  (1 <= nmin < d)%nat -> family_days NR d p T = true -> days_ok p nmin T.
Proof. exact thirty_days_suffice. Qed.
Print Assumptions C15_month_of_days_suffices.

Theorem C15_family_feasible : forall (p : building NR) (nmin : nat) (T obs : list R) (incoming : list (R * R)),
  0 <= b_hbeta p -> 0 <= b_cbeta p -> (1 <= nmin < 30)%nat ->
  family_days NR 30 p T = true -> slope_rows_ok p incoming -> icpt_ok p obs ->
  exists box, final_box NR (key_of_shape (shape_of NR p)) nmin T obs incoming = Some box /\
              in_box NR box (raw_of NR p) = true.
Proof.
  intros p nmin T obs incoming Hh Hc Hn F Hs Hi.
  apply generator_in_box; try assumption. apply (thirty_days_suffice p nmin 30 T Hn F).
Qed.
Print Assumptions C15_family_feasible.

(* the order statistics behind the balance-point rows *)
Theorem C15_segment_bounds : forall (b : R) (nmin : nat) (T : list R),
  ((nmin < count_le NR b T)%nat -> fst (seg_bounds NR nmin T) <= b) /\
  ((1 <= nmin)%nat -> (nmin <= count_ge NR b T)%nat -> b <= snd (seg_bounds NR nmin T)).
Proof. intros b nmin T. split; [apply seg_lo_le | apply seg_hi_ge]. Qed.
Print Assumptions C15_segment_bounds.

(* ------------------------------------------------------------------ the final box from the initial fit (get_bnds) *)

Print get_bnds_row.
Print final_box_from_initial.
Print near.
Print initial_near.

(* fit_final_model builds the slope / smoothing rows of the final fit as  x0 -+ |x0| final_bounds_scalar  around the
   initial fit's result x0 (-+ 10 scalar around a zero entry): a value within that relative distance lies in the row *)
Theorem C15_get_bnds_row : forall s x0 v : R, near s x0 v ->
  fst (get_bnds_row NR s x0) <= v <= snd (get_bnds_row NR s x0).
Proof. exact get_bnds_row_in. Qed.
Print Assumptions C15_get_bnds_row.

(* so the generating building is feasible for the box of the final fit as the code derives it from the initial fit
   (no row taken on trust): the opaque hypothesis slope_rows_ok of C15_generator_in_box becomes a condition on the
   initial fit's slopes, which harness/c15.py evaluates on every fit *)
Theorem C15_generator_in_box_from_initial_fit : forall (p : building NR) (nmin : nat) (T obs : list R) (s : R) (x0 : list R),
  0 <= b_hbeta p -> 0 <= b_cbeta p ->
  days_ok p nmin T -> initial_near p s x0 -> icpt_ok p obs ->
  exists box, final_box_from_initial NR (key_of_shape (shape_of NR p)) nmin T obs s x0 = Some box /\
              in_box NR box (raw_of NR p) = true.
Proof. exact generator_in_box_from_initial. Qed.
Print Assumptions C15_generator_in_box_from_initial_fit.

(* with the method's final_bounds_scalar = 1 the condition reads: the initial slope is at least half the generating one *)
Theorem C15_half_the_slope_suffices : forall x0 v : R, 0 < x0 -> 0 <= v <= 2 * x0 -> near 1 x0 v.
Proof. exact near_scalar_one. Qed.
Print Assumptions C15_half_the_slope_suffices.

(* ------------------------------------------------------------------ out of sample, from the stored parameters *)

Print param_gap.
Print side_gap_n.
Print free_bp.

(* a stored document (admissible, off the corner: C11) stays within param_gap of the generating curve at EVERY temperature
   of the range: |intercept - base| + per side |slope difference| x reach of the range beyond the balance point
   + slope x |balance-point difference| + slope x smoothing length *)
Theorem C15_parameters_close_curve_close : forall (c : coeffs NR) (tc : tconstr NR) (p : building NR) (Tlo Thi T : R),
  admissible lo hi c tc -> off_corner lo hi c tc -> Tlo <= T <= Thi ->
  Rabs (predicted lo hi c tc T - gen_curve NR p T) <= param_gap NR (eff lo hi c tc) p Tlo Thi.
Proof. exact document_gap. Qed.
Print Assumptions C15_parameters_close_curve_close.

(* hence the statement's out-of-sample inequality for EVERY weather year whose temperatures stay in the range
   (harness/c15.py evaluates param_gap for every fitted model and reports for how many it is below 5 % of the base load) *)
Theorem C15_out_of_sample_from_parameters : forall (c : coeffs NR) (tc : tconstr NR) (p : building NR)
    (Tlo Thi lim m : R) (T2 : list R),
  admissible lo hi c tc -> off_corner lo hi c tc -> 0 <= lim -> 0 <= m ->
  Forall (fun t => Tlo <= t <= Thi) T2 ->
  param_gap NR (eff lo hi c tc) (free_bp NR p (eff lo hi c tc)) Tlo Thi <= lim * m ->
  nrmse_ok NR lim (map (predicted lo hi c tc) T2) (map (gen_curve NR p) T2) m = true.
Proof. exact out_of_sample_from_parameters. Qed.
Print Assumptions C15_out_of_sample_from_parameters.

Theorem C15_pointwise_bound_gives_rmse : forall (D : R) (f g : list R), 0 <= D ->
  Forall2 (fun a b => Rabs (a - b) <= D) f g -> RMSE f g <= D.
Proof. exact rmse_pointwise. Qed.
Print Assumptions C15_pointwise_bound_gives_rmse.

(* ------------------------------------------------------------------ no load where there is no slope *)

(* a model stored as temperature independent: prediction = intercept, zero heating and cooling load, at every
   temperature, whatever its other fields and temperature constraints *)
Theorem C15_flat_has_no_load : forall (c : coeffs NR) (tc : tconstr NR) (T : R), model_type c = Tidd ->
  predict_submodel NR c tc T = Some (intercept c, 0, 0).
Proof. exact predict_tidd. Qed.
Print Assumptions C15_flat_has_no_load.

Theorem C15_no_heating_slope_no_heating_load : forall (c : coeffs NR) (tc : tconstr NR),
  admissible lo hi c tc -> off_corner lo hi c tc -> heat_slope lo hi c = 0 ->
  forall T : R, heating_load lo hi c tc T = 0.
Proof. exact no_heat_slope_no_heat_load. Qed.
Print Assumptions C15_no_heating_slope_no_heating_load.

Theorem C15_no_cooling_slope_no_cooling_load : forall (c : coeffs NR) (tc : tconstr NR),
  admissible lo hi c tc -> off_corner lo hi c tc -> cool_slope lo hi c = 0 ->
  forall T : R, cooling_load lo hi c tc T = 0.
Proof. exact no_cool_slope_no_cool_load. Qed.
Print Assumptions C15_no_cooling_slope_no_cooling_load.

(* ------------------------------------------------------------------ non-vacuity *)

(* three days; the fit misses one observation by 1, the generator is exact: certificate with s = 1 *)
Example ex_certificate :
  let f := [10; 20; 30] in let y := [10; 21; 30] in let g := [10; 21; 30] in
  (0 < length f)%nat /\ length f = length y /\ length y = length g /\
  sse NR f y <= sse NR g y + 1 /\ RMSE f g <= 2 * RMSE y g + sqrt (1 / INR (length f)).
Proof.
  cbv zeta. assert (H : sse NR [10; 20; 30] [10; 21; 30] <= sse NR [10; 21; 30] [10; 21; 30] + 1).
  { cbn. lra. }
  repeat split; try reflexivity; try (cbn; lia); try exact H.
  apply C15_certificate_bound; try reflexivity; try (cbn; lia); try lra; try exact H.
Qed.

(* 1 % noise on two days *)
Example ex_noise : Forall2 (fun yi gi => Rabs (yi - gi) <= 1 / 100 * gi) [101; 198] [100; 200] /\
                   RMSE [101; 198] [100; 200] <= 1 / 100 * RMS [100; 200].
Proof.
  assert (H : Forall2 (fun yi gi => Rabs (yi - gi) <= 1 / 100 * gi) [101; 198] [100; 200]).
  { apply Forall2_cons; [|apply Forall2_cons; [|apply Forall2_nil]].
    - replace (101 - 100) with 1 by ring. rewrite Rabs_R1. lra.
    - replace (198 - 200) with (Ropp 2) by ring. rewrite Rabs_Ropp, Rabs_right by lra. lra. }
  split; [exact H|]. apply C15_noise_bound; [lra | exact H].
Qed.

(* a building that heats and cools, strictly inside a fitted temperature range *)
Definition ex_p : building NR := Build_building NR 20 (12 / 10) 52 (8 / 10) 68.
Definition ex_tc : tconstr NR := Build_tconstr NR 25 95 30 90.
Example ex_inside : inside ex_p ex_tc.
Proof.
  unfold inside, ex_p, ex_tc, bounds_ok, shape_of. cbn [b_base b_hbeta b_hbp b_cbeta b_cbp T_min T_max T_min_seg T_max_seg].
  change (@n_eqb NR (12 / 10) n_zero) with (Reqb (12 / 10) 0). change (@n_eqb NR (8 / 10) n_zero) with (Reqb (8 / 10) 0).
  rewrite (proj2 (Reqb_false (12 / 10) 0)) by lra. rewrite (proj2 (Reqb_false (8 / 10) 0)) by lra.
  lra.
Qed.
Example ex_document_at_40F :
  predict_submodel NR (doc_of NR ex_p) ex_tc 40 = Some (gen_curve NR ex_p 40, gen_heat NR ex_p 40, gen_cool NR ex_p 40).
Proof. apply C15_generator_document. exact ex_inside. Qed.

(* heating-only, flat and cooling-only buildings satisfy [inside] too *)
Example ex_inside_all_shapes :
  inside (Build_building NR 20 1 52 0 68) ex_tc /\ inside (Build_building NR 20 0 52 1 68) ex_tc /\
  inside (Build_building NR 20 0 52 0 68) ex_tc.
Proof.
  unfold inside, ex_tc, bounds_ok, shape_of. cbn [b_base b_hbeta b_hbp b_cbeta b_cbp T_min T_max T_min_seg T_max_seg].
  change (@n_eqb NR 1 n_zero) with (Reqb 1 0). change (@n_eqb NR 0 n_zero) with (Reqb 0 0).
  rewrite (proj2 (Reqb_false 1 0)) by lra. rewrite (proj2 (Reqb_true 0 0)) by reflexivity.
  cbn iota. lra.
Qed.

(* a heating-only building, four days, segment minimum 1: hypotheses of C15_generator_in_box *)
Definition ex_h : building NR := Build_building NR 20 1 50 0 70.
Example ex_in_box :
  exists box, final_box NR (key_of_shape (shape_of NR ex_h)) 1 [40; 45; 60; 65] [20] [(0, 0); (- 2, 0); (0, 0)] = Some box /\
              in_box NR box (raw_of NR ex_h) = true.
Proof.
  apply C15_generator_in_box.
  - cbn. lra.
  - cbn. lra.
  - unfold days_ok, ex_h. cbn [b_hbeta b_cbeta b_hbp b_cbp]. split; [intros _ | intros H; exfalso; apply H; reflexivity].
    unfold count_le, count_ge, count. cbn [filter].
    change (@n_leb NR) with Rleb.
    rewrite (proj2 (Rleb_true 40 50)) by lra. rewrite (proj2 (Rleb_true 45 50)) by lra.
    rewrite (proj2 (Rleb_false 60 50)) by lra. rewrite (proj2 (Rleb_false 65 50)) by lra.
    rewrite (proj2 (Rleb_false 50 40)) by lra. rewrite (proj2 (Rleb_false 50 45)) by lra.
    rewrite (proj2 (Rleb_true 50 60)) by lra. rewrite (proj2 (Rleb_true 50 65)) by lra.
    cbn. lia.
  - unfold slope_rows_ok, ex_h, shape_of. cbn [b_hbeta b_cbeta].
    change (@n_eqb NR 1 n_zero) with (Reqb 1 0). change (@n_eqb NR 0 n_zero) with (Reqb 0 0).
    rewrite (proj2 (Reqb_false 1 0)) by lra. rewrite (proj2 (Reqb_true 0 0)) by reflexivity.
    cbn. lra.
  - unfold icpt_ok, ex_h. cbn [b_base]. rewrite !quantile_singleton. lra.
Qed.

(* a month of days in each regime: d = 2 on a toy year *)
Example ex_month_of_days : days_ok ex_h 1 [40; 45; 60; 65].
Proof.
  apply (C15_month_of_days_suffices ex_h 1 2); [lia|].
  unfold family_days, cold_days, hot_days, flat_days, count_lt, count_gt, count, in_flat, ex_h.
  cbn [b_hbeta b_cbeta b_hbp b_cbp filter].
  change (@n_eqb NR 1 n_zero) with (Reqb 1 0). change (@n_eqb NR 0 n_zero) with (Reqb 0 0).
  rewrite (proj2 (Reqb_false 1 0)) by lra. rewrite (proj2 (Reqb_true 0 0)) by reflexivity.
  change (@n_ltb NR) with Rltb. change (@n_leb NR) with Rleb.
  rewrite (proj2 (Rltb_true 40 50)) by lra. rewrite (proj2 (Rltb_true 45 50)) by lra.
  rewrite (proj2 (Rltb_false 60 50)) by lra. rewrite (proj2 (Rltb_false 65 50)) by lra.
  rewrite (proj2 (Rleb_false 50 40)) by lra. rewrite (proj2 (Rleb_false 50 45)) by lra.
  rewrite (proj2 (Rleb_true 50 60)) by lra. rewrite (proj2 (Rleb_true 50 65)) by lra.
  reflexivity.
Qed.

(* the same building, the box derived from an initial fit that found slope -0.8 (generator -1), scalar 1 *)
Example ex_in_box_from_initial :
  exists box, final_box_from_initial NR (key_of_shape (shape_of NR ex_h)) 1 [40; 45; 60; 65] [20] 1 [49; - (8 / 10); 21] = Some box /\
              in_box NR box (raw_of NR ex_h) = true.
Proof.
  apply C15_generator_in_box_from_initial_fit.
  - cbn. lra.
  - cbn. lra.
  - exact ex_month_of_days.
  - unfold initial_near, ex_h, shape_of. cbn [b_hbeta b_cbeta].
    change (@n_eqb NR 1 n_zero) with (Reqb 1 0). change (@n_eqb NR 0 n_zero) with (Reqb 0 0).
    rewrite (proj2 (Reqb_false 1 0)) by lra. rewrite (proj2 (Reqb_true 0 0)) by reflexivity.
    cbn iota. split; [intros E; lra|]. intros _.
    unfold Rabs. repeat match goal with |- context [Rcase_abs ?x] => destruct (Rcase_abs x) end; lra.
  - unfold icpt_ok, ex_h. cbn [b_base]. rewrite !quantile_singleton. lra.
Qed.


(* a stored two-sided document whose base load is off by 0.1: within 5 % of a mean usage of 20 on every weather year
   between 0 F and 100 F *)
Definition ex_fit_doc : coeffs NR := Build_coeffs NR HddTiddCdd (201 / 10) (Some 52) (Some (12 / 10)) None (Some 68) (Some (8 / 10)) None.
Example ex_out_of_sample : forall T2 : list R, Forall (fun t => 0 <= t <= 100) T2 ->
  nrmse_ok NR (5 / 100) (map (predicted lo hi ex_fit_doc ex_tc) T2) (map (gen_curve NR ex_p) T2) 20 = true.
Proof.
  intros T2 HT.
  assert (A : admissible lo hi ex_fit_doc ex_tc) by (unfold admissible, bounds_ok; cbn; lra).
  assert (O : off_corner lo hi ex_fit_doc ex_tc)
    by (apply (upper_below_Tmax_off_corner lo hi ex_fit_doc ex_tc A); cbn; lra).
  apply (C15_out_of_sample_from_parameters ex_fit_doc ex_tc ex_p 0 100); try assumption; try lra.
  unfold eff, ex_fit_doc, ex_tc. unfold RNum. rewrite effective_both by lra.
  unfold param_gap, side_gap_n, free_bp, ex_p. cbn [x_intercept x_hdd_beta x_hdd_k x_hdd_bp x_cdd_beta x_cdd_k x_cdd_bp b_base b_hbeta b_hbp b_cbeta b_cbp].
  change (@n_eqb (RNumOf lo hi) (12 / 10) n_zero) with (Reqb (12 / 10) 0).
  change (@n_eqb (RNumOf lo hi) (8 / 10) n_zero) with (Reqb (8 / 10) 0).
  rewrite (proj2 (Reqb_false (12 / 10) 0)) by lra. rewrite (proj2 (Reqb_false (8 / 10) 0)) by lra.
  cbn [b_base b_hbeta b_hbp b_cbeta b_cbp].
  change (@n_add (RNumOf lo hi)) with Rplus. change (@n_sub (RNumOf lo hi)) with Rminus.
  change (@n_mul (RNumOf lo hi)) with Rmult. change (@n_abs (RNumOf lo hi)) with Rabs.
  replace (12 / 10 - 12 / 10) with 0 by lra. replace (8 / 10 - 8 / 10) with 0 by lra.
  replace (52 - (52 - 0)) with 0 by lra. replace (68 - (68 + 0)) with 0 by lra.
  replace (201 / 10 - 20) with (1 / 10) by lra.
  rewrite Rabs_R0, (Rabs_right (1 / 10)) by lra. lra.
Qed.

(* a stored cooling-only document is admissible, off the corner, has no heating slope: no heating load anywhere *)
Definition ex_cool_doc : coeffs NR := Build_coeffs NR TiddCdd 20 None None None (Some 68) (Some 1) None.
Example ex_cool_doc_no_heating : forall T : R, heating_load lo hi ex_cool_doc ex_tc T = 0.
Proof.
  assert (A : admissible lo hi ex_cool_doc ex_tc) by (unfold admissible, bounds_ok; cbn; lra).
  apply C15_no_heating_slope_no_heating_load.
  - exact A.
  - apply (upper_below_Tmax_off_corner lo hi ex_cool_doc ex_tc A). cbn. lra.
  - reflexivity.
Qed.

Example ex_flat_doc : predict_submodel NR (Build_coeffs NR Tidd 20 None None None None None None) ex_tc 10 = Some (20, 0, 0).
Proof. apply C15_flat_has_no_load. reflexivity. Qed.

(* the same document through the binary64 instance of the same text (what harness/c15.py evaluates) *)
Module Binary64.
Import PrimFloat.
Definition ex_pf : building FNum := Build_building FNum 20%float 0x1.3333333333333p+0%float 52%float 0x1.999999999999ap-1%float 68%float.
Definition ex_tcf : tconstr FNum := Build_tconstr FNum 25%float 95%float 30%float 90%float.
Example ex_document_binary64 :
  predict_submodel FNum (doc_of FNum ex_pf) ex_tcf 40%float
  = Some (gen_curve FNum ex_pf 40%float, gen_heat FNum ex_pf 40%float, gen_cool FNum ex_pf 40%float)
  /\ predict_submodel FNum (doc_of FNum ex_pf) ex_tcf 80%float
  = Some (gen_curve FNum ex_pf 80%float, gen_heat FNum ex_pf 80%float, gen_cool FNum ex_pf 80%float).
Proof. vm_compute. split; reflexivity. Qed.

(* the comparison functions harness/c15.py calls, on a toy fitted model that IS the generator: two baseline days, one
   second-year day; every aggregate the harness would send is what the model computes, the verdicts are "holds" *)
Definition toy_sub : RecoveryRun.sub := (doc_of FNum ex_pf, ex_tcf).
Definition toy_base : list brow :=
  [ (0%nat, 40%float, gen_curve FNum ex_pf 40%float, gen_curve FNum ex_pf 40%float, gen_heat FNum ex_pf 40%float, gen_cool FNum ex_pf 40%float);
    (0%nat, 80%float, gen_curve FNum ex_pf 80%float, gen_curve FNum ex_pf 80%float, gen_heat FNum ex_pf 80%float, gen_cool FNum ex_pf 80%float) ].
Definition toy_year2 : list yrow :=
  [ (0%nat, 60%float, gen_curve FNum ex_pf 60%float, gen_heat FNum ex_pf 60%float, gen_cool FNum ex_pf 60%float) ].
Definition toy_sent : sent :=
  let y := map (fun r : brow => let '(_, _, y, _, _, _) := r in y) toy_base in
  {| s_mse_in := 0; s_mean_in := mean FNum y; s_mse_out := 0; s_mean_out := gen_curve FNum ex_pf 60%float;
     s_heat_in := gen_heat FNum ex_pf 40%float; s_cool_in := gen_cool FNum ex_pf 80%float; s_use_in := nsum FNum y;
     s_heat_out := 0; s_cool_out := 0; s_use_out := gen_curve FNum ex_pf 60%float;
     s_sse_fy := 0; s_sse_gy := 0;
     s_nrmse_in_ok := true; s_nrmse_out_ok := true;
     s_heat_in_ok := false; s_cool_in_ok := false; s_heat_out_ok := true; s_cool_out_ok := true |}.
Example ex_check_fit : check_any (AFit (ex_pf, [toy_sub], toy_base, toy_year2, toy_sent)) = true.
Proof. vm_compute. reflexivity. Qed.
(* ... and it notices a wrong verdict and a wrong prediction *)
Example ex_check_fit_rejects :
  check_any (AFit (ex_pf, [toy_sub], toy_base, toy_year2,
                   {| s_mse_in := 0; s_mean_in := s_mean_in toy_sent; s_mse_out := 0; s_mean_out := s_mean_out toy_sent;
                      s_heat_in := s_heat_in toy_sent; s_cool_in := s_cool_in toy_sent; s_use_in := s_use_in toy_sent;
                      s_heat_out := 0; s_cool_out := 0; s_use_out := s_use_out toy_sent; s_sse_fy := 0; s_sse_gy := 0;
                      s_nrmse_in_ok := false; s_nrmse_out_ok := true;
                      s_heat_in_ok := false; s_cool_in_ok := false; s_heat_out_ok := true; s_cool_out_ok := true |})) = false
  /\ check_any (AFit (ex_pf, [toy_sub], (0%nat, 40%float, 30%float, 31%float, 0%float, 0%float) :: toy_base, toy_year2, toy_sent)) = false.
Proof. vm_compute. split; reflexivity. Qed.
(* the box of a cooling-only fit on five days, as Model/Recovery.v constructs it, and a narrowed intercept row *)
Example ex_check_box :
  check_any (AFinalBox (KC, 1%nat, [50; 60; 70; 80; 90]%float, [10; 10; 10; 20; 30]%float,
                        [(60, 90); (0, 2); (10, 0x1.d99999999999ap+4)]%float)) = true
  /\ check_any (AFinalBox (KC, 1%nat, [50; 60; 70; 80; 90]%float, [10; 10; 10; 20; 30]%float,
                           [(60, 90); (0, 2); (10, 20)]%float)) = false.
Proof. vm_compute. split; reflexivity. Qed.
(* the same box derived from the initial fit's result [bp 70; slope 1; intercept 10] with final_bounds_scalar 1:
   slope row 1 -+ 1; with another scalar the recorded row no longer matches *)
Example ex_check_box_from_initial :
  check_any (AFinalFromInitial (KC, 1%nat, [50; 60; 70; 80; 90]%float, [10; 10; 10; 20; 30]%float, 1%float,
                                [70; 1; 10]%float, [(60, 90); (0, 2); (10, 0x1.d99999999999ap+4)]%float)) = true
  /\ check_any (AFinalFromInitial (KC, 1%nat, [50; 60; 70; 80; 90]%float, [10; 10; 10; 20; 30]%float, 2%float,
                                   [70; 1; 10]%float, [(60, 90); (0, 2); (10, 0x1.d99999999999ap+4)]%float)) = false.
Proof. vm_compute. split; reflexivity. Qed.
End Binary64.
