(* C05 — the counterfactual never depends on reporting-period consumption.
   Statements only; proofs are in Proofs/CounterfactualProofs.v and Proofs/HourlyFlowProofs.v; the models are
   Model/Rows.v + Model/PredictRows.v (daily / billing row pipeline), Model/HourlyFlow.v (hourly pipeline, DST
   stages of Model/Dst.v) and Model/CounterfactualFlows.v (relations, CalTRACK hourly flow). *)
From Coq Require Import ZArith QArith List Bool Arith.
From V Require Import Model.Resample Model.TempAgg.
From V Require Import Generated.ObservedReadsGen Model.ReadSites.
From V Require Import Model.Dst Model.DstRun Model.Rows Model.PredictRows Model.HourlyFlow Model.CounterfactualFlows
                      Model.CounterfactualRun Proofs.CounterfactualProofs Proofs.HourlyFlowProofs.
Import ListNotations.

(* ================================================================== daily / billing ======================= *)

(* Full statement: two reporting frames with the same index, segments and temperatures — the usage columns may be
   anything (scaled, shuffled, partly / entirely NaN, +-inf) or absent on either side, and the masking policies may
   differ —: every index label that carries a prediction in both runs carries the same one. *)
Definition C05_daily_statement : Prop :=
  forall (A : Type) (f : Z -> A -> A) pol pol' has_obs has_obs' (rows rows' : list (row A)),
    NoDup (map (@ts A) rows) -> same_weather_calendar_rows rows rows' ->
    forall t p p', predicted_at (predict_rows f pol has_obs rows) t p ->
                   predicted_at (predict_rows f pol' has_obs' rows') t p' -> p = p'.

Theorem C05_daily_ni : C05_daily_statement.
Proof. exact daily_ni_l. Qed.
Print Assumptions C05_daily_ni.

(* a label is predicted exactly when its temperature is finite and (usage column supplied) its usage is finite;
   the value is the curve of the row's segment at its temperature: nothing else enters *)
Theorem C05_daily_prediction_is_curve : forall (A : Type) (f : Z -> A -> A) pol has_obs (rows : list (row A)) t p,
  predicted_at (predict_rows f pol has_obs rows) t p <->
  exists r te, In r rows /\ ts r = t /\ complete has_obs r = true /\ temp r = V te /\ p = f (seg r) te.
Proof. exact predicted_at_iff. Qed.
Print Assumptions C05_daily_prediction_is_curve.

(* omitting the usage column loses no prediction *)
Theorem C05_daily_absent_superset : forall (A : Type) (f : Z -> A -> A) pol pol' (rows rows' : list (row A)),
  NoDup (map (@ts A) rows) -> same_weather_calendar_rows rows rows' ->
  forall t p, predicted_at (predict_rows f pol true rows) t p -> predicted_at (predict_rows f pol' false rows') t p.
Proof. exact daily_absent_superset_l. Qed.
Print Assumptions C05_daily_absent_superset.

(* the alterations the property names are instances of the relation *)
Theorem C05_daily_alterations_keep_weather : forall (A : Type) (rows : list (row A)),
  same_weather_calendar_rows rows (blank_rows rows) /\
  (forall g, same_weather_calendar_rows rows (map_obs g rows)) /\
  (forall cells, same_weather_calendar_rows rows (replace_obs cells rows)).
Proof.
  intros A rows. split; [apply blank_rows_same|]. split; [intros g; apply map_obs_same | intros c; apply replace_obs_same].
Qed.
Print Assumptions C05_daily_alterations_keep_weather.

(* the same over the pipeline with explicit routing (`_meter_segment`) and left join (Model/PredictRows.v), under
   C13's exact cover and calendar-only routing *)
Theorem C05_daily_pipeline_ni : forall (V K : Type) (finite : V -> bool) (predict_sub : K -> V -> option V)
    (member : K -> @drow V -> bool) (keys : list K),
  (forall k r r', d_ts r = d_ts r' -> member k r = member k r') ->
  forall obs obs' (rows rows' : list (@drow V)),
    NoDup (map d_ts rows) -> same_weather_calendar_drows rows rows' ->
    exact_cover finite member keys obs rows ->
    forall r p r' p',
      In (r, Some p) (daily_predict finite predict_sub member keys obs rows) ->
      In (r', Some p') (daily_predict finite predict_sub member keys obs' rows') ->
      d_ts r = d_ts r' -> p = p'.
Proof. intros V K finite predict_sub member keys Hm. exact (daily_pipeline_ni_l finite predict_sub member keys Hm). Qed.
Print Assumptions C05_daily_pipeline_ni.

(* non-vacuity: three days, usage scaled / one day blanked / absent; day 0 is predicted in every run with the value 7 *)
Definition ex_rows : list (row Z) := [mkrow 0 1 (V 50) (V 10); mkrow 1 2 (V 60) (V 20); mkrow 2 1 NaN (V 30)]%Z.
Definition ex_curve (s t : Z) : Z := (s * 100 + t)%Z.
Example C05_daily_nonvacuous :
  NoDup (map (@ts Z) ex_rows) /\
  predicted_at (predict_rows ex_curve MaskOff true ex_rows) 0%Z 150%Z /\
  predicted_at (predict_rows ex_curve MaskOff true (map_obs (Z.mul 3) ex_rows)) 0%Z 150%Z /\
  predicted_at (predict_rows ex_curve MaskOff true (replace_obs [V 5; NaN; V 1] ex_rows)) 0%Z 150%Z /\
  predicted_at (predict_rows ex_curve MaskOff false (blank_rows ex_rows)) 0%Z 150%Z /\
  (* the blanked day is no longer predicted: blanking removes predictions, it never changes one *)
  (forall p, ~ predicted_at (predict_rows ex_curve MaskOff true (replace_obs [V 5; NaN; V 1] ex_rows)) 1%Z p).
Proof.
  split; [repeat constructor; cbn; intuition discriminate|].
  repeat split; try (eexists; split; [vm_compute; left; reflexivity | split; reflexivity]).
  intros p [o [Ho [Ht Hp]]]. vm_compute in Ho.
  destruct Ho as [<-|[<-|[<-|[]]]]; cbn in Ht, Hp; discriminate.
Qed.

(* ================================================================== daily data class: temperature of a meter day == *)

(* with the meter-day index a function of the stamps of the frame, the stage (index + TempAgg aggregation) is a function of
   weather and calendar only *)
Theorem C05_daily_stage_ni : forall day_index tol (a b : list frow), same_weather_frows a b ->
  daily_stage day_index tol a = daily_stage day_index tol b.
Proof. exact daily_stage_ni_l. Qed.
Print Assumptions C05_daily_stage_ni.

(* whatever the two meter-day indexes are (usage supplied / blank / another null pattern): a meter day that is in both and
   is followed by the same meter day in both gets the same temperature row — usage can only act through the index *)
Theorem C05_daily_window_ni : forall tol temps idx idx' lo r r' hi,
  NoDup idx -> NoDup idx' ->
  In (lo, r) (day_temps tol idx temps) -> In (lo, r') (day_temps tol idx' temps) ->
  next_in idx lo hi -> next_in idx' lo hi -> r = r'.
Proof. exact day_window_ni_l. Qed.
Print Assumptions C05_daily_window_ni.

(* the index as coded reads which rows carry a reading: unchanged when the same rows do (scaled, negated, shuffled) *)
Theorem C05_daily_stage_as_coded_partial : forall fc tol (a b : list frow), same_weather_frows a b ->
  same_usage_presence a b -> daily_stage_as_coded fc tol a = daily_stage_as_coded fc tol b.
Proof. exact daily_stage_as_coded_partial_l. Qed.
Print Assumptions C05_daily_stage_as_coded_partial.

(* refutation for the unchanged code (finding C05-K4): hourly weather from 06:00 of day 0, one reading per day at midnight
   of days 1 to 4; blanking the reading of day 2 puts that day's filler row at 06:00 (the clock of the first row of the
   frame), and day 1 — whose own reading is untouched — now averages 30 hours instead of 24 *)
Definition k4_frame (blank2 : bool) : list frow :=
  map (fun k => let s := (360 + 60 * Z.of_nat k)%Z in
                (s, (if (s mod 1440 =? 0)%Z && negb (blank2 && (s =? 2880)%Z) then Some 1%Q else None),
                 Some (inject_Z ((s / 60) mod 24)))) (seq 0 96).
Theorem C05_daily_stage_as_coded_refuted : exists (a b : list frow) r r',
  same_weather_frows a b /\
  In (1440%Z, r) (daily_stage_as_coded FrameStart None a) /\ In (1440%Z, r') (daily_stage_as_coded FrameStart None b) /\
  t_notnull r = Some 24%Z /\ t_notnull r' = Some 30%Z.
Proof.
  exists (k4_frame false), (k4_frame true). eexists. eexists.
  split; [vm_compute; reflexivity|].
  split; [vm_compute; right; left; reflexivity|]. split; [vm_compute; right; left; reflexivity|].
  split; reflexivity.
Qed.
Print Assumptions C05_daily_stage_as_coded_refuted.

(* with the filler days on the readings' clock (C05-4.diff) the same witness keeps day 1's window *)
Example C05_daily_stage_reading_clock_witness :
  meter_index_as_coded FrameStart (map f_stamp (k4_frame true))
     (map (fun r => match f_obs r with Some _ => true | None => false end) (k4_frame true)) = [360; 1440; 3240; 4320; 5760]%Z /\
  meter_index_as_coded ReadingClock (map f_stamp (k4_frame true))
     (map (fun r => match f_obs r with Some _ => true | None => false end) (k4_frame true)) = [0; 1440; 2880; 4320; 5760]%Z /\
  exists r, In (1440%Z, r) (daily_stage_as_coded ReadingClock None (k4_frame true)) /\ t_notnull r = Some 24%Z.
Proof.
  split; [vm_compute; reflexivity|]. split; [vm_compute; reflexivity|].
  eexists. split; [vm_compute; right; left; reflexivity | reflexivity].
Qed.

(* ================================================================== hourly ================================ *)

(* Full statement for a given way of counting the rows of a date: for every instantiation of the oracles, every stored
   cluster table that covers the (month, weekday) combinations of the reporting frame (the property's guard) and every
   pair of frames that differ only in the usage column: the two runs agree — every stamp predicted in both carries
   the same value, and if one run raises so does the other. *)
Definition C05_hourly_statement (pol : policy) : Prop :=
  forall (W O F C Y : Type) (K : oracles W O F C Y) (t : table) (fr fr' : frame W O),
    same_weather_calendar fr fr' -> covers t fr = true ->
    agree (hourly_flow K pol t fr) (hourly_flow K pol t fr').

(* with the rows of a date counted (the repair of /var/tmp/proposed-fixes/C05-1.diff) it is a theorem *)
Theorem C05_hourly_ni_count_rows : forall pol, count_rows pol = true -> C05_hourly_statement pol.
Proof.
  intros pol Hp W O F C Y K t fr fr' H Hc. apply eq_agree. apply hourly_flow_ni_count_rows; assumption.
Qed.
Print Assumptions C05_hourly_ni_count_rows.

(* the code as it is (non-null usage cells of a date counted): the whole result is unchanged under the exact guard the
   code forces — the tests count == 23 and count == 25 come out the same for every date *)
Theorem C05_hourly_ni_partial : forall (W O F C Y : Type) (K : oracles W O F C Y) pol t (fr fr' : frame W O),
  same_weather_calendar fr fr' -> covers t fr = true ->
  map (dst_trigger pol) fr = map (dst_trigger pol) fr' ->
  hourly_flow K pol t fr = hourly_flow K pol t fr'.
Proof. intros W O F C Y K. exact (hourly_flow_ni K). Qed.
Print Assumptions C05_hourly_ni_partial.

(* ... which holds when both usage columns have no gap (what HourlyReportingData hands over whenever the caller's
   column holds at least one value: it interpolates the rest) — scaled, shuffled, partly blanked *)
Theorem C05_hourly_ni_fully_observed_partial : forall (W O F C Y : Type) (K : oracles W O F C Y) pol t (fr fr' : frame W O),
  same_weather_calendar fr fr' -> covers t fr = true -> fully_observed fr = true -> fully_observed fr' = true ->
  hourly_flow K pol t fr = hourly_flow K pol t fr'.
Proof. intros W O F C Y K. exact (hourly_flow_ni_fully_observed K). Qed.
Print Assumptions C05_hourly_ni_fully_observed_partial.

(* ... and when usage is blanked or omitted on a frame none of whose dates has 23 or 25 rows *)
Theorem C05_hourly_ni_blank_regular_partial : forall (W O F C Y : Type) (K : oracles W O F C Y) pol t (fr fr' : frame W O),
  count_rows pol = false ->
  same_weather_calendar fr fr' -> covers t fr = true -> fully_observed fr = true -> blank fr' = true ->
  no_short_long fr = true ->
  hourly_flow K pol t fr = hourly_flow K pol t fr'.
Proof. intros W O F C Y K. exact (hourly_flow_ni_blank_regular K). Qed.
Print Assumptions C05_hourly_ni_blank_regular_partial.

(* ... and two frames without any usable usage value (all NaN vs omitted) agree for EVERY stored table, covered or not *)
Theorem C05_hourly_ni_both_blank : forall (W O F C Y : Type) (K : oracles W O F C Y) pol t (fr fr' : frame W O),
  same_weather_calendar fr fr' -> blank fr = true -> blank fr' = true ->
  hourly_flow K pol t fr = hourly_flow K pol t fr'.
Proof. intros W O F C Y K. exact (hourly_flow_ni_both_blank K). Qed.
Print Assumptions C05_hourly_ni_both_blank.

(* the repair changes nothing for frames with a complete usage column *)
Theorem C05_hourly_repair_conservative : forall (W O F C Y : Type) (K : oracles W O F C Y) pol pol' t (fr : frame W O),
  loc_by_mask pol = loc_by_mask pol' ->
  fully_observed fr = true -> hourly_flow K pol t fr = hourly_flow K pol' t fr.
Proof. intros W O F C Y K. exact (count_rows_agrees_when_full K). Qed.
Print Assumptions C05_hourly_repair_conservative.

(* stage by stage: where usage can enter *)
Theorem C05_hourly_cluster_stage_ni : forall (W O F C Y : Type) (K : oracles W O F C Y) t (fr fr' : frame W O),
  same_weather_calendar fr fr' -> covers t fr = true -> cluster_stage K t fr = cluster_stage K t fr'.
Proof. intros W O F C Y K. exact (cluster_stage_ni K). Qed.
Print Assumptions C05_hourly_cluster_stage_ni.

Theorem C05_hourly_everything_else_ni : forall (W O F C Y : Type) (K : oracles W O F C Y) pol t (fr fr' : frame W O),
  same_weather_calendar fr fr' -> dst_stage pol fr = dst_stage pol fr' ->
  cluster_stage K t fr = cluster_stage K t fr' -> hourly_flow K pol t fr = hourly_flow K pol t fr'.
Proof. intros W O F C Y K. exact (hourly_flow_from_stages K). Qed.
Print Assumptions C05_hourly_everything_else_ni.

(* ---- refutation of the full statement for the code as it is (finding C05-K1; replayed on the implementation from
   corpus/C05.json): three dates, the middle one a 23-hour day (the clock skips 02:00); with usage present the short
   day is found and 71 rows are predicted, with usage blanked / omitted it goes unnoticed and np.array() raises *)
Definition w_days : list hfday :=
  [(0, seq 0 24, 3, 5, None); (1440, clock_hours (Short 2), 3, 6, None); (2820, seq 0 24, 3, 0, None)]%Z.
Definition w_table : table := [((3, 5), 0); ((3, 6), 1); ((3, 0), 0)]%Z.
Definition w_observed : frame unit unit := mk_frame w_days [(true, []); (true, []); (true, [])].
Definition w_blank : frame unit unit := mk_frame w_days [].

Theorem C05_hourly_ni_refuted : exists (t : table) (fr fr' : frame unit unit),
  same_weather_calendar fr fr' /\ covers t fr = true /\
  (exists out, hourly_flow unit_oracles count_observed t fr = Ok out /\ length out = 71%nat) /\
  hourly_flow unit_oracles count_observed t fr' = Err ERagged.
Proof.
  exists w_table, w_observed, w_blank. split; [vm_compute; reflexivity|]. split; [vm_compute; reflexivity|].
  split; [eexists; split; [vm_compute; reflexivity | reflexivity] | vm_compute; reflexivity].
Qed.
Print Assumptions C05_hourly_ni_refuted.

Theorem C05_hourly_statement_as_coded_refuted : ~ C05_hourly_statement count_observed.
Proof.
  intros H. specialize (H unit unit Z unit Z unit_oracles w_table w_observed w_blank).
  assert (S : same_weather_calendar w_observed w_blank) by (vm_compute; reflexivity).
  assert (Cv : covers w_table w_observed = true) by (vm_compute; reflexivity).
  specialize (H S Cv). vm_compute in H. exact H.
Qed.
Print Assumptions C05_hourly_statement_as_coded_refuted.

(* non-vacuity of the guarded theorems and of the repaired statement: on the same witness the repaired counting
   predicts the 71 rows on both sides *)
Example C05_hourly_count_rows_witness :
  same_weather_calendar w_observed w_blank /\ covers w_table w_observed = true /\
  hourly_flow unit_oracles count_rows_only w_table w_observed = hourly_flow unit_oracles count_rows_only w_table w_blank /\
  (exists out, hourly_flow unit_oracles count_rows_only w_table w_blank = Ok out /\ length out = 71%nat) /\
  fully_observed w_observed = true /\ blank w_blank = true /\ no_short_long w_observed = false.
Proof.
  repeat split; try (vm_compute; reflexivity). eexists; split; [vm_compute; reflexivity | reflexivity].
Qed.

Definition r_days : list hfday := [(0, seq 0 24, 6, 2, None); (1440, seq 0 24, 6, 3, None)]%Z.
Example C05_hourly_blank_regular_witness :
  let fr := mk_frame r_days [(true, []); (true, [])] in
  let fr' := mk_frame r_days [] in
  same_weather_calendar fr fr' /\ covers [((6, 2), 0); ((6, 3), 1)]%Z fr = true /\ fully_observed fr = true /\
  blank fr' = true /\ no_short_long fr = true /\
  exists out, hourly_flow unit_oracles count_observed [((6, 2), 0); ((6, 3), 1)]%Z fr' = Ok out /\ length out = 48%nat.
Proof.
  repeat split; try (vm_compute; reflexivity). eexists; split; [vm_compute; reflexivity | reflexivity].
Qed.

(* ---- a model object that is used for several reporting sets ---- *)
Definition C05_hourly_reuse_statement (pol : policy) (sp : state_policy) : Prop :=
  forall (W O F C Y : Type) (K : oracles W O F C Y) (t : table) (history : list (frame W O)) (fr fr' : frame W O),
    same_weather_calendar fr fr' -> covers t fr = true ->
    agree (hourly_flow_after K pol sp t history fr) (hourly_flow_after K pol sp t history fr').

(* with the corrected table kept local to the call (C05-2.diff) and the rows counted: a theorem *)
Theorem C05_hourly_reuse_ni_repaired : forall pol, count_rows pol = true -> C05_hourly_reuse_statement pol KeepLocal.
Proof.
  intros pol Hp W O F C Y K t history fr fr' H Hc. unfold hourly_flow_after. rewrite table_after_all_keep_local.
  apply eq_agree. apply hourly_flow_ni_count_rows; assumption.
Qed.
Print Assumptions C05_hourly_reuse_ni_repaired.

(* the code as it is: the guard has to hold for the table the model holds NOW, not the fitted one *)
Theorem C05_hourly_reuse_ni_partial : forall (W O F C Y : Type) (K : oracles W O F C Y) pol sp t history (fr fr' : frame W O),
  same_weather_calendar fr fr' -> covers (table_after_all K sp t history) fr = true ->
  map (dst_trigger pol) fr = map (dst_trigger pol) fr' ->
  hourly_flow_after K pol sp t history fr = hourly_flow_after K pol sp t history fr'.
Proof. intros W O F C Y K pol sp t history fr fr' H Hc T. unfold hourly_flow_after. apply hourly_flow_ni; assumption. Qed.
Print Assumptions C05_hourly_reuse_ni_partial.

(* what does hold for the code as it is when an object is used again: a second reporting set on the SAME calendar
   (the paired runs of the check on one object) is predicted as by the freshly fitted model *)
Theorem C05_hourly_reuse_same_calendar : forall (W O F C Y : Type) (K : oracles W O F C Y) pol sp t (fr fr' : frame W O),
  covers t fr = true -> same_weather_calendar fr fr' ->
  hourly_flow_after K pol sp t [fr] fr' = hourly_flow K pol t fr'.
Proof. intros W O F C Y K. exact (reuse_same_calendar K). Qed.
Print Assumptions C05_hourly_reuse_same_calendar.

(* refutation for the code as it is (finding C05-K2): the fitted table knows February and May; after one prediction for
   a February day the model only knows February, and a May day then raises when usage is supplied (no known load
   shape to compare with) but is predicted when usage is omitted — even with the DST counting repaired *)
Definition u_table : table := [((2, 1), 0); ((5, 3), 1)]%Z.
Definition u_feb : frame unit unit := mk_frame [(0, seq 0 24, 2, 1, None)]%Z [(true, [])].
Definition u_may_days : list hfday := [(144000, seq 0 24, 5, 3, None)]%Z.
Theorem C05_hourly_reuse_refuted : forall pol, ~ C05_hourly_reuse_statement pol StoreBack.
Proof.
  intros pol H.
  specialize (H unit unit Z unit Z unit_oracles u_table [u_feb] (mk_frame u_may_days [(true, [])]) (mk_frame u_may_days [])).
  assert (S : same_weather_calendar (mk_frame u_may_days [(true, [])]) (mk_frame u_may_days [])) by (vm_compute; reflexivity).
  assert (Cv : covers u_table (mk_frame u_may_days [(true, [])]) = true) by (vm_compute; reflexivity).
  specialize (H S Cv). destruct pol as [[|] [|]]; vm_compute in H; exact H.
Qed.
Print Assumptions C05_hourly_reuse_refuted.

Example C05_hourly_reuse_witness :
  hourly_flow_after unit_oracles count_rows_only StoreBack u_table [u_feb] (mk_frame u_may_days [(true, [])]) = Err EValue /\
  (exists out, hourly_flow_after unit_oracles count_rows_only StoreBack u_table [u_feb] (mk_frame u_may_days []) = Ok out /\ length out = 24%nat) /\
  (exists out, hourly_flow_after unit_oracles count_rows_only KeepLocal u_table [u_feb] (mk_frame u_may_days [(true, [])]) = Ok out /\ length out = 24%nat).
Proof.
  split; [vm_compute; reflexivity|].
  split; eexists; (split; [vm_compute; reflexivity | reflexivity]).
Qed.

(* ================================================================== hourly: the data class in front of predict === *)

(* the frame handed to the model has the same weather and calendar whatever the usage cells of the caller's records are:
   which record of a repeated time stamp survives is decided by the index alone (keep the first), the contiguous index
   is a function of the selected index, every column is gap-filled from its own values *)
Theorem C05_hourly_data_stage_ni : forall (Wc W O : Type) (w_empty : Wc -> bool)
    (calendar : list Z -> list (list cal_stamp * option err)) (fill_w : list (option Wc) -> list W)
    (fill_o : list (option O) -> list (option O)) (a b : list (rec Wc O)),
  same_records_but_usage a b ->
  same_weather_calendar (data_stage w_empty calendar fill_w fill_o KeepFirst a)
                        (data_stage w_empty calendar fill_w fill_o KeepFirst b).
Proof. exact @data_stage_ni. Qed.
Print Assumptions C05_hourly_data_stage_ni.

(* ... and the zero rule of electricity data in front of it touches the usage cell only *)
Theorem C05_hourly_public_stage_ni : forall (Wc W O : Type) (is_zero : O -> bool) (w_nan : Wc) (w_empty : Wc -> bool)
    (calendar : list Z -> list (list cal_stamp * option err)) (fill_w : list (option Wc) -> list W)
    (fill_o : list (option O) -> list (option O)) elec elec' (a b : list (rec Wc O)),
  same_records_but_usage a b ->
  same_weather_calendar (public_stage is_zero w_nan w_empty calendar fill_w fill_o ZeroUsageCell elec KeepFirst a)
                        (public_stage is_zero w_nan w_empty calendar fill_w fill_o ZeroUsageCell elec' KeepFirst b).
Proof. exact @public_stage_ni. Qed.
Print Assumptions C05_hourly_public_stage_ni.

(* Full statement from the caller's records to the predictions, for a zero rule, a way of selecting among repeated stamps
   and a way of counting the rows of a date (electricity or not) *)
Definition C05_hourly_public_statement (zp : zero_policy) (dp : dedup_policy) (pol : policy) : Prop :=
  forall (Wc W O F C Y : Type) (K : oracles W O F C Y) (is_zero : O -> bool) (w_nan : Wc) (w_empty : Wc -> bool)
         (calendar : list Z -> list (list cal_stamp * option err)) (fill_w : list (option Wc) -> list W)
         (fill_o : list (option O) -> list (option O)) (elec : bool) (t : table) (a b : list (rec Wc O)),
    same_records_but_usage a b ->
    covers t (public_stage is_zero w_nan w_empty calendar fill_w fill_o zp elec dp a) = true ->
    agree (hourly_flow K pol t (public_stage is_zero w_nan w_empty calendar fill_w fill_o zp elec dp a))
          (hourly_flow K pol t (public_stage is_zero w_nan w_empty calendar fill_w fill_o zp elec dp b)).

Theorem C05_hourly_public_ni : forall pol, count_rows pol = true ->
  C05_hourly_public_statement ZeroUsageCell KeepFirst pol.
Proof.
  intros pol Hp Wc W O F C Y K is_zero w_nan w_empty calendar fill_w fill_o elec t a b H Hc.
  apply (C05_hourly_ni_count_rows pol Hp); [apply public_stage_ni; exact H | exact Hc].
Qed.
Print Assumptions C05_hourly_public_ni.

(* selection that looks at the usage cell (records without any reading discarded before the de-duplication) breaks it,
   however the rows are counted: with usage the meter record survives and the hour is predicted from a gap-filled
   temperature (0), without usage the weather record survives (70) *)
Theorem C05_hourly_public_refuted_drop_empty : forall zp pol, ~ C05_hourly_public_statement zp DropEmptyKeepFirst pol.
Proof.
  intros zp pol H.
  specialize (H (option Z) Z unit Z unit Z (weather_oracles unit) (fun _ => false) None temp_empty one_day_calendar fill_zero
                (fun l => l) false [((6, 2), 0)]%Z (witness_recs (Some tt)) (witness_recs None)).
  assert (S : same_records_but_usage (witness_recs (Some tt)) (witness_recs None)) by (vm_compute; reflexivity).
  specialize (H S).
  assert (Cv : covers [((6, 2), 0)]%Z (public_stage (fun _ : unit => false) None temp_empty one_day_calendar fill_zero (fun l => l)
                                          zp false DropEmptyKeepFirst (witness_recs (Some tt))) = true)
    by (destruct zp; vm_compute; reflexivity).
  specialize (H Cv). destruct zp; destruct pol as [[|] [|]]; vm_compute in H;
    first [exact H | specialize (H 0%Z 0%Z 70%Z (or_introl eq_refl) (or_introl eq_refl)); discriminate].
Qed.
Print Assumptions C05_hourly_public_refuted_drop_empty.

(* a zero rule that blanks the whole record (seeded C05-4) breaks it as well: an electricity reading of exactly 0 wipes
   the temperature of its hour (gap-filled: 0), any other reading leaves it (50) *)
Theorem C05_hourly_public_refuted_zero_row : forall dp pol, ~ C05_hourly_public_statement ZeroWholeRow dp pol.
Proof.
  intros dp pol H.
  specialize (H (option Z) Z Z Z unit Z (weather_oracles Z) (Z.eqb 0) None temp_empty one_day_calendar fill_zero
                (fun l => l) true [((6, 2), 0)]%Z (zero_recs 0) (zero_recs 5)).
  assert (S : same_records_but_usage (zero_recs 0) (zero_recs 5)) by (vm_compute; reflexivity).
  specialize (H S).
  assert (Cv : covers [((6, 2), 0)]%Z (public_stage (Z.eqb 0) None temp_empty one_day_calendar fill_zero (fun l => l)
                                          ZeroWholeRow true dp (zero_recs 0)) = true)
    by (destruct dp; vm_compute; reflexivity).
  specialize (H Cv). destruct dp; destruct pol as [[|] [|]]; vm_compute in H;
    first [exact H | specialize (H 0%Z 0%Z 50%Z (or_introl eq_refl) (or_introl eq_refl)); discriminate].
Qed.
Print Assumptions C05_hourly_public_refuted_zero_row.

Example C05_hourly_public_witness :
  (exists out, hourly_flow (weather_oracles unit) count_rows_only [((6, 2), 0)]%Z (witness_stage KeepFirst (witness_recs (Some tt))) = Ok out
               /\ In (0%Z, Some 0%Z) out) /\
  (exists out, hourly_flow (weather_oracles unit) count_rows_only [((6, 2), 0)]%Z (witness_stage KeepFirst (witness_recs None)) = Ok out
               /\ In (0%Z, Some 0%Z) out) /\
  (exists out, hourly_flow (weather_oracles unit) count_rows_only [((6, 2), 0)]%Z (witness_stage DropEmptyKeepFirst (witness_recs None)) = Ok out
               /\ In (0%Z, Some 70%Z) out) /\
  (* zero rule: on the usage cell only, a reading of 0 and a reading of 5 give the same 50 degrees; on the whole row not *)
  (exists out, hourly_flow (weather_oracles Z) count_rows_only [((6, 2), 0)]%Z (zero_stage_witness ZeroUsageCell (zero_recs 0)) = Ok out
               /\ In (0%Z, Some 50%Z) out) /\
  (exists out, hourly_flow (weather_oracles Z) count_rows_only [((6, 2), 0)]%Z (zero_stage_witness ZeroWholeRow (zero_recs 0)) = Ok out
               /\ In (0%Z, Some 0%Z) out).
Proof. repeat split; eexists; (split; [vm_compute; reflexivity | left; reflexivity]). Qed.

(* ================================================================== CalTRACK hourly ======================= *)

(* the predicted column is a function of index, calendar and temperature; only the uncertainty column reads usage *)
Theorem C05_caltrack_ni : forall (T O Y U : Type) (row_pred : Z -> Z -> option T -> option Y)
    (unc_of : Z -> list O -> nat -> option U) (rows rows' : list (@crow T O)),
  same_weather_calendar_crows rows rows' ->
  map (fun o => (co_utc o, co_pred o)) (caltrack_predict row_pred unc_of rows) =
  map (fun o => (co_utc o, co_pred o)) (caltrack_predict row_pred unc_of rows').
Proof. intros T O Y U row_pred unc_of. exact (caltrack_ni_l row_pred unc_of). Qed.
Print Assumptions C05_caltrack_ni.

(* non-vacuity, and the one column that does depend on usage *)
Definition ex_crows (o : option Z) : list (@crow Z Z) :=
  [{| c_utc := 0; c_month := 1; c_how := 3; c_temp := Some 40; c_obs := o |};
   {| c_utc := 60; c_month := 1; c_how := 4; c_temp := None; c_obs := Some 2 |}]%Z.
Definition ex_pred (m h : Z) (t : option Z) : option Z := option_map (fun x => (m + h + x)%Z) t.
Definition ex_unc (m : Z) (l : list Z) (n : nat) : option Z := Some (fold_right Z.add 0%Z l).
Example C05_caltrack_nonvacuous :
  same_weather_calendar_crows (ex_crows (Some 5%Z)) (ex_crows None) /\
  map (fun o => (co_utc o, co_pred o)) (caltrack_predict ex_pred ex_unc (ex_crows None)) = [(0%Z, Some 44%Z); (60%Z, None)] /\
  map (@co_unc Z Z) (caltrack_predict ex_pred ex_unc (ex_crows (Some 5%Z))) <>
  map (@co_unc Z Z) (caltrack_predict ex_pred ex_unc (ex_crows None)).
Proof. repeat split; try (vm_compute; reflexivity). vm_compute. discriminate. Qed.

(* the clock from_series labels the rows on: with the repair it never depends on whether a meter series is supplied; as coded
   it does not when the feed is in UTC or on the meter's clock (the exact guard), and does otherwise (finding C05-K7) *)
Theorem C05_caltrack_index_zone_ni : forall m m' w, index_zone WeatherClock m w = index_zone WeatherClock m' w.
Proof. reflexivity. Qed.
Print Assumptions C05_caltrack_index_zone_ni.

Theorem C05_caltrack_index_zone_partial : forall mz w, (w = 0 \/ w = mz)%Z ->
  index_zone UnionToUtc (Some mz) w = index_zone UnionToUtc None w.
Proof.
  intros mz w [->| ->]; cbn [index_zone].
  - destruct (mz =? 0)%Z eqn:E; [apply Z.eqb_eq in E; exact E | reflexivity].
  - rewrite Z.eqb_refl. reflexivity.
Qed.
Print Assumptions C05_caltrack_index_zone_partial.

Theorem C05_caltrack_index_zone_refuted : exists mz w,
  index_zone UnionToUtc (Some mz) w <> index_zone UnionToUtc None w.
Proof. exists 1%Z, 2%Z. vm_compute. discriminate. Qed.
Print Assumptions C05_caltrack_index_zone_refuted.

(* ================================================================== which columns the predict paths read ============
   Generated/ObservedReadsGen.v is regenerated from the source on every run (harness/translate_reads.py, fail-closed): every
   mention of the column "observed" and every NaN-sensitive whole-frame operation in the functions reachable from the
   predict entry points and the data classes in front of them. *)

(* every mention of the usage column on a predict path is a site the models account for (Model/ReadSites.v), with no more
   occurrences than accounted: a new read of `observed` breaks this obligation *)
Theorem C05_observed_reads_accounted : accounted declared_reads observed_reads = true.
Proof. vm_compute. reflexivity. Qed.
Print Assumptions C05_observed_reads_accounted.

(* ... and so is every whole-frame operation that looks at the NaN pattern of all columns (dropna, mask, where, isnull,
   count, fillna, ...): seeded C05-2 (dropna before the de-duplication) and C05-4 (mask) add such a call *)
Theorem C05_frame_ops_accounted : accounted declared_frame_ops frame_ops = true.
Proof. vm_compute. reflexivity. Qed.
Print Assumptions C05_frame_ops_accounted.

(* tie to the flow models: every site through which usage is an input at predict time belongs to a stage that the family's
   model has (hourly: cluster_stage, zero_rec, blank frames, fill_o; CalTRACK: zero rule, absent column, c_obs; daily /
   billing: complete) — the stages the non-interference theorems above quantify over; all other sites are not inputs *)
Theorem C05_usage_inputs_are_modelled :
  inputs_modelled declared_reads observed_reads = true /\ inputs_modelled declared_frame_ops frame_ops = true.
Proof. split; vm_compute; reflexivity. Qed.
Print Assumptions C05_usage_inputs_are_modelled.

(* non-vacuity: the generated tables are not empty and contain the sites the hourly theorems are about; a read added to a
   function that already has some is NOT accounted for *)
Example C05_reads_nonvacuous :
  (0 < length observed_reads)%nat /\ (0 < length frame_ops)%nat /\
  stage_of declared_reads ex_cluster_load = Some ClusterRepair /\
  stage_of declared_reads ex_normalize_one_more = None /\
  stage_of declared_reads ex_predict_read = None /\
  stage_of declared_frame_ops ex_set_data_dropna = None /\
  stage_of declared_frame_ops ex_set_data_mask = None.
Proof. repeat split; vm_compute; auto with arith. Qed.
