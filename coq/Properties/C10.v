(* C10 — sufficiency verdicts are exactly the published criteria.
   Statements only; proofs are in Proofs/SufficiencyProofs.v; the model is Model/Sufficiency.v (criteria classes and the
   way the six data classes call them), its parameters (check sequences, thresholds, constructor flags) are regenerated
   from the source on every run (Generated/SufficiencyGen.v) and enter through [code_params] (Model/SufficiencyRun.v).

   The declarative side ([violates_baseline], [violates_reporting], Model/Sufficiency.v) is the statement's list:
   span outside 329-365 days; under 90 % of the span in whole days with valid usage / valid temperature / both (each
   timestamp's period up to the next timestamp); a month of the year under 90 % temperature (hourly: usage, irradiance)
   coverage; negative usage of a non-electric baseline; no data at all.

   Part A: theorems about the model for every parameter record (they never depend on the regenerated file).
   Part B (end of the file): the regenerated parameters say what the statement says, and what follows for the code
   as it is now, including the refuted corners (recorded findings C10-F1 .. F4). *)
From Coq Require Import ZArith QArith List Bool.
From V Require Import Model.Sufficiency Model.SufficiencyRun Generated.SufficiencyGen Proofs.SufficiencyProofs.
Import ListNotations.
Open Scope Z_scope.

(* ---- the full statement, for the parameters the code has now ---- *)
Definition C10_statement : Prop :=
  forall f w el cx fr,
    exists dq ws, dataclass code_params f w el cx fr = Accepted dq ws /\
      forall n, In n dq <-> match w with Baseline => violates_baseline f el fr n | Reporting => violates_reporting f fr n end.

(* ======================================================= Part A ======================================================= *)

(* ---- baseline: soundness and completeness of the reported set, for every parameter record that says what the
   statement says (any order of the checks) ---- *)
Theorem C10_baseline_dq_exact : forall p f el cx fr,
  params_ok p = true -> p_offcycle_dq p = false -> f_has_obs fr = true ->
  exists dq ws, dataclass p f Baseline el cx fr = Accepted dq ws /\ NoDup dq /\
    forall n, In n dq <-> violates_baseline f el fr n.
Proof. exact baseline_dq_exact_l. Qed.
Print Assumptions C10_baseline_dq_exact.

Example C10_baseline_witness : params_ok published = true /\ p_offcycle_dq published = false /\
  dataclass published Daily Baseline false cx0 (mkframe true false (ex_full 340)) = Accepted [] [].
Proof. split; [reflexivity|split; [reflexivity|exact (proj2 ex_baseline_clean)]]. Qed.

(* on / one day past the 90 % threshold and at the four span limits *)
Example C10_baseline_threshold_witness :
  dq_of (dataclass published Daily Baseline false cx0 (mkframe true false (ex_temp_gap 340 100 34 (Some (5 # 1)%Q))))
  = [TooManyDaysMissingData; TooManyDaysMissingTemperature] /\
  dq_of (dataclass published Daily Baseline false cx0 (mkframe true false (ex_temp_gap 340 100 33 (Some (5 # 1)%Q))))
  = [] /\
  whole_days temp_valid90 (ex_temp_gap 340 100 33 (Some (5 # 1)%Q)) = 306.
Proof. exact ex_baseline_threshold. Qed.

Example C10_span_limits_witness :
  map (fun n => dq_of (dataclass published Daily Baseline true cx0 (mkframe true false (ex_full n)))) [328; 329; 365; 366]%nat
  = [[IncorrectNumberOfTotalDays]; []; []; [IncorrectNumberOfTotalDays]].
Proof. exact ex_span_limits. Qed.

(* ---- reporting ---- *)
Theorem C10_reporting_dq_exact : forall p f el cx fr,
  params_ok p = true -> p_offcycle_dq p = false -> p_reporting_flag p f = true -> usage_irrelevant fr ->
  exists dq ws, dataclass p f Reporting el cx fr = Accepted dq ws /\ NoDup dq /\
    forall n, In n dq <-> violates_reporting f fr n.
Proof. exact reporting_dq_exact_l. Qed.
Print Assumptions C10_reporting_dq_exact.

Example C10_reporting_witness :
  usage_irrelevant (mkframe false false (ex_temp_gap 300 150 31 None)) /\
  dq_of (dataclass published Daily Reporting true cx0 (mkframe false false (ex_temp_gap 300 150 31 None)))
  = [TooManyDaysMissingData; TooManyDaysMissingTemperature; MissingMonthlyTemperature].
Proof. exact ex_reporting_verdict. Qed.

(* ---- exactly at each threshold: binary64 comparisons against a constant that passes the table are the integer
   comparisons of the model, for every pair of counts up to 1000 (the table of the regenerated constants is Part B) ---- *)
Theorem C10_threshold_exact_for : forall thr_days thr_hours,
  threshold_table THRESHOLD_BOUND thr_days = true -> threshold_table THRESHOLD_BOUND thr_hours = true ->
  forall n d, 0 <= n <= 1000 -> 1 <= d <= 1000 ->
  frac_lt thr_days n d = (10 * n <? 9 * d) /\ frac_gt thr_hours n d = (9 * d <? 10 * n).
Proof. exact threshold_exact_l. Qed.
Print Assumptions C10_threshold_exact_for.

(* ---- warnings never change the verdict ---- *)
Theorem C10_warnings_never_change_verdict : forall p f w el cx cx' fr,
  p_offcycle_dq p = false \/ x_offcycle cx = x_offcycle cx' ->
  dq_of (dataclass p f w el cx fr) = dq_of (dataclass p f w el cx' fr).
Proof. exact warnings_never_change_verdict_l. Qed.
Print Assumptions C10_warnings_never_change_verdict.

(* the magnitude of the usage values (extreme values) never changes the verdict: only presence and sign do *)
Theorem C10_usage_magnitude_never_changes_verdict : forall p f w el cx o g rows rows',
  Forall2 same_shape rows rows' ->
  dq_of (dataclass p f w el cx (mkframe o g rows)) = dq_of (dataclass p f w el cx (mkframe o g rows')).
Proof. exact usage_magnitude_never_changes_verdict_l. Qed.
Print Assumptions C10_usage_magnitude_never_changes_verdict.

Example C10_usage_magnitude_witness :
  Forall2 same_shape ex_negative (map (fun i => ex_row i (Some (if Nat.eqb i 7 then (-1 # 2) else (1 # 1))%Q) true) (seq 0 340)) /\
  dataclass published Daily Baseline false cx0 (mkframe true false ex_negative) = Accepted [NegativeMeterValues] [ExtremeValues] /\
  dataclass published Daily Baseline true cx0 (mkframe true false ex_negative) = Accepted [] [ExtremeValues].
Proof. exact (conj ex_same_shape ex_negative_verdicts). Qed.

(* the four warnings are what the context and the extreme-value rule say, whatever the verdict *)
Theorem C10_warnings_spec : forall p f w el cx fr dq ws n,
  dataclass p f w el cx fr = Accepted dq ws ->
  (In n ws <->
   match n with
   | ExtremeValues => In CExtreme (sequence_of p f w) /\ is_reporting_flag p f w = false /\ has_extreme (f_rows fr) = true
   | UtcIndex => x_utc cx = true
   | UnverifiableTemperature => is_hourly f = false /\ x_unverifiable cx = true
   | OffcycleWarning => is_billing f = true /\ x_offcycle cx = true /\ p_offcycle_dq p = false
   end).
Proof. exact warnings_spec_l. Qed.
Print Assumptions C10_warnings_spec.

(* ---- every well-formed input is accepted ---- *)
Theorem C10_accepts_wellformed : forall p f w el cx fr,
  is_reporting_flag p f w = true \/ f_has_obs fr = true ->
  exists dq ws, dataclass p f w el cx fr = Accepted dq ws.
Proof. exact dataclass_accepts. Qed.
Print Assumptions C10_accepts_wellformed.

Theorem C10_raises_exactly : forall p f w el cx fr e,
  dataclass p f w el cx fr = Raised e <-> e = AttributeError /\ is_reporting_flag p f w = false /\ f_has_obs fr = false.
Proof. exact dataclass_raises. Qed.
Print Assumptions C10_raises_exactly.

(* a baseline whose usage is entirely missing (the data class drops the column) is not accepted (C10-F3) *)
Theorem C10_accepts_wellformed_refuted : forall p f el cx rows,
  dataclass p f Baseline el cx (mkframe false false rows) = Raised AttributeError.
Proof. exact refuted_no_usage_l. Qed.
Print Assumptions C10_accepts_wellformed_refuted.

(* ---- where the model leaves the statement, what it reports instead is characterised exactly ---- *)
(* off-cycle billing reads, when they are appended to .disqualification (C10-F1) *)
Theorem C10_offcycle_changes_verdict_refuted : forall p el fr,
  params_ok p = true -> p_offcycle_dq p = true -> f_has_obs fr = true ->
  In OffcycleReads (dq_of (dataclass p Billing Baseline el cx_off fr)) /\
  ~ In OffcycleReads (dq_of (dataclass p Billing Baseline el cx0 fr)) /\
  ~ violates_baseline Billing el fr OffcycleReads.
Proof. exact refuted_offcycle_l. Qed.
Print Assumptions C10_offcycle_changes_verdict_refuted.

(* hourly reporting data while the criteria class is not told that it is reporting data (C10-F2) *)
Theorem C10_hourly_reporting_as_coded : forall p el cx fr n,
  params_ok p = true -> p_reporting_flag p Hourly = false -> f_has_obs fr = true ->
  (In n (dq_of (dataclass p Hourly Reporting el cx fr)) <-> violates_reporting_as_baseline fr n).
Proof. exact hourly_reporting_as_coded_l. Qed.
Print Assumptions C10_hourly_reporting_as_coded.

Theorem C10_hourly_reporting_refuted : forall p el cx n, (0 < n)%nat ->
  params_ok p = true -> p_reporting_flag p Hourly = false ->
  let fr := mkframe true false (ex_no_usage n) in
  In NoData (dq_of (dataclass p Hourly Reporting el cx fr)) /\ ~ violates_reporting Hourly fr NoData.
Proof. exact hourly_reporting_no_usage_l. Qed.
Print Assumptions C10_hourly_reporting_refuted.

(* reporting data with any usage column: valid days by temperature, span over the rows that also have usage (C10-F4) *)
Theorem C10_reporting_as_coded : forall p f el cx fr n,
  params_ok p = true -> p_reporting_flag p f = true ->
  (In n (dq_of (dataclass p f Reporting el cx fr)) <->
   violates_reporting_span_over_usage f fr n \/ (n = OffcycleReads /\ offcycle_dq p f cx = true)).
Proof. exact reporting_as_coded_l. Qed.
Print Assumptions C10_reporting_as_coded.

Theorem C10_reporting_partial_usage_refuted : forall p f el cx, params_ok p = true -> p_reporting_flag p f = true ->
  ~ In TooManyDaysMissingTemperature (dq_of (dataclass p f Reporting el cx ex_rep_partial)) /\
  violates_reporting f ex_rep_partial TooManyDaysMissingTemperature.
Proof. exact reporting_partial_usage_l. Qed.
Print Assumptions C10_reporting_partial_usage_refuted.

(* the hypotheses of the four theorems above are satisfiable: the statement's parameters with the constructor flags of
   today's code *)
Example C10_as_coded_witness : params_ok as_coded = true /\ p_reporting_flag as_coded Hourly = false /\ p_offcycle_dq as_coded = true /\
  dq_of (dataclass as_coded Hourly Reporting true cx0 (mkframe true false (ex_no_usage 340)))
  = [NoData; TooManyDaysMissingData; TooManyDaysMissingTemperature] /\
  dq_of (dataclass as_coded Daily Reporting true cx0 ex_rep_partial) = [MissingMonthlyTemperature] /\
  dq_of (dataclass as_coded Billing Baseline true cx_off (mkframe true false (ex_full 340))) = [OffcycleReads].
Proof. exact ex_as_coded. Qed.

(* ---- the frames of the correspondence: the run-length expansion (civil month cached per local day) is the plain one ---- *)
Theorem C10_frame_expansion : forall t step n off obs tp cov g a,
  expand_seg (t, step, n, off, obs, tp, cov, g, a) = expand_seg_simple (Z.to_nat n) t step off obs tp cov g a.
Proof. exact expand_seg_simple_eq. Qed.
Print Assumptions C10_frame_expansion.

(* the full statement fails in the model of the unchanged code (a baseline without any usage raises) *)
Theorem C10_statement_refuted : ~ C10_statement.
Proof. exact statement_refuted_l. Qed.
Print Assumptions C10_statement_refuted.

(* ======================================================= Part B =======================================================
   the regenerated parameters (checked inside the kernel against what the source says now) *)

(* MIN_BASELINE_LENGTH = ceil(0.9 * 365), evaluated in binary64 as python does *)
Theorem C10_code_min_length : code_min_len = 329 /\ gen_max_baseline_length = 365.
Proof. vm_compute. split; reflexivity. Qed.
Print Assumptions C10_code_min_length.

(* thresholds, span limits and the *sets* of checks of the six entry points are the statement's (any order) *)
Theorem C10_code_params_published : params_ok code_params = true.
Proof. vm_compute. reflexivity. Qed.
Print Assumptions C10_code_params_published.

(* the two binary64 constants of the code pass the table: 1000 x 1001 quotients each, evaluated inside the kernel *)
Theorem C10_daily_coverage_table : threshold_table THRESHOLD_BOUND gen_min_fraction_daily_coverage = true.
Proof. vm_cast_no_check (eq_refl true). Qed.
Print Assumptions C10_daily_coverage_table.

Theorem C10_hourly_coverage_table : threshold_table THRESHOLD_BOUND gen_min_fraction_hourly_temperature_coverage = true.
Proof. vm_cast_no_check (eq_refl true). Qed.
Print Assumptions C10_hourly_coverage_table.

Theorem C10_threshold_exact : forall n d, 0 <= n <= 1000 -> 1 <= d <= 1000 ->
  frac_lt gen_min_fraction_daily_coverage n d = (10 * n <? 9 * d) /\
  frac_gt gen_min_fraction_hourly_temperature_coverage n d = (9 * d <? 10 * n).
Proof. exact (threshold_exact_l _ _ C10_daily_coverage_table C10_hourly_coverage_table). Qed.
Print Assumptions C10_threshold_exact.

Theorem C10_under_is_float : forall n d, 0 <= n <= 1000 -> 1 <= d <= 1000 ->
  under code_params n (Some d) = frac_lt gen_min_fraction_daily_coverage n d.
Proof. exact (under_is_float_l code_params _ eq_refl eq_refl C10_daily_coverage_table). Qed.
Print Assumptions C10_under_is_float.

Example C10_threshold_witness :
  frac_lt gen_min_fraction_daily_coverage 306 340 = false /\ frac_lt gen_min_fraction_daily_coverage 305 340 = true /\
  frac_lt gen_min_fraction_daily_coverage 27 30 = false.
Proof. vm_compute. repeat split. Qed.

(* ---- the code as it is: the statement inside [guard] (baseline data has a usage column; reporting data is declared as
   such to the criteria class and its usage column is absent or complete; no off-cycle billing read, or those go to
   the warnings) ---- *)
Theorem C10_statement_partial : forall f w el cx fr, guard f w cx fr ->
  exists dq ws, dataclass code_params f w el cx fr = Accepted dq ws /\
    forall n, In n dq <-> match w with Baseline => violates_baseline f el fr n | Reporting => violates_reporting f fr n end.
Proof. exact (statement_partial_l C10_code_params_published). Qed.
Print Assumptions C10_statement_partial.

Example C10_statement_partial_witness : guard Daily Baseline cx0 (mkframe true false (ex_full 340)).
Proof. exact (proj1 ex_baseline_clean). Qed.

(* ... and with the one extra name it can report *)
Theorem C10_baseline_dq_exact_code : forall f el cx fr, f_has_obs fr = true ->
  exists dq ws, dataclass code_params f Baseline el cx fr = Accepted dq ws /\ NoDup dq /\
    forall n, In n dq <->
      violates_baseline f el fr n \/ (n = OffcycleReads /\ f = Billing /\ x_offcycle cx = true /\ gen_offcycle_dq = true).
Proof. exact (baseline_dq_exact_code_l C10_code_params_published). Qed.
Print Assumptions C10_baseline_dq_exact_code.

Theorem C10_reporting_dq_exact_code : forall f el cx fr, gen_reporting_flag f = true -> usage_irrelevant fr ->
  exists dq ws, dataclass code_params f Reporting el cx fr = Accepted dq ws /\ NoDup dq /\
    forall n, In n dq <->
      violates_reporting f fr n \/ (n = OffcycleReads /\ f = Billing /\ x_offcycle cx = true /\ gen_offcycle_dq = true).
Proof. exact (reporting_dq_exact_code_l C10_code_params_published). Qed.
Print Assumptions C10_reporting_dq_exact_code.

(* ---- the refuted corners, for the code as it is (each under the regenerated flag that causes it) ---- *)
Theorem C10_code_offcycle_refuted : gen_offcycle_dq = true -> forall el fr, f_has_obs fr = true ->
  In OffcycleReads (dq_of (dataclass code_params Billing Baseline el cx_off fr)) /\
  ~ In OffcycleReads (dq_of (dataclass code_params Billing Baseline el cx0 fr)) /\
  ~ violates_baseline Billing el fr OffcycleReads.
Proof. intros H el fr. exact (refuted_offcycle_l code_params el fr C10_code_params_published H). Qed.
Print Assumptions C10_code_offcycle_refuted.

Theorem C10_code_hourly_reporting_refuted : gen_reporting_flag Hourly = false ->
  let fr := mkframe true false (ex_no_usage 340) in
  In NoData (dq_of (dataclass code_params Hourly Reporting true cx0 fr)) /\ ~ violates_reporting Hourly fr NoData.
Proof. intro H. exact (hourly_reporting_no_usage_l code_params true cx0 340 ltac:(repeat constructor) C10_code_params_published H). Qed.
Print Assumptions C10_code_hourly_reporting_refuted.

Theorem C10_code_reporting_partial_usage_refuted : gen_reporting_flag Daily = true ->
  ~ In TooManyDaysMissingTemperature (dq_of (dataclass code_params Daily Reporting true cx0 ex_rep_partial)) /\
  violates_reporting Daily ex_rep_partial TooManyDaysMissingTemperature.
Proof. intro H. exact (reporting_partial_usage_l code_params Daily true cx0 C10_code_params_published H). Qed.
Print Assumptions C10_code_reporting_partial_usage_refuted.
