(* C10 — sufficiency verdicts are exactly the published criteria.
   Statements only; proofs are in Proofs/SufficiencyProofs.v; the model is Model/Sufficiency.v ([criteria]: the criteria
   classes; [dataclass]: the way the six data classes call them), its parameters (check sequences, thresholds,
   constructor flags, off-cycle target, rows that carry data, rounding of the day sums, added usage column) are
   regenerated from the source on every run (Generated/SufficiencyGen.v) and enter through [code_params]
   (Model/SufficiencyRun.v).

   The declarative side ([violates_baseline], [violates_reporting], Model/Sufficiency.v) is the statement's list:
   span outside 329-365 days; under 90 % of the span in whole days with valid usage / valid temperature / both (each
   timestamp's period up to the next timestamp); a month of the year under 90 % temperature (hourly: usage, irradiance)
   coverage; negative usage of a non-electric baseline; no data at all.

   Part A: theorems about the model for every parameter record (they never depend on the regenerated file).
   Part B (end of the file): the regenerated parameters are the statement's, hence the full statement C10_statement
   holds for the code as it is now - with no guard besides the representation invariant [frame_wf] (a frame without a
   usage column carries no usage value). *)
From Coq Require Import ZArith QArith List Bool.
From V Require Import Model.Sufficiency Model.BillingRows Model.SufficiencyRun Generated.SufficiencyGen
  Proofs.SufficiencyProofs Proofs.BillingRowsProofs.
Import ListNotations.
Open Scope Z_scope.

(* ---- the full statement, for the parameters the code has now ---- *)
Definition C10_statement : Prop :=
  forall f w el cx fr, frame_wf fr ->
    exists dq ws, dataclass code_params f w el cx fr = Accepted dq ws /\ NoDup dq /\
      forall n, In n dq <-> match w with Baseline => violates_baseline f el fr n | Reporting => violates_reporting f fr n end.

(* ======================================================= Part A ======================================================= *)

(* ---- the full statement for every parameter record that is the statement's ---- *)
Theorem C10_statement_for : forall p, params_exact p = true -> forall f w el cx fr, frame_wf fr ->
  exists dq ws, dataclass p f w el cx fr = Accepted dq ws /\ NoDup dq /\
    forall n, In n dq <-> match w with Baseline => violates_baseline f el fr n | Reporting => violates_reporting f fr n end.
Proof. exact statement_l. Qed.
Print Assumptions C10_statement_for.

Example C10_statement_for_witness : params_exact published = true /\
  frame_wf (mkframe true false (ex_full 340)) /\ frame_wf (mkframe false false (ex_no_usage 340)) /\ frame_wf ex_rep_partial.
Proof. exact (conj ex_published_exact ex_frames_wf). Qed.

(* ---- baseline: soundness and completeness of the reported set, for every parameter record with the published
   thresholds and sets of checks (any order of the checks) ---- *)
Theorem C10_baseline_dq_exact : forall p f el cx fr,
  params_ok p = true -> p_offcycle_dq p = false -> frame_wf fr ->
  f_has_obs fr = true \/ p_baseline_adds_usage p f = true ->
  exists dq ws, dataclass p f Baseline el cx fr = Accepted dq ws /\ NoDup dq /\
    forall n, In n dq <-> violates_baseline f el fr n.
Proof. exact baseline_dq_exact_l. Qed.
Print Assumptions C10_baseline_dq_exact.

Example C10_baseline_witness :
  dataclass published Daily Baseline false cx0 (mkframe true false (ex_full 340)) = Accepted [] [].
Proof. exact ex_baseline_clean. Qed.

(* on / one day past the 90 % threshold and at the four span limits *)
Example C10_baseline_threshold_witness :
  dq_of (dataclass published Daily Baseline false cx0 (mkframe true false (ex_temp_gap 340 100 34 (Some (5 # 1)%Q))))
  = [TooManyDaysMissingData; TooManyDaysMissingTemperature] /\
  dq_of (dataclass published Daily Baseline false cx0 (mkframe true false (ex_temp_gap 340 100 33 (Some (5 # 1)%Q))))
  = [] /\
  whole_days temp_valid90 (ex_temp_gap 340 100 33 (Some (5 # 1)%Q)) = 306.
Proof. exact ex_baseline_threshold. Qed.

Example C10_span_limits_witness :
  map (fun n => dq_of (dataclass published Daily Baseline true cx0 (mkframe true false (ex_full n)))) [328; 329; 365; 366]%nat
  = [[IncorrectNumberOfTotalDays]; []; []; [IncorrectNumberOfTotalDays]].
Proof. exact ex_span_limits. Qed.

(* ---- reporting ---- *)
Theorem C10_reporting_dq_exact : forall p f el cx fr,
  params_ok p = true -> p_offcycle_dq p = false -> p_reporting_flag p f = true ->
  p_span_ignores_usage p = true \/ usage_irrelevant fr ->
  exists dq ws, dataclass p f Reporting el cx fr = Accepted dq ws /\ NoDup dq /\
    forall n, In n dq <-> violates_reporting f fr n.
Proof. exact reporting_dq_exact_l. Qed.
Print Assumptions C10_reporting_dq_exact.

Example C10_reporting_witness :
  dq_of (dataclass published Daily Reporting true cx0 (mkframe false false (ex_temp_gap 300 150 31 None)))
  = [TooManyDaysMissingData; TooManyDaysMissingTemperature; MissingMonthlyTemperature].
Proof. exact ex_reporting_verdict. Qed.

(* the four repaired corners, evaluated: a baseline without any usage is reported as having no data; an off-cycle read
   only warns; temperature-only hourly reporting data is qualified; reporting data with usage on part of the days is
   judged against the whole span *)
Example C10_repaired_corners_witness :
  dataclass published Daily Baseline true cx0 (mkframe false false (ex_no_usage 340))
  = Accepted [NoData; TooManyDaysMissingData; TooManyDaysMissingMeter; TooManyDaysMissingTemperature] [] /\
  dataclass published Billing Baseline true cx_off (mkframe true false (ex_full 340)) = Accepted [] [OffcycleWarning] /\
  dataclass published Hourly Reporting true cx0 (mkframe true false (ex_no_usage 340)) = Accepted [] [] /\
  dq_of (dataclass published Daily Reporting true cx0 ex_rep_partial)
  = [TooManyDaysMissingData; TooManyDaysMissingTemperature; MissingMonthlyTemperature].
Proof. exact ex_repaired_corners. Qed.

(* ---- exactly at each threshold: binary64 comparisons against a constant that passes the table are the integer
   comparisons of the model, for every pair of counts up to 1000 (the table of the regenerated constants is Part B) ---- *)
Theorem C10_threshold_exact_for : forall thr_days thr_hours,
  threshold_table THRESHOLD_BOUND thr_days = true -> threshold_table THRESHOLD_BOUND thr_hours = true ->
  forall n d, 0 <= n <= 1000 -> 1 <= d <= 1000 ->
  frac_lt thr_days n d = (10 * n <? 9 * d) /\ frac_gt thr_hours n d = (9 * d <? 10 * n).
Proof. exact threshold_exact_l. Qed.
Print Assumptions C10_threshold_exact_for.

(* ---- warnings never change the verdict ---- *)
Theorem C10_warnings_never_change_verdict : forall p f w el cx cx' fr,
  p_offcycle_dq p = false \/ x_offcycle cx = x_offcycle cx' ->
  dq_of (dataclass p f w el cx fr) = dq_of (dataclass p f w el cx' fr).
Proof. exact warnings_never_change_verdict_dc. Qed.
Print Assumptions C10_warnings_never_change_verdict.

(* the magnitude of the usage values (extreme values) never changes the verdict: only presence and sign do *)
Theorem C10_usage_magnitude_never_changes_verdict : forall p f w el cx o g rows rows',
  Forall2 same_shape rows rows' ->
  dq_of (dataclass p f w el cx (mkframe o g rows)) = dq_of (dataclass p f w el cx (mkframe o g rows')).
Proof. exact usage_magnitude_never_changes_verdict_dc. Qed.
Print Assumptions C10_usage_magnitude_never_changes_verdict.

Example C10_usage_magnitude_witness :
  Forall2 same_shape ex_negative (map (fun i => ex_row i (Some (if Nat.eqb i 7 then (-1 # 2) else (1 # 1))%Q) true) (seq 0 340)) /\
  dataclass published Daily Baseline false cx0 (mkframe true false ex_negative) = Accepted [NegativeMeterValues] [ExtremeValues] /\
  dataclass published Daily Baseline true cx0 (mkframe true false ex_negative) = Accepted [] [ExtremeValues].
Proof. exact (conj ex_same_shape ex_negative_verdicts). Qed.

(* the four warnings are what the context and the extreme-value rule say, whatever the verdict *)
Theorem C10_warnings_spec : forall p f w el cx fr dq ws n,
  dataclass p f w el cx fr = Accepted dq ws ->
  (In n ws <->
   match n with
   | ExtremeValues => In CExtreme (sequence_of p f w) /\ is_reporting_flag p f w = false
                      /\ has_extreme (f_rows (handed_frame p f w fr)) = true
   | UtcIndex => x_utc cx = true
   | UnverifiableTemperature => is_hourly f = false /\ x_unverifiable cx = true
   | OffcycleWarning => is_billing f = true /\ x_offcycle cx = true /\ p_offcycle_dq p = false
   end).
Proof. exact warnings_spec_dc. Qed.
Print Assumptions C10_warnings_spec.

(* ---- every well-formed input is accepted ---- *)
Theorem C10_accepts_wellformed : forall p f w el cx fr,
  is_reporting_flag p f w = true \/ f_has_obs fr = true \/ (w = Baseline /\ p_baseline_adds_usage p f = true) ->
  exists dq ws, dataclass p f w el cx fr = Accepted dq ws.
Proof. exact dataclass_accepts_dc. Qed.
Print Assumptions C10_accepts_wellformed.

Theorem C10_raises_exactly : forall p f w el cx fr e,
  dataclass p f w el cx fr = Raised e <->
  e = AttributeError /\ is_reporting_flag p f w = false /\ f_has_obs fr = false /\ (w = Reporting \/ p_baseline_adds_usage p f = false).
Proof. exact dataclass_raises_dc. Qed.
Print Assumptions C10_raises_exactly.

(* ---- regression: each of the repairs C10-2 .. C10-5 is needed - a parameter record without it leaves the statement,
   and what it reports instead is characterised exactly (the findings C10-F1 .. F4 as they were) ---- *)
Theorem C10_regression_added_usage_column : forall p f el cx g rows, p_baseline_adds_usage p f = false ->
  dataclass p f Baseline el cx (mkframe false g rows) = Raised AttributeError.
Proof. exact without_added_column_l. Qed.
Print Assumptions C10_regression_added_usage_column.

Theorem C10_regression_offcycle_warning : forall p el fr,
  params_ok p = true -> p_offcycle_dq p = true -> f_has_obs fr = true ->
  In OffcycleReads (dq_of (dataclass p Billing Baseline el cx_off fr)) /\
  ~ In OffcycleReads (dq_of (dataclass p Billing Baseline el cx0 fr)) /\
  ~ violates_baseline Billing el fr OffcycleReads.
Proof. exact without_offcycle_warning_l. Qed.
Print Assumptions C10_regression_offcycle_warning.

Theorem C10_regression_hourly_reporting_flag : forall p el cx fr n,
  params_ok p = true -> p_reporting_flag p Hourly = false -> f_has_obs fr = true ->
  (In n (dq_of (criteria p Hourly Reporting el cx fr)) <-> violates_reporting_as_baseline fr n).
Proof. exact hourly_reporting_as_coded_l. Qed.
Print Assumptions C10_regression_hourly_reporting_flag.

Theorem C10_regression_hourly_reporting_no_data : forall p el cx n, (0 < n)%nat ->
  params_ok p = true -> p_reporting_flag p Hourly = false ->
  let fr := mkframe true false (ex_no_usage n) in
  In NoData (dq_of (dataclass p Hourly Reporting el cx fr)) /\ ~ violates_reporting Hourly fr NoData.
Proof. exact without_reporting_flag_l. Qed.
Print Assumptions C10_regression_hourly_reporting_no_data.

Theorem C10_regression_reporting_span : forall p f el cx fr n,
  params_ok p = true -> p_reporting_flag p f = true -> p_span_ignores_usage p = false ->
  (In n (dq_of (criteria p f Reporting el cx fr)) <->
   violates_reporting_span_over_usage f fr n \/ (n = OffcycleReads /\ offcycle_dq p f cx = true)).
Proof. exact reporting_as_coded_l. Qed.
Print Assumptions C10_regression_reporting_span.

Theorem C10_regression_reporting_partial_usage : forall p f el cx, params_ok p = true -> p_reporting_flag p f = true ->
  p_span_ignores_usage p = false ->
  ~ In TooManyDaysMissingTemperature (dq_of (dataclass p f Reporting el cx ex_rep_partial)) /\
  violates_reporting f ex_rep_partial TooManyDaysMissingTemperature.
Proof. exact without_span_repair_l. Qed.
Print Assumptions C10_regression_reporting_partial_usage.

(* the hypotheses of the regression theorems are satisfiable: the statement's thresholds with the glue as it was *)
Example C10_regression_witness : params_ok as_coded = true /\ p_reporting_flag as_coded Hourly = false /\ p_offcycle_dq as_coded = true /\
  p_span_ignores_usage as_coded = false /\ p_baseline_adds_usage as_coded Daily = false /\
  dq_of (dataclass as_coded Hourly Reporting true cx0 (mkframe true false (ex_no_usage 340)))
  = [NoData; TooManyDaysMissingData; TooManyDaysMissingTemperature] /\
  dq_of (dataclass as_coded Daily Reporting true cx0 ex_rep_partial) = [MissingMonthlyTemperature] /\
  dq_of (dataclass as_coded Billing Baseline true cx_off (mkframe true false (ex_full 340))) = [OffcycleReads].
Proof. exact ex_as_coded. Qed.

(* ---- daily / hourly rows handed to the billing classes (Model/BillingRows.v): one total per calendar month
   (sum with min_count = 1), spread over the month's days by elapsed time ---- *)
(* a day carries usage exactly when some day of its calendar month has a value: the published "days with valid usage"
   is decided per billing period, for every list of days *)
Theorem C10_billing_rows_present_iff : forall l r,
  (exists q, spread_day true l r = Some q) <-> exists r', In r' l /\ d_key r' = d_key r /\ has_val r' = true.
Proof. exact spread_present_iff_l. Qed.
Print Assumptions C10_billing_rows_present_iff.

Theorem C10_billing_rows_month_without_value : forall l r,
  (forall r', In r' l -> d_key r' = d_key r -> d_val r' = None) -> spread_day true l r = None.
Proof. exact spread_none_l. Qed.
Print Assumptions C10_billing_rows_month_without_value.

Theorem C10_billing_rows_whole_month : forall l r1 r2, d_key r1 = d_key r2 ->
  ((exists q, spread_day true l r1 = Some q) <-> (exists q, spread_day true l r2 = Some q)).
Proof. exact spread_whole_month_l. Qed.
Print Assumptions C10_billing_rows_whole_month.

(* the shares of the days of a month add up to the month's total, which is the sum of the values supplied *)
Theorem C10_billing_rows_conserve : forall mc l k t, month_total mc k l = Some t -> 0 < month_len k l ->
  (qsum (map (fun r => share t r (month_len k l)) (filter (in_key k) l)) == t)%Q /\
  t = qsum (vals (filter (in_key k) l)).
Proof. intros mc l k t H Hp. split; [exact (spread_conserves_l mc l k t H Hp)|exact (month_total_is_sum_l mc k l t H)]. Qed.
Print Assumptions C10_billing_rows_conserve.

(* regression: without min_count every day carries usage, so a month without any value is no longer missing *)
Theorem C10_regression_billing_rows_min_count : forall l r, exists q, spread_day false l r = Some q.
Proof. exact spread_no_min_count_l. Qed.
Print Assumptions C10_regression_billing_rows_min_count.

Example C10_billing_rows_witness :
  map (fun o => match o with Some q => Some (Qred q) | None => None end) (spread true ex_days)
  = [Some (120 # 71)%Q; Some (115 # 71)%Q; Some (120 # 71)%Q; None; None; Some (25 # 14)%Q; Some (12 # 7)%Q] /\
  map (fun o => match o with Some _ => true | None => false end) (spread false ex_days)
  = [true; true; true; true; true; true; true].
Proof. exact ex_spread. Qed.

(* ---- the frames of the correspondence: the run-length expansion (civil month cached per local day) is the plain one ---- *)
Theorem C10_frame_expansion : forall t step n off obs tp cov g a,
  expand_seg (t, step, n, off, obs, tp, cov, g, a) = expand_seg_simple (Z.to_nat n) t step off obs tp cov g a.
Proof. exact expand_seg_simple_eq. Qed.
Print Assumptions C10_frame_expansion.

(* ======================================================= Part B =======================================================
   the regenerated parameters (checked inside the kernel against what the source says now) *)

(* MIN_BASELINE_LENGTH = ceil(0.9 * 365), evaluated in binary64 as python does *)
Theorem C10_code_min_length : code_min_len = 329 /\ gen_max_baseline_length = 365.
Proof. vm_compute. split; reflexivity. Qed.
Print Assumptions C10_code_min_length.

(* the valid-day sums are rounded before they are truncated (the repair of D20 / C10-F5: the binary64 sum of 1/24-day
   periods can be one ulp below a whole number; the summation itself is outside the exact-arithmetic model) *)
Theorem C10_code_day_sum_rounded : gen_day_sum_rounded = true.
Proof. vm_compute. reflexivity. Qed.
Print Assumptions C10_code_day_sum_rounded.

(* the two binary64 constants of the code pass the table: 1000 x 1001 quotients each, evaluated inside the kernel *)
Theorem C10_daily_coverage_table : threshold_table THRESHOLD_BOUND gen_min_fraction_daily_coverage = true.
Proof. vm_cast_no_check (eq_refl true). Qed.
Print Assumptions C10_daily_coverage_table.

Theorem C10_hourly_coverage_table : threshold_table THRESHOLD_BOUND gen_min_fraction_hourly_temperature_coverage = true.
Proof. vm_cast_no_check (eq_refl true). Qed.
Print Assumptions C10_hourly_coverage_table.

Theorem C10_threshold_exact : forall n d, 0 <= n <= 1000 -> 1 <= d <= 1000 ->
  frac_lt gen_min_fraction_daily_coverage n d = (10 * n <? 9 * d) /\
  frac_gt gen_min_fraction_hourly_temperature_coverage n d = (9 * d <? 10 * n).
Proof. exact (threshold_exact_l _ _ C10_daily_coverage_table C10_hourly_coverage_table). Qed.
Print Assumptions C10_threshold_exact.

Theorem C10_under_is_float : forall n d, 0 <= n <= 1000 -> 1 <= d <= 1000 ->
  under code_params n (Some d) = frac_lt gen_min_fraction_daily_coverage n d.
Proof. exact (under_is_float_l code_params _ eq_refl eq_refl C10_daily_coverage_table). Qed.
Print Assumptions C10_under_is_float.

Example C10_threshold_witness :
  frac_lt gen_min_fraction_daily_coverage 306 340 = false /\ frac_lt gen_min_fraction_daily_coverage 305 340 = true /\
  frac_lt gen_min_fraction_daily_coverage 27 30 = false.
Proof. vm_compute. repeat split. Qed.

(* thresholds, span limits and the *sets* of checks of the six entry points are the statement's (any order) *)
Theorem C10_code_params_published : params_ok code_params = true.
Proof. vm_compute. reflexivity. Qed.
Print Assumptions C10_code_params_published.

(* ... and so is the glue of the six data classes: reporting data is declared as such (all three families), off-cycle
   reads go to the warnings, the rows that carry data ignore the usage column of reporting data, a baseline frame
   always reaches the criteria class with a usage column *)
Theorem C10_code_params_exact : params_exact code_params = true.
Proof. vm_compute. reflexivity. Qed.
Print Assumptions C10_code_params_exact.

(* ---- the full statement holds for the code as it is ---- *)
Theorem C10_statement_holds : C10_statement.
Proof. exact (statement_l code_params C10_code_params_exact). Qed.
Print Assumptions C10_statement_holds.

(* every frame is accepted by the six data classes of the code as it is *)
Theorem C10_code_accepts_wellformed : forall f w el cx fr, exists dq ws, dataclass code_params f w el cx fr = Accepted dq ws.
Proof.
  intros f w el cx fr. apply dataclass_accepts_dc. destruct w.
  - right. right. split; [reflexivity|]. exact (ef_add _ (params_exact_facts _ C10_code_params_exact) f).
  - left. exact (ef_rep _ (params_exact_facts _ C10_code_params_exact) f).
Qed.
Print Assumptions C10_code_accepts_wellformed.

(* off-cycle reads never change the verdict of the code as it is *)
Theorem C10_code_warnings_never_change_verdict : forall f w el cx cx' fr,
  dq_of (dataclass code_params f w el cx fr) = dq_of (dataclass code_params f w el cx' fr).
Proof.
  intros. apply warnings_never_change_verdict_dc. left.
  exact (ef_off _ (params_exact_facts _ C10_code_params_exact)).
Qed.
Print Assumptions C10_code_warnings_never_change_verdict.

(* the billing classes total the daily / hourly rows of a calendar month with min_count = 1 ... *)
Theorem C10_code_billing_month_min_count : gen_billing_month_min_count = true.
Proof. vm_compute. reflexivity. Qed.
Print Assumptions C10_code_billing_month_min_count.

(* ... hence, for the code as it is, a day of such data carries usage exactly when its calendar month has a value *)
Theorem C10_code_billing_rows_present_iff : forall l r,
  (exists q, spread_day gen_billing_month_min_count l r = Some q) <->
  exists r', In r' l /\ d_key r' = d_key r /\ has_val r' = true.
Proof. rewrite C10_code_billing_month_min_count. exact spread_present_iff_l. Qed.
Print Assumptions C10_code_billing_rows_present_iff.
