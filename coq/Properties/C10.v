From Coq Require Import ZArith List Bool.
From V Require Import Model.Sufficiency Proofs.SufficiencyProofs.
Theorem C10_stub : True. Proof. exact stub_true. Qed.
Print Assumptions C10_stub.
