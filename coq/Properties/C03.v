(* C03 — fitting is reproducible: same data and settings (and the same seed for the hourly model) give the same model,
   within a process, across processes, under any worker-thread count, whatever the library was used for before.

   PARTIAL, and the weakest use of the technique in this development.  What is PROVED here is the seed / global-state
   plumbing: (a) in the model Model/Repro.v, whose operations consult only what the code's control flow consults, the
   result of a seeded fit is a function of the operation alone; (b) in the tables regenerated from the source on every
   run (Generated/ReproGen.v), every consumer of randomness receives a value derived from the settings seed, and the
   global generator is used only to pick a seed when none is given.  The numerical engines (NLopt, ElasticNet, k-means,
   PCA, wavelets, statsmodels/LAPACK, numba) are ONE uninterpreted function [fitf]; that they are deterministic under
   the runtime (BLAS summation order, thread scheduling, JIT caches) is NOT provable here: it is what the sampled
   behavioural tie of harness/c03.py (histories x schedules x thread counts x processes, SHA-256 of to_json() and of a
   fixed prediction) decides. *)
From Coq Require Import ZArith List Bool String Permutation.
From V Require Import Model.Repro Model.ReproFlow Proofs.ReproProofs Proofs.ReproFlowProofs Generated.ReproGen.
Import ListNotations.
Open Scope Z_scope.

(* ------------------------------------------------------------------------------------------------------------
   The statement at full strength: any fit, from any two process states, after any two histories. *)
Definition C03_statement : Prop := forall o s1 s2 h1 h2, is_fit o = true ->
  out (run s1 (h1 ++ [o])) = out (run s2 (h2 ++ [o])).

(* As coded it fails in two ways, both replayed on the implementation by harness/c03.py.
   (1) The hourly model WITHOUT a seed (the default: settings.seed = None) takes its seed from numpy's global generator;
       the property text excludes this case ("the same seed for the hourly model"), the witness shows the hypothesis
       [seeded] below is needed. *)
Definition ex_cfg : hcfg := {| h_id := 0; h_recluster := 3; h_silhouette := false |}.
Theorem C03_unseeded_hourly_depends_on_rng_refuted :
  exists h1 h2 o, is_fit o = true /\
    out (run (init 1 1) (h1 ++ [o])) <> out (run (init 1 1) (h2 ++ [o])).
Proof.
  exists [RngSeed 1], [RngSeed 2], (FitHourly 1 ex_cfg None). split; [reflexivity|].
  vm_compute. discriminate.
Qed.
Print Assumptions C03_unseeded_hourly_depends_on_rng_refuted.

(* (2) The CalTRACK hourly model consults the size of the BLAS thread pool of the process (known finding C03-K1): *)
Theorem C03_caltrack_depends_on_thread_count_refuted :
  exists t1 t2 o, seeded o = true /\ out (run (init 1 t1) [o]) <> out (run (init 2 t2) [o]).
Proof. exists 1, 8, (FitCalTrack 1). split; [reflexivity|]. vm_compute. discriminate. Qed.
Print Assumptions C03_caltrack_depends_on_thread_count_refuted.

Theorem C03_statement_refuted : ~ C03_statement.
Proof.
  intros H. specialize (H (FitCalTrack 1) (init 1 1) (init 2 8) [] [] eq_refl). vm_compute in H. discriminate.
Qed.
Print Assumptions C03_statement_refuted.

(* ------------------------------------------------------------------------------------------------------------
   Partial: seeded fits. *)

(* daily, billing, seeded hourly: the same result after ANY two histories, from ANY two process states
   (different processes, different generator states, different pool sizes, warm or cold) *)
Theorem C03_fit_history_independent_partial : forall o s1 s2 h1 h2, seeded o = true -> thread_sensitive o = false ->
  out (run s1 (h1 ++ [o])) = out (run s2 (h2 ++ [o])).
Proof. exact history_independent. Qed.
Print Assumptions C03_fit_history_independent_partial.

(* CalTRACK hourly as well, between processes with the same pool size *)
Theorem C03_fit_history_independent_same_pool_partial : forall o s1 s2 h1 h2, seeded o = true ->
  ct_env s1 = ct_env s2 -> out (run s1 (h1 ++ [o])) = out (run s2 (h2 ++ [o])).
Proof. exact history_independent_same_pool. Qed.
Print Assumptions C03_fit_history_independent_same_pool_partial.

(* ... read through ANY fit function, i.e. whatever the numerical engines compute from what they are handed *)
Theorem C03_fit_history_independent_any_engine : forall (M : Type) fitf predf (none : M) o s1 s2 h1 h2,
  seeded o = true -> thread_sensitive o = false ->
  interp M fitf predf none (out (run s1 (h1 ++ [o]))) = interp M fitf predf none (out (run s2 (h2 ++ [o]))).
Proof. intros. apply interp_eq. apply history_independent; assumption. Qed.
Print Assumptions C03_fit_history_independent_any_engine.

(* the order in which a batch of meters is fitted permutes the results and changes none *)
Theorem C03_batch_order_irrelevant : forall h1 h2 s1 s2, Permutation h1 h2 -> forallb seeded h1 = true ->
  ct_env s1 = ct_env s2 -> Permutation (snd (run s1 h1)) (snd (run s2 h2)).
Proof. exact batch_order. Qed.
Print Assumptions C03_batch_order_irrelevant.

(* the prediction of a freshly fitted model, after any history of the process *)
Theorem C03_prediction_history_independent : forall o p t h, seeded o = true ->
  out (run (init p t) (h ++ [o; Predict (List.length h)])) = RPredict (pure_out (ct_env (init p t)) o).
Proof. exact predict_after_history. Qed.
Print Assumptions C03_prediction_history_independent.

(* the seed reaches every consumer: ElasticNet gets seed, the i-th k-means gets seed + i, nobody gets None *)
Theorem C03_seed_reaches_every_consumer : forall s d c z,
  exists cs, snd (step s (FitHourly d c (Some z))) = RFit Hourly d (h_id c) 0 cs /\
    List.length cs = S (h_recluster c) /\
    (forall x, In x cs -> exists i, 0 <= i < Z.max 1 (Z.of_nat (h_recluster c)) /\ consumer_rs x = Some (SdLit z, i)) /\
    map consumer_rs cs = Some (SdLit z, 0) :: map (fun k => Some (SdLit z, Z.of_nat k)) (seq 0 (h_recluster c)).
Proof. exact seed_reaches_every_consumer_l. Qed.
Print Assumptions C03_seed_reaches_every_consumer.

(* an unseeded hourly fit is exactly the seeded fit with the value the generator yields in the current state
   (this is what the "rng" stream of the correspondence checks on the code) *)
Theorem C03_unseeded_is_seeded_with_the_draw : forall tbl s s' d c z, lookup_draw tbl (g_rng s) = Some z ->
  norm_res tbl (snd (step s (FitHourly d c None))) = norm_res tbl (snd (step s' (FitHourly d c (Some z)))).
Proof. exact unseeded_is_seeded_with_draw. Qed.
Print Assumptions C03_unseeded_is_seeded_with_the_draw.

(* settings objects are state created at construction time.  A fit reads its own object ... *)
Theorem C03_fit_depends_only_on_its_own_settings_object : forall s1 s2 k d,
  nth_error (g_objs s1) k = nth_error (g_objs s2) k -> snd (step s1 (FitObj k d)) = snd (step s2 (FitObj k d)).
Proof. exact fitobj_own_object. Qed.
Print Assumptions C03_fit_depends_only_on_its_own_settings_object.

(* ... nothing done with OTHER models (construct, fit, to_json, from_json; seeded or not) writes to it ... *)
Theorem C03_other_models_leave_a_settings_object_alone : forall h s k ob,
  forallb (fun o => negb (touches o k)) h = true -> nth_error (g_objs s) k = Some ob ->
  nth_error (g_objs (fst (run s h))) k = Some ob.
Proof. exact run_keeps_object. Qed.
Print Assumptions C03_other_models_leave_a_settings_object_alone.

(* ... so construct / anything with other models / fit gives what construct-and-fit-at-once gives *)
Theorem C03_construct_interleave_fit : forall s h c z d,
  forallb (fun o => negb (touches o (List.length (g_objs s)))) h = true ->
  out (run s (NewHourly c (Some z) :: h ++ [FitObj (List.length (g_objs s)) d])) =
  out (run s [FitHourly d c (Some z)]).
Proof. intros. rewrite construct_interleave_fit by assumption. reflexivity. Qed.
Print Assumptions C03_construct_interleave_fit.

(* RE-USING ONE MODEL OBJECT: the object's own prior state (what it was fitted on before, solver state, caches) is part
   of the state a fit may not read.  Construct a seeded hourly model, then ANYTHING -- fits of this very object on the
   same or on other data, to_json, from_json included -- then fit: the result of a fresh object fitted at once *)
Theorem C03_refit_equals_fresh_fit : forall s h c z d,
  out (run s (NewHourly c (Some z) :: h ++ [FitObj (List.length (g_objs s)) d])) = out (run s [FitHourly d c (Some z)]).
Proof. intros. rewrite refit_equals_fresh. reflexivity. Qed.
Print Assumptions C03_refit_equals_fresh_fit.

(* the same for DailyModel / BillingModel objects: fit(A) ... fit(B) on one object ends as a fresh fit(B) *)
Theorem C03_refit_daily_billing_equals_fresh_fit : forall s h cfg d,
  out (run s (NewDB Daily cfg :: h ++ [FitDB (List.length (g_dbs s)) d])) = out (run s [FitDaily d cfg]) /\
  out (run s (NewDB Billing cfg :: h ++ [FitDB (List.length (g_dbs s)) d])) = out (run s [FitBilling d cfg]).
Proof. intros. rewrite !refit_db_equals_fresh. split; reflexivity. Qed.
Print Assumptions C03_refit_daily_billing_equals_fresh_fit.

(* the JIT cache (warm flag) carries what populated it; a seeded fit does not depend on it: same result from a cold cache,
   from a cache populated by default fits, and from a cache populated by any developer profile, in this or an earlier
   process.  The model may say so because of C03_fitting_writes_no_process_global_state below (numba freezes
   module-level values into the cached code; nobody on a fit path assigns one). *)
Theorem C03_fit_independent_of_jit_cache : forall o p1 p2 t1 t2 c1 c2 h1 h2, seeded o = true -> thread_sensitive o = false ->
  out (run (init_cache p1 t1 c1) (h1 ++ [o])) = out (run (init_cache p2 t2 c2) (h2 ++ [o])).
Proof. intros. apply history_independent; assumption. Qed.
Print Assumptions C03_fit_independent_of_jit_cache.

(* the hash salt of the interpreter is process state a fit may not read: same result under any two salts -- every family,
   CalTRACK hourly included since /repo 15304f59 (the model may say so because of
   C03_no_hash_order_reaches_an_ordered_structure below) *)
Theorem C03_fit_independent_of_hash_salt : forall o p1 p2 t c1 c2 k1 k2 h1 h2, seeded o = true ->
  out (run (init_full p1 t c1 k1) (h1 ++ [o])) = out (run (init_full p2 t c2 k2) (h2 ++ [o])).
Proof. intros. apply history_independent_same_pool; [assumption|reflexivity]. Qed.
Print Assumptions C03_fit_independent_of_hash_salt.

(* global state: a seeded fit does not move numpy's global generator; nothing ever writes the shared default list *)
Theorem C03_seeded_fit_keeps_global_rng : forall s o, rng_clean o = true -> g_rng (fst (step s o)) = g_rng s.
Proof. exact clean_keeps_rng. Qed.
Print Assumptions C03_seeded_fit_keeps_global_rng.

Theorem C03_shared_default_never_written : forall h s, g_ct_default (fst (run s h)) = g_ct_default s.
Proof. exact ct_default_never_written. Qed.
Print Assumptions C03_shared_default_never_written.

(* ------------------------------------------------------------------------------------------------------------
   The same plumbing, as the SOURCE says it today (tables regenerated by harness/translate_repro.py on every run). *)
Open Scope string_scope.

(* every consumer of randomness constructed in the scanned files is reached by the seed (or gets a literal) *)
Theorem C03_seed_reaches_every_consumer_in_source :
  forallb (site_ok attr_assigns bindings) consumer_sites = true.
Proof. vm_compute. reflexivity. Qed.
Print Assumptions C03_seed_reaches_every_consumer_in_source.
(* ElasticNet <- settings.elasticnet._seed <- settings._seed <- settings.seed;
   BisectingKMeans <- seed + i <- _cluster_time_series(seed) <- _cluster_temporal_features(seed) <-
   settings.temporal_cluster._seed <- settings._seed; check_random_state <- self.random_state of that estimator;
   silhouette_score <- the literal 0 *)

(* this was refuted until /repo 6be031d0 (proposed as C03-2): scoring.py score_clusters called
   silhouette_score(.., sample_size=10_000) without random_state, so a SEEDED hourly fit with score_metric="silhouette"
   drew from numpy's global generator.  Frozen copy of that site, kept as the regression witness: *)
Definition silhouette_before_6be031d0 : site :=
  {| s_file := "opendsm/common/clustering/scoring.py"; s_func := "score_clusters"; s_callee := "silhouette_score";
     s_kwargs := ["metric"; "sample_size"]; s_dead := false; s_src := SAbsent |}.
Theorem C03_unseeded_silhouette_site_is_rejected :
  site_ok attr_assigns bindings silhouette_before_6be031d0 = false /\ silhouette_site silhouette_before_6be031d0 = true.
Proof. vm_compute. split; reflexivity. Qed.
Print Assumptions C03_unseeded_silhouette_site_is_rejected.

(* the model's list of consumers is the source's list: the live, non-exempt construction sites are exactly these *)
Theorem C03_model_consumers_are_the_source_consumers :
  live_consumers (filter (fun s => negb (silhouette_site s)) consumer_sites) =
  ["ElasticNet"; "BisectingKMeans"; "check_random_state"].
Proof. vm_compute. reflexivity. Qed.
Print Assumptions C03_model_consumers_are_the_source_consumers.

(* the global generators (np.random.*, python's random) are used in one way only: to choose _seed when settings.seed is None *)
Theorem C03_global_rng_only_picks_the_seed :
  forallb rng_use_ok rng_uses = true /\ (0 < List.length rng_uses)%nat.
Proof. vm_compute. split; [reflexivity|repeat constructor]. Qed.
Print Assumptions C03_global_rng_only_picks_the_seed.

(* ... so the hourly model with default settings is NOT reproducible (documented: the default seed is None) *)
Theorem C03_default_hourly_settings_are_unseeded : hourly_seed_default_is_none = true.
Proof. vm_compute. reflexivity. Qed.
Print Assumptions C03_default_hourly_settings_are_unseeded.

(* no mutable default argument of the scanned files can carry state from one call to the next: each is a pydantic
   field default (copied per instance), or only read, or passed explicitly at every call site *)
Theorem C03_no_shared_mutable_default :
  forallb mdefault_ok mutable_defaults = true.
Proof. vm_compute. reflexivity. Qed.
Print Assumptions C03_no_shared_mutable_default.

(* no iteration order of a set reaches an ordered structure (feature lists, column orders, documents), except two
   allow-listed sites that are order-free for a reason written next to the allow-list (Model/ReproFlow.v osite_ok) *)
Theorem C03_no_hash_order_reaches_an_ordered_structure :
  forallb osite_ok order_sites = true.
Proof. vm_compute. reflexivity. Qed.
Print Assumptions C03_no_hash_order_reaches_an_ordered_structure.

(* this was refuted until /repo 15304f59 (found by this check as C03-K2, proposed as C03-3.diff): CalTRACKSegmentModel.predict
   ordered the columns of its dot product by list(set(parameters.keys()).intersection(..)), so the same CalTRACK hourly fit
   in fresh processes with PYTHONHASHSEED 0 / 1 / 2 gave three different documents.  Frozen copy, kept as regression witness: *)
Definition caltrack_predict_before_15304f59 : osite :=
  {| o_file := "opendsm/eemeter/models/hourly_caltrack/segmentation.py"; o_func := "CalTRACKSegmentModel.predict"; o_kind := "call";
     o_text := "list(set(parameters.keys()).intersection(set(design_matrix_granular.ke" |}.
Theorem C03_set_order_in_caltrack_predict_is_rejected :
  osite_ok caltrack_predict_before_15304f59 = false.
Proof. vm_compute. reflexivity. Qed.
Print Assumptions C03_set_order_in_caltrack_predict_is_rejected.

(* what the rule rejects: leftover feature columns appended in set order *)
Example C03_set_order_into_feature_list_is_rejected :
  osite_ok {| o_file := "opendsm/eemeter/models/hourly/model.py"; o_func := "HourlyModel._sort_features"; o_kind := "extend";
              o_text := "sorted_cols.extend(set(feat).difference(sorted_cols))" |} = false.
Proof. vm_compute. reflexivity. Qed.

(* fitting writes no process-global state: in the scanned files there is no `global` statement, no assignment or mutation
   through an imported name (another module's attribute, a class attribute, another module's container), no mutation of
   a module-level object from inside a function, no process-wide configuration call -- except five import-time
   statements that write the same constants in every process (allow-list in Model/ReproFlow.v gwrite_ok) *)
Theorem C03_fitting_writes_no_process_global_state :
  forallb gwrite_ok global_writes = true.
Proof. vm_compute. reflexivity. Qed.
Print Assumptions C03_fitting_writes_no_process_global_state.

(* what the rule rejects: a setting wired through a module global inside _fit (numba bakes it into the on-disk cache) *)
Example C03_global_write_in_fit_is_rejected :
  gwrite_ok {| w_file := "opendsm/eemeter/models/daily/model.py"; w_scope := "DailyModel._fit"; w_kind := GImported;
               w_target := "adaptive_loss.LOSS_ALPHA_MIN" |} = false.
Proof. vm_compute. reflexivity. Qed.

(* the seed is written onto the settings object's OWN nested objects: every nested settings default is built per
   instance (default_factory or copied), never one shared instance; checked on two really constructed objects *)
Theorem C03_nested_settings_are_per_instance :
  (0 < List.length nested_defaults)%nat /\ (2 <= List.length (filter (fun a => negb (String.eqb (a_owner a) "")) attr_assigns))%nat /\
  forallb (seed_write_ok nested_defaults) attr_assigns = true.
Proof. vm_compute. split; [repeat constructor|split; [repeat constructor|reflexivity]]. Qed.
Print Assumptions C03_nested_settings_are_per_instance.

(* the start vector every optimiser is given (and mutates in place, optimize.py obj_fcn_dec) is made for that call *)
Theorem C03_optimiser_start_vectors_are_fresh :
  forallb x0_ok x0_sites = true /\ (0 < List.length x0_sites)%nat.
Proof. vm_compute. split; [reflexivity|repeat constructor]. Qed.
Print Assumptions C03_optimiser_start_vectors_are_fresh.

(* the default optimisers of the daily/billing model are deterministic NLopt algorithms *)
Theorem C03_default_optimisers_deterministic :
  forallb (fun p => algorithm_ok (snd p)) default_algorithms = true /\ (0 < List.length default_algorithms)%nat.
Proof. vm_compute. split; [reflexivity|repeat constructor]. Qed.
Print Assumptions C03_default_optimisers_deterministic.

(* ------------------------------------------------------------------------------------------------------------
   What the seed-flow check MEANS, for all tables (Proofs/ReproFlowProofs.v).  [flows assigns bindings given s l]: some
   data-flow path from the expression s -- through any chain of `_seed` attribute assignments and parameter bindings, of any
   length -- ends at a source of kind l (LField: the settings field `seed`; LDraw: the np.random draw; LConst: a literal;
   LBad: None / not passed / unreadable / never assigned / never called). *)
Open Scope string_scope.

(* the fuel-bounded search is COMPLETE: if it reports no bad leaf, every path of the semantics ends at a leaf it lists *)
Theorem C03_seed_flow_search_is_complete : forall assigns bindings given fuel s,
  ~ In LBad (resolve assigns bindings fuel given s) ->
  forall l, flows assigns bindings given s l -> In l (resolve assigns bindings fuel given s).
Proof. exact resolve_complete. Qed.
Print Assumptions C03_seed_flow_search_is_complete.

(* ... and SOUND: every good leaf it lists is the end of a real path *)
Theorem C03_seed_flow_search_is_sound : forall assigns bindings given fuel s l,
  In l (resolve assigns bindings fuel given s) -> l <> LBad -> flows assigns bindings given s l.
Proof. exact resolve_sound. Qed.
Print Assumptions C03_seed_flow_search_is_sound.

(* so a site that passes the check receives, along EVERY path, the settings seed when one is given and the one documented
   draw when none is *)
Theorem C03_site_seeded_means_every_path : forall assigns bindings s, site_seeded assigns bindings s = true ->
  (forall l, flows assigns bindings true (s_src s) l -> l = LField) /\
  (forall l, flows assigns bindings false (s_src s) l -> l = LDraw).
Proof. exact site_seeded_means. Qed.
Print Assumptions C03_site_seeded_means_every_path.

(* in the source as it is today: every live consumer of randomness that is not handed a literal is reached, along every
   data-flow path of the regenerated tables, by the settings seed and by nothing else *)
Lemma site_ok_cases : forall s, site_ok attr_assigns bindings s = true -> s_dead s = false -> exempt s = false ->
  site_constant attr_assigns bindings s = false -> site_seeded attr_assigns bindings s = true.
Proof.
  intros s H Hd He Hc. unfold site_ok in H. rewrite Hd, He, Hc in H.
  destruct (site_seeded attr_assigns bindings s); [reflexivity|discriminate H].
Qed.
Theorem C03_every_path_into_a_consumer_starts_at_the_seed : forall s, In s consumer_sites ->
  s_dead s = false -> exempt s = false -> site_constant attr_assigns bindings s = false ->
  (forall l, flows attr_assigns bindings true (s_src s) l -> l = LField) /\
  (forall l, flows attr_assigns bindings false (s_src s) l -> l = LDraw).
Proof.
  intros s Hin Hd He Hc. apply site_seeded_means. apply site_ok_cases; try assumption.
  pose proof C03_seed_reaches_every_consumer_in_source as H. rewrite forallb_forall in H. apply H. exact Hin.
Qed.
Print Assumptions C03_every_path_into_a_consumer_starts_at_the_seed.

(* non-vacuity: such sites exist (ElasticNet, BisectingKMeans, check_random_state), and a real path: the k-means
   random_state  seed + i  <- _cluster_time_series(seed) <- _cluster_temporal_features(seed) <- temporal_cluster._seed
   <- settings._seed <- settings.seed *)
Example C03_nonvacuous_flow :
  (3 <= List.length (filter (fun s => negb (s_dead s) && negb (exempt s) && negb (site_constant attr_assigns bindings s))
                            consumer_sites))%nat /\
  flows attr_assigns bindings true (SPlusIdx (SParam "_cluster_time_series" "seed")) LField /\
  flows attr_assigns bindings false (SPlusIdx (SParam "_cluster_time_series" "seed")) LDraw /\
  flows attr_assigns bindings true SNone LBad.
Proof.
  split; [vm_compute; repeat constructor|].
  split; [apply (resolve_sound _ _ _ 12); [vm_compute; left; reflexivity|discriminate]|].
  split; [apply (resolve_sound _ _ _ 12); [vm_compute; left; reflexivity|discriminate]|constructor].
Qed.
Open Scope Z_scope.

(* ------------------------------------------------------------------------------------------------------------
   Non-vacuity. *)
Open Scope Z_scope.

(* the same seeded hourly fit: alone in a fresh single-threaded process, and in another process with 8 threads after a
   perturbed generator, other families, an unseeded hourly fit and a prediction *)
Example C03_nonvacuous_history :
  let o := FitHourly 7 ex_cfg (Some 42) in
  seeded o = true /\ thread_sensitive o = false /\
  out (run (init 1 1) [o]) =
  out (run (init 2 8) ([RngSeed 5; RngRandom 10; FitDaily 1 0; FitHourly 2 ex_cfg None; Predict 2; FitCalTrack 3; Unrelated true] ++ [o])) /\
  out (run (init 1 1) [o]) =
    RFit Hourly 7 0 0 [CElasticNet (Some (SdLit 42, 0)); CKMeans (Some (SdLit 42, 0)); CKMeans (Some (SdLit 42, 1));
                       CKMeans (Some (SdLit 42, 2))].
Proof. vm_compute. repeat split; reflexivity. Qed.

(* the draw table is consulted: with the generator seeded with 5, whose first randint is (say) 99, the unseeded fit
   normalises to the fit seeded with 99 *)
Example C03_nonvacuous_draw :
  let tbl := [({| r_origin := 0; r_evs := [EvSeed 5] |}, 99)] in
  norm_res tbl (out (run (init 1 1) [RngSeed 5; FitHourly 1 ex_cfg None])) =
  norm_res tbl (out (run (init 2 1) [FitHourly 1 ex_cfg (Some 99)])).
Proof. vm_compute. reflexivity. Qed.

(* two models prepared first (seeds 1 and 3), a default model built and a fitted one reloaded in between, fitted afterwards *)
Example C03_nonvacuous_interleaving :
  let h := [NewHourly ex_cfg (Some 3); NewHourly ex_cfg None; FitObj 1 5; ToJson 1; FromJson 1; FitObj 2 5] in
  forallb (fun o => negb (touches o 0)) h = true /\
  out (run (init 1 1) (NewHourly ex_cfg (Some 1) :: h ++ [FitObj 0 5])) = out (run (init 2 1) [FitHourly 5 ex_cfg (Some 1)]) /\
  out (run (init 1 1) (NewHourly ex_cfg (Some 1) :: h ++ [FitObj 0 5])) <>
  out (run (init 1 1) (NewHourly ex_cfg (Some 1) :: [NewHourly ex_cfg (Some 3); FitObj 1 5])).
Proof. vm_compute. repeat split; try reflexivity. discriminate. Qed.

(* a cold cache is populated by the FIRST daily fit (here a developer profile, cfg 7); the default fit that follows, and the
   default fit of a later process that starts on that cache, return what a fit on a default-populated cache returns *)
Example C03_nonvacuous_jit_cache :
  g_jit (fst (run (init_cache 1 1 []) [FitDaily 1 7; FitDaily 2 0])) = [(Daily, 7)] /\
  out (run (init_cache 1 1 []) [FitDaily 1 7; FitDaily 2 0]) = out (run (init_cache 2 1 [(Daily, 7)]) [FitDaily 2 0]) /\
  out (run (init_cache 2 1 [(Daily, 7)]) [FitDaily 2 0]) = out (run (init_cache 3 1 [(Daily, 0)]) [FitDaily 2 0]).
Proof. vm_compute. repeat split; reflexivity. Qed.

(* one hourly object fitted on data 5, serialised, fitted on data 6, then on 5 again; one daily object fitted on 1 then 2 *)
Example C03_nonvacuous_refit :
  out (run (init 1 1) (NewHourly ex_cfg (Some 9) :: [FitObj 0 5; ToJson 0; FitObj 0 6] ++ [FitObj 0 5])) =
    out (run (init 2 8) [FitHourly 5 ex_cfg (Some 9)]) /\
  out (run (init 1 1) (NewDB Daily 0 :: [FitDB 0 1] ++ [FitDB 0 2])) = out (run (init 2 1) [FitDaily 2 0]) /\
  db_last (nth 0 (g_dbs (fst (run (init 1 1) [NewDB Daily 0; FitDB 0 1]))) {| db_fam := Daily; db_cfg := 0; db_last := None |}) = Some 1.
Proof. vm_compute. repeat split; reflexivity. Qed.

Example C03_nonvacuous_batch :
  forallb seeded [FitDaily 1 0; FitBilling 2 0; FitHourly 3 ex_cfg (Some 1)] = true /\
  Permutation [FitDaily 1 0; FitBilling 2 0; FitHourly 3 ex_cfg (Some 1)] [FitHourly 3 ex_cfg (Some 1); FitDaily 1 0; FitBilling 2 0].
Proof. split; [reflexivity|]. apply Permutation_sym. apply (Permutation_cons_app [_; _] []). reflexivity. Qed.

Example C03_nonvacuous_source :
  (2 <= List.length consumer_sites)%nat /\ (3 <= List.length bindings)%nat /\ (4 <= List.length attr_assigns)%nat /\
  (1 <= List.length mutable_defaults)%nat.
Proof. vm_compute. repeat split; repeat constructor. Qed.
