From Coq Require Import ZArith QArith List Bool.
From V Require Import Model.Resample Proofs.ResampleProofs.
Theorem C08_placeholder : forall a b c d, (0 <= overlap a b c d)%Z.
Proof. exact overlap_nonneg. Qed.
