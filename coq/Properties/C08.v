(* C08 — usage is conserved when meter data is resampled to days.
   Statements only; proofs are in Proofs/ResampleProofs.v; the model is Model/Resample.v (exact rationals, time in
   whole UTC minutes, local-day boundaries as data: a day is a bucket [b_j, b_j+1) of any length, so 23-, 24- and
   25-hour days are covered by the same theorems).
   Vocabulary: intervals rs = the constant-rate intervals [t_i, t_i+1) of the readings (the last reading is
   open-ended and has none); bucket_sum / bucket_count = usage / covered minutes of a bucket; bucket_value = NaN iff
   no covered minute; clean_day = downsample_and_clean_daily_data's value of a day (1/2 rule, 1/coverage scaling). *)
From Coq Require Import ZArith QArith List Bool Lia.
From V Require Import Model.Resample Model.Cmp Generated.ResampleGen Proofs.ResampleProofs Proofs.ResampleGenProofs.
Import ListNotations.
Open Scope Z_scope.

(* ------------------------------------------------------------------------------------------------ *)
(* A. as_freq: spreading and conservation                                                            *)
(* ------------------------------------------------------------------------------------------------ *)

(* billing_period_conserved: the local days (c :: mid) that tile a billed period [ilo iv, ihi iv) add up to the
   billed amount, and each of them is covered completely (so none is missing) *)
Theorem C08_billing_period_conserved : forall rs iv v c mid,
  sorted_rs rs -> In iv (intervals rs) -> ival iv = Some v ->
  incr (c :: mid) -> c = ilo iv -> last mid c = ihi iv ->
  (sumQ (map (fun p => bucket_sum (fst p) (snd p) (intervals rs)) (pairs (c :: mid))) == v)%Q /\
  forall p, In p (pairs (c :: mid)) ->
    bucket_count (fst p) (snd p) (intervals rs) = snd p - fst p /\
    bucket_value (fst p) (snd p) (intervals rs) = Some (bucket_sum (fst p) (snd p) (intervals rs)).
Proof. exact period_conserved_l. Qed.
Print Assumptions C08_billing_period_conserved.

(* a period without usage (NaN reading / blanked by the off-cycle filter): every day inside it is missing *)
Theorem C08_period_without_usage_is_missing : forall rs iv lo hi,
  sorted_rs rs -> In iv (intervals rs) -> ival iv = None ->
  ilo iv <= lo -> lo <= hi -> hi <= ihi iv -> bucket_value lo hi (intervals rs) = None.
Proof. exact period_missing_l. Qed.
Print Assumptions C08_period_without_usage_is_missing.

(* nothing_invented: over day boundaries that span the series, the buckets add up to the readings of all closed
   intervals (every reading but the open-ended last one) ... *)
Theorem C08_nothing_invented : forall rs c rest, sorted_rs rs -> incr (c :: rest) ->
  c <= first_stamp rs -> last_stamp rs <= last rest c ->
  (sumQ (map (fun p => bucket_sum (fst p) (snd p) (intervals rs)) (pairs (c :: rest))) ==
   sumQ (map (fun r => oq0 (rval r)) (removelast rs)))%Q.
Proof. exact nothing_invented_l. Qed.
Print Assumptions C08_nothing_invented.

(* ... and so do the rows as_freq returns (NaN read as 0) *)
Theorem C08_as_freq_conserves : forall rs c rest, sorted_rs rs -> incr (c :: rest) ->
  c <= first_stamp rs -> last_stamp rs <= last rest c ->
  (sumQ (map (fun r => oq0 (d_val r)) (as_freq_cum rs (c :: rest))) ==
   sumQ (map (fun r => oq0 (rval r)) (removelast rs)))%Q.
Proof. exact as_freq_conserves_l. Qed.
Print Assumptions C08_as_freq_conserves.

(* the rows of as_freq are exactly the buckets from the first to the last stamp, each with its bucket value *)
Theorem C08_as_freq_rows : forall rs bs,
  map (fun r => (d_lo r, d_hi r, d_val r)) (as_freq_cum rs bs) =
  map (fun p => (fst p, snd p, bucket_value (fst p) (snd p) (intervals rs))) (filter (relevant rs) (pairs bs)).
Proof. exact as_freq_cum_spec. Qed.
Print Assumptions C08_as_freq_rows.

(* minute_grid_eq: the code's literal algorithm (1-minute forward-filled series, resample sum / count) gives the
   interval formula the other theorems are stated with *)
Theorem C08_minute_grid_eq : forall rs lo hi, sorted_rs rs -> lo <= hi ->
  (grid_bucket_sum rs lo hi == bucket_sum lo hi (intervals rs))%Q /\
  grid_bucket_count rs lo hi = bucket_count lo hi (intervals rs).
Proof. exact minute_grid_eq_l. Qed.
Print Assumptions C08_minute_grid_eq.

(* ------------------------------------------------------------------------------------------------ *)
(* B. days of sub-daily readings (downsample_and_clean_daily_data)                                   *)
(* ------------------------------------------------------------------------------------------------ *)

(* subdaily_full_day: no reading interval straddles the day's boundaries and the day is covered completely ->
   the day's value is the sum of the readings in it; the length of the day (hi - lo) is arbitrary *)
Theorem C08_subdaily_full_day : forall lo hi ivs, lo < hi -> no_straddle lo hi ivs ->
  bucket_count lo hi ivs = hi - lo ->
  oq_eq (clean_day lo hi ivs false) (Some (readings_in lo hi ivs)).
Proof. exact full_day_l. Qed.
Print Assumptions C08_subdaily_full_day.

(* readings on a regular grid (15/30/60 minutes) whose slots are in phase with the day boundaries never straddle *)
Theorem C08_regular_series_aligned : forall ivs step t0 lo hi, 0 < step ->
  (forall iv, In iv ivs -> ihi iv = ilo iv + step /\ (step | ilo iv - t0)) ->
  (step | lo - t0) -> (step | hi - t0) -> no_straddle lo hi ivs.
Proof. exact regular_no_straddle. Qed.
Print Assumptions C08_regular_series_aligned.

(* partial_day: covered for more than half -> covered usage / coverage *)
Theorem C08_partial_day : forall lo hi ivs, lo < hi -> (1 # 2 < coverage lo hi ivs false)%Q ->
  oq_eq (clean_day lo hi ivs false) (Some (bucket_sum lo hi ivs / coverage lo hi ivs false)%Q).
Proof. exact partial_day_l. Qed.
Print Assumptions C08_partial_day.

(* ... where, for aligned readings, the covered usage is the sum of the readings present in the day *)
Theorem C08_covered_usage_is_sum_of_readings : forall lo hi ivs, lo <= hi -> no_straddle lo hi ivs ->
  (bucket_sum lo hi ivs == readings_in lo hi ivs)%Q /\
  bucket_count lo hi ivs = zsum (map present_len (filter (inside lo hi) ivs)).
Proof. intros lo hi ivs H1 H2. split; [exact (bucket_sum_inside lo hi ivs H1 H2)|exact (bucket_count_inside lo hi ivs H1 H2)]. Qed.
Print Assumptions C08_covered_usage_is_sum_of_readings.

(* sparse_day: covered for half or less -> missing (as_freq + the 50 % rule; holds for the function itself) *)
Theorem C08_sparse_day : forall lo hi ivs, (coverage lo hi ivs false <= 1 # 2)%Q -> clean_day lo hi ivs false = None.
Proof. exact sparse_day_l. Qed.
Print Assumptions C08_sparse_day.

(* ------------------------------------------------------------------------------------------------ *)
(* C. clean_billing_data                                                                             *)
(* ------------------------------------------------------------------------------------------------ *)

(* offcycle_dropped: what still carries usage after cleaning is a period of 25..35 (monthly) / 25..70 (bi-monthly)
   whole days with the billed amount of the input ...
   (whole_days cal offs: cal = false counts whole ELAPSED days, as the code does; cal = true counts them on the local
   wall clock - the repair of proposed-fixes/C08-1.diff; the theorems hold for both, the check finds out which of the
   two the code follows) *)
Theorem C08_offcycle_dropped : forall cal offs g rs iv v, In iv (intervals (clean_billing cal offs g rs)) -> ival iv = Some v ->
  25 <= whole_days cal offs (ilo iv) (ihi iv) <= max_days g /\ In (mkI (ilo iv) (ihi iv) (Some v)) (intervals rs).
Proof. exact offcycle_dropped_l. Qed.
Print Assumptions C08_offcycle_dropped.

(* ... every period of valid length keeps its billed amount ... *)
Theorem C08_valid_period_kept : forall cal offs g rs lo hi v, In (mkI lo hi (Some v)) (intervals rs) ->
  25 <= whole_days cal offs lo hi <= max_days g -> In (mkI lo hi (Some v)) (intervals (clean_billing cal offs g rs)).
Proof. exact valid_period_kept_l. Qed.
Print Assumptions C08_valid_period_kept.

(* ... and an off-cycle period stays in the series as an interval without usage (its days are then missing by
   C08_period_without_usage_is_missing) *)
Theorem C08_offcycle_period_blank : forall cal offs g rs iv, In iv (intervals rs) ->
  ~ (25 <= whole_days cal offs (ilo iv) (ihi iv) <= max_days g) -> clean_billing cal offs g rs <> [] ->
  In (mkI (ilo iv) (ihi iv) None) (intervals (clean_billing cal offs g rs)).
Proof. exact offcycle_period_blank_l. Qed.
Print Assumptions C08_offcycle_period_blank.

(* ------------------------------------------------------------------------------------------------ *)
(* D. the data classes, end to end                                                                   *)
(* ------------------------------------------------------------------------------------------------ *)

(* the billing class is: drop the rows without value, append the closing row (end of the last day + 24 h), clean,
   spread, drop the closing row's bucket, look every local day up *)
Theorem C08_billing_class_spec : forall cal offs elec inf rows bs rs g cl,
  rs = dropna (zero_to_nan elec rows) -> rs <> [] ->
  granularity inf (map stamp rs) BillingBimonthly = Some g -> is_billing g = true ->
  cl = clean_billing cal offs g (rs ++ [(billing_closing bs rows, None)]) -> cl <> [] ->
  billing_class cal offs elec inf rows bs = Days (map (billing_days cl bs) (pairs bs)).
Proof. exact billing_class_spec_l. Qed.
Print Assumptions C08_billing_class_spec.

(* billing_period_conserved for the class: a period that carries usage after cleaning, with both ends on local
   midnights (c :: mid tiles it, and is a stretch of the day list bs): all its days are present in df['observed']
   and they add up to the billed amount *)
Theorem C08_billing_class_period_conserved : forall cl bs iv v pre c mid post,
  sorted_rs cl -> In iv (intervals cl) -> ival iv = Some v ->
  bs = pre ++ (c :: mid) ++ post -> incr bs -> c = ilo iv -> last mid c = ihi iv ->
  (exists q, In q (pairs bs) /\ fst q <= last_stamp cl < snd q) ->
  (forall p, In p (pairs (c :: mid)) ->
     In p (pairs bs) /\ billing_days cl bs p = Some (bucket_sum (fst p) (snd p) (intervals cl))) /\
  (sumQ (map (fun p => oq0 (billing_days cl bs p)) (pairs (c :: mid))) == v)%Q.
Proof. exact billing_class_period_l. Qed.
Print Assumptions C08_billing_class_period_conserved.

(* offcycle_dropped for the class: the days inside an off-cycle (blanked) period are missing *)
Theorem C08_billing_class_blank_days_missing : forall cl bs iv p,
  sorted_rs cl -> In iv (intervals cl) -> ival iv = None -> incr bs -> In p (pairs bs) ->
  ilo iv <= fst p -> snd p <= ihi iv ->
  (exists q, In q (pairs bs) /\ fst q <= last_stamp cl < snd q /\ p <> q) ->
  billing_days cl bs p = None.
Proof. exact billing_class_blank_l. Qed.
Print Assumptions C08_billing_class_blank_days_missing.

(* the daily class on sub-daily data is downsample_and_clean of what is LEFT AFTER dropna() (and, for electricity,
   after zero readings were made NaN) ... *)
Theorem C08_daily_class_is_downsample_of_dropna : forall elec inf rows bs rs,
  rs = dropna (zero_to_nan elec rows) -> rs <> [] ->
  granularity inf (map stamp rs) Daily = Some Hourly ->
  daily_class elec inf rows bs =
  Days (map (fun b => lookup_day (downsample_and_clean rs bs) (fst b)) (pairs bs)).
Proof. exact daily_class_hourly_l. Qed.
Print Assumptions C08_daily_class_is_downsample_of_dropna.

(* ... whose entry for every day but the last one pandas creates is clean_day over those remaining readings *)
Theorem C08_daily_class_day : forall rs bs p q, incr bs ->
  In p (pairs bs) -> relevant rs p = true -> In q (pairs bs) -> relevant rs q = true -> fst p < fst q ->
  lookup_day (downsample_and_clean rs bs) (fst p) = clean_day (fst p) (snd p) (intervals rs) false.
Proof. exact daily_class_day_l. Qed.
Print Assumptions C08_daily_class_day.

(* ------------------------------------------------------------------------------------------------ *)
(* E. the statement for the daily class: proved under the guard "no reading is missing", refuted without it *)
(* ------------------------------------------------------------------------------------------------ *)

(* an instance of the property text: a local day that holds rows, all of them NaN, is missing in df['observed'] *)
Definition C08_daily_class_statement : Prop :=
  forall elec inf rows bs vals j lo hi,
    daily_class elec inf rows bs = Days vals -> nth_error (pairs bs) j = Some (lo, hi) ->
    (exists r, In r rows /\ lo <= stamp r < hi) ->
    (forall r, In r rows -> lo <= stamp r < hi -> rval r = None) ->
    nth_error vals j = Some None.

(* guard: dropna / zero->NaN remove nothing (no reading is missing), regular aligned slots, p is not the final day:
   sparse -> missing, more than half -> readings / coverage, full -> the sum of the day's readings *)
Theorem C08_daily_class_statement_partial : forall elec inf rows bs step t0 p q,
  dropna (zero_to_nan elec rows) = rows -> rows <> [] ->
  granularity inf (map stamp rows) Daily = Some Hourly ->
  incr bs -> In p (pairs bs) -> relevant rows p = true ->
  In q (pairs bs) -> relevant rows q = true -> fst p < fst q ->
  0 < step -> (forall iv, In iv (intervals rows) -> ihi iv = ilo iv + step /\ (step | ilo iv - t0)) ->
  (step | fst p - t0) -> (step | snd p - t0) ->
  let entry := fun b : Z * Z => lookup_day (downsample_and_clean rows bs) (fst b) in
  let ivs := intervals rows in
  let c := coverage (fst p) (snd p) ivs false in
  daily_class elec inf rows bs = Days (map entry (pairs bs)) /\
  ((c <= 1 # 2)%Q -> entry p = None) /\
  ((1 # 2 < c)%Q -> oq_eq (entry p) (Some (readings_in (fst p) (snd p) ivs / c)%Q)) /\
  (bucket_count (fst p) (snd p) ivs = snd p - fst p -> oq_eq (entry p) (Some (readings_in (fst p) (snd p) ivs))).
Proof. exact daily_class_statement_partial_l. Qed.
Print Assumptions C08_daily_class_statement_partial.

(* the witness (replayed on the implementation by harness/c08.py, replay_refuted): hourly readings of 2 on
   2024-01-01 (UTC), 24 NaN hours on 2024-01-02, readings of 2 again until 2024-01-04 00:00.  The NaN rows are
   dropped, the 23:00 reading of the first day is spread over the 25 hours up to 2024-01-03 00:00, and the day without
   a single reading comes back as 24/25 * 2 = 1.92 with coverage 1 instead of missing (and the first day, although
   complete, as 46.08 instead of 48). *)
Definition wit_t0 : Z := 28401120.
Definition wit_rows : list reading :=
  map (fun k => (wit_t0 + 60 * Z.of_nat k,
                 if (24 <=? Z.of_nat k) && (Z.of_nat k <? 48) then None else Some 2%Q)) (seq 0 73).
Definition wit_bs : list Z := map (fun k => wit_t0 + 1440 * Z.of_nat k) (seq 0 5).
Definition wit_vals : list (option Q) :=
  match daily_class false NoFreq wit_rows wit_bs with Days v => v | _ => [] end.

Theorem C08_sparse_day_class_refuted : ~ C08_daily_class_statement.
Proof.
  intro H.
  specialize (H false NoFreq wit_rows wit_bs wit_vals 1%nat (wit_t0 + 1440) (wit_t0 + 2880)).
  assert (nth_error wit_vals 1 = Some None) as E.
  { apply H.
    - vm_compute. reflexivity.
    - vm_compute. reflexivity.
    - exists (wit_t0 + 1440, None). split; [|unfold stamp, wit_t0; cbn [fst]; lia].
      unfold wit_rows. apply in_map_iff. exists 24%nat. split; [vm_compute; reflexivity|apply in_seq; lia].
    - assert (forallb (fun r => negb ((wit_t0 + 1440 <=? stamp r) && (stamp r <? wit_t0 + 2880)) || negb (is_some (rval r)))
                      wit_rows = true) as Hall by (vm_compute; reflexivity).
      rewrite forallb_forall in Hall. intros r Hr [H1 H2]. specialize (Hall r Hr).
      apply Z.leb_le in H1. apply Z.ltb_lt in H2. rewrite H1, H2 in Hall. cbn in Hall.
      destruct (rval r); [discriminate|reflexivity]. }
  vm_compute in E. discriminate E.
Qed.
Print Assumptions C08_sparse_day_class_refuted.

(* what the class reports for the witness: days 2024-01-01 .. 2024-01-04 *)
Example C08_witness_values :
  map (option_map Qred) wit_vals = [Some (1152 # 25)%Q; Some (48 # 25)%Q; Some 48%Q; None].
Proof. vm_compute. reflexivity. Qed.

(* ------------------------------------------------------------------------------------------------ *)
(* F. non-vacuity: concrete states on which the hypotheses above are met                             *)
(* ------------------------------------------------------------------------------------------------ *)

(* three billing periods over local days of 1440 / 1380 / 1440 ... minutes (a spring-forward day inside period 0) *)
Definition ex_days : list Z := [0; 1440; 2820; 4260; 5700; 7140; 8580; 10020].
Definition ex_bill : list reading := [(0, Some 6%Q); (4260, Some 9%Q); (8580, None)].
Definition ex_iv : interval := mkI 0 4260 (Some 6%Q).

Example C08_nonvacuous_period :
  sorted_rs ex_bill /\ In ex_iv (intervals ex_bill) /\ ival ex_iv = Some 6%Q /\
  incr [0; 1440; 2820; 4260] /\ last [1440; 2820; 4260] 0 = ihi ex_iv /\
  map (fun p => bucket_sum (fst p) (snd p) (intervals ex_bill)) (pairs [0; 1440; 2820; 4260]) =
    [(144 # 71)%Q; (138 # 71)%Q; (144 # 71)%Q] /\
  (sumQ [(144 # 71)%Q; (138 # 71)%Q; (144 # 71)%Q] == 6)%Q.
Proof.
  repeat split; try (vm_compute; reflexivity); try (cbn; lia); try (left; reflexivity).
Qed.

Example C08_nonvacuous_nothing_invented :
  sorted_rs ex_bill /\ incr ex_days /\ 0 <= first_stamp ex_bill /\ last_stamp ex_bill <= last (tl ex_days) 0 /\
  map (fun r => d_val r) (as_freq_cum ex_bill ex_days) =
    [Some (144 # 71)%Q; Some (138 # 71)%Q; Some (144 # 71)%Q; Some 3%Q; Some 3%Q; Some 3%Q; None].
Proof. repeat split; try (vm_compute; reflexivity); cbn; lia. Qed.

(* hourly readings over a 23-hour day [0, 1380): full, partial (18 of 23 hours) and sparse (11 of 23) *)
Definition ex_hours (present : nat) : list interval :=
  map (fun k => mkI (60 * Z.of_nat k) (60 * Z.of_nat k + 60) (if (k <? present)%nat then Some 2%Q else None)) (seq 0 23).

Example C08_nonvacuous_full_day :
  bucket_count 0 1380 (ex_hours 23) = 1380 - 0 /\ option_map Qred (clean_day 0 1380 (ex_hours 23) false) = Some 46%Q /\
  (forall iv, In iv (ex_hours 23) -> ihi iv = ilo iv + 60 /\ (60 | ilo iv - 0)).
Proof.
  split; [vm_compute; reflexivity|]. split; [vm_compute; reflexivity|].
  intros iv Hiv. unfold ex_hours in Hiv. apply in_map_iff in Hiv. destruct Hiv as (k & <- & _). cbn [ilo ihi].
  split; [reflexivity|]. exists (Z.of_nat k). lia.
Qed.

Example C08_nonvacuous_partial_and_sparse :
  (1 # 2 < coverage 0 1380 (ex_hours 18) false)%Q /\
  oq_eq (clean_day 0 1380 (ex_hours 18) false) (Some (36 / (18 # 23))%Q) /\
  (coverage 0 1380 (ex_hours 11) false <= 1 # 2)%Q /\ clean_day 0 1380 (ex_hours 11) false = None.
Proof. repeat split; vm_compute; try reflexivity; discriminate. Qed.

(* clean_billing_data: a 24-day and a 36-day period next to a 30-day one, monthly meter *)
Definition ex_cycle : list reading :=
  [(0, Some 5%Q); (24 * 1440, Some 7%Q); (54 * 1440, Some 8%Q); (90 * 1440, None)].
Example C08_nonvacuous_offcycle :
  clean_billing false [] BillingMonthly ex_cycle =
    [(0, None); (24 * 1440, Some 7%Q); (54 * 1440, None); (90 * 1440, None)] /\
  clean_billing false [] BillingBimonthly ex_cycle =
    [(0, None); (24 * 1440, Some 7%Q); (54 * 1440, Some 8%Q); (90 * 1440, None)].
Proof. split; vm_compute; reflexivity. Qed.

(* a period of 25 calendar days across a spring-forward day (US/Pacific 2024-03-01 .. 2024-03-26; offsets -480 / -420):
   24 whole elapsed days - dropped by the code as it is (finding C08-F3), 25 on the wall clock - kept by the repair *)
Definition ex_spring : list reading := [(28488000, Some 250%Q); (28523940, Some 300%Q); (28567140, None)].
Definition ex_offs : list (Z * Z) := [(28488000, -480); (28523940, -420); (28567140, -420)].
Example C08_nonvacuous_day_count :
  whole_days false ex_offs 28488000 28523940 = 24 /\ whole_days true ex_offs 28488000 28523940 = 25 /\
  clean_billing false ex_offs BillingMonthly ex_spring = [(28488000, None); (28523940, Some 300%Q); (28567140, None)] /\
  clean_billing true ex_offs BillingMonthly ex_spring = [(28488000, Some 250%Q); (28523940, Some 300%Q); (28567140, None)].
Proof. repeat split; vm_compute; reflexivity. Qed.

(* the literal 1-minute materialisation on the 23-hour day of the three-period series *)
Example C08_nonvacuous_minute_grid :
  sorted_rs ex_bill /\ (grid_bucket_sum ex_bill 1440 2820 == bucket_sum 1440 2820 (intervals ex_bill))%Q /\
  grid_bucket_count ex_bill 1440 2820 = 1380.
Proof.
  split; [cbn; lia|]. split; [vm_compute; reflexivity|vm_compute; reflexivity].
Qed.

(* ------------------------------------------------------------------------------------------------ *)
(* G. the model's constants and decision tables are the source's own (Generated/ResampleGen.v, regenerated from the *)
(*    source by harness/translate_resample.py on every run)                                          *)
(* ------------------------------------------------------------------------------------------------ *)

(* downsample_and_clean_daily_data keeps / scales a day by the test the source states on dataset.coverage *)
Theorem C08_downsample_rule_is_generated : forall v c,
  clean_value v c =
  if cmpq gen_ds_keep c then (if gen_ds_scaled then option_map (fun x => (x / c)%Q) v else v) else None.
Proof. exact clean_value_generated_l. Qed.
Print Assumptions C08_downsample_rule_is_generated.

(* ... and warns about exactly the days it drops *)
Theorem C08_downsample_warning_complement : forall c, cmpq gen_ds_warn c = negb (cmpq gen_ds_keep c).
Proof. exact downsample_warning_complement_l. Qed.
Print Assumptions C08_downsample_warning_complement.

(* clean_billing_data: the window of valid period lengths is the source's `(filter_ <op> hi) & (filter_ <op> lo)` *)
Theorem C08_offcycle_window_is_generated : forall g d, valid_len g d = cmpz (gen_hi g) d && cmpz (gen_lo g) d.
Proof. exact valid_len_generated_l. Qed.
Print Assumptions C08_offcycle_window_is_generated.

(* ... and the off-cycle warning lists exactly the periods the window drops *)
Theorem C08_offcycle_warning_complement : forall g d,
  cmpz (gen_warn_hi g) d || cmpz (gen_warn_lo g) d = negb (valid_len g d).
Proof. exact offcycle_warning_complement_l. Qed.
Print Assumptions C08_offcycle_warning_complement.

(* compute_minimum_granularity is the interpreter of the source's tables: the dict of ranges on the median day count
   (last true key), the if/elif chain on fixed frequencies (first that holds), the MonthBegin/MonthEnd rule *)
Theorem C08_granularity_is_generated_table : forall inf ts dflt, granularity inf ts dflt = granularity_tbl inf ts dflt.
Proof. exact granularity_generated_l. Qed.
Print Assumptions C08_granularity_is_generated_table.

(* the ranges of the median table exclude one another, so the order of the dict's keys is immaterial *)
Theorem C08_median_table_exclusive : forall m2 r1 r2 pre mid post,
  gen_median_rules = pre ++ r1 :: mid ++ r2 :: post -> in_rule m2 r1 = true -> in_rule m2 r2 = false.
Proof. exact median_rules_exclusive_l. Qed.
Print Assumptions C08_median_table_exclusive.

Example C08_nonvacuous_generated :
  cmpq gen_ds_keep (3 # 4) = true /\ cmpq gen_ds_keep (1 # 2) = false /\ cmpq gen_ds_warn (1 # 2) = true /\
  cmpz (gen_hi BillingMonthly) 35 && cmpz (gen_lo BillingMonthly) 35 = true /\
  cmpz (gen_hi BillingMonthly) 36 && cmpz (gen_lo BillingMonthly) 36 = false /\
  cmpz (gen_warn_hi BillingBimonthly) 71 = true /\
  granularity_tbl NoFreq [0; 43200; 87840; 132480] Daily = Some BillingMonthly /\
  granularity_tbl (Fixed 80640) [0; 80640; 161280] Daily = Some BillingBimonthly /\
  in_rule 86400 (Some (CLt, 1), (CLe, 35), BillingMonthly) = true /\
  in_rule 86400 (Some (CLt, 35), (CLe, 70), BillingBimonthly) = false.
Proof. repeat split; vm_compute; reflexivity. Qed.

(* the day count the source uses (wall clock or elapsed) on the 25-calendar-day period across a spring-forward day *)
Example C08_generated_day_count_keeps_valid_period :
  clean_billing gen_day_count_wall_clock ex_offs BillingMonthly ex_spring =
    [(28488000, Some 250%Q); (28523940, Some 300%Q); (28567140, None)].
Proof. vm_compute. reflexivity. Qed.
