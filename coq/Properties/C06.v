(* C06 — predictions come back one row per input timestamp, on the real clock.
   Statements only; proofs are in Proofs/DstProofs.v; the models are Model/Dst.v (hourly: clock normalisation
   _get_dst_indices / correct_dst / _transform_dst, _predict, _get_contiguous_datetime) and Model/PredictRows.v
   (daily / billing row accounting).

   A frame is a list of local days; a day shows a clock pattern: Reg (24 rows), Short h (the clock skips hour h:
   23 rows), Long h (hour h occurs twice: 25 rows), for ANY h in 0..23 and any arrangement of such days — the
   theorems quantify over all patterns, not over time zones. *)
From Coq Require Import ZArith List Bool Arith Lia Permutation Sorted.
From V Require Import Model.CasesLib Model.Dst Model.PredictRows Model.DstRun Proofs.DstProofs.
Import ListNotations.

(* ------------------------------------------------------------------ _get_dst_indices *)
(* `pol` says which behaviour is modelled (Dst.as_coded: the unchanged code; Dst.repaired: days are recognised by
   their number of rows and looked up by a mask — the proposed repairs of D11 and D18); `realises pol` asks for
   usage on every row only when non-null usage is what is counted, and for resolvable date labels only when labels
   are looked up.  On such a frame it returns exactly the short days (with the skipped hour) and the long days (with
   the repeated hour) *)
Theorem C06_get_dst_indices_valid : forall pol days pat,
  Forall2 (realises pol) days pat -> forallb kind_ok pat = true -> get_dst_indices pol days = Ok (indices_of pat).
Proof. exact get_dst_indices_valid_l. Qed.
Print Assumptions C06_get_dst_indices_valid.

(* the indices are a function of the frame's LOCAL clock pattern (hour and null-flag of every row, per local date) —
   the instants do not enter ... *)
Theorem C06_dst_indices_function_of_local_clock : forall pol days1 days2,
  map local_view days1 = map local_view days2 -> get_dst_indices pol days1 = get_dst_indices pol days2.
Proof. exact get_dst_indices_local_l. Qed.
Print Assumptions C06_dst_indices_function_of_local_clock.

(* ------------------------------------------------------------------ correct_dst *)
(* every day ends up with exactly 24 slots: a regular day is untouched, a short day gets one synthesised slot at
   the skipped hour, the two occurrences of a repeated hour are merged into one slot *)
Theorem C06_correct_dst_24 : forall (V : Type) (mean2 : V -> V -> V) pat agg,
  Forall2 (fun k f => length f = rows_expected k) pat agg -> pattern_ok pat = true ->
  exists agg', feature_matrix mean2 agg (indices_of pat) = Ok agg'
               /\ all24 agg' = true /\ rel3 day_fix pat agg agg'.
Proof. intros V. exact (@correct_dst_24_l V). Qed.
Print Assumptions C06_correct_dst_24.

(* ------------------------------------------------------------------ _transform_dst *)
(* it never fails on 24 slots per day ... *)
Theorem C06_transform_dst_total : forall (V : Type) (mean2 : V -> V -> V) pat pred,
  pattern_ok pat = true -> length pred = 24 * length pat ->
  exists out, transform_dst mean2 pred (indices_of pat) = Ok out.
Proof. intros V. exact (@transform_dst_total_l V). Qed.
Print Assumptions C06_transform_dst_total.

(* ... returns one value per clock hour of the frame (23 / 24 / 25 per day) ... *)
Theorem C06_transform_dst_length : forall (V : Type) (mean2 : V -> V -> V) pat pred out,
  pattern_ok pat = true -> length pred = 24 * length pat ->
  transform_dst mean2 pred (indices_of pat) = Ok out -> length out = total_rows pat.
Proof. intros V. exact (@transform_dst_length_l V). Qed.
Print Assumptions C06_transform_dst_length.

(* ... and, day by day (Dst.by_day): a regular day receives its 24 slots, on a short day exactly the synthesised
   slot is removed, on a long day the second occurrence of the repeated hour receives the mean of its neighbours *)
Theorem C06_transform_dst_pointwise : forall (V : Type) (mean2 : V -> V -> V) pat pred out,
  pattern_ok pat = true -> length pred = 24 * length pat ->
  transform_dst mean2 pred (indices_of pat) = Ok out -> by_day mean2 pat pred = Some out.
Proof. intros V. exact (@transform_dst_pointwise_l V). Qed.
Print Assumptions C06_transform_dst_pointwise.

(* the fence-post slicing of the source is the insert/delete loop its comment claims it to be *)
Theorem C06_transform_dst_eq_spec : forall (V : Type) (mean2 : V -> V -> V) pat pred out,
  pattern_ok pat = true -> length pred = 24 * length pat ->
  (transform_dst mean2 pred (indices_of pat) = Ok out <-> transform_spec mean2 pred (indices_of pat) = Some out).
Proof. intros V. exact (@transform_dst_eq_spec_l V). Qed.
Print Assumptions C06_transform_dst_eq_spec.

(* the same for any strictly increasing in-range operation list in which no INTERPOLATE sits directly behind the
   REMOVE of the slot before it (wfv), whatever produced it *)
Theorem C06_loop_equals_slicing : forall (V : Type) (mean2 : V -> V -> V) pred ops vals,
  wfv mean2 pred 0 ops vals -> loop_spec mean2 pred 0%Z ops = Some (slices pred None ops vals).
Proof. intros V. exact (@loop_equals_slicing_l V). Qed.
Print Assumptions C06_loop_equals_slicing.

(* ------------------------------------------------------------------ _get_contiguous_datetime *)
(* gap-free hourly index: strictly increasing, consecutive stamps exactly 60 minutes apart, starts at the local
   00:00 of the first day, and holds exactly the stamps of the hourly grid up to the local 23:00 of the last day *)
Theorem C06_contiguous_index : forall s e, (s <= e)%Z ->
  let idx := contiguous_index s e in
  StronglySorted Z.lt idx
  /\ (forall n a b, nth_error idx n = Some a -> nth_error idx (S n) = Some b -> b = a + 60)%Z
  /\ nth_error idx 0 = Some s
  /\ (forall t, In t idx <-> (s <= t <= e /\ (t - s) mod 60 = 0)%Z).
Proof. exact contiguous_index_spec. Qed.
Print Assumptions C06_contiguous_index.

(* ------------------------------------------------------------------ HourlyModel._predict *)
(* The full statement: whatever the clock pattern, with or without usage, whatever the zone does at midnight,
   predict returns the input index with a value on every row. *)
Definition C06_hourly_statement (pol : policy) : Prop :=
  forall (V : Type) (mean2 : V -> V -> V) (feat : hour_stamp -> V) (regress : list (list V) -> list V),
  (forall agg, length (regress agg) = 24 * length agg) ->
  forall days pat, Forall2 clock_only days pat -> forallb kind_ok pat = true ->
  StronglySorted Z.lt (index_of days) ->
  exists y, hourly_predict mean2 feat regress pol days = Ok (combine (index_of days) (map Some y)).

(* What holds: the statement under the guards `realises pol` (for the code as it is: usage present on every row, date
   labels resolvable) and `pattern_ok` (see Model/Dst.v).  index out = index in, hence strictly increasing, the
   skipped hour absent and the repeated hour twice (the output carries the input stamps), no NaN introduced by the
   final reindex; the values are by_day of the regression output on the 24-slot matrix. *)
Theorem C06_hourly_predict_index_partial :
  forall (V : Type) (mean2 : V -> V -> V) (feat : hour_stamp -> V) (regress : list (list V) -> list V),
  (forall agg, length (regress agg) = 24 * length agg) ->
  forall pol days pat, Forall2 (realises pol) days pat -> pattern_ok pat = true ->
  StronglySorted Z.lt (index_of days) ->
  exists agg y, hourly_predict mean2 feat regress pol days = Ok (combine (index_of days) (map Some y))
                /\ length y = length (index_of days)
                /\ rel3 day_fix pat (map (fun d => map feat (d_rows d)) days) agg
                /\ by_day mean2 pat (regress agg) = Some y.
Proof. intros V. exact (@hourly_predict_valid V). Qed.
Print Assumptions C06_hourly_predict_index_partial.

(* after the repairs of D11 and D18 the guards on usage and on date labels disappear: with or without `observed`,
   whatever the zone does at midnight; what remains is `pattern_ok` *)
Theorem C06_hourly_predict_index_repaired :
  forall (V : Type) (mean2 : V -> V -> V) (feat : hour_stamp -> V) (regress : list (list V) -> list V),
  (forall agg, length (regress agg) = 24 * length agg) ->
  forall days pat, Forall2 clock_only days pat -> pattern_ok pat = true ->
  StronglySorted Z.lt (index_of days) ->
  exists agg y, hourly_predict mean2 feat regress repaired days = Ok (combine (index_of days) (map Some y))
                /\ length y = length (index_of days)
                /\ rel3 day_fix pat (map (fun d => map feat (d_rows d)) days) agg
                /\ by_day mean2 pat (regress agg) = Some y.
Proof. intros V. exact (@hourly_predict_repaired V). Qed.
Print Assumptions C06_hourly_predict_index_repaired.

(* ---- witnesses against the full statement (each is replayed on the implementation by harness/c06.py) *)
Definition mk_days (u0 : Z) (obs : bool) (locs : list (option err)) (hs : list (list nat)) : list day :=
  (fix go (u : Z) (hs : list (list nat)) (locs : list (option err)) : list day :=
     match hs with
     | [] => []
     | h :: t => expand (u, h, (obs, []), hd None locs) :: go (u + 60 * Z.of_nat (length h))%Z t (tl locs)
     end) u0 hs locs.
Definition outcome_of (pol : policy) (days : list day) : res (list (Z * option Z)) :=
  hourly_predict zmean (fun _ => 0%Z) zero_regress pol days.

(* D11 (repaired in /repo by commit 1e1d6b17; kept as the regression witness): no usage column (all NaN) across a
   clock change: DST days were detected from the count of non-null usage *)
Definition w_pat_dst : list daykind := [Reg; Short 2; Reg].
Definition w_no_observed : list day := mk_days 0 false [] (map clock_hours w_pat_dst).
Example C06_hourly_refuted_without_observed :
  Forall2 clock_only w_no_observed w_pat_dst /\ forallb kind_ok w_pat_dst = true /\ pattern_ok w_pat_dst = true
  /\ outcome_of as_coded w_no_observed = Err ERagged
  /\ (exists rows, outcome_of d11_repaired w_no_observed = Ok rows /\ length rows = 71)
  /\ exists rows, outcome_of repaired w_no_observed = Ok rows /\ length rows = 71.
Proof. split; [repeat constructor | vm_compute; repeat split]; eexists; split; reflexivity. Qed.

(* D18: the clock changes at local midnight, df.loc["YYYY-MM-DD"] cannot resolve the date *)
Definition w_pat_midnight : list daykind := [Reg; Short 0; Reg].
Definition w_midnight : list day := mk_days 0 true [None; Some EKey; None] (map clock_hours w_pat_midnight).
Example C06_hourly_refuted_midnight_change :
  Forall2 clock_only w_midnight w_pat_midnight /\ pattern_ok w_pat_midnight = true
  /\ outcome_of as_coded w_midnight = Err EKey /\ outcome_of d11_repaired w_midnight = Err EKey
  (* after the repair of D18 the hour-0 branch of correct_dst is reached and works *)
  /\ exists rows, outcome_of repaired w_midnight = Ok rows /\ length rows = 71.
Proof. split; [repeat constructor | vm_compute; repeat split]. eexists. split; reflexivity. Qed.

(* a day that skips hour 23 (clock change at 23:00, America/Nuuk since 2023): correct_dst reads feature[23] *)
Definition w_pat_short23 : list daykind := [Reg; Short 23; Reg].
Example C06_hourly_refuted_short_23 :
  Forall2 (realises as_coded) (mk_days 0 true [] (map clock_hours w_pat_short23)) w_pat_short23
  /\ outcome_of as_coded (mk_days 0 true [] (map clock_hours w_pat_short23)) = Err EIndex
  /\ outcome_of repaired (mk_days 0 true [] (map clock_hours w_pat_short23)) = Err EIndex.
Proof. split; [repeat constructor | vm_compute; split; reflexivity]. Qed.

(* a frame that ends on a day repeating hour 23: _transform_dst reads prediction[24 * n] *)
Definition w_pat_long23 : list daykind := [Reg; Long 23].
Example C06_hourly_refuted_long_23_last :
  Forall2 (realises as_coded) (mk_days 0 true [] (map clock_hours w_pat_long23)) w_pat_long23
  /\ outcome_of as_coded (mk_days 0 true [] (map clock_hours w_pat_long23)) = Err EIndex
  /\ outcome_of repaired (mk_days 0 true [] (map clock_hours w_pat_long23)) = Err EIndex.
Proof. split; [repeat constructor | vm_compute; split; reflexivity]. Qed.

(* D19: a 30-minute shift (Australia/Lord_Howe): rows fall on hh:30, the last day of the contiguous index has 23 rows
   (00:30 .. 22:30) and no clock hour is skipped inside 0..22 — correct_dst reads feature[23] *)
Definition w_half_hour_shift : list day :=
  mk_days 0 true [] [seq 0 24; seq 0 2 ++ seq 1 23; seq 0 24; seq 0 23].
Example C06_hourly_refuted_half_hour_shift :
  outcome_of as_coded w_half_hour_shift = Err EIndex /\ outcome_of repaired w_half_hour_shift = Err EIndex.
Proof. vm_compute. split; reflexivity. Qed.

(* ---- the guards are necessary in general, not only on the witnesses *)
(* D11: without usage values EVERY frame containing a short or a long day makes the unchanged predict fail *)
Theorem C06_hourly_without_observed_always_fails :
  forall (V : Type) (mean2 : V -> V -> V) (feat : hour_stamp -> V) (regress : list (list V) -> list V) days pat,
  Forall2 unobserved_clock days pat -> forallb kind_ok pat = true -> existsb is_change pat = true ->
  exists e, hourly_predict mean2 feat regress as_coded days = Err e.
Proof. intros V. exact (@hourly_predict_unobserved_fails V). Qed.
Print Assumptions C06_hourly_without_observed_always_fails.

(* D18: a short or long day whose date label cannot be resolved always makes _get_dst_indices fail as long as rows
   are looked up by label (`as_coded` and `d11_repaired`, i.e. also after the repair of D11) *)
Theorem C06_unresolvable_label_always_fails : forall pol, loc_by_mask pol = false ->
  forall days pat, Forall2 (counted_clock pol) days pat -> forallb kind_ok pat = true ->
  Exists (bad_label is_change) (combine days pat) ->
  exists e, get_dst_indices pol days = Err e.
Proof. exact get_dst_indices_bad_label. Qed.
Print Assumptions C06_unresolvable_label_always_fails.
Example C06_nonvacuous_necessity :
  Forall2 unobserved_clock w_no_observed w_pat_dst /\ existsb is_change w_pat_dst = true
  /\ Forall2 (counted_clock d11_repaired) w_midnight w_pat_midnight
  /\ Forall2 (counted_clock as_coded) w_midnight w_pat_midnight
  /\ Exists (bad_label is_change) (combine w_midnight w_pat_midnight).
Proof.
  split; [repeat constructor|]. split; [reflexivity|]. split; [repeat constructor; discriminate|].
  split; [repeat constructor|].
  apply Exists_cons_tl. apply Exists_cons_hd. split; [reflexivity | discriminate].
Qed.

(* the guard of C06_transform_dst_eq_spec is needed: a day repeating hour 23 directly followed by a day skipping
   hour 0 puts REMOVE and INTERPOLATE on the same index, and slicing and loop differ *)
Example C06_eq_spec_guard_needed :
  let pat := [Long 23; Short 0] in let pred := map Z.of_nat (seq 0 48) in
  transform_dst zmean pred (indices_of pat) <> match transform_spec zmean pred (indices_of pat) with
                                                | Some o => Ok o | None => Err EIndex end.
Proof. vm_compute. discriminate. Qed.

(* ---- non-vacuity: a five-day frame with a short and a long day satisfies every hypothesis above *)
Definition ex_pat : list daykind := [Reg; Short 2; Reg; Long 1; Reg].
Definition ex_days : list day := mk_days 600 true [] (map clock_hours ex_pat).
Example C06_nonvacuous_hourly :
  Forall2 (realises as_coded) ex_days ex_pat /\ pattern_ok ex_pat = true /\ StronglySorted Z.lt (index_of ex_days)
  /\ total_rows ex_pat = 120
  /\ get_dst_indices as_coded ex_days = Ok ([(1, 2)], [(3, 1)])
  /\ exists rows, outcome_of as_coded ex_days = Ok rows /\ map fst rows = index_of ex_days
                  /\ forallb (fun r => match snd r with Some _ => true | None => false end) rows = true.
Proof.
  split; [repeat constructor|]. split; [reflexivity|]. split.
  - replace (index_of ex_days) with (contiguous_index 600 (600 + 60 * 119)) by (vm_compute; reflexivity).
    apply C06_contiguous_index. lia.
  - split; [reflexivity|]. split; [vm_compute; reflexivity|]. eexists. vm_compute. repeat split.
Qed.
Example C06_nonvacuous_correct_dst :
  let agg := map (fun k => map Z.of_nat (clock_hours k)) ex_pat in
  Forall2 (fun k f => length f = rows_expected k) ex_pat agg
  /\ exists agg', feature_matrix zmean agg (indices_of ex_pat) = Ok agg' /\ map (@length Z) agg' = [24; 24; 24; 24; 24]
       /\ nth_error (nth 1 agg' []) 2 = Some 2%Z        (* synthesised slot: mean of hours 1 and 3 *)
       /\ nth_error (nth 3 agg' []) 1 = Some 1%Z.       (* merged slot: the two occurrences of hour 1 *)
Proof. split; [repeat constructor|]. eexists. vm_compute. repeat split. Qed.
Example C06_nonvacuous_transform :
  let pred := map (fun n => (4 * Z.of_nat n)%Z) (seq 0 120) in
  length pred = 24 * length ex_pat
  /\ exists out, transform_dst zmean pred (indices_of ex_pat) = Ok out /\ length out = 120
       /\ nth_error out 25 = Some 100%Z /\ nth_error out 26 = Some 108%Z        (* slot 26 (the synthesised hour) removed *)
       /\ nth_error out 72 = Some 292%Z /\ nth_error out 73 = Some 294%Z /\ nth_error out 74 = Some 296%Z.
Proof. vm_compute. split; [reflexivity|]. eexists. repeat split. Qed.
Example C06_nonvacuous_wfv :
  wfv zmean [0; 4; 8; 12; 16; 20]%Z 0 [(REMOVE, 1); (INTERPOLATE, 4)] [14%Z].
Proof.
  cbn [wfv length]. split; [lia|]. split; [lia|]. split; [lia|]. split; [|exact I].
  exists 12%Z, 16%Z. repeat split.
Qed.

(* ------------------------------------------------------------------ DailyModel._predict / BillingModel.predict *)
(* one output row per input row (a permutation of the input rows), in chronological order — under unique labels
   and C13's exact cover (every row with finite temperature [and usage] is selected by exactly one sub-model);
   a split that does not partition the calendar is exactly what would duplicate or drop rows in the join *)
Theorem C06_daily_predict_perm_sorted :
  forall (V K : Type) (finite : V -> bool) (predict_sub : K -> V -> option V) (member : K -> @drow V -> bool)
         (keys : list K) obs rows,
  NoDup (map d_ts rows) -> exact_cover finite member keys obs rows ->
  let out := daily_predict finite predict_sub member keys obs rows in
  Permutation (map fst out) rows /\ LocallySorted Z.le (map (fun rp => d_ts (fst rp)) out).
Proof. intros V K. exact (@daily_predict_perm_l V K). Qed.
Print Assumptions C06_daily_predict_perm_sorted.

(* the prediction is finite exactly on the rows with a finite temperature (and a finite usage when usage was supplied);
   the sub-model curve being finite for a finite temperature is the oracle contract (C11/C12) *)
Theorem C06_daily_finite_iff :
  forall (V K : Type) (finite : V -> bool) (predict_sub : K -> V -> option V) (member : K -> @drow V -> bool)
         (keys : list K),
  (forall k t, finite t = true -> exists v, predict_sub k t = Some v /\ finite v = true) ->
  forall obs rows, NoDup (map d_ts rows) -> exact_cover finite member keys obs rows ->
  forall rp, In rp (daily_predict finite predict_sub member keys obs rows) ->
  cell_ok finite (snd rp) = keep finite obs (fst rp).
Proof. intros V K. exact (@daily_finite_iff_l V K). Qed.
Print Assumptions C06_daily_finite_iff.

(* nothing is lost: a row whose temperature or supplied usage is missing (None = NaN) or present but not finite
   (Some v with finite v = false: +inf / -inf) is a row of the result, with prediction NaN.  (kept = finite, dropped =
   everything else; C06_daily_predict_perm_sorted says the two together are a permutation of the input.) *)
Theorem C06_daily_dropped_rows_kept :
  forall (V K : Type) (finite : V -> bool) (predict_sub : K -> V -> option V) (member : K -> @drow V -> bool)
         (keys : list K) obs rows,
  NoDup (map d_ts rows) -> exact_cover finite member keys obs rows ->
  forall r, In r rows -> keep finite obs r = false ->
  In (r, None) (daily_predict finite predict_sub member keys obs rows).
Proof. intros V K. exact (@daily_dropped_rows_kept_l V K). Qed.
Print Assumptions C06_daily_dropped_rows_kept.

(* without the exact cover rows are duplicated (two sub-models select the row) or lose their prediction (none does) *)
Definition ex_rows : list (@drow bool) :=
  [ {| d_ts := 30; d_temp := Some true; d_obs := Some true |}; {| d_ts := 10; d_temp := Some true; d_obs := None |};
    {| d_ts := 20; d_temp := None; d_obs := Some true |};      {| d_ts := 40; d_temp := Some false; d_obs := Some true |} ].
Definition ex_member (k : nat) (r : @drow bool) : bool := Nat.eqb k (Z.to_nat (d_ts r / 10) mod 2).
Example C06_nonvacuous_daily :
  NoDup (map d_ts ex_rows) /\ exact_cover (fun b : bool => b) ex_member [0; 1] true ex_rows
  /\ map (fun rp => (d_ts (fst rp), cell_ok (fun b : bool => b) (snd rp)))
         (daily_predict (fun b : bool => b) (fun _ t => Some t) ex_member [0; 1] true ex_rows)
     = [(10, false); (20, false); (30, true); (40, false)]%Z.
Proof.
  split; [repeat constructor; cbn; intuition lia|]. split; [|vm_compute; reflexivity].
  intros r Hr Hk. cbn in Hr. destruct Hr as [<-|[<-|[<-|[<-|[]]]]]; try discriminate; reflexivity.
Qed.
Example C06_daily_cover_needed :
  map (fun rp => d_ts (fst rp))
      (daily_predict (fun b : bool => b) (fun (_ : nat) t => Some t) (fun _ _ => true) [0; 1] false ex_rows)
  = [10; 10; 30; 30; 20; 40]%Z
  \/ length (daily_predict (fun b : bool => b) (fun (_ : nat) t => Some t) (fun _ _ => true) [0; 1] false ex_rows) <> 4.
Proof. right. vm_compute. discriminate. Qed.
Example C06_nonvacuous_daily_inf :      (* row 40 of ex_rows has an infinite temperature, row 10 a missing usage *)
  keep (fun b : bool => b) true {| d_ts := 40; d_temp := Some false; d_obs := Some true |} = false
  /\ In ({| d_ts := 40; d_temp := Some false; d_obs := Some true |}, None)
        (daily_predict (fun b : bool => b) (fun _ t => Some t) ex_member [0; 1] true ex_rows).
Proof. split; [reflexivity|]. vm_compute. tauto. Qed.

(* ... so they depend on the zone: the SAME 72 instants seen in a zone without clock change (America/Phoenix) and in a
   zone that skips hour 2 on the second day (America/Denver; its 72nd row opens a fourth local date) have the same
   first instant, last instant and length, yet different indices; the indices of one applied to the features of the
   other give a ragged matrix (what a cache keyed by the ends and the length of the index does: seeded change C06-4) *)
Definition w_phoenix : list day := mk_days 0 true [] [seq 0 24; seq 0 24; seq 0 24].
Definition w_denver : list day := mk_days 0 true [] [seq 0 24; clock_hours (Short 2); seq 0 24; [0]].
Example C06_dst_indices_depend_on_the_zone :
  index_of w_phoenix = index_of w_denver
  /\ get_dst_indices d11_repaired w_phoenix = Ok ([], [])
  /\ get_dst_indices d11_repaired w_denver = Ok ([(1, 2)], [])
  /\ map local_view w_phoenix <> map local_view w_denver
  /\ feature_matrix zmean (map (fun d => map (fun _ => 0%Z) (d_rows d)) (firstn 3 w_denver)) ([], []) = Err ERagged
  /\ feature_matrix zmean (map (fun d => map (fun _ => 0%Z) (d_rows d)) w_phoenix) ([(1, 2)], []) = Err ERagged.
Proof. vm_compute. repeat split; discriminate. Qed.

(* ------------------------------------------------------------------ the guard of the hourly theorem is EXACT *)
(* For every frame of 23/24/25-hour days (any transition hours) in which no day repeating hour 23 is directly followed
   by a day skipping hour 0 (no_clash), outside the guard pattern_ok the modelled predict FAILS — whatever the
   regression returns: a day that skips hour 23 makes correct_dst fail, a frame that ends on a day repeating hour 23
   makes _transform_dst fail (known findings C06-F6 / C06-F7) ... *)
Theorem C06_hourly_fails_outside_guard :
  forall (V : Type) (mean2 : V -> V -> V) (feat : hour_stamp -> V) (regress : list (list V) -> list V),
  (forall agg, length (regress agg) = 24 * length agg) ->
  forall pol days pat, Forall2 (realises pol) days pat ->
  forallb kind_ok pat = true -> no_clash pat = true -> pattern_ok pat = false ->
  exists e, hourly_predict mean2 feat regress pol days = Err e.
Proof. intros V. exact (@hourly_predict_fails_l V). Qed.
Print Assumptions C06_hourly_fails_outside_guard.

(* ... so that, together with C06_hourly_predict_index_partial, predict returns rows EXACTLY on the frames of the guard;
   pattern_ok is (C06_pattern_ok_spelled_out) "no day skips hour 23 and the frame does not end on a day repeating hour 23" *)
Theorem C06_hourly_guard_exact :
  forall (V : Type) (mean2 : V -> V -> V) (feat : hour_stamp -> V) (regress : list (list V) -> list V),
  (forall agg, length (regress agg) = 24 * length agg) ->
  forall pol days pat, Forall2 (realises pol) days pat ->
  forallb kind_ok pat = true -> no_clash pat = true -> StronglySorted Z.lt (index_of days) ->
  ((exists rows, hourly_predict mean2 feat regress pol days = Ok rows) <-> pattern_ok pat = true).
Proof. intros V. exact (@hourly_guard_exact_l V). Qed.
Print Assumptions C06_hourly_guard_exact.

(* for the code as it is now (D11 and D18 repaired): no condition on usage or on date labels is left *)
Theorem C06_hourly_guard_exact_repaired :
  forall (V : Type) (mean2 : V -> V -> V) (feat : hour_stamp -> V) (regress : list (list V) -> list V),
  (forall agg, length (regress agg) = 24 * length agg) ->
  forall days pat, Forall2 clock_only days pat ->
  forallb kind_ok pat = true -> no_clash pat = true -> StronglySorted Z.lt (index_of days) ->
  ((exists rows, hourly_predict mean2 feat regress repaired days = Ok rows) <-> pattern_ok pat = true).
Proof. intros V. exact (@hourly_guard_exact_repaired_l V). Qed.
Print Assumptions C06_hourly_guard_exact_repaired.

Theorem C06_pattern_ok_spelled_out : forall pat, forallb kind_ok pat = true -> no_clash pat = true ->
  pattern_ok pat = negb (has_short23 pat) && negb (ends_long23 pat).
Proof. exact pattern_ok_char. Qed.
Print Assumptions C06_pattern_ok_spelled_out.

(* non-vacuity on both sides of the equivalence, and the one adjacency no_clash excludes (it fails too: the slicing
   keeps the slot it should remove and the column assignment sees one value too many) *)
Example C06_nonvacuous_guard_exact :
  (forallb kind_ok ex_pat = true /\ no_clash ex_pat = true /\ pattern_ok ex_pat = true)
  /\ (forallb kind_ok w_pat_short23 = true /\ no_clash w_pat_short23 = true /\ pattern_ok w_pat_short23 = false)
  /\ (forallb kind_ok w_pat_long23 = true /\ no_clash w_pat_long23 = true /\ pattern_ok w_pat_long23 = false)
  /\ (no_clash [Reg; Long 23; Short 0; Reg] = false
      /\ outcome_of repaired (mk_days 0 true [] (map clock_hours [Reg; Long 23; Short 0; Reg])) = Err ELength).
Proof. vm_compute. repeat split. Qed.
