(* C01 -- a stored model reproduces its counterfactual exactly.

   Statements only; lemmas in Proofs/DailyDocProofs.v, Proofs/DailyClosedFormProofs.v, Proofs/HourlyDocProofs.v,
   Proofs/CalTrackDocProofs.v; models in Model/Json.v (JSON trees), Model/DocSchema.v (settings re-validation),
   Model/DailyDoc.v, Model/HourlyDoc.v, Model/CalTrackDoc.v; the two daily settings schemas, the default settings
   documents and the float-typed hourly settings fields are regenerated from the package on every run
   (Generated/C01Gen.v).

   The models describe the code AS IT IS.  Five defects found with this property were repaired in /repo
   (394645be, f37e6233, 3d0f44c1, 180dc305, c3a9d07e); for each, the model of the code BEFORE the repair is kept
   under a name that says so, together with the theorem that it violates the statement ("..._regression_...").
   Those witnesses are replayed on the implementation by every run (corpus/C01.json and the fit profiles of
   harness/c01fits.py): should a repair be undone, the oracle reports the concrete input.

   Reading guide (daily / billing)
     daily_state               what a fitted or reloaded DailyModel / BillingModel carries and to_dict writes
     to_doc c s                c.to_dict() as a JSON tree (c = Daily | Billing; Billing forces developer_mode)
     from_doc cur leg c d      c.from_dict(d): Some state, or None when the constructor / pydantic raises;
                               a DailyModel document the current settings class rejects is read with the legacy class
     from_doc_one_class        the reader before 394645be (one settings class per model class)
     accepts sch settings      the settings class with schema sch accepts the stored settings tree
     maps_of sch s             (month -> season, day -> weekday/weekend) as the model's settings give them
     predict_day maps s m d T  which sub-model(s) predict a day of month m / weekday d, and their prediction at T:
                               _meter_segment through combo_dictionary (built from the settings by __init__) and the
                               season column (built from the settings by _initialize_data)
     restores c s s'           s' re-serialises to the same document, predicts like s for every sub-model and
                               temperature (binary64 payloads, Leibniz equality = bit-identical), reads the same
                               month->season and day->weekday/weekend maps AND routes and predicts every day with
                               them identically, and keeps timezone, warnings, disqualifications
     profile                   the constructor that made the model: DailyModel(model="current"),
                               DailyModel(model="legacy"), BillingModel()                                      *)
From Coq Require Import Reals Lra ZArith List Bool String PrimFloat Permutation.
From V Require Import Model.Num Model.NumR Model.NumF Model.DailyCurve Model.Json Model.DocSchema Model.DailyDoc
                      Generated.C01Gen Proofs.DailyCurveProofs Proofs.DailyDocProofs Proofs.DailyClosedFormProofs
                      Proofs.DailyKeyOrderProofs.
Import ListNotations.
Open Scope string_scope.

Notation cur := current_schema.
Notation leg := legacy_schema.
Notation from_doc' := (from_doc cur leg).
Notation restores' := (restores cur leg).

Print restores.
Print predict_day.
Print route.
Print covers.
Print accepts.
Print accepts_field.

(* ================================================================== daily / billing *)

Inductive profile := PCurrent | PLegacy | PBilling.
Definition class_of (p : profile) : mclass := match p with PBilling => Billing | _ => Daily end.
(* the settings class the profile's constructor validated the user's settings with *)
Definition ctor_schema (p : profile) : schema := match p with PCurrent => cur | _ => leg end.

(* the property text for one fitted model of profile p *)
Definition C01_daily_holds (p : profile) (s : daily_state) : Prop :=
  exists s', from_doc' (class_of p) (to_doc (class_of p) s) = Some s' /\ restores' (class_of p) s s'.

(* full statement: every profile the constructors accept *)
Definition C01_daily_statement : Prop :=
  forall p s, wf_state s -> accepts (ctor_schema p) (ds_settings s) = true -> C01_daily_holds p s.

Lemma legacy_dev_leaf_ok : dev_leaf_ok leg = true.
Proof. vm_compute. reflexivity. Qed.

(* from_dict on to_dict's document, in closed form, for every state *)
Theorem C01_daily_from_doc_to_doc : forall c s, wf_state s ->
  from_doc' c (to_doc c s) =
  match c with
  | Daily => if accepts cur (ds_settings s) || accepts leg (ds_settings s) then Some s else None
  | Billing => if accepts leg (force_dev (ds_settings s)) then Some (with_settings s (force_dev (ds_settings s))) else None
  end.
Proof. exact (from_doc_to_doc cur leg). Qed.
Print Assumptions C01_daily_from_doc_to_doc.

(* THE STATEMENT HOLDS for the code as it is: current profile (default, custom season / weekday maps, developer
   overrides), legacy profile, billing profile (the forced developer flag never makes the legacy class reject) *)
Theorem C01_daily_roundtrip : C01_daily_statement.
Proof.
  intros p s Hwf Hacc. unfold C01_daily_holds. destruct p; cbn [class_of ctor_schema] in *.
  - apply (daily_roundtrip_l cur leg s Hwf). left. exact Hacc.
  - apply (daily_roundtrip_l cur leg s Hwf). right. exact Hacc.
  - exact (billing_roundtrip_l cur leg s Hwf legacy_dev_leaf_ok Hacc).
Qed.
Print Assumptions C01_daily_roundtrip.

(* in particular the restored routing is the original's: every day goes to the same sub-model with the same numbers *)
Theorem C01_daily_days_predicted_identically : forall p s, wf_state s -> accepts (ctor_schema p) (ds_settings s) = true ->
  exists s', from_doc' (class_of p) (to_doc (class_of p) s) = Some s' /\
    forall month dow T,
      predict_day (maps_of (schema_of cur leg (class_of p)) s') s' month dow T =
      predict_day (maps_of (schema_of cur leg (class_of p)) s) s month dow T.
Proof.
  intros p s Hwf Hacc. destruct (C01_daily_roundtrip p s Hwf Hacc) as (s' & Hs & _ & _ & _ & Hday & _).
  exists s'. split; [exact Hs | exact Hday].
Qed.
Print Assumptions C01_daily_days_predicted_identically.

(* ... and the timezone guard of predict refuses exactly the same reporting zones (same ValueError) *)
Theorem C01_daily_timezone_guard : forall p s, wf_state s -> accepts (ctor_schema p) (ds_settings s) = true ->
  exists s', from_doc' (class_of p) (to_doc (class_of p) s) = Some s' /\
    forall reporting_tz, tz_guard_refuses s' reporting_tz = tz_guard_refuses s reporting_tz.
Proof.
  intros p s Hwf Hacc. destruct (C01_daily_roundtrip p s Hwf Hacc) as (s' & Hs & _ & _ & _ & _ & Htz & _).
  exists s'. split; [exact Hs|]. intros r. unfold tz_guard_refuses. rewrite Htz. reflexivity.
Qed.
Print Assumptions C01_daily_timezone_guard.

(* exact guard for DailyModel: one of the two settings classes accepts the stored tree *)
Theorem C01_daily_roundtrip_iff : forall s, wf_state s ->
  (from_doc' Daily (to_doc Daily s) = Some s <-> accepts cur (ds_settings s) || accepts leg (ds_settings s) = true).
Proof. exact (daily_roundtrip_iff cur leg). Qed.
Print Assumptions C01_daily_roundtrip_iff.

(* any document the class reads at all (written by this package or not): the object it yields writes a document
   that reads back to an object which restores everything -- reloaded models are fixed points *)
Theorem C01_daily_reload_stable : forall c d s, from_doc' c d = Some s ->
  exists s', from_doc' c (to_doc c s) = Some s' /\ restores' c s s'.
Proof. intros c d s. exact (reload_stable_l cur leg c d s legacy_dev_leaf_ok). Qed.
Print Assumptions C01_daily_reload_stable.

(* witnesses *)
Definition tidd_sub : submodel :=
  {| sm_key := "fw-su_sh_wi";
     sm_c := Build_coeffs F Tidd 20%float None None None None None None;
     sm_tc := Build_tconstr F 10%float 90%float 10%float 90%float;
     sm_func := 1%float |}.
Definition legacy_witness : daily_state :=
  {| ds_subs := [tidd_sub]; ds_error := JObj []; ds_tz := "UTC"; ds_dq := []; ds_warnings := [];
     ds_settings := legacy_default_settings |}.
Lemma legacy_witness_wf : wf_state legacy_witness.
Proof. split; constructor. Qed.

(* regression witness (finding C01-K1, fixed by 394645be): without the legacy fallback the default legacy DailyModel
   -- its settings are what DailyLegacySettings().model_dump() writes -- cannot be read back *)
Theorem C01_regression_one_settings_class_refuted :
  wf_state legacy_witness /\ accepts (ctor_schema PLegacy) (ds_settings legacy_witness) = true /\
  from_doc_one_class cur leg Daily (to_doc Daily legacy_witness) = None /\
  from_doc' Daily (to_doc Daily legacy_witness) = Some legacy_witness.
Proof. split; [exact legacy_witness_wf|]. repeat split; vm_compute; reflexivity. Qed.
Print Assumptions C01_regression_one_settings_class_refuted.

Theorem C01_regression_one_settings_class_iff : forall s, wf_state s ->
  (from_doc_one_class cur leg Daily (to_doc Daily s) = Some s <-> accepts cur (ds_settings s) = true) /\
  (from_doc_one_class cur leg Daily (to_doc Daily s) = None <-> accepts cur (ds_settings s) = false).
Proof. exact (one_class_roundtrip_iff cur leg). Qed.
Print Assumptions C01_regression_one_settings_class_iff.

(* non-vacuity: a two-way weekday/weekend split under a re-mapped Friday; the routing follows the stored map *)
Definition wdwe_settings : json :=
  match current_default_settings with
  | JObj o => JObj (set "weekday_weekend"
                        (JObj [("monday", JStr "weekday"); ("tuesday", JStr "weekday"); ("wednesday", JStr "weekday");
                               ("thursday", JStr "weekday"); ("friday", JStr "weekend"); ("saturday", JStr "weekend");
                               ("sunday", JStr "weekend"); ("options", JArr [JStr "weekday"; JStr "weekend"])]) o)
  | j => j
  end.
Definition wdwe_witness : daily_state :=
  {| ds_subs := [{| sm_key := "wd-su_sh_wi"; sm_c := Build_coeffs F Tidd 20%float None None None None None None;
                    sm_tc := Build_tconstr F 10%float 90%float 10%float 90%float; sm_func := 1%float |};
                 {| sm_key := "we-su_sh_wi"; sm_c := Build_coeffs F Tidd 35%float None None None None None None;
                    sm_tc := Build_tconstr F 10%float 90%float 10%float 90%float; sm_func := 2%float |}];
     ds_error := JObj [("RMSE", JNum 1%float)]; ds_tz := "US/Pacific";
     ds_dq := [{| w_name := "eemeter.model_fit_metrics.cvrmse"; w_desc := "Fit model has CVRMSE > 1.0";
                  w_data := JObj [("CVRMSE", JNum 2%float)] |}];
     ds_warnings := []; ds_settings := wdwe_settings |}.

Example C01_current_nonvacuous :
  accepts cur (ds_settings wdwe_witness) = true /\
  from_doc' Daily (to_doc Daily wdwe_witness) = Some wdwe_witness /\
  (* a Friday (5) of July goes to the weekend model, a Thursday (4) to the weekday model *)
  route (maps_of cur wdwe_witness) (ds_subs wdwe_witness) 7 5 = ["we-su_sh_wi"] /\
  route (maps_of cur wdwe_witness) (ds_subs wdwe_witness) 7 4 = ["wd-su_sh_wi"] /\
  (* ... which a reader that routed with the DEFAULT day map would get wrong *)
  route (season_map cur current_default_settings, weekday_map cur current_default_settings)
        (ds_subs wdwe_witness) 7 5 = ["wd-su_sh_wi"].
Proof. repeat split; vm_compute; reflexivity. Qed.

Example C01_billing_nonvacuous :
  accepts leg legacy_default_settings = true /\
  from_doc' Billing (to_doc Billing legacy_witness) = Some (with_settings legacy_witness billing_default_settings).
Proof. split; vm_compute; reflexivity. Qed.

(* the two settings classes differ in defaults only; a developer-mode legacy tree is accepted by both *)
Example C01_schemas_nonvacuous :
  accepts leg (force_dev legacy_default_settings) = true /\ accepts cur (force_dev legacy_default_settings) = true /\
  accepts cur current_default_settings = true /\ accepts cur legacy_default_settings = false /\
  same_shape cur leg = true /\ defaults_ok cur = true /\ defaults_ok leg = true.
Proof. repeat split; vm_compute; reflexivity. Qed.

(* the developer-mode lock is what rejects: one developer field away from its default, with and without the flag *)
Example C01_lock_examples :
  accepts cur (JObj [("segment_minimum_count", JInt 8)]) = false /\
  accepts cur (JObj [("developer_mode", JBool true); ("segment_minimum_count", JInt 8)]) = true /\
  accepts cur (JObj [("season", JObj [("january", JStr "summer")])]) = true /\
  accepts cur (JObj [("season", JObj [("january", JStr "hot")])]) = false /\
  accepts cur (JObj [("split_selection", JObj [("penalty_power", JNum 3%float)])]) = false.
Proof. repeat split; vm_compute; reflexivity. Qed.

(* the cross-field validators are part of [accepts] (each line is replayed on the real classes by the docs stream) *)
Example C01_cross_field_examples :
  let dev := ("developer_mode", JBool true) in
  accepts cur (JObj [dev; ("alpha_final", JNull)]) = false /\
  accepts cur (JObj [dev; ("alpha_final", JNull); ("alpha_final_type", JNull); ("final_bounds_scalar", JNull)]) = true /\
  accepts cur (JObj [dev; ("alpha_final", JNum 3%float)]) = false /\
  accepts cur (JObj [dev; ("alpha_final", JNum 1.5%float)]) = true /\
  accepts cur (JObj [dev; ("final_bounds_scalar", JNum 0%float)]) = false /\
  accepts cur (JObj [dev; ("initial_step_percentage", JNum 0.75%float)]) = false /\
  accepts cur (JObj [dev; ("initial_step_percentage", JNull)]) = false /\
  accepts cur (JObj [dev; ("initial_step_percentage", JNull); ("algorithm_choice", JStr "scipy_slsqp")]) = true /\
  accepts cur (JObj [dev; ("split_selection", JObj [("reduce_splits_num_std", JArr [JNum 1%float])])]) = false /\
  accepts cur (JObj [dev; ("split_selection", JObj [("reduce_splits_num_std", JArr [JNum 1%float; JNum (-1)%float])])]) = false.
Proof. cbv zeta. repeat split; vm_compute; reflexivity. Qed.

(* ------------------------------------------------------------------ key order of the stored document *)

(* A stored document is an unordered JSON object.  [reads_like d d']: d' holds the same settings tree and the same info
   entries as d, and the same sub-models up to the ORDER OF KEYS at every level of the parameter part -- the top-level
   object, "info", the "submodels" mapping, each sub-model entry, its "coefficients" and its "temperature_constraints".
   Then from_dict reads d' whenever it reads d, and the two objects are the same model: every sub-model by its key,
   hence every prediction at every temperature, the settings (hence the day routing), timezone, warnings,
   disqualifications.  (The reader looks every value up BY NAME; a reader taking temperature_constraints by position
   -- seeded change C11-6 -- does not satisfy this.) *)
Print reads_like.
Print same_submodels.
Print same_submodel.
Print same_fields.
Print same_model.

Theorem C01_daily_key_order_irrelevant : forall c d d' s, reads_like d d' -> from_doc' c d = Some s ->
  exists s', from_doc' c d' = Some s' /\ same_model s s'.
Proof. exact (from_doc_key_order cur leg). Qed.
Print Assumptions C01_daily_key_order_irrelevant.

(* what makes a re-ordering harmless: a lookup by name does not see the order of the entries (keys distinct) *)
Theorem C01_lookup_ignores_key_order : forall k (o o' : list (string * json)),
  NoDup (map fst o) -> Permutation o o' -> get k o' = get k o.
Proof. exact get_perm. Qed.
Print Assumptions C01_lookup_ignores_key_order.

Theorem C01_coefficients_ignore_key_order : forall o o', NoDup (map fst o) -> Permutation o o' ->
  parse_coeffs (JObj o') = parse_coeffs (JObj o) /\ parse_tc (JObj o') = parse_tc (JObj o).
Proof.
  intros o o' Hnd Hp. pose proof (perm_same_fields o o' Hnd Hp) as H.
  split; [apply parse_coeffs_order | apply parse_tc_order]; exact H.
Qed.
Print Assumptions C01_coefficients_ignore_key_order.

(* any permutation of the top-level keys gives a document that reads like the original *)
Theorem C01_top_level_order_reads_like : forall o o' l, nodupb (map fst o) = true -> Permutation o o' ->
  get "submodels" o = Some (JObj l) -> nodupb (map fst l) = true -> reads_like (JObj o) (JObj o').
Proof. exact top_level_reads_like. Qed.
Print Assumptions C01_top_level_order_reads_like.

(* non-vacuity: the weekday/weekend witness with every mapping of its parameter part reversed *)
Definition rev_obj (j : json) : json := match j with JObj o => JObj (rev o) | _ => j end.
Definition reorder_sub (j : json) : json :=
  match j with
  | JObj o => JObj (rev (map (fun kv => (fst kv, if String.eqb (fst kv) "f_unc" then snd kv else rev_obj (snd kv))) o))
  | _ => j
  end.
Definition reorder_doc (d : json) : json :=
  match d with
  | JObj o => JObj (rev (map (fun kv =>
      (fst kv, if String.eqb (fst kv) "submodels"
               then match snd kv with JObj l => JObj (rev (map (fun e => (fst e, reorder_sub (snd e))) l)) | v => v end
               else if String.eqb (fst kv) "info" then rev_obj (snd kv) else snd kv)) o))
  | _ => d
  end.

Example C01_key_order_nonvacuous :
  (* the hypothesis is satisfiable by a genuine re-ordering *)
  reads_like (to_doc Daily wdwe_witness) (rev_obj (to_doc Daily wdwe_witness)) /\
  (* and on the fully re-ordered document (all six levels) the reader as coded gives the same model *)
  reorder_doc (to_doc Daily wdwe_witness) <> to_doc Daily wdwe_witness /\
  exists s', from_doc' Daily (reorder_doc (to_doc Daily wdwe_witness)) = Some s' /\
             predict_sub s' "we-su_sh_wi" 40%float = predict_sub wdwe_witness "we-su_sh_wi" 40%float /\
             predict_sub s' "wd-su_sh_wi" 95%float = predict_sub wdwe_witness "wd-su_sh_wi" 95%float /\
             ds_settings s' = ds_settings wdwe_witness /\ ds_tz s' = ds_tz wdwe_witness /\ ds_dq s' = ds_dq wdwe_witness.
Proof.
  split.
  - unfold to_doc, rev_obj. eapply top_level_reads_like; [vm_compute; reflexivity | apply Permutation_rev | reflexivity | vm_compute; reflexivity].
  - split.
    + intros H. apply (f_equal (fun j => match j with JObj ((k, _) :: _) => k | _ => "" end)) in H. vm_compute in H. discriminate H.
    + eexists. split; [vm_compute; reflexivity|]. repeat split; vm_compute; reflexivity.
Qed.

(* ------------------------------------------------------------------ closed form (real-number semantics) *)

Notation lo := R_ln_min.
Notation hi := R_ln_max.
Print hinge.
Print H_term.
Print C_term.

(* prediction = intercept + H(T) + C(T), H(T) = beta_h S(bp_h' - T, k_h), C(T) = beta_c S(T - bp_c', k_c),
   S the documented smoothed hinge, (bp', k, beta) = the vector the stored parameters determine
   (C11_effective_vector of Properties/C11.v relates it to the stored balance points and percent-k);
   adm / off_corner: the guards of C11 (the corner is finding D16 / C01-K6) *)
Theorem C01_daily_closed_form : forall c tc, admissible lo hi c tc -> off_corner lo hi c tc -> forall T : R,
  predict_submodel RNum c tc T =
    Some ((intercept c + H_term lo hi (eff lo hi c tc) T + C_term lo hi (eff lo hi c tc) T)%R,
          H_term lo hi (eff lo hi c tc) T, C_term lo hi (eff lo hi c tc) T).
Proof. exact (daily_closed_form_l lo hi (proj1 R_ln_bounds) (proj2 R_ln_bounds)). Qed.
Print Assumptions C01_daily_closed_form.

(* non-vacuity: a heating-and-cooling document inside the optimiser box, away from the corner *)
Example C01_closed_form_nonvacuous :
  let c := Build_coeffs RNum HddTiddCdd 20%R (Some 50%R) (Some 1.5%R) None (Some 65%R) (Some 2%R) None in
  let tc := Build_tconstr RNum 10%R 90%R 12%R 88%R in
  admissible lo hi c tc /\ off_corner lo hi c tc.
Proof.
  cbv zeta.
  assert (Ha : admissible lo hi (Build_coeffs RNum HddTiddCdd 20%R (Some 50%R) (Some 1.5%R) None (Some 65%R) (Some 2%R) None)
                                (Build_tconstr RNum 10%R 90%R 12%R 88%R)).
  { unfold admissible, bounds_ok. cbn. repeat split; Lra.lra. }
  split; [exact Ha|]. apply (upper_below_Tmax_off_corner lo hi _ _ Ha).
  unfold upper_bp. cbn. Lra.lra.
Qed.

(* S is the documented k (u + e^-u - 1) wherever the package's exp clip is not reached (u <= 331.17) *)
Theorem C01_hinge_documented : forall d k : R, k <> 0%R -> (lo <= - (Rmax d 0 / k))%R ->
  hinge lo d k = (k * (Rmax d 0 / k + exp (- (Rmax d 0 / k)) - 1))%R.
Proof. exact (hinge_unclipped lo). Qed.
Print Assumptions C01_hinge_documented.

Theorem C01_hinge_unsmoothed : forall d : R, hinge lo d 0 = Rmax d 0.
Proof. intros d. unfold hinge. destruct (Req_EM_T 0 0) as [_|E]; [reflexivity | exfalso; apply E; reflexivity]. Qed.
Print Assumptions C01_hinge_unsmoothed.

(* ================================================================== hourly *)
From V Require Import Model.HourlyDoc Proofs.HourlyDocProofs.

(* Reading guide (hourly)
     hourly_state              the attributes HourlyModel.to_dict reads (Model/HourlyDoc.v)
     hourly_to_doc s           to_dict() as a JSON tree; None = it raises
     hourly_from_doc paths d   from_dict(d) as coded; None = it raises; paths = the float-typed settings fields (generated)
     hourly_from_doc_before_c3a9d07e   the reader that called .items() on a null edge-bin map
     hourly_from_doc_by_train_features a reader that pairs the stored scaler statistics with the names in
                               settings.train_features order (regression witness, seeded change C01-2)
     feature_scaler_of s name  the (location, scale) the scalers apply to the column of that feature
     inputs_of s               exactly the fields the prediction path reads (incl. timezone guard, disqualification gate)
     coerce paths st           pydantic's re-validation of the settings tree: an int in a float-typed field becomes a float;
                               validated s := it changes nothing (true of every settings object a constructor validated,
                               provided the class DEFAULTS are floats too: C01_hourly_defaults_validated, over the
                               regenerated default document)                                                       *)
Notation hpaths := hourly_float_paths.
Print hourly_inputs.

Definition validated (s : hourly_state) : Prop := coerce hpaths (hs_settings s) = hs_settings s.

Definition C01_hourly_holds (s : hourly_state) : Prop :=
  exists d s', hourly_to_doc s = Some d /\ hourly_from_doc hpaths d = Some s' /\
               hourly_to_doc s' = Some d /\                                   (* re-serialises to the same document *)
               inputs_of s' = inputs_of s /\                                  (* predicts identically (any function of the inputs) *)
               hs_tz s' = hs_tz s /\ hs_warnings s' = hs_warnings s /\ hs_dq s' = hs_dq s.

Definition C01_hourly_statement : Prop :=
  forall s d, wf_hourly s -> validated s -> hourly_to_doc s = Some d -> C01_hourly_holds s.

(* what from_dict makes of to_dict's document, in general *)
Theorem C01_hourly_from_doc_to_doc : forall s d, wf_hourly s -> hourly_to_doc s = Some d ->
  hourly_from_doc hpaths d = Some (with_hsettings s (coerce hpaths (hs_settings s))).
Proof. exact (hourly_from_to hpaths). Qed.
Print Assumptions C01_hourly_from_doc_to_doc.

(* THE STATEMENT HOLDS for the code as it is (with or without edge bins) *)
Theorem C01_hourly_roundtrip : C01_hourly_statement.
Proof.
  intros s d Hwf Hn Hd. exists d, s. split; [exact Hd|]. split.
  - rewrite (C01_hourly_from_doc_to_doc s d Hwf Hd). unfold validated in Hn. rewrite Hn, with_hsettings_same. reflexivity.
  - repeat split; try reflexivity. exact Hd.
Qed.
Print Assumptions C01_hourly_roundtrip.

(* the defaults of the settings classes are validated values (regenerated default document): holds since 180dc305 *)
Theorem C01_hourly_defaults_validated : coerce hpaths hourly_default_settings = hourly_default_settings.
Proof. vm_compute. reflexivity. Qed.
Print Assumptions C01_hourly_defaults_validated.

(* field by field, also for a tree that is not validated: everything but the number text of those fields *)
Theorem C01_hourly_roundtrip_fields : forall s d, wf_hourly s -> hourly_to_doc s = Some d ->
  exists s', hourly_from_doc hpaths d = Some s' /\
    hs_settings s' = coerce hpaths (hs_settings s) /\ hs_edge_coeffs s' = hs_edge_coeffs s /\
    hs_clusters s' = hs_clusters s /\ hs_bin_edges s' = hs_bin_edges s /\
    hs_ts_features s' = hs_ts_features s /\ hs_cat_features s' = hs_cat_features s /\
    hs_loc s' = hs_loc s /\ hs_scale s' = hs_scale s /\ hs_y s' = hs_y s /\
    hs_coef s' = hs_coef s /\ hs_intercept s' = hs_intercept s /\ hs_metrics s' = hs_metrics s /\
    hs_tz s' = hs_tz s /\ hs_warnings s' = hs_warnings s /\ hs_dq s' = hs_dq s /\ hs_error s' = hs_error s /\
    hs_version s' = hs_version s.
Proof. exact (hourly_roundtrip_fields_l hpaths). Qed.
Print Assumptions C01_hourly_roundtrip_fields.

(* the prediction, as any function of the fields it reads, whose arithmetic does not tell an int from the equal float *)
Theorem C01_hourly_predict_restored : forall (data result : Type) (predict_fn : hourly_inputs -> data -> result),
  reads_values hpaths data result predict_fn ->
  forall s d, wf_hourly s -> hourly_to_doc s = Some d ->
  exists s', hourly_from_doc hpaths d = Some s' /\ forall x, predict_fn (inputs_of s') x = predict_fn (inputs_of s) x.
Proof. exact (hourly_predict_restored_l hpaths). Qed.
Print Assumptions C01_hourly_predict_restored.

(* second generation: the reloaded model is a fixed point of to_dict / from_dict *)
Lemma hpaths_avoid_train_features : forallb (path_avoids "train_features") hpaths = true.
Proof. vm_compute. reflexivity. Qed.

Theorem C01_hourly_reserialise : forall s d, wf_hourly s -> hourly_to_doc s = Some d ->
  let s' := with_hsettings s (coerce hpaths (hs_settings s)) in
  hourly_from_doc hpaths d = Some s' /\
  exists d', hourly_to_doc s' = Some d' /\ hourly_from_doc hpaths d' = Some s'.
Proof. intros s d. exact (hourly_reserialise_l hpaths s d hpaths_avoid_train_features). Qed.
Print Assumptions C01_hourly_reserialise.

(* the integer keys of the edge-bin map come back as integers (what the prediction path indexes with) *)
Theorem C01_hourly_edge_keys_restored : forall s d n, wf_hourly s -> hourly_to_doc s = Some d ->
  exists s', hourly_from_doc hpaths d = Some s' /\
    edge_lookup_opt n (hs_edge_coeffs s') = edge_lookup_opt n (hs_edge_coeffs s).
Proof. exact (hourly_edge_keys_restored_l hpaths). Qed.
Print Assumptions C01_hourly_edge_keys_restored.

(* every feature column gets its OWN scaler statistics back: the pair at the position of its name in _ts_features
   (the sorted order the scalers were fitted in), whatever the order of settings.train_features *)
Theorem C01_hourly_scaler_by_name : forall s d name, wf_hourly s -> hourly_to_doc s = Some d ->
  exists s', hourly_from_doc hpaths d = Some s' /\ feature_scaler_of s' name = feature_scaler_of s name.
Proof. exact (hourly_scaler_restored_l hpaths). Qed.
Print Assumptions C01_hourly_scaler_by_name.

(* feature names are arbitrary strings (supplemental columns such as "Humidity", "Occ Flag", " wind ") and come back
   verbatim -- the reloaded model asks the reporting data for the very columns the fitted one used *)
Theorem C01_hourly_feature_names_verbatim : forall s d, wf_hourly s -> hourly_to_doc s = Some d ->
  exists s', hourly_from_doc hpaths d = Some s' /\
             hs_ts_features s' = hs_ts_features s /\ hs_cat_features s' = hs_cat_features s.
Proof.
  intros s d Hwf Hd. destruct (hourly_roundtrip_fields_l hpaths s d Hwf Hd) as (s' & Hs & _ & _ & _ & _ & Hts & Hcat & _).
  exists s'. split; [exact Hs|]. split; assumption.
Qed.
Print Assumptions C01_hourly_feature_names_verbatim.

(* looking the stored entries up by name is harmless only along the order they were written in *)
Theorem C01_hourly_name_lookup_same_order : forall fs : list (string * json),
  NoDup (map fst fs) -> reorder (map fst fs) fs = Some fs.
Proof. exact reorder_same_order. Qed.
Print Assumptions C01_hourly_name_lookup_same_order.

(* witnesses *)
Definition h_settings_ok : json :=
  JObj [("train_features", JArr [JStr "temperature"]); ("temperature_bin", JObj [("bin_width", JNum 12%float)])].
Definition h_settings_int : json :=
  JObj [("train_features", JArr [JStr "temperature"]); ("temperature_bin", JObj [("bin_width", JInt 12)])].
Definition h_state (st : json) (edges : option (list (Z * list (string * float)))) : hourly_state :=
  {| hs_settings := st; hs_clusters := [(1, 0, 0); (1, 1, 1)]%Z; hs_bin_edges := [neg_infinity; 50%float; infinity];
     hs_edge_coeffs := edges; hs_ts_features := ["temperature"]; hs_cat_features := ["temporal_cluster_0"; "temp_bin_0"];
     hs_loc := [55%float]; hs_scale := [16%float]; hs_y := (1.5%float, 0.25%float);
     hs_coef := [[0.5%float; (-0.25)%float]]; hs_intercept := [0.125%float];
     hs_metrics := JObj [("rmse", JNum 0.5%float)];
     hs_warnings := [{| w_name := "eemeter.sufficiency_criteria.unable_to_confirm_daily_temperature_sufficiency";
                        w_desc := ""; w_data := JObj [] |}];
     hs_dq := []; hs_error := JObj []; hs_tz := "US/Pacific"; hs_version := "1.2.3" |}.
Definition edges2 : option (list (Z * list (string * float))) :=
  Some [(0%Z, [("t_a", 0.5%float); ("t_b", 0.5%float); ("k", 1.5%float); ("a", 1%float)]);
        (5%Z, [("t_a", 0.25%float); ("t_b", (-1)%float); ("k", 2%float); ("a", 1.5%float)])].

Lemma h_state_wf : forall st e, (exists tf, field "train_features" st = Some (jstrings tf)) ->
  match e with Some l => keys_ok l | None => True end -> wf_hourly (h_state st e).
Proof.
  intros st e Htf Hk. unfold wf_hourly, h_state. cbn.
  repeat split; try assumption; try reflexivity.
  - repeat constructor.
  - constructor.
  - eexists; reflexivity.
Qed.

Lemma edges2_ok : match edges2 with Some l => keys_ok l | None => True end.
Proof. cbn. repeat constructor; cbn; discriminate. Qed.

(* non-vacuity: with edge bins, and without (include_edge_bins = False) *)
Example C01_hourly_nonvacuous :
  wf_hourly (h_state h_settings_ok edges2) /\ validated (h_state h_settings_ok edges2) /\
  (exists d, hourly_to_doc (h_state h_settings_ok edges2) = Some d /\
             hourly_from_doc hpaths d = Some (h_state h_settings_ok edges2)) /\
  wf_hourly (h_state h_settings_ok None) /\
  (exists d, hourly_to_doc (h_state h_settings_ok None) = Some d /\
             hourly_from_doc hpaths d = Some (h_state h_settings_ok None)).
Proof.
  split; [apply h_state_wf; [exists ["temperature"]; reflexivity | exact edges2_ok]|].
  split; [vm_compute; reflexivity|].
  split; [eexists; split; [reflexivity | vm_compute; reflexivity]|].
  split; [apply h_state_wf; [exists ["temperature"]; reflexivity | exact I]|].
  eexists; split; [reflexivity | vm_compute; reflexivity].
Qed.

(* regression witness (finding C01-K5, fixed by c3a9d07e): the reader that called .items() on the stored null fails
   exactly on the models fitted with include_edge_bins = False *)
Theorem C01_regression_null_edge_map_refuted : forall s d, wf_hourly s -> hourly_to_doc s = Some d ->
  (hourly_from_doc_before_c3a9d07e hpaths d = None <-> hs_edge_coeffs s = None).
Proof. exact (hourly_before_fix hpaths). Qed.
Print Assumptions C01_regression_null_edge_map_refuted.

(* regression witness (finding C01-K4, fixed by 180dc305): a settings tree with an int in a float-typed field (what an
   unvalidated int DEFAULT leaves in the dump) is not validated, and the reloaded model writes "12.0" where the
   document says "12" -- the hypothesis [validated] of the statement is exactly what excludes it *)
Theorem C01_regression_int_default_refuted :
  wf_hourly (h_state h_settings_int edges2) /\ ~ validated (h_state h_settings_int edges2) /\
  exists d s' d', hourly_to_doc (h_state h_settings_int edges2) = Some d /\ hourly_from_doc hpaths d = Some s' /\
                  hourly_to_doc s' = Some d' /\ d' <> d.
Proof.
  split; [apply h_state_wf; [exists ["temperature"]; reflexivity | exact edges2_ok]|].
  split.
  { unfold validated. intros H.
    apply (f_equal (fun j => bind (field "temperature_bin" j) (field "bin_width"))) in H. vm_compute in H. discriminate H. }
  eexists. eexists. eexists. split; [reflexivity|]. split; [vm_compute; reflexivity|]. split; [vm_compute; reflexivity|].
  intros H.
  apply (f_equal (fun j => bind (bind (field "settings" j) (field "temperature_bin")) (field "bin_width"))) in H.
  vm_compute in H. discriminate H.
Qed.
Print Assumptions C01_regression_int_default_refuted.

(* regression witness (seeded change C01-2): a solar model whose settings list the features as ghi, temperature while
   the model (and its scalers, and the stored ts_features / feature_scaler) use the sorted order temperature, ghi.
   A reader that takes the stored statistics by name ALONG settings.train_features hands the GHI statistics to the
   temperature column; the reader as coded does not. *)
Definition h_state_solar : hourly_state :=
  {| hs_settings := JObj [("train_features", JArr [JStr "ghi"; JStr "temperature"])];
     hs_clusters := [(1, 0, 0)]%Z; hs_bin_edges := [neg_infinity; infinity]; hs_edge_coeffs := None;
     hs_ts_features := ["temperature"; "ghi"]; hs_cat_features := ["temporal_cluster_0"];
     hs_loc := [55%float; 200%float]; hs_scale := [16%float; 250%float]; hs_y := (1.5%float, 0.25%float);
     hs_coef := [[0.5%float]]; hs_intercept := [0.125%float]; hs_metrics := JObj [];
     hs_warnings := []; hs_dq := []; hs_error := JObj []; hs_tz := "America/Chicago"; hs_version := "1.2.3" |}.

Theorem C01_regression_scaler_by_settings_order_refuted :
  feature_scaler_of h_state_solar "temperature" = Some (55%float, 16%float) /\
  exists d, hourly_to_doc h_state_solar = Some d /\
    (exists s', hourly_from_doc hpaths d = Some s' /\
                feature_scaler_of s' "temperature" = Some (55%float, 16%float) /\
                feature_scaler_of s' "ghi" = Some (200%float, 250%float)) /\
    (exists s', hourly_from_doc_by_train_features hpaths d = Some s' /\
                feature_scaler_of s' "temperature" = Some (200%float, 250%float)).
Proof.
  split; [reflexivity|]. eexists. split; [reflexivity|]. split.
  - eexists. split; [vm_compute; reflexivity|]. split; reflexivity.
  - eexists. split; [vm_compute; reflexivity|]. reflexivity.
Qed.
Print Assumptions C01_regression_scaler_by_settings_order_refuted.

(* regression witness (seeded change C01-4): supplemental columns with upper-case letters and blanks.  As coded the
   names come back verbatim (only the KEYS of the stored feature_scaler dictionary are lower-cased by the
   SerializeModel string config, which is harmless: each feature still gets its own statistics); a writer that also
   passes the feature names through that config hands the reloaded model names no data frame has. *)
Definition h_state_names : hourly_state :=
  {| hs_settings := JObj [("train_features", JArr [JStr "temperature"]);
                          ("supplemental_time_series_columns", JArr [JStr "Humidity"; JStr " wind "])];
     hs_clusters := [(1, 0, 0)]%Z; hs_bin_edges := [neg_infinity; infinity]; hs_edge_coeffs := None;
     hs_ts_features := ["temperature"; " wind "; "Humidity"]; hs_cat_features := ["temporal_cluster_0"; "Occ Flag"];
     hs_loc := [55%float; 5%float; 50%float]; hs_scale := [16%float; 1%float; 20%float]; hs_y := (1.5%float, 0.25%float);
     hs_coef := [[0.5%float]]; hs_intercept := [0.125%float]; hs_metrics := JObj [];
     hs_warnings := []; hs_dq := []; hs_error := JObj []; hs_tz := "UTC"; hs_version := "1.2.3" |}.

Theorem C01_regression_lowercased_names_refuted :
  (exists d s', hourly_to_doc h_state_names = Some d /\ hourly_from_doc hpaths d = Some s' /\
                hs_ts_features s' = ["temperature"; " wind "; "Humidity"] /\
                hs_cat_features s' = ["temporal_cluster_0"; "Occ Flag"] /\
                bind (field "feature_scaler" d) (field "humidity") = Some (JArr [JNum 50%float; JNum 20%float]) /\
                feature_scaler_of s' "Humidity" = Some (50%float, 20%float)) /\
  (exists d s', hourly_to_doc_lowercasing h_state_names = Some d /\ hourly_from_doc hpaths d = Some s' /\
                hs_ts_features s' = ["temperature"; "wind"; "humidity"] /\
                hs_cat_features s' = ["temporal_cluster_0"; "occ flag"]).
Proof.
  split; eexists; eexists; (split; [vm_compute; reflexivity|]); (split; [vm_compute; reflexivity|]); repeat split; vm_compute; reflexivity.
Qed.
Print Assumptions C01_regression_lowercased_names_refuted.

(* ================================================================== CalTRACK hourly *)
From V Require Import Model.CalTrackDoc Proofs.CalTrackDocProofs.

(* Reading guide (CalTRACK hourly)
     ct_state                  what the wrapper's to_dict reads (Model/CalTrackDoc.v)
     ct_to_doc / ct_from_doc   to_dict / from_dict as coded; None = raises
     ct_from_doc_before_f37e6233   the reader that kept the month keys of unc_vars as the strings json produced
     ct_to_doc_objects         the serialiser before 3d0f44c1: every warning / metrics object must have a .json()
     reloaded_of r s           the object from_dict builds from to_dict's document (r = true: as coded)
     ct_inputs_of s            the fields the regression prediction reads
     unc_lookup u m            the uncertainty inputs predict applies to the rows of month m (typed values: int, float
                               incl. NaN, or a null kept verbatim); arith_ok e = predict's expression evaluates on e
     ct_to_doc_nan_as_null     a serialiser that writes non-finite statistics as null (regression witness, seeded C01-3) *)
Print reloaded_of.
Print unc_lookup.
Print key_applies.

Definition C01_caltrack_holds (s : ct_state) : Prop :=
  exists d s', ct_to_doc s = Some d /\ ct_from_doc d = Some s' /\
               ct_inputs_of s' = ct_inputs_of s /\
               (forall m, unc_lookup (ct_unc s') m = unc_lookup (ct_unc s) m) /\
               ct_to_doc s' = Some d.

Definition C01_caltrack_statement : Prop :=
  forall s d, wf_ct s -> month_keys (ct_unc s) -> ct_to_doc s = Some d -> C01_caltrack_holds s.

Theorem C01_caltrack_from_doc_to_doc : forall s d, wf_ct s -> ct_to_doc s = Some d ->
  ct_from_doc d = Some (reloaded_of true s).
Proof. intros s d Hwf Hd. rewrite (ct_to_doc_native s Hwf) in Hd. exact (ct_from_to true s d Hwf Hd). Qed.
Print Assumptions C01_caltrack_from_doc_to_doc.

Lemma month_keys_canonical : forall u, month_keys u -> Forall (fun kv : ukey * uentry => canonical (fst kv)) u.
Proof.
  intros u H. unfold month_keys in H. rewrite Forall_forall in *. intros kv Hin. specialize (H kv Hin).
  destruct (fst kv); cbn in *; [exact I | exact H | contradiction].
Qed.

(* THE STATEMENT HOLDS for the code as it is: regression inputs, per-month uncertainty inputs, same document *)
Theorem C01_caltrack_roundtrip : C01_caltrack_statement.
Proof.
  intros s d Hwf Hk Hd. exists d, (reloaded_of true s). split; [exact Hd|].
  split; [exact (C01_caltrack_from_doc_to_doc s d Hwf Hd)|].
  split; [apply ct_inputs_restored|].
  split; [intros m; rewrite (unc_restored_repaired s Hk); reflexivity|].
  rewrite (ct_reserialise_repaired true s Hwf (month_keys_canonical _ Hk)). rewrite <- (ct_to_doc_native s Hwf). exact Hd.
Qed.
Print Assumptions C01_caltrack_roundtrip.

(* the regression prediction (any function of the segment models, lookup tables and segment mapping) is restored *)
Theorem C01_caltrack_predict_restored : forall (data result : Type) (predict_fn : ct_inputs -> data -> result),
  forall s d, wf_ct s -> ct_to_doc s = Some d ->
  exists s', ct_from_doc d = Some s' /\ forall x, predict_fn (ct_inputs_of s') x = predict_fn (ct_inputs_of s) x.
Proof.
  intros data result predict_fn s d Hwf Hd. rewrite (ct_to_doc_native s Hwf) in Hd.
  exact (ct_predict_restored_l data result predict_fn true s d Hwf Hd).
Qed.
Print Assumptions C01_caltrack_predict_restored.

(* the uncertainty entries come back value by value -- an int as that int, a float as that float, NaN (a calendar month
   without baseline rows) as NaN, never as a null -- so predict's arithmetic evaluates on the reloaded model wherever
   it did on the original *)
Theorem C01_caltrack_uncertainty_values_kept : forall s d, wf_ct s -> month_keys (ct_unc s) -> ct_to_doc s = Some d ->
  exists s', ct_from_doc d = Some s' /\ ct_unc s' = ct_unc s /\
             forall m, option_map arith_ok (unc_lookup (ct_unc s') m) = option_map arith_ok (unc_lookup (ct_unc s) m).
Proof.
  intros s d Hwf Hk Hd. exists (reloaded_of true s). split; [exact (C01_caltrack_from_doc_to_doc s d Hwf Hd)|].
  rewrite (unc_restored_repaired s Hk). split; [reflexivity | intros; reflexivity].
Qed.
Print Assumptions C01_caltrack_uncertainty_values_kept.

(* regression witness (finding C01-K2, fixed by f37e6233): a reader that keeps the string keys loses the uncertainty
   inputs of every month of a month-keyed model (it keeps them only for the single key "all") *)
Theorem C01_regression_string_month_keys_refuted : forall s d m, wf_ct s -> ct_to_doc s = Some d ->
  Forall (fun kv => match fst kv with KMonth n => (0 <= n < 1000)%Z | _ => False end) (ct_unc s) ->
  exists s', ct_from_doc_before_f37e6233 d = Some s' /\ unc_lookup (ct_unc s') m = None.
Proof.
  intros s d m Hwf Hd Hk. rewrite (ct_to_doc_native s Hwf) in Hd.
  exists (reloaded_of false s). split; [exact (ct_from_to false s d Hwf Hd)|]. apply unc_lost_months. exact Hk.
Qed.
Print Assumptions C01_regression_string_month_keys_refuted.

Theorem C01_regression_string_month_keys_partial : forall s d, wf_ct s -> ct_to_doc s = Some d ->
  Forall (fun kv => fst kv = KAll) (ct_unc s) ->
  exists s', ct_from_doc_before_f37e6233 d = Some s' /\ ct_unc s' = ct_unc s.
Proof.
  intros s d Hwf Hd Hk. rewrite (ct_to_doc_native s Hwf) in Hd.
  exists (reloaded_of false s). split; [exact (ct_from_to false s d Hwf Hd)|]. apply unc_restored_all. exact Hk.
Qed.
Print Assumptions C01_regression_string_month_keys_partial.

(* regression witness (finding C01-K3, fixed by 3d0f44c1): a serialiser that needs .json() on every object cannot write
   a reloaded model that carries metrics *)
Theorem C01_regression_objects_serialiser_refuted : forall r s x l, ct_totals s = MNative (x :: l) ->
  ct_to_doc_objects (reloaded_of r s) = None.
Proof. exact ct_reserialise_fails. Qed.
Print Assumptions C01_regression_objects_serialiser_refuted.

(* witness: one fitted segment, month-keyed uncertainty inputs, metrics *)
Definition ct_witness : ct_state :=
  {| ct_status := "SUCCEEDED"; ct_method := "caltrack_hourly";
     ct_segments := [{| sg_name := "dec-jan-feb-weighted";
                        sg_formula := Some "meter_value ~ C(hour_of_week) - 1 + bin_0_occupied";
                        sg_params := [("C(hour_of_week)[0]", 1.5%float); ("bin_0_occupied", 0.25%float)];
                        sg_warnings := WTyped [] |}];
     ct_pred_type := "one_month"; ct_mapping := Some month_mapping;
     ct_processor := "caltrack_hourly_prediction_feature_processor";
     ct_occupancy := "{}"; ct_occ_bins := "{}"; ct_unocc_bins := "{}"; ct_segment_type := "three_month_weighted";
     ct_unc := [(KMonth 1, [("mean_baseline_usage", UFloat 2%float); ("n", UInt 744); ("n_prime", UFloat 700%float);
                            ("MSE", UFloat 0.5%float)]);
                (* a calendar month without baseline rows: NaN statistics *)
                (KMonth 2, [("mean_baseline_usage", UFloat nan); ("n", UInt 0); ("n_prime", UFloat nan);
                            ("MSE", UFloat nan)])];
     ct_warnings := WTyped []; ct_metadata := JObj []; ct_settings := JObj [];
     ct_totals := MNative [("dec-jan-feb-weighted", JObj [("rmse", JNum 0.5%float)])]; ct_avgs := MNone |}.

Lemma ct_witness_wf : wf_ct ct_witness.
Proof. unfold wf_ct, ct_witness. cbn. repeat split; repeat constructor. Qed.

(* regression witness (seeded change C01-3): a serialiser that writes the non-finite statistics as null. The document
   still reads back and re-serialises to itself, but the entry of the month without baseline rows now holds nulls:
   the original evaluates the uncertainty expression on it (NaN), the reloaded model raises TypeError *)
Theorem C01_regression_nan_as_null_refuted :
  option_map arith_ok (unc_lookup (ct_unc ct_witness) 2) = Some true /\
  exists d s', ct_to_doc_nan_as_null ct_witness = Some d /\ ct_from_doc d = Some s' /\
               option_map arith_ok (unc_lookup (ct_unc s') 2) = Some false /\
               ct_to_doc s' = Some d /\
               (* as coded, the same month keeps its NaN *)
               (exists d0 s0, ct_to_doc ct_witness = Some d0 /\ ct_from_doc d0 = Some s0 /\
                              option_map arith_ok (unc_lookup (ct_unc s0) 2) = Some true).
Proof.
  split; [vm_compute; reflexivity|]. eexists. eexists. split; [vm_compute; reflexivity|].
  split; [vm_compute; reflexivity|]. split; [vm_compute; reflexivity|]. split; [vm_compute; reflexivity|].
  eexists. eexists. split; [vm_compute; reflexivity|]. split; vm_compute; reflexivity.
Qed.
Print Assumptions C01_regression_nan_as_null_refuted.

Example C01_caltrack_nonvacuous :
  wf_ct ct_witness /\ month_keys (ct_unc ct_witness) /\ (exists d, ct_to_doc ct_witness = Some d) /\
  unc_lookup (ct_unc ct_witness) 1 <> None /\
  (* the two regression models do fail on it *)
  (exists d s', ct_to_doc ct_witness = Some d /\ ct_from_doc_before_f37e6233 d = Some s' /\ unc_lookup (ct_unc s') 1 = None) /\
  (exists d s', ct_to_doc ct_witness = Some d /\ ct_from_doc d = Some s' /\ ct_to_doc_objects s' = None /\ ct_to_doc s' = Some d).
Proof.
  split; [exact ct_witness_wf|]. split; [repeat constructor; cbn; discriminate|].
  split; [eexists; vm_compute; reflexivity|]. split; [vm_compute; discriminate|].
  split; eexists; eexists; repeat split; vm_compute; reflexivity.
Qed.
