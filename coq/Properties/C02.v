(* C02 — using a model or a data object never changes it (no hidden side effects).
   Models: Model/HourlyState.v (the hourly model as a state machine over the fields predict touches),
   Model/Store.v (caller-owned frames, private frames of data objects and hand-outs as locations; list ownership in
   fit), Model/Gate.v (life cycle of daily / billing / hourly model objects, shared with C04).
   Which side-effecting statements the source contains is a configuration read from the source on every run
   (Generated/C02Gen.v); every statement below is proved for ALL configurations: it holds exactly for those without
   the offending statements, and the configuration of the code as it was found (`ascoded_cfg`: all three hourly
   statements present; `caltrack_ascoded`) refutes it — the witnesses are replayed on the implementation by
   harness/c02.py from corpus/C02.json (findings C02-K1..K9; K1/K2 were repaired in /repo by 6b499d87, after which the
   generated configuration has assigns_back = false and the check no longer reports them).
   PARTIAL: whether a pandas operation returns a view or a copy is runtime behaviour the models cannot exhibit;
   they state ownership, the harness observes real in-place writes. *)
From Coq Require Import ZArith List Bool.
From V Require Import Model.Gate Model.HourlyState Model.Store Model.Objects.
From V Require Import Proofs.GateProofs Proofs.SideEffectProofs Proofs.HourlyStateProofs Proofs.StoreProofs Proofs.ObjectsProofs.
Import ListNotations.

(* ================= predict() never alters a fitted model; its result does not depend on earlier predictions ===== *)

(* hourly model — full statements, for a configuration cfg of the source *)
Definition C02_predict_pure_statement (cfg : hcfg) : Prop :=
  forall fill s d, abs (fst (predict_step cfg fill s d)) = abs s /\
                   snd (predict_step cfg fill s d) = spec_predict fill s d.

Definition C02_history_independent_statement (cfg : hcfg) : Prop :=
  forall s ops d fill, snd (predict_step cfg fill (hrun cfg s ops) d) = snd (predict_step cfg fill s d).

(* refinement to the pure specification when none of the three assignments is in the source *)
Theorem C02_predict_pure : C02_predict_pure_statement pure_cfg.
Proof. exact predict_pure_l. Qed.
Print Assumptions C02_predict_pure.

Theorem C02_history_independent : C02_history_independent_statement pure_cfg.
Proof. exact history_independent_pure. Qed.
Print Assumptions C02_history_independent.

(* ... and only then: each of the three statements alone breaks it *)
Theorem C02_predict_pure_iff : forall cfg, C02_predict_pure_statement cfg <->
  (assigns_back cfg = false /\ appends_warning cfg = false /\ extends_features cfg = false /\ writes_other_state cfg = false).
Proof. exact predict_pure_iff. Qed.
Print Assumptions C02_predict_pure_iff.

Theorem C02_history_independent_iff : forall cfg, C02_history_independent_statement cfg <->
  (assigns_back cfg = false /\ extends_features cfg = false /\ writes_other_state cfg = false).
Proof. exact history_independent_iff. Qed.
Print Assumptions C02_history_independent_iff.

(* a cache or any other state outside the document that the fitted-predict path writes (seeded change C02-6: a lookup of
   repaired tables keyed by the month/day combinations only): to_json() stays the same, but neither statement survives *)
Definition memo_cfg : hcfg :=
  {| assigns_back := false; appends_warning := false; extends_features := false; writes_other_state := true |}.
Theorem C02_unmodelled_state_write_refuted :
  ~ C02_predict_pure_statement memo_cfg /\ ~ C02_history_independent_statement memo_cfg.
Proof.
  split; intros H.
  - apply C02_predict_pure_iff in H. destruct H as (_ & _ & _ & H). discriminate.
  - apply C02_history_independent_iff in H. destruct H as (_ & _ & H). discriminate.
Qed.
Print Assumptions C02_unmodelled_state_write_refuted.

(* the code as found (all three present) violates both; the witnesses: a table learned for January and February, a
   January week predicted first, then January+February without observed usage (the February label is forward-filled
   from January instead of the fitted one) *)
Theorem C02_predict_pure_ascoded_refuted : ~ C02_predict_pure_statement ascoded_cfg.
Proof. intros H. apply C02_predict_pure_iff in H. destruct H as [H _]. discriminate. Qed.
Print Assumptions C02_predict_pure_ascoded_refuted.

Theorem C02_history_independent_ascoded_refuted :
  snd (predict_step ascoded_cfg w_fill (hrun ascoded_cfg w_state [HPredict w_jan w_fill]) w_janfeb) =
    HPred 3 [((1, 0), Some 0); ((2, 0), Some 0)]%Z 0%Z /\
  snd (predict_step ascoded_cfg w_fill w_state w_janfeb) = HPred 3 [((1, 0), Some 0); ((2, 0), Some 1)]%Z 0%Z /\
  clusters (hrun ascoded_cfg w_state [HPredict w_jan w_fill]) = [((1, 0), Some 0)]%Z /\
  ~ C02_history_independent_statement ascoded_cfg.
Proof.
  split; [vm_compute; reflexivity|]. split; [vm_compute; reflexivity|]. split; [vm_compute; reflexivity|].
  intros H. apply C02_history_independent_iff in H. destruct H as [H _]. discriminate.
Qed.
Print Assumptions C02_history_independent_ascoded_refuted.

(* what every configuration satisfies: a reporting set that covers exactly the fitted (month, day) combinations
   (a full year), without a GHI column the model ignores and without a new supplemental column, leaves the model alone *)
Theorem C02_predict_covering_partial : forall cfg fill s d, writes_other_state cfg = false -> covers s d -> next_state cfg fill s d = s.
Proof. exact covering_next_state. Qed.
Print Assumptions C02_predict_covering_partial.

(* the warning list alone does not influence later predictions *)
Theorem C02_history_independent_partial : forall cfg s ops d fill,
  assigns_back cfg = false -> extends_features cfg = false -> writes_other_state cfg = false ->
  snd (predict_step cfg fill (hrun cfg s ops) d) = snd (predict_step cfg fill s d).
Proof. exact history_independent_guarded. Qed.
Print Assumptions C02_history_independent_partial.

(* the table a call works with never contains a cluster label fit did not learn, in all three branches (nothing
   missing / nearest profile, given the oracle's contract: it returns a label of a known row / unstack-ffill-bfill-stack) *)
Theorem C02_corrected_no_new_label : forall fill t d t',
  (forall c, In (fill c) (labels_of (reindex t (ds_combos d)))) ->
  corrected fill t d = Some t' -> incl (labels_of t') (labels_of t).
Proof. exact corrected_no_new_label. Qed.
Print Assumptions C02_corrected_no_new_label.

(* daily / billing (and the gate part of hourly): predict is the identity on the model object, and after any history of
   predictions and store/load cycles the outcome is that of the fresh object *)
Theorem C02_gate_predict_pure : forall poor f s d i, fst (Gate.step poor f s (OPredict d i)) = s.
Proof. exact gate_predict_pure. Qed.
Print Assumptions C02_gate_predict_pure.

Theorem C02_gate_history_independent : forall poor f ops s d i, no_fit ops = true ->
  predict f (fst (Gate.run poor f s ops)) d i = predict f s d i.
Proof. exact gate_history_independent. Qed.
Print Assumptions C02_gate_history_independent.

(* ================= several model objects in one process: "all interleavings with fits of other meters" =========== *)

(* fitting, using or storing other model objects never changes what an object serialises to *)
Definition C02_other_objects_statement (g : sharing) : Prop :=
  forall ops w j y, nth_error (w_objs w) j = Some y -> (forall v, ~ In (WFit j v) ops) ->
  serial g (wrun g w ops) j = serial g w j.

Theorem C02_other_objects_untouched : C02_other_objects_statement no_sharing.
Proof. exact (others_unchanged_l no_sharing (fun _ => eq_refl)). Qed.
Print Assumptions C02_other_objects_untouched.

(* ... exactly when no model class keeps per-fit state in a class-level container that instances fill in place *)
Theorem C02_other_objects_iff : forall g, C02_other_objects_statement g <-> (forall c, g c = None).
Proof. exact others_unchanged_iff. Qed.
Print Assumptions C02_other_objects_iff.

(* a class-level `error = {...}` on DailyModel (BillingModel inherits it): fitting a billing model on another meter
   rewrites the document of a daily model that is only being used (seeded change C02-3) *)
Definition daily_error_at_class_level (c : mclass) : option mclass :=
  match c with MDaily | MBilling => Some MDaily | MHourly => None end.

Theorem C02_other_objects_class_level_refuted :
  (let w := wrun daily_error_at_class_level {| w_objs := []; w_class := fun _ => 0%Z |}
                 [WNew MDaily; WFit 0 1%Z; WNew MBilling] in
   serial daily_error_at_class_level w 0 = Some 1%Z /\
   serial daily_error_at_class_level (wrun daily_error_at_class_level w [WFit 1 2%Z; WPredict 0]) 0 = Some 2%Z) /\
  ~ C02_other_objects_statement daily_error_at_class_level.
Proof.
  split; [vm_compute; split; reflexivity|].
  intros H. pose proof (proj1 (C02_other_objects_iff daily_error_at_class_level) H MDaily) as Q. discriminate Q.
Qed.
Print Assumptions C02_other_objects_class_level_refuted.

Example C02_nonvacuous_objects :
  let w := wrun no_sharing {| w_objs := []; w_class := fun _ => 0%Z |}
                [WNew MDaily; WFit 0 1%Z; WNew MBilling; WFit 1 2%Z; WPredict 0; WNew MDaily; WFit 2 3%Z; WStore 1] in
  serial no_sharing w 0 = Some 1%Z /\ serial no_sharing w 1 = Some 2%Z /\ serial no_sharing w 2 = Some 3%Z.
Proof. vm_compute. repeat split; reflexivity. Qed.

(* ================= fit() and predict() never modify the data objects; the data classes never modify the caller's
   frames; frames handed out are independent copies ================= *)

Definition C02_caller_frames_statement (g : cfg) : Prop :=
  forall ops s l f, content s l = Some f -> (forall v, ~ In (SMutate l v) ops) -> content (Store.run g s ops) l = Some f.

Definition C02_objects_statement (g : cfg) : Prop :=
  forall ops s l x, wf s -> nth_error (cells s) l = Some x -> is_obj (own x) = true ->
  content (Store.run g s ops) l = Some (val x).

(* a frame (of the caller, of an object, handed out) that the caller does not write into itself is never changed by
   constructors, from_series, .df, fit, predict — exactly when no constructor writes into its argument *)
Theorem C02_caller_frames_untouched : forall g, ctors_copy g -> C02_caller_frames_statement g.
Proof. exact caller_frames_untouched_l. Qed.
Print Assumptions C02_caller_frames_untouched.

Theorem C02_caller_frames_iff : forall g, C02_caller_frames_statement g <-> ctors_copy g.
Proof. exact caller_frames_iff. Qed.
Print Assumptions C02_caller_frames_iff.

(* the private frame of a data object is never changed, whatever the caller does with the frames it holds —
   exactly when EVERY frame accessor of every data class (.df, .billing_df, any other) builds a new copy at each access *)
Theorem C02_objects_untouched : forall g, df_copies g -> C02_objects_statement g.
Proof. exact objects_untouched_l. Qed.
Print Assumptions C02_objects_untouched.

Theorem C02_objects_iff : forall g, C02_objects_statement g <-> df_copies g.
Proof. exact objects_iff. Qed.
Print Assumptions C02_objects_iff.

(* `.df` creates a new location holding the same content; writing into one location changes no other *)
Theorem C02_handout_is_fresh : forall g s a o x c, nth_error (cells s) o = Some x -> own x = Obj c -> handout_copies (g c) a = true ->
  content (Store.step g s (SDf a o)) (length (cells s)) = Some (val x) /\
  In (length (cells s)) (held (Store.step g s (SDf a o))) /\
  forall l, l < length (cells s) -> content (Store.step g s (SDf a o)) l = content s l.
Proof. exact df_fresh. Qed.
Print Assumptions C02_handout_is_fresh.

Theorem C02_write_changes_one_location : forall g s l v m, m <> l -> m < length (cells s) ->
  content (Store.step g s (SMutate l v)) m = content s m.
Proof. exact mutate_only_target. Qed.
Print Assumptions C02_write_changes_one_location.

Theorem C02_fit_predict_write_no_frame : forall g s o l, l < length (cells s) ->
  content (Store.step g s (SPredict o)) l = content s l /\ content (Store.step g s (SFit o)) l = content s l.
Proof. exact use_writes_nothing. Qed.
Print Assumptions C02_fit_predict_write_no_frame.

(* the code as it is: the CalTRACK hourly data classes write into the frame they are given and expose their frame as
   a plain attribute; the other six classes copy *)
Definition caltrack_ascoded (c : dclass) : ccfg :=
  match c with
  | CaltrackB | CaltrackR => {| init_writes_arg := true; series_writes_arg := false; handout_copies := fun _ => false |}
  | _ => safe_ccfg
  end.

Theorem C02_caller_frames_caltrack_refuted :
  content (Store.run caltrack_ascoded empty [SNew zf; SInit CaltrackB true 0]) 0 <> Some zf /\
  ~ C02_caller_frames_statement caltrack_ascoded.
Proof.
  split; [vm_compute; discriminate|].
  intros H. apply C02_caller_frames_iff in H. destruct (H CaltrackB) as [H1 _]. discriminate.
Qed.
Print Assumptions C02_caller_frames_caltrack_refuted.

Theorem C02_objects_caltrack_refuted :
  content (Store.run caltrack_ascoded (with_object caltrack_ascoded CaltrackR) [SDf ADf 1; SMutate 1 7%Z]) 1 <>
    content (with_object caltrack_ascoded CaltrackR) 1 /\
  ~ C02_objects_statement caltrack_ascoded.
Proof.
  split; [vm_compute; discriminate|].
  intros H. pose proof (proj1 (C02_objects_iff caltrack_ascoded) H CaltrackR ADf) as Q. discriminate Q.
Qed.
Print Assumptions C02_objects_caltrack_refuted.

(* a second accessor turned into a cached property (billing_df computed once, the same stored frame handed out at every
   access; `.df` still copies): the caller's write into what it was handed changes the data object (seeded change C02-4) *)
Definition billing_df_cached (c : dclass) : ccfg :=
  match c with
  | BillingB | BillingR =>
      {| init_writes_arg := false; series_writes_arg := false;
         handout_copies := fun a => match a with ABillingDf => false | _ => true end |}
  | _ => safe_ccfg
  end.

Theorem C02_objects_cached_accessor_refuted :
  content (Store.run billing_df_cached (with_object billing_df_cached BillingR) [SDf ABillingDf 1; SMutate 1 7%Z]) 1 <>
    content (with_object billing_df_cached BillingR) 1 /\
  content (Store.run billing_df_cached (with_object billing_df_cached BillingR) [SDf ADf 1; SMutate 2 7%Z]) 1 =
    content (with_object billing_df_cached BillingR) 1 /\
  ~ C02_objects_statement billing_df_cached.
Proof.
  split; [vm_compute; discriminate|]. split; [vm_compute; reflexivity|].
  intros H. pose proof (proj1 (C02_objects_iff billing_df_cached) H BillingR ABillingDf) as Q. discriminate Q.
Qed.
Print Assumptions C02_objects_cached_accessor_refuted.

(* fit(): the model takes over the data object's warning / disqualification lists; the poor-fit disqualification
   appended afterwards reaches the data object exactly when the lists are shared instead of copied
   (defect D12, repaired in /repo by f4c9015e: `copies = true` today) *)
Definition C02_fit_does_not_write_data_statement (copies : bool) : Prop :=
  forall poor data, l_data (fit_lists copies poor data) = data.

Theorem C02_fit_does_not_write_data : C02_fit_does_not_write_data_statement true.
Proof. exact fit_lists_copy_keeps_data. Qed.
Print Assumptions C02_fit_does_not_write_data.

Theorem C02_fit_does_not_write_data_iff : forall copies, C02_fit_does_not_write_data_statement copies <-> copies = true.
Proof. exact fit_lists_iff. Qed.
Print Assumptions C02_fit_does_not_write_data_iff.

Theorem C02_fit_lists_agree_with_gate : forall poor f s d i copies, snd (fit poor f s d i) = Fitted ->
  m_dq (fst (fit poor f s d i)) = l_model (fit_lists copies (poor d) (d_dq d)).
Proof. exact fit_lists_agree_with_gate. Qed.
Print Assumptions C02_fit_lists_agree_with_gate.

(* ================= non-vacuity ================= *)

(* a fitted table of 2 months x 2 days; a reporting set covering it is `covers`; a January week is not *)
Definition ex_state : hstate :=
  {| clusters := [((1, 0), Some 0); ((1, 5), Some 1); ((2, 0), Some 0); ((2, 5), Some 2)]%Z;
     ts_features := [TEMPERATURE]; warnings := [5%Z]; hidden := 0%Z |}.
Definition ex_full : dsum :=
  {| ds_id := 9; ds_combos := [(1, 0); (1, 5); (2, 0); (2, 5)]%Z; ds_observed := true; ds_columns := [TEMPERATURE];
     ds_supp := []; ds_late_exc := false |}.
Definition ex_week : dsum :=
  {| ds_id := 8; ds_combos := [(1, 5); (3, 0)]%Z; ds_observed := false; ds_columns := [TEMPERATURE; GHI];
     ds_supp := []; ds_late_exc := false |}.

Example C02_nonvacuous_hourly :
  covers ex_state ex_full /\
  next_state ascoded_cfg w_fill ex_state ex_full = ex_state /\
  (* a week with a month fit never saw, without observed usage: the table is replaced by the 2 x 2 grid filled from
     the one known cell, the GHI warning is appended; the pure configuration computes the same prediction and keeps the model *)
  next_state ascoded_cfg w_fill ex_state ex_week =
    {| clusters := [((1, 0), Some 1); ((1, 5), Some 1); ((3, 0), Some 1); ((3, 5), Some 1)]%Z;
       ts_features := [TEMPERATURE]; warnings := [5; MISMATCH_WARNING]%Z; hidden := 0%Z |} /\
  next_state pure_cfg w_fill ex_state ex_week = ex_state /\
  predict_out ascoded_cfg w_fill ex_state ex_week = HPred 8 [((1, 5), Some 1); ((3, 0), Some 1)]%Z 0%Z /\
  predict_out pure_cfg w_fill ex_state ex_week = predict_out ascoded_cfg w_fill ex_state ex_week.
Proof.
  split.
  - unfold covers. split; [|split; [reflexivity|split; [reflexivity|split; [discriminate|reflexivity]]]].
    cbn. repeat (constructor; [cbn; intuition congruence|]). constructor.
  - split; [vm_compute; reflexivity|]. split; [vm_compute; reflexivity|]. split; [vm_compute; reflexivity|].
    split; vm_compute; reflexivity.
Qed.

Example C02_nonvacuous_store :
  (* a caller frame with zero readings -> a daily baseline object (copying class) -> .df -> the caller writes into the
     hand-out and into its own frame: the object's frame stays; with the CalTRACK class the constructor already changed
     the caller's frame *)
  let ops := [SNew zf; SInit DailyB true 0; SDf ADf 1; SMutate 2 9%Z; SMutate 0 8%Z; SPredict 1] in
  let s := Store.run (fun _ => safe_ccfg) empty ops in
  content s 1 = Some (normalise DailyB true zf) /\ content s 0 = Some (bump zf 8%Z) /\
  content s 2 = Some (bump (normalise DailyB true zf) 9%Z) /\ content s 3 = Some (normalise DailyB true zf) /\
  wf s /\ ctors_copy (fun _ => safe_ccfg) /\ df_copies (fun _ => safe_ccfg) /\
  content (Store.run caltrack_ascoded empty [SNew zf; SInit CaltrackB true 0]) 0 = Some (normalise CaltrackB true zf).
Proof.
  cbv zeta. split; [vm_compute; reflexivity|]. split; [vm_compute; reflexivity|]. split; [vm_compute; reflexivity|].
  split; [vm_compute; reflexivity|]. split.
  { intros l Hl. vm_compute in Hl. destruct Hl as [<-|[<-|[<-|[]]]]; vm_compute; eauto. }
  split; [intros c; split; reflexivity|]. split; [intros c a; reflexivity|]. vm_compute; reflexivity.
Qed.

Example C02_nonvacuous_gate :
  let d := {| d_id := 1; d_kind := Baseline Daily; d_dq := []; d_tz := 3; d_ghi := false |}%Z in
  let r := {| d_id := 2; d_kind := Reporting Daily; d_dq := []; d_tz := 3; d_ghi := false |}%Z in
  let s := fst (Gate.run (fun _ => false) Daily (unfitted false) [OFit d false]) in
  fitted s = true /\ no_fit [OPredict r false; OReload; OPredict d false] = true /\
  predict Daily (fst (Gate.run (fun _ => false) Daily s [OPredict r false; OReload; OPredict d false])) r false = Frame /\
  l_data (fit_lists false true [4%Z]) = [4%Z; POOR_FIT].
Proof. vm_compute. repeat split; reflexivity. Qed.
