(* C12 -- stub while the correspondence is being calibrated *)
From Coq Require Import Reals.
From V Require Import Model.Num Model.NumR Model.DailyCurve Model.Refine Proofs.RefineProofs.
