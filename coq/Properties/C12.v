(* C12 — every fitted daily/billing model is physically admissible and well formed.   (PARTIAL, see below)

   Statements only.  Model: Model/Refine.v on top of Model/DailyCurve.v, here at the real-number instance [RNum];
   lemmas: Proofs/RefineProofs.v.  The same text at binary64 ([FNum]) is what harness/c12.py runs against the
   real OptimizedResult objects.

   What is and is not covered
     * modelled: everything between the optimiser's return value and the stored document:
       get_full_model_x / fix_full_model_x, get_k, reduce_model (incl. its recursive collapse), _set_model_key,
       ModelCoefficients.from_np_arrays, the construction of the optimiser's box (the three update_bnds functions), the curve the
       objective scored and the curve of the stored coefficients (OptimizedResult.eval / _predict_submodel);
     * NOT modelled (PARTIAL): the optimiser.  Theorems quantify over EVERY vector of the box ([box_spec]); that NLopt
       returns such a vector is a contract checked on the sampled fits only (hook: _verif_x_raw in _verif_bnds).
       Finiteness of the coefficients and the uncertainty f_unc are checked by the oracle on samples only;
     * fix_identical_bnds is modelled as coded (symmetric widening of identical bounds by 10 ** OoM); the theorems
       about the box hold for every start vector, degenerate rows included. *)
From Coq Require Import Reals Lra List Bool PrimFloat.
From V Require Import Model.Num Model.NumR Model.NumF Model.DailyCurve Model.DailyCurveRun Model.Refine
                      Proofs.DailyCurveProofs Proofs.RefineProofs.
Import ListNotations.
Local Open Scope R_scope.

Notation lo := R_ln_min.
Notation hi := R_ln_max.
Definition Hlo : lo <= 0 := proj1 R_ln_bounds.
Definition Hhi : 0 <= hi := proj2 R_ln_bounds.
Notation tcR := (Build_tconstr RNum).

Print box_spec.
Print wellformed.

(* ------------------------------------------------------------------ the full statement *)

(* "the coefficients kept describe the same curve the optimiser scored", on the fitted temperature range *)
Definition readback_ok (key : model_key) (raw : list R) (Tmin Tmax Tminseg Tmaxseg : R) : Prop :=
  forall T, Tmin <= T <= Tmax ->
    stored_curve RNum key raw (tcR Tmin Tmax Tminseg Tmaxseg) T = scored_curve RNum key raw (tcR Tmin Tmax Tminseg Tmaxseg) T.

Definition C12_statement : Prop :=
  forall Tmin Tmax Tminseg Tmaxseg qlo qhi key raw,
    bounds_ok lo hi (tcR Tmin Tmax Tminseg Tmaxseg) ->
    box_spec Tmin Tmax qlo qhi key raw ->
    (exists c, named_coeffs RNum key raw (tcR Tmin Tmax Tminseg Tmaxseg) = Some c /\
               wellformed lo hi Tmin Tmax Tminseg Tmaxseg qlo qhi c) /\
    readback_ok key raw Tmin Tmax Tminseg Tmaxseg.

(* ------------------------------------------------------------------ admissibility: proved for every vector of the box *)

(* heating balance point not above the cooling one, both inside the observed temperature range, slope signs,
   every declared slope non-zero, non-negative smoothing, base load within the usage quantiles, model type agreeing
   with the coefficients present *)
Theorem C12_refine_admissible : forall Tmin Tmax Tminseg Tmaxseg qlo qhi,
  bounds_ok lo hi (tcR Tmin Tmax Tminseg Tmaxseg) ->
  forall key raw, box_spec Tmin Tmax qlo qhi key raw ->
  exists c, named_coeffs RNum key raw (tcR Tmin Tmax Tminseg Tmaxseg) = Some c /\
            wellformed lo hi Tmin Tmax Tminseg Tmaxseg qlo qhi c.
Proof. exact (refine_admissible lo hi). Qed.
Print Assumptions C12_refine_admissible.

(* the box the fit functions construct implies box_spec.  fix_identical_bnds is modelled AS CODED
   (Model/Refine.v: fix_identical_row -- identical bounds are widened symmetrically by 10 ** OoM, so [0,0] -> [-10,10]);
   [Tlo,Thi] is [T_min_seg,T_max_seg] (final fit) or [T_min,T_max] (initial fit); the slope / smoothing rows r1.. of the
   start box and nb (get_bnds(x0)) are ARBITRARY: zero slopes, zero k, identical, reversed or negative rows included *)
Print fix_identical_row.
Print oom_width.

(* whatever the start vector: the lower end of every slope / smoothing row handed to the optimiser is >= 0
   (this is the order "sort, widen identical rows, THEN clamp at 0" of _hdd_tidd_cdd_smooth_update_bnds) *)
Theorem C12_slope_rows_nonneg_full_smooth : forall (nb b0 B : list (R * R)),
  update_bnds_full_smooth RNum (fix_identical_row RNum) nb b0 = Some B ->
  exists r0 r1 r2 r3 r4 r5 r6 : R * R,
    B = [r0; r1; r2; r3; r4; r5; r6] /\ 0 <= fst r1 /\ 0 <= fst r2 /\ 0 <= fst r4 /\ 0 <= fst r5.
Proof. exact (slope_rows_nonneg_full_smooth lo hi). Qed.
Print Assumptions C12_slope_rows_nonneg_full_smooth.

Theorem C12_slope_rows_nonneg_full : forall (nb b0 B : list (R * R)),
  update_bnds_full RNum (fix_identical_row RNum) nb b0 = Some B ->
  exists r0 r1 r2 r3 r4 : R * R, B = [r0; r1; r2; r3; r4] /\ 0 <= fst r1 /\ 0 <= fst r3.
Proof. exact (slope_rows_nonneg_full lo hi). Qed.
Print Assumptions C12_slope_rows_nonneg_full.

Theorem C12_k_row_nonneg_c_smooth : forall (nb b0 B : list (R * R)),
  update_bnds_c_smooth RNum (fix_identical_row RNum) nb b0 = Some B ->
  exists r0 r1 r2 r3 : R * R, B = [r0; r1; r2; r3] /\ 0 <= fst r2.
Proof. exact (k_row_nonneg_c_smooth lo hi). Qed.
Print Assumptions C12_k_row_nonneg_c_smooth.

(* non-vacuity on the degenerate pattern that matters: both initial slopes zero, rows [0,0] *)
Example ex_degenerate_slope_rows :
  update_bnds_full_smooth RNum (fix_identical_row RNum)
    [(14, 85); (0, 0); (0, 1); (14, 85); (0, 0); (0, 1); (0, 100)]
    [(14, 85); (0, 0); (0, 1); (14, 85); (0, 0); (0, 1); (0, 100)]
  = Some [(14, 85); (0, 0 + 10); (0, 1); (14, 85); (0, 0 + 10); (0, 1); (0, 100)].
Proof.
  unfold update_bnds_full_smooth, fix_identical_row, sort_row, clip_lower_0, oom_width, n_ten, n_two. cbn.
  unfold Rltb, Reqb.
  repeat (match goal with
          | |- context [Rlt_dec ?a ?b] => destruct (Rlt_dec a b)
          | |- context [Req_EM_T ?a ?b] => destruct (Req_EM_T a b)
          end; cbn [fst snd] in *; try lra).
  repeat f_equal; lra.
Qed.

Theorem C12_box_sound_full_smooth : forall Tmin Tmax qlo qhi Tlo Thi,
  Tmin <= Tlo /\ Tlo <= Thi /\ Thi <= Tmax -> qlo < qhi ->
  forall nb r1 r2 r4 r5 B raw, Tlo < Thi ->
  update_bnds_full_smooth RNum (fix_identical_row RNum) nb [(Tlo, Thi); r1; r2; (Tlo, Thi); r4; r5; (qlo, qhi)] = Some B ->
  in_box RNum B raw = true -> box_spec Tmin Tmax qlo qhi KFullSmooth raw.
Proof. exact (box_sound_full_smooth_coded lo hi). Qed.
Print Assumptions C12_box_sound_full_smooth.

Theorem C12_box_sound_full : forall Tmin Tmax qlo qhi Tlo Thi,
  Tmin <= Tlo /\ Tlo <= Thi /\ Thi <= Tmax -> qlo < qhi ->
  forall nb r1 r3 B raw, Tlo < Thi ->
  update_bnds_full RNum (fix_identical_row RNum) nb [(Tlo, Thi); r1; (Tlo, Thi); r3; (qlo, qhi)] = Some B ->
  in_box RNum B raw = true -> box_spec Tmin Tmax qlo qhi KFull raw.
Proof. exact (box_sound_full_coded lo hi). Qed.
Print Assumptions C12_box_sound_full.

(* one-sided layouts, including the pinned balance point (Tlo = Thi) *)
Theorem C12_box_sound_c_smooth : forall Tmin Tmax qlo qhi Tlo Thi,
  Tmin <= Tlo /\ Tlo <= Thi /\ Thi <= Tmax -> qlo < qhi ->
  forall nb r1 r2 B raw,
  update_bnds_c_smooth RNum (fix_identical_row RNum) nb [(Tlo, Thi); r1; r2; (qlo, qhi)] = Some B ->
  in_box RNum B raw = true -> box_spec Tmin Tmax qlo qhi KCSmooth raw.
Proof. exact (box_sound_c_smooth_coded lo hi). Qed.
Print Assumptions C12_box_sound_c_smooth.

Theorem C12_box_sound_c : forall Tmin Tmax qlo qhi Tlo Thi,
  Tmin <= Tlo /\ Tlo <= Thi /\ Thi <= Tmax -> qlo < qhi ->
  forall nb r1 B raw,
  update_bnds_c RNum (fix_identical_row RNum) nb [(Tlo, Thi); r1; (qlo, qhi)] = Some B ->
  in_box RNum B raw = true -> box_spec Tmin Tmax qlo qhi KC raw.
Proof. exact (box_sound_c_coded lo hi). Qed.
Print Assumptions C12_box_sound_c.

Theorem C12_box_sound_tidd : forall Tmin Tmax qlo qhi, qlo < qhi ->
  forall B raw,
  update_bnds_tidd RNum (fix_identical_row RNum) [(qlo, qhi)] = Some B ->
  in_box RNum B raw = true -> box_spec Tmin Tmax qlo qhi KTidd raw.
Proof. exact (box_sound_tidd_coded lo hi). Qed.
Print Assumptions C12_box_sound_tidd.

Definition Ftc (a b c d : float) : tconstr FNum := Build_tconstr FNum a b c d.

(* ------------------------------------------------------------------ the recorded temperature limits (get_T_bnds) *)

(* utilities/base_model.py get_T_bnds is in the model (Model/Refine.v: insertion sort + order statistics) and compared with
   the implementation on synthetic arrays and on the temperatures of every fitted component.  Proved for EVERY list of
   fitted temperatures T and every segment_minimum_count n: *)
Print get_T_bnds.

(* T_min <= T_min_seg <= T_max_seg <= T_max as soon as the two outer segments do not overlap (2 n <= number of days):
   this is the [bounds_ok] hypothesis of the theorems above, now derived from the data *)
Theorem C12_recorded_limits_ordered : forall (T : list R) n tc, get_T_bnds RNum T n = Some tc -> (2 * n <= length T)%nat ->
  bounds_ok lo hi tc.
Proof. exact (get_T_bnds_ordered lo hi). Qed.
Print Assumptions C12_recorded_limits_ordered.

(* every recorded limit is the temperature of a fitted day, and T_min / T_max bound all of them *)
Theorem C12_recorded_limits_are_fitted_days : forall (T : list R) n tc, get_T_bnds RNum T n = Some tc ->
  In (T_min tc) T /\ In (T_max tc) T /\ In (T_min_seg tc) T /\ In (T_max_seg tc) T.
Proof. exact (get_T_bnds_members lo hi). Qed.
Print Assumptions C12_recorded_limits_are_fitted_days.

Theorem C12_recorded_limits_bound_the_days : forall (T : list R) n tc, get_T_bnds RNum T n = Some tc ->
  forall t, In t T -> T_min tc <= t <= T_max tc.
Proof. exact (get_T_bnds_range lo hi). Qed.
Print Assumptions C12_recorded_limits_bound_the_days.

(* admissibility with NO hypothesis on the limits: they are computed from the fitted days *)
Theorem C12_fitted_component_admissible : forall (T : list R) n tc qlo qhi key raw,
  get_T_bnds RNum T n = Some tc -> (2 * n <= length T)%nat ->
  box_spec (T_min tc) (T_max tc) qlo qhi key raw ->
  exists c, named_coeffs RNum key raw tc = Some c /\
            wellformed lo hi (T_min tc) (T_max tc) (T_min_seg tc) (T_max_seg tc) qlo qhi c.
Proof. exact (fitted_component_admissible lo hi). Qed.
Print Assumptions C12_fitted_component_admissible.

(* non-vacuity (binary64, same text): 11 billing periods, segment_minimum_count 3 -> ordered limits *)
Definition periods11 : list float := [33.5; 41; 49; 52.25; 57; 61; 64.5; 68; 71.5; 74; 76.25]%float.
Example ex_limits_11_periods_n3 :
  get_T_bnds FNum periods11 3 = Some (Ftc 33.5 76.25 52.25 71.5).
Proof. vm_compute. reflexivity. Qed.
(* the guard 2 n <= number of days is sharp: with segment_minimum_count 10 on the same 11 periods (what the seeded
   settings change C12-5 produced) T_min_seg = T_max and T_max_seg is the second coldest period: not ordered *)
Example C12_limits_overlap_refuted :
  get_T_bnds FNum periods11 10 = Some (Ftc 33.5 76.25 76.25 41).
Proof. vm_compute. reflexivity. Qed.
(* out of bounds = the ValueError of np.partition *)
Example ex_limits_out_of_bounds : get_T_bnds FNum periods11 11 = None.
Proof. vm_compute. reflexivity. Qed.

(* ------------------------------------------------------------------ read-back: where stored = scored is proved *)

(* When the optimiser's balance points are ordered and STRICTLY inside [T_min_seg, T_max_seg], and a zero slope comes
   with a zero smoothing fraction, the kept coefficients describe exactly the curve that was scored, at every
   temperature (all five coefficient layouts, every reduce_model branch).  Each excluded face of the box has a
   refuted witness below: crossed balance points (H), pinned balance point, balance point on the end of the range
   or of the segment range, zero slope with a smoothing fraction. *)
Theorem C12_readback_eq_scored_full_smooth : forall Tmin Tmax Tminseg Tmaxseg,
  Tmin <= Tminseg /\ Tminseg <= Tmaxseg /\ Tmaxseg <= Tmax ->
  forall hb hbeta ph cb cbeta pc i T : R,
  Tminseg < hb -> hb <= cb -> cb < Tmaxseg -> 0 <= hbeta -> 0 <= cbeta -> 0 <= ph -> 0 <= pc ->
  (hbeta = 0 -> ph = 0) -> (cbeta = 0 -> pc = 0) ->
  stored_curve RNum KFullSmooth [hb; hbeta; ph; cb; cbeta; pc; i] (tcR Tmin Tmax Tminseg Tmaxseg) T =
  scored_curve RNum KFullSmooth [hb; hbeta; ph; cb; cbeta; pc; i] (tcR Tmin Tmax Tminseg Tmaxseg) T.
Proof. exact (readback_full_smooth lo hi Hlo Hhi). Qed.
Print Assumptions C12_readback_eq_scored_full_smooth.

Theorem C12_readback_eq_scored_full : forall Tmin Tmax Tminseg Tmaxseg,
  Tmin <= Tminseg /\ Tminseg <= Tmaxseg /\ Tmaxseg <= Tmax ->
  forall hb hbeta cb cbeta i T : R,
  Tminseg < hb -> hb <= cb -> cb < Tmaxseg -> 0 <= hbeta -> 0 <= cbeta ->
  stored_curve RNum KFull [hb; hbeta; cb; cbeta; i] (tcR Tmin Tmax Tminseg Tmaxseg) T =
  scored_curve RNum KFull [hb; hbeta; cb; cbeta; i] (tcR Tmin Tmax Tminseg Tmaxseg) T.
Proof. exact (readback_full lo hi Hlo Hhi). Qed.
Print Assumptions C12_readback_eq_scored_full.

Theorem C12_readback_eq_scored_c_smooth : forall Tmin Tmax Tminseg Tmaxseg,
  Tmin <= Tminseg /\ Tminseg <= Tmaxseg /\ Tmaxseg <= Tmax ->
  forall bp beta k i T : R, Tminseg < bp -> bp < Tmaxseg -> 0 <= k -> (beta = 0 -> k = 0) ->
  stored_curve RNum KCSmooth [bp; beta; k; i] (tcR Tmin Tmax Tminseg Tmaxseg) T =
  scored_curve RNum KCSmooth [bp; beta; k; i] (tcR Tmin Tmax Tminseg Tmaxseg) T.
Proof. exact (readback_c_smooth lo hi). Qed.
Print Assumptions C12_readback_eq_scored_c_smooth.

Theorem C12_readback_eq_scored_c : forall Tmin Tmax Tminseg Tmaxseg,
  Tmin <= Tminseg /\ Tminseg <= Tmaxseg /\ Tmaxseg <= Tmax ->
  forall bp beta i T : R, Tminseg < bp -> bp < Tmaxseg ->
  stored_curve RNum KC [bp; beta; i] (tcR Tmin Tmax Tminseg Tmaxseg) T =
  scored_curve RNum KC [bp; beta; i] (tcR Tmin Tmax Tminseg Tmaxseg) T.
Proof. exact (readback_c lo hi). Qed.
Print Assumptions C12_readback_eq_scored_c.

Theorem C12_readback_eq_scored_tidd : forall Tmin Tmax Tminseg Tmaxseg i T : R,
  stored_curve RNum KTidd [i] (tcR Tmin Tmax Tminseg Tmaxseg) T =
  scored_curve RNum KTidd [i] (tcR Tmin Tmax Tminseg Tmaxseg) T.
Proof. exact (readback_tidd lo hi). Qed.
Print Assumptions C12_readback_eq_scored_tidd.

Example ex_readback : forall T : R,
  stored_curve RNum KFullSmooth [40; 1; 1/2; 65; 2; 1/4; 20] (tcR 10 90 14 85) T =
  scored_curve RNum KFullSmooth [40; 1; 1/2; 65; 2; 1/4; 20] (tcR 10 90 14 85) T.
Proof.
  intros T. apply C12_readback_eq_scored_full_smooth; try lra; intros; lra.
Qed.

(* ------------------------------------------------------------------ refinement has nothing left to do on what it stores *)

Print stable.

(* rebuilding an OptimizedResult from a stored stable document (to_np_array, model_key) gives the same document back *)
Theorem C12_refine_idempotent : forall Tmin Tmax Tminseg Tmaxseg (c : coeffs RNum),
  stable lo hi Tmin Tmax Tminseg Tmaxseg c ->
  exists arr, to_np_array RNum c = Some arr /\
              named_coeffs RNum (key_of_shape (model_type c)) arr (tcR Tmin Tmax Tminseg Tmaxseg) = Some c.
Proof. exact (refine_idempotent lo hi). Qed.
Print Assumptions C12_refine_idempotent.

Example ex_stable : stable lo hi 10 90 14 85
  (Build_coeffs RNum HddTiddCddSmooth 20 (Some 40) (Some 1) (Some (1/2)) (Some 65) (Some 2) (Some (1/4))).
Proof. unfold stable; cbn. repeat split; try lra; try (right; lra); try (left; lra). Qed.

(* ------------------------------------------------------------------ the pinned one-sided balance point *)

(* fit_c_hdd_tidd gives the optimiser degenerate bounds [T_max, T_max] for the balance point of a building that heats
   over its whole temperature range; the optimiser therefore scores the line through (T_max, intercept);
   reduce_model then stores T_max_seg with the SAME intercept.  On every fitted day at or below T_max_seg the stored
   curve is the scored one shifted down by |beta| (T_max - T_max_seg) > 0 : the kept coefficients do not reproduce the
   fitted values (finding C12-F2).  [bounds_ok] is T_min <= T_min_seg <= T_max_seg <= T_max. *)
Theorem C12_pinned_scored : forall Tmin Tmax Tminseg Tmaxseg beta i T : R, beta < 0 ->
  scored_curve RNum KC [Tmax; beta; i] (tcR Tmin Tmax Tminseg Tmaxseg) T = Some (i + - beta * (Tmax - T)).
Proof. exact (pinned_scored lo hi). Qed.
Print Assumptions C12_pinned_scored.

Theorem C12_pinned_stored : forall Tmin Tmax Tminseg Tmaxseg,
  bounds_ok lo hi (tcR Tmin Tmax Tminseg Tmaxseg) ->
  forall beta i T : R, beta < 0 -> Tmin <= Tminseg -> Tminseg <= Tmaxseg -> Tmaxseg < Tmax ->
  stored_curve RNum KC [Tmax; beta; i] (tcR Tmin Tmax Tminseg Tmaxseg) T = Some (i + - beta * pos (Tmaxseg - T)).
Proof. exact (pinned_stored lo hi Hlo Hhi). Qed.
Print Assumptions C12_pinned_stored.

Theorem C12_pinned_readback : forall Tmin Tmax Tminseg Tmaxseg,
  bounds_ok lo hi (tcR Tmin Tmax Tminseg Tmaxseg) ->
  forall beta i T : R, beta < 0 -> Tmin <= Tminseg -> Tminseg <= Tmaxseg -> Tmaxseg < Tmax -> T <= Tmaxseg ->
  exists sc st : R,
    scored_curve RNum KC [Tmax; beta; i] (tcR Tmin Tmax Tminseg Tmaxseg) T = Some sc /\
    stored_curve RNum KC [Tmax; beta; i] (tcR Tmin Tmax Tminseg Tmaxseg) T = Some st /\
    sc - st = - beta * (Tmax - Tmaxseg) /\ 0 < sc - st.
Proof. exact (pinned_readback lo hi Hlo Hhi). Qed.
Print Assumptions C12_pinned_readback.

(* hence the full statement does not hold of the unchanged code: heating-only, T_min 10, T_min_seg 14, T_max_seg 85,
   T_max 90, slope -1, base load 20, evaluated at 50 F: scored 60, stored 55 *)
Theorem C12_statement_refuted : ~ C12_statement.
Proof.
  intros S.
  assert (B : bounds_ok lo hi (tcR 10 90 14 85)) by (unfold bounds_ok; cbn; lra).
  assert (X : box_spec 10 90 0 100 KC [90; -1; 20]) by (cbn; lra).
  destruct (S 10 90 14 85 0 100 KC [90; -1; 20] B X) as [_ RB].
  assert (HT : 10 <= 50 <= 90) by lra. specialize (RB 50 HT).
  assert (Hm : -1 < 0) by lra.
  pose proof (C12_pinned_scored 10 90 14 85 (-1) 20 50 Hm) as PSc.
  assert (PSt : stored_curve RNum KC [90; -1; 20] (tcR 10 90 14 85) 50 = Some (20 + - -1 * pos (85 - 50)))
    by (apply (C12_pinned_stored 10 90 14 85 B (-1) 20 50); lra).
  pose proof (eq_trans (eq_sym PSt) (eq_trans RB PSc)) as E.
  rewrite pos_of_nonneg in E by lra. injection E as E. lra.
Qed.
Print Assumptions C12_statement_refuted.

(* ------------------------------------------------------------------ the other read-back defects, same text at binary64 *)

Definition differ_by_1 (a b : option float) : bool :=
  match a, b with
  | Some x, Some y => PrimFloat.ltb (PrimFloat.add x 1) y || PrimFloat.ltb (PrimFloat.add y 1) x
  | _, _ => false
  end.

(* cause H (named by the property's own anchor): the optimiser returns CROSSED balance points with smoothing.
   The objective smooths first and orders inside full_model; the stored coefficients are ordered first and smoothed
   afterwards.  hdd_bp 60 > cdd_bp 50, both fractions 0.5, at 40 F: scored 130.4, stored 40.5 *)
Example C12_readback_crossed_refuted :
  differ_by_1 (scored_curve FNum KFullSmooth [60; 1; 0.5; 50; 2; 0.5; 20]%float (Ftc 10 90 14 85) 40%float)
              (stored_curve FNum KFullSmooth [60; 1; 0.5; 50; 2; 0.5; 20]%float (Ftc 10 90 14 85) 40%float) = true.
Proof. vm_compute. reflexivity. Qed.

(* the pinned balance point again, in binary64 *)
Example C12_pinned_binary64 :
  scored_curve FNum KC [90; -1; 20]%float (Ftc 10 90 14 85) 50%float = Some 60%float /\
  stored_curve FNum KC [90; -1; 20]%float (Ftc 10 90 14 85) 50%float = Some 55%float.
Proof. vm_compute. split; reflexivity. Qed.

(* a slope whose balance point sits on the end of the fitted range is dropped by fix_full_model_x although smoothing
   had moved the scored balance point inside the range: hdd_bp = T_min = 10, fraction 0.5, cdd_bp 60 *)
Example C12_end_of_range_smoothing_refuted :
  differ_by_1 (scored_curve FNum KFullSmooth [10; 2; 0.5; 60; 0; 0; 20]%float (Ftc 10 90 10 90) 12%float)
              (stored_curve FNum KFullSmooth [10; 2; 0.5; 60; 0; 0; 20]%float (Ftc 10 90 10 90) 12%float) = true.
Proof. vm_compute. reflexivity. Qed.

(* a zero slope with a non-zero smoothing fraction and fractions adding up to more than one: the objective normalises
   with both fractions, the stored coefficients with one *)
Example C12_zero_slope_fraction_refuted :
  differ_by_1 (scored_curve FNum KFullSmooth [50; 4; 0.5; 70; 0; 0.875; 20]%float (Ftc 10 90 14 85) 56%float)
              (stored_curve FNum KFullSmooth [50; 4; 0.5; 70; 0; 0.875; 20]%float (Ftc 10 90 14 85) 56%float) = true.
Proof. vm_compute. reflexivity. Qed.

(* ------------------------------------------------------------------ the rounding cross (was finding C12-F7), fixed by /repo 742a3de4 *)

(* With pct_hdd_k + pct_cdd_k >= 1 the shifted balance points meet; before the guard in get_smooth_coeffs they could
   cross by an ulp in binary64 and full_model swapped the two sides while SCORING (stored and scored differed by 96 on
   this raw vector: hdd_bp 24.679393524689136, slope 0; cdd_bp 59.75, slope 4.875, fraction 1).  With the guard (in
   the model text exactly as coded; C11_smooth_coeffs_never_cross_any_num in Properties/C11.v) the scored vector is never
   swapped, and on the old witness the two curves agree again: *)
Definition f7_raw : list float := [(0x1.8adecbbe9a76dp+4)%float; 0%float; 0%float; (0x1.de00000000000p+5)%float; (0x1.3800000000000p+2)%float; (0x1.0000000000000p+0)%float; (0x1.7400000000000p+4)%float].
Definition f7_tc : tconstr FNum := Ftc (0x1.ea9e109831d40p+2)%float (0x1.1700000000000p+6)%float (0x1.5d4f084c18ea0p+3)%float (0x1.1127a6e905176p+6)%float.
Example C12_old_rounding_witness_agrees_binary64 :
  forallb (fun T => negb (differ_by_1 (scored_curve FNum KFullSmooth f7_raw f7_tc T)
                                      (stored_curve FNum KFullSmooth f7_raw f7_tc T)))
          [8; 20; 24.5; 25; 30; 45; 60; 69.75]%float = true.
Proof. vm_compute. reflexivity. Qed.
Example C12_old_rounding_witness_not_swapped :
  match scored_x FNum KFullSmooth f7_raw with
  | Some x => PrimFloat.ltb (x_cdd_bp x) (x_hdd_bp x) = false
  | None => False
  end.
Proof. vm_compute. reflexivity. Qed.

(* ------------------------------------------------------------------ non-vacuity *)

Example ex_bounds : bounds_ok lo hi (tcR 10 90 14 85).
Proof. unfold bounds_ok; cbn; lra. Qed.
Example ex_box : box_spec 10 90 0 100 KFullSmooth [40; 1; 1/2; 65; 2; 1/4; 20].
Proof. cbn; lra. Qed.
Example ex_box_crossed : box_spec 10 90 0 100 KFullSmooth [65; 1; 1/2; 40; 2; 1/4; 20].
Proof. cbn; lra. Qed.
Example ex_admissible : exists c, named_coeffs RNum KFullSmooth [65; 1; 1/2; 40; 2; 1/4; 20] (tcR 10 90 14 85) = Some c /\
                                  wellformed lo hi 10 90 14 85 0 100 c.
Proof. exact (C12_refine_admissible 10 90 14 85 0 100 ex_bounds KFullSmooth _ ex_box_crossed). Qed.
(* the optimiser's box for the final fit of the smoothed two-sided model, with slope rows coming from get_bnds(x0) *)
Example ex_box_sound : forall raw,
  in_box RNum [(14, 85); (0, 3); (0, 1); (14, 85); (0, 5); (0, 1); (0, 100)] raw = true ->
  box_spec 10 90 0 100 KFullSmooth raw.
Proof.
  intros raw H.
  apply (C12_box_sound_full_smooth 10 90 0 100 14 85) with
    (nb := [(14, 85); (-1, 3); (-1/2, 1); (14, 85); (5, 0); (0, 1); (0, 100)])
    (r1 := (0, 1)) (r2 := (0, 1)) (r4 := (0, 1)) (r5 := (0, 1))
    (B := [(14, 85); (0, 3); (0, 1); (14, 85); (0, 5); (0, 1); (0, 100)]); try lra; try exact H.
  unfold update_bnds_full_smooth, fix_identical_row, sort_row, clip_lower_0. cbn. unfold Rltb, Reqb.
  repeat (match goal with
          | |- context [Rlt_dec ?a ?b] => destruct (Rlt_dec a b)
          | |- context [Req_EM_T ?a ?b] => destruct (Req_EM_T a b)
          end; cbn [fst snd] in *; try lra).
  reflexivity.
Qed.
