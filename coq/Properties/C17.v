(* C17 — hourly data preparation keeps what was measured and flags what was filled.
   Statements only; proofs are in Proofs/HourlyPrepProofs.v; the model is Model/HourlyPrep.v.

   Every theorem is universally quantified over the payload type [A], the zero test, the interpolation function
   [lin] and — the point of the property — over the autocorrelation imputer [est]: an ARBITRARY function.
   [prep_col ... rows c] is the prepared column c of the frame: a list of (stamp, value, interpolated_<c>).
   [supplied ... rows t c] is what the caller supplied at stamp t: the cell of the FIRST row carrying t, a zero
   electricity reading being missing. *)
From Coq Require Import ZArith List Bool Lia.
From V Require Import Model.HourlyPrep Proofs.HourlyPrepProofs.
From V Require Import Model.HourlyPrepTable Proofs.HourlyPrepTableProofs Generated.HourlyPrepGen Proofs.HourlyPrepGenProofs.
Import ListNotations.
Open Scope Z_scope.

Section Statements.
  Variable A : Type.
  Variable is_zero : A -> bool.
  Variable lin : A -> A -> Z -> Z -> A.
  Variable est : colname -> col A -> col A.

  (* ---------------------------------------------------------------- the statement, for one input *)
  Definition C17_for (elec : bool) (bnds : list Z) (e : edges) (rows : list (row A)) (c : colname) : Prop :=
    let out := prep_col is_zero lin est elec bnds e rows c in
    let sup := fun t => supplied is_zero elec rows t c in
    (* a gap-free hourly frame covering whole local days from the first to the last supplied day *)
    whole_days_for A bnds rows out /\
    (* every supplied value appears unchanged at its timestamp, and is not flagged *)
    (forall r a, In r rows -> sup (ts r) = Some a -> In (ts r, Some a, false) out) /\
    (* a value is flagged exactly when it had to be filled *)
    (forall t v f, In (t, v, f) out -> (f = true <-> sup t = None /\ v <> None)) /\
    (* nothing remains missing unless the whole column was empty *)
    ((exists r a, In r rows /\ sup (ts r) = Some a) -> forall t v f, In (t, v, f) out -> v <> None).
End Statements.

(* the full statement: any calendar (any time zone), any situation of the first / last stamp *)
Definition C17_statement : Prop :=
  forall A is_zero lin est elec bnds e (rows : list (row A)) c,
    rows <> [] -> ascending bnds -> (forall r, In r rows -> covers bnds (ts r)) ->
    C17_for A is_zero lin est elec bnds e rows c.

(* ---------------------------------------------------------------- what holds for every input and every estimator *)

(* a row of the frame whose stamp carries a supplied value has exactly that value and is not flagged *)
Theorem C17_no_supplied_flagged : forall A is_zero lin est elec bnds e (rows : list (row A)) c t v f a,
  In (t, v, f) (prep_col is_zero lin est elec bnds e rows c) ->
  supplied is_zero elec rows t c = Some a -> v = Some a /\ f = false.
Proof. exact frame_supplied_row. Qed.
Print Assumptions C17_no_supplied_flagged.

Theorem C17_flags_exact : forall A is_zero lin est elec bnds e (rows : list (row A)) c t v f,
  In (t, v, f) (prep_col is_zero lin est elec bnds e rows c) ->
  (f = true <-> supplied is_zero elec rows t c = None /\ v <> None).
Proof. exact frame_flags_exact. Qed.
Print Assumptions C17_flags_exact.

(* as soon as one supplied value made it into the frame, no cell of the column is missing *)
Theorem C17_complete_unless_empty : forall A is_zero lin est elec bnds e (rows : list (row A)) c,
  (exists t a v f, In (t, v, f) (prep_col is_zero lin est elec bnds e rows c) /\ supplied is_zero elec rows t c = Some a) ->
  forall t v f, In (t, v, f) (prep_col is_zero lin est elec bnds e rows c) -> v <> None.
Proof. exact frame_complete. Qed.
Print Assumptions C17_complete_unless_empty.

(* one row per absolute hour: the stamps are lo, lo+60, ..., without repetition *)
Theorem C17_gap_free : forall A is_zero lin est elec bnds e (rows : list (row A)) c,
  exists lo hi, frame_range bnds e rows = (lo, hi) /\
    stamps A (prep_col is_zero lin est elec bnds e rows c) = grid lo hi /\
    NoDup (grid lo hi) /\
    forall i a b, nth_error (grid lo hi) i = Some a -> nth_error (grid lo hi) (S i) = Some b -> b = a + STEP.
Proof.
  intros. destruct (frame_gap_free A is_zero lin est elec bnds e rows c) as [lo [hi [E S]]].
  exists lo, hi. repeat split; [exact E | exact S | apply grid_NoDup | apply grid_step].
Qed.
Print Assumptions C17_gap_free.

(* later rows with a stamp already seen are ignored: the first one wins *)
Theorem C17_first_duplicate_wins : forall A is_zero lin est elec bnds e (l1 : list (row A)) r l2 r' l3 c,
  ts r' = ts r ->
  prep_col is_zero lin est elec bnds e (l1 ++ r :: l2 ++ r' :: l3) c =
  prep_col is_zero lin est elec bnds e (l1 ++ r :: l2 ++ l3) c.
Proof. exact first_duplicate_wins_l. Qed.
Print Assumptions C17_first_duplicate_wins.

(* a zero reading is missing for electricity and a value for gas *)
Theorem C17_zero_electric_is_missing : forall A (is_zero : A -> bool) (rows : list (row A)) t r z,
  lookup t rows = Some r -> r_obs r = Some z -> is_zero z = true ->
  supplied is_zero true rows t Obs = None /\ supplied is_zero false rows t Obs = Some z.
Proof. exact zero_electric_missing_l. Qed.
Print Assumptions C17_zero_electric_is_missing.

Theorem C17_nonzero_usage_is_supplied : forall A (is_zero : A -> bool) elec (rows : list (row A)) t r z,
  lookup t rows = Some r -> r_obs r = Some z -> is_zero z = false -> supplied is_zero elec rows t Obs = Some z.
Proof. exact supplied_nonzero. Qed.
Print Assumptions C17_nonzero_usage_is_supplied.

(* so a zero electricity reading that the frame covers is reported as interpolated exactly when it got a value *)
Theorem C17_zero_electric_is_flagged : forall A is_zero lin est bnds e (rows : list (row A)) t r z v f,
  lookup t rows = Some r -> r_obs r = Some z -> is_zero z = true ->
  In (t, v, f) (prep_col is_zero lin est true bnds e rows Obs) -> (f = true <-> v <> None).
Proof.
  intros A is_zero lin est bnds e rows t r z v f L O Z I.
  destruct (zero_electric_missing_l A is_zero rows t r z L O Z) as [S _].
  rewrite (frame_flags_exact A is_zero lin est true bnds e rows Obs t v f I). rewrite S. tauto.
Qed.
Print Assumptions C17_zero_electric_is_flagged.

(* _create_sufficiency_df (blank what is flagged) gives back exactly what was supplied, stamp by stamp *)
Theorem C17_sufficiency_sees_supplied : forall A is_zero lin est elec bnds e (rows : list (row A)) c,
  exists lo hi, frame_range bnds e rows = (lo, hi) /\
    sufficiency_col (prep_col is_zero lin est elec bnds e rows c) =
    map (fun t => (t, supplied is_zero elec rows t c)) (grid lo hi).
Proof. exact frame_sufficiency. Qed.
Print Assumptions C17_sufficiency_sees_supplied.

(* the imputer's proposal is only ever used where a cell is missing; each fall-back keeps what is there *)
Theorem C17_interpolation_keeps : forall A lin est c (x : col A),
  keeps A x (interp_col lin est c x) /\ length (interp_col lin est c x) = length x.
Proof. intros. split; [apply interp_col_keeps | apply interp_col_length]. Qed.
Print Assumptions C17_interpolation_keeps.

(* an empty column stays empty and is not flagged, provided the imputer proposes nothing for it
   (_interpolate_col returns an all-NaN column untouched; the harness checks that on every execution) *)
Theorem C17_empty_column_stays_empty : forall A lin est c (x : col A),
  all_missing A x -> all_missing A (est c x) ->
  interp_col lin est c x = x /\ flags x (interp_col lin est c x) = map (fun _ => false) x.
Proof. exact empty_column_stays_empty. Qed.
Print Assumptions C17_empty_column_stays_empty.

(* ffill followed by bfill alone complete a column that has a value (the time method makes them idle today) *)
Theorem C17_last_fallbacks_suffice : forall A (x : col A), has_value A x -> all_present A (bfill (ffill x)).
Proof. exact bfill_ffill_complete. Qed.
Print Assumptions C17_last_fallbacks_suffice.

(* what the correspondence executes (reindex through a finite map) is the frame the theorems speak about *)
Theorem C17_fast_model_agrees : forall A is_zero lin est elec bnds e (rows : list (row A)) c,
  prep_col_fast is_zero lin est elec bnds e rows c = prep_col is_zero lin est elec bnds e rows c.
Proof. exact prep_col_fast_eq. Qed.
Print Assumptions C17_fast_model_agrees.

(* ---------------------------------------------------------------- what needs the calendar to be regular *)
(* [well_formed bnds rows]: non-empty input, ascending day starts that are whole hours apart and cover the input, input
   stamps on the hour.  [no_skip]: the first / last stamp is not in one of the two `fold` situations of
   Model/HourlyPrep.v. *)

Theorem C17_whole_days : forall A is_zero lin est elec bnds (rows : list (row A)) c, well_formed A bnds rows ->
  whole_days_for A bnds rows (prep_col is_zero lin est elec bnds no_skip rows c).
Proof. exact frame_whole_days_iff. Qed.
Print Assumptions C17_whole_days.

Theorem C17_supplied_preserved : forall A is_zero lin est elec bnds (rows : list (row A)) c r a,
  well_formed A bnds rows -> In r rows -> supplied is_zero elec rows (ts r) c = Some a ->
  In (ts r, Some a, false) (prep_col is_zero lin est elec bnds no_skip rows c).
Proof. exact frame_supplied_preserved. Qed.
Print Assumptions C17_supplied_preserved.

Theorem C17_complete_unless_column_empty : forall A is_zero lin est elec bnds (rows : list (row A)) c,
  well_formed A bnds rows -> (exists r a, In r rows /\ supplied is_zero elec rows (ts r) c = Some a) ->
  forall t v f, In (t, v, f) (prep_col is_zero lin est elec bnds no_skip rows c) -> v <> None.
Proof. exact frame_complete_wf. Qed.
Print Assumptions C17_complete_unless_column_empty.

(* the statement under the exact guard: whole-hour calendar, stamps on the hour, no `fold` situation *)
Theorem C17_statement_partial : forall A is_zero lin est elec bnds (rows : list (row A)) c,
  well_formed A bnds rows -> C17_for A is_zero lin est elec bnds no_skip rows c.
Proof.
  intros A is_zero lin est elec bnds rows c WF. unfold C17_for. cbn zeta.
  split; [apply frame_whole_days_iff; exact WF|].
  split; [intros r a HR HS; apply frame_supplied_preserved; auto|].
  split; [intros t v f HI; apply (frame_flags_exact A is_zero lin est elec bnds no_skip rows c t v f HI)|].
  apply frame_complete_wf; exact WF.
Qed.
Print Assumptions C17_statement_partial.

(* ---------------------------------------------------------------- where the code as it is breaks the full statement
   (witnesses over the payload Z: Proofs/HourlyPrepProofs.v, "concrete witnesses"; each is replayed on the
   implementation: corpus/C17.json, known findings C17-F1 .. C17-F5) *)

(* the last supplied day ends with a repeated 23:00 (25 hours: boundaries 0 and 1500) and the last supplied stamp is not
   the second 23:00: latest.replace(hour=23) is the first 23:00 ([hi_back] = 120) and the hour 1440 is not in the frame *)
Theorem C17_whole_days_refuted_last :
  exists bnds e (rows : list (row Z)) t,
    well_formed Z bnds rows /\ lo_fwd e = 0 /\ hi_back e = 120 /\
    0 <= t < 1500 /\ (t - 0) mod STEP = 0 /\
    ~ In t (stamps Z (prep_col zzero zlin id_est true bnds e rows Temp)).
Proof.
  exists w_bnds, (mkedges 0 120), (w_rows 600), 1440.
  split; [apply w_wf; [lia | reflexivity]|]. split; [reflexivity|]. split; [reflexivity|].
  split; [lia|]. split; [reflexivity | exact w_last_not_in].
Qed.
Print Assumptions C17_whole_days_refuted_last.

(* the first supplied stamp is the second 00:00 of a day whose 00:00 occurs twice: the frame starts there
   ([lo_fwd] = 60) and stamp 0 — the first 00:00 of that day — is not in it *)
Theorem C17_whole_days_refuted_first :
  exists bnds e (rows : list (row Z)) t,
    well_formed Z bnds rows /\ lo_fwd e = 60 /\ hi_back e = 60 /\
    0 <= t < 1500 /\ (t - 0) mod STEP = 0 /\
    ~ In t (stamps Z (prep_col zzero zlin id_est true bnds e rows Temp)).
Proof.
  exists w_bnds, (mkedges 60 60), (w_rows 60), 0.
  split; [apply w_wf; [lia | reflexivity]|]. split; [reflexivity|]. split; [reflexivity|].
  split; [lia|]. split; [reflexivity | exact w_first_not_in].
Qed.
Print Assumptions C17_whole_days_refuted_first.

(* a calendar whose day starts are not whole hours apart (the clock was moved by 30 minutes: the second day starts at
   minute 1410): the row supplied at local 01:00 of the second day (1470) is on the hour but off the absolute-hour grid
   that starts at 0; reindex drops it and the frame carries an interpolated, flagged value at 1440 instead *)
Theorem C17_supplied_preserved_refuted :
  exists bnds (rows : list (row Z)) r a,
    ascending bnds /\ (forall r, In r rows -> covers bnds (ts r)) /\ In r rows /\
    supplied zzero true rows (ts r) Temp = Some a /\
    ~ In (ts r) (stamps Z (prep_col zzero zlin id_est true bnds no_skip rows Temp)) /\
    In (1440, Some 5, true) (prep_col zzero zlin id_est true bnds no_skip rows Temp).
Proof.
  exists s_bnds, s_rows, (R 1470 (Some 9) (Some 2) None), 9.
  split; [exact s_ascending|]. split; [exact s_covers|]. split; [right; left; reflexivity|].
  split; [exact s_supplied|]. split; [exact s_dropped | exact s_filled].
Qed.
Print Assumptions C17_supplied_preserved_refuted.

(* hence the full statement does not hold of the code as it is *)
Theorem C17_statement_refuted : ~ C17_statement.
Proof.
  intros S.
  specialize (S Z zzero zlin id_est true w_bnds (mkedges 0 120) (w_rows 600) Temp).
  destruct (w_wf 600 ltac:(lia) eq_refl) as [N [Asc [_ [Cov _]]]].
  destruct (S N Asc Cov) as [W _]. clear S.
  apply w_last_not_in.
  apply (W 600 600 0 1500 (w_min 600) (w_max 600) (w_day_start 600 ltac:(lia)) (w_next_day 600 ltac:(lia))).
  split; [lia | reflexivity].
Qed.
Print Assumptions C17_statement_refuted.

(* ---------------------------------------------------------------- non-vacuity: a concrete four-day input
   four local days of 24, 23 (spring forward), 24, 25 (fall back) hours; rows with holes, an absent stretch, a
   duplicated stamp (second value 77), a zero reading, no irradiance; the estimator proposes 99 everywhere for
   temperature and usage (it must only be used on the missing cells).  96 rows > 72, so the autocorrelation stage is on. *)
Definition ex_bnds : list Z := [0; 1440; 2820; 4260; 5760].
Definition ex_est (c : colname) (x : col Z) : col Z := match c with Ghi => x | _ => map (fun _ => Some 99) x end.
Fixpoint ex_rows_from (n : nat) (t : Z) : list (row Z) :=
  match n with
  | O => []
  | S n' => R t (if (t mod 420 =? 0) then None else Some (t / 60)) (if t =? 600 then Some 0 else Some (1 + t / 60)) None
            :: ex_rows_from n' (t + 60)
  end.
(* stamps 180 .. 5400, minus the stretch 1200 .. 1740, plus a duplicate of stamp 300 at the end *)
Definition ex_rows : list (row Z) :=
  filter (fun r => (ts r <? 1200) || (1740 <? ts r)) (ex_rows_from 88 180) ++ [R 300 (Some 77) (Some 77) (Some 77)].

Example ex_well_formed : well_formed Z ex_bnds ex_rows.
Proof.
  split; [discriminate|].
  split; [cbn; repeat split; intros b H; lia|].
  split.
  { intros b b' H H'. cbn in H, H'. unfold STEP.
    destruct H as [H | [H | [H | [H | [H | []]]]]]; destruct H' as [H' | [H' | [H' | [H' | [H' | []]]]]]; subst; reflexivity. }
  split.
  { intros r H. split.
    - exists 0. split; [left; reflexivity|].
      assert (F : forallb (fun r => 0 <=? ts r) ex_rows = true) by (vm_compute; reflexivity).
      rewrite forallb_forall in F. apply Z.leb_le. apply F. exact H.
    - exists 5760. split; [do 4 right; left; reflexivity|].
      assert (F : forallb (fun r => ts r <? 5760) ex_rows = true) by (vm_compute; reflexivity).
      rewrite forallb_forall in F. apply Z.ltb_lt. apply F. exact H. }
  intros r b H B.
  assert (F : forallb (fun r => forallb (fun b => (ts r - b) mod STEP =? 0) ex_bnds) ex_rows = true) by (vm_compute; reflexivity).
  rewrite forallb_forall in F. specialize (F r H). rewrite forallb_forall in F. apply Z.eqb_eq. apply F. exact B.
Qed.

Definition ex_out (c : colname) := prep_col zzero zlin ex_est true ex_bnds no_skip ex_rows c.

(* the frame has the 96 hours of the four days; a supplied value is kept (stamp 300: the first row wins, not 77);
   the estimator's 99 fills a missing cell and is flagged; the zero reading at 600 is treated as missing and filled *)
Example ex_frame : length (ex_out Temp) = 96%nat /\ hd_error (stamps Z (ex_out Temp)) = Some 0 /\
  In (300, Some 5, false) (ex_out Temp) /\ In (420, Some 99, true) (ex_out Temp) /\
  In (600, Some 99, true) (ex_out Obs) /\ In (1500, Some 99, true) (ex_out Temp) /\
  forallb (fun p : Z * option Z * bool => missing (snd (fst p)) && negb (snd p)) (ex_out Ghi) = true.
Proof.
  split; [vm_compute; reflexivity|]. split; [vm_compute; reflexivity|].
  split; [apply in_by_t3; vm_compute; reflexivity|]. split; [apply in_by_t3; vm_compute; reflexivity|].
  split; [apply in_by_t3; vm_compute; reflexivity|]. split; [apply in_by_t3; vm_compute; reflexivity|].
  vm_compute; reflexivity.
Qed.

(* hypotheses of the theorems are met by it: supplied cells, missing cells, a zero reading, a duplicated stamp *)
Example ex_supplied : exists r a, In r ex_rows /\ supplied zzero true ex_rows (ts r) Temp = Some a.
Proof.
  exists (R 300 (Some 5) (Some 6) None), 5.
  split; [change (In (R 300 (Some 5) (Some 6) None) ex_rows); vm_compute; do 2 right; left; reflexivity | vm_compute; reflexivity].
Qed.

Example ex_zero : lookup 600 ex_rows = Some (R 600 (Some 10) (Some 0) None) /\ zzero 0 = true /\
  supplied zzero true ex_rows 600 Obs = None /\ supplied zzero false ex_rows 600 Obs = Some 0.
Proof.
  split; [vm_compute; reflexivity|]. split; [reflexivity|]. split; vm_compute; reflexivity.
Qed.

Example ex_duplicate : exists l1 r l2 r' l3, ex_rows = l1 ++ r :: l2 ++ r' :: l3 /\ ts r' = ts r /\ r_temp r' <> r_temp r /\
  prep_col zzero zlin ex_est true ex_bnds no_skip ex_rows Temp = prep_col zzero zlin ex_est true ex_bnds no_skip (l1 ++ r :: l2 ++ l3) Temp.
Proof.
  exists (firstn 2 ex_rows), (R 300 (Some 5) (Some 6) None), (removelast (skipn 3 ex_rows)), (R 300 (Some 77) (Some 77) (Some 77)), [].
  split; [vm_compute; reflexivity|]. split; [reflexivity|]. split; [cbn; congruence|].
  vm_compute. reflexivity.
Qed.

(* a column that has a value but for which the estimator proposes nothing is completed by the fall-backs *)
Example ex_fallbacks : interp_col zlin (fun _ x => map (fun _ => None) x) Temp [None; Some 2; None; None; Some 8; None]
                       = [Some 2; Some 2; Some 4; Some 6; Some 8; Some 8].
Proof. vm_compute. reflexivity. Qed.

(* an empty column stays empty and unflagged *)
Example ex_empty_column : interp_col zlin ex_est Ghi [None; None; None] = [None; None; None] /\
  flags [None; None; None] (interp_col zlin ex_est Ghi [None; None; None]) = [false; false; false].
Proof. split; vm_compute; reflexivity. Qed.

(* ================================================================ the structure of the source, read on every run
   harness/translate_hourlyprep.py reads with `ast` the order of the steps of _set_data, the zero rule, keep=, the hours
   of the first / last stamp, the threshold of the autocorrelation stage, the ORDER of the fall-back methods with what
   each branch calls, and the flag rule, into Generated/HourlyPrepGen.v ([gen_pipeline : option pipeline], [None] when a
   construct is not recognised).  Model/HourlyPrepTable.v interprets such a table ([prep_col_by]). *)

(* for every table that satisfies the decidable condition [accepted], all inputs and all estimators: the interpreted
   table is the frame all theorems above speak about *)
Theorem C17_table_model_agrees : forall A (is_zero : A -> bool) lin est p elec bnds e (rows : list (row A)) c,
  accepted p = true ->
  prep_col_by is_zero lin est p elec bnds e rows c = prep_col is_zero lin est elec bnds e rows c.
Proof. exact prep_col_by_accepted. Qed.
Print Assumptions C17_table_model_agrees.

(* once the time method in both directions has run, ffill / bfill in any order and number change nothing
   (so removing or reordering them is a harmless edit: proved, not sampled) *)
Theorem C17_fallback_order_is_immaterial : forall A lin rest (x : col A), forallb is_fill rest = true ->
  fallbacks_by lin (FTime LBoth :: rest) x = fallbacks lin x.
Proof. exact fallbacks_by_accepted. Qed.
Print Assumptions C17_fallback_order_is_immaterial.

(* the zero rule and the duplicate removal can be exchanged *)
Theorem C17_zero_and_dedup_commute : forall A (is_zero : A -> bool) elec (rows : list (row A)),
  map (zero_to_nan is_zero elec) (remove_duplicates rows) = remove_duplicates (map (zero_to_nan is_zero elec) rows).
Proof. exact zero_dedup_commute. Qed.
Print Assumptions C17_zero_and_dedup_commute.

(* the table read from the source on THIS run is accepted (re-checked by vm_compute against the regenerated file) ... *)
Theorem C17_source_pipeline_accepted : source_accepted.
Proof. exact gen_pipeline_accepted_l. Qed.
Print Assumptions C17_source_pipeline_accepted.

(* ... hence the source's own step order / constants / fall-back order, interpreted, give the modelled frame *)
Theorem C17_source_pipeline_is_model : forall p, gen_pipeline = Some p ->
  forall A (is_zero : A -> bool) lin est elec bnds e (rows : list (row A)) c,
    prep_col_by is_zero lin est p elec bnds e rows c = prep_col is_zero lin est elec bnds e rows c.
Proof. exact gen_pipeline_is_model_l. Qed.
Print Assumptions C17_source_pipeline_is_model.

(* non-vacuity: today's table is accepted; tables that are not accepted differ from the model on a concrete input *)
Example ex_model_table_accepted : accepted model_pipeline = true /\
  accepted (tbl [FTime LBoth; FBfill] KeepFirst FlagMissingAndPresent 72) = true /\
  accepted (mkpipeline 72 [FTime LBoth; FFfill; FBfill] KeepFirst [RDedup; RZero] true Obs CmpEq 0 true 0 23 60 FlagMissingAndPresent) = true.
Proof. repeat split. Qed.

Example ex_rejected_tables_differ :
  accepted (tbl [FTime LBoth; FFfill; FBfill] KeepLast FlagMissingAndPresent 72) = false /\
  accepted (tbl [FTime LBoth; FFfill; FBfill] KeepFirst FlagMissing 72) = false /\
  accepted (tbl [FFfill; FBfill] KeepFirst FlagMissingAndPresent 72) = false /\
  accepted (tbl [FTime LForward; FFfill] KeepFirst FlagMissingAndPresent 72) = false /\
  accepted (tbl [FTime LBoth; FFfill; FBfill] KeepFirst FlagMissingAndPresent 96) = false /\
  accepted (mkpipeline 72 [FTime LBoth; FFfill; FBfill] KeepFirst [RZero; RDedup] true Obs CmpLe 0 true 0 23 60 FlagMissingAndPresent) = false /\
  accepted (mkpipeline 72 [FTime LBoth; FFfill; FBfill] KeepFirst [RZero; RDedup] true Obs CmpEq 0 false 0 23 60 FlagMissingAndPresent) = false /\
  accepted (mkpipeline 72 [FTime LBoth; FFfill; FBfill] KeepFirst [RZero; RDedup] true Obs CmpEq 0 true 0 22 60 FlagMissingAndPresent) = false.
Proof. repeat split. Qed.

Example ex_keep_last_differs :
  prep_col_range_by zzero zlin id_est (tbl [FTime LBoth; FFfill; FBfill] KeepLast FlagMissingAndPresent 72) true 0 60
                    [R 0 (Some 1) None None; R 0 (Some 2) None None] Temp
  <> prep_col_range zzero zlin id_est true 0 60 [R 0 (Some 1) None None; R 0 (Some 2) None None] Temp.
Proof. exact keep_last_differs. Qed.

Example ex_flag_missing_differs :
  prep_col_range_by zzero zlin id_est (tbl [FTime LBoth; FFfill; FBfill] KeepFirst FlagMissing 72) true 0 60 [R 0 None None None] Temp
  <> prep_col_range zzero zlin id_est true 0 60 [R 0 None None None] Temp.
Proof. exact flag_missing_differs. Qed.

Example ex_no_time_method_differs :
  prep_col_range_by zzero zlin id_est (tbl [FFfill; FBfill] KeepFirst FlagMissingAndPresent 72) true 0 120
                    [R 0 (Some 0) None None; R 120 (Some 4) None None] Temp
  <> prep_col_range zzero zlin id_est true 0 120 [R 0 (Some 0) None None; R 120 (Some 4) None None] Temp.
Proof. exact no_time_method_differs. Qed.
