From Coq Require Import ZArith List Bool.
From V Require Import Model.HourlyPrep Proofs.HourlyPrepProofs.
Theorem C17_stub : STEP = 60%Z. Proof. exact stub_l. Qed.
Print Assumptions C17_stub.
