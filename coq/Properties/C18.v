(* C18 — CalTRACK hourly: each hour belongs to its own month; bin features sum to T.
   Statements only; proofs are in Proofs/CalTrackTableProofs.v (tables, finite) and Proofs/CalTrackProofs.v (bins, occupancy,
   hour of week; unbounded); the model is Model/CalTrack.v over the tables of
   Generated/CalTrackTables.v, which are regenerated from /repo on every run, so the finite theorems below
   are re-established against what the source says now. *)
From Coq Require Import ZArith QArith Qminmax List Bool String Ascii PrimFloat.
From V Require Import Generated.CalTrackTables Model.CalTrack Proofs.CalTrackProofs Proofs.CalTrackTableProofs.
(* the comparison helpers of the correspondence are built (type-checked) together with the property *)
From V Require Model.CalTrackRun Model.CalTrackFitRun.
Import ListNotations.
Local Open Scope string_scope.

(* ---- fitting weights: three_month_weighted ------------------------------------------------------- *)
(* every calendar month has full weight in exactly one segment (its own: the one no other month has full
   weight in), half weight in exactly the own segments of its two neighbour months, and none elsewhere *)
Theorem C18_weights_partition : forall m, In m months ->
  exists own prv nxt,
    own_segment (tbl "three_month_weighted") m = Some own /\
    own_segment (tbl "three_month_weighted") (prev_month m) = Some prv /\
    own_segment (tbl "three_month_weighted") (next_month m) = Some nxt /\
    forall s, In s (tbl "three_month_weighted") ->
      (seg_weight s m ==
       if String.eqb (seg_name s) own then 1
       else if String.eqb (seg_name s) prv || String.eqb (seg_name s) nxt then 1 # 2 else 0)%Q.
Proof. exact weights_partition_weighted_l. Qed.
Print Assumptions C18_weights_partition.

Theorem C18_own_segments_distinct : forall m m', In m months -> In m' months ->
  own_segment (tbl "three_month_weighted") m = own_segment (tbl "three_month_weighted") m' -> m = m'.
Proof. exact own_segment_injective_l. Qed.
Print Assumptions C18_own_segments_distinct.

Theorem C18_segment_names_distinct : NoDup (map seg_name (tbl "three_month_weighted")).
Proof. exact weighted_names_nodup. Qed.
Print Assumptions C18_segment_names_distinct.

(* ---- the other three segment types ---------------------------------------------------------------- *)
Theorem C18_weights_partition_one_month : forall m, In m months ->
  exists own,
    own_segment (tbl "one_month") m = Some own /\
    forall s, In s (tbl "one_month") ->
      (seg_weight s m == if String.eqb (seg_name s) own then 1 else 0)%Q.
Proof. exact weights_partition_one_month_l. Qed.
Print Assumptions C18_weights_partition_one_month.

Theorem C18_one_month_segments_distinct : forall m m', In m months -> In m' months ->
  own_segment (tbl "one_month") m = own_segment (tbl "one_month") m' -> m = m'.
Proof. exact own_segment_one_month_injective_l. Qed.
Print Assumptions C18_one_month_segments_distinct.

(* unweighted three-month segments: full weight in exactly the segments centred on the month and on its
   two neighbours, none elsewhere *)
Theorem C18_weights_partition_three_month : forall m, In m months ->
  exists own prv nxt,
    centre_segment (tbl "three_month") m = Some own /\
    centre_segment (tbl "three_month") (prev_month m) = Some prv /\
    centre_segment (tbl "three_month") (next_month m) = Some nxt /\
    forall s, In s (tbl "three_month") ->
      (seg_weight s m ==
       if String.eqb (seg_name s) own || String.eqb (seg_name s) prv || String.eqb (seg_name s) nxt
       then 1 else 0)%Q.
Proof. exact weights_partition_three_month_l. Qed.
Print Assumptions C18_weights_partition_three_month.

Theorem C18_weighted_is_three_month_halved : forall m, In m months ->
  exists own, own_segment (tbl "three_month_weighted") m = Some own /\
    centre_segment (tbl "three_month") m = Some (substring 0 (String.length own - 9) own) /\
    substring (String.length own - 9) 9 own = "-weighted".
Proof. exact weighted_is_three_month_halved_l. Qed.
Print Assumptions C18_weighted_is_three_month_halved.

Theorem C18_weights_single : forall m, segment_weights "single" m = Some [("all", 1%Q)].
Proof. exact weights_single_l. Qed.
Print Assumptions C18_weights_single.

Theorem C18_segment_types : map fst segment_tables = ["single"; "one_month"; "three_month"; "three_month_weighted"].
Proof. exact table_types_l. Qed.
Print Assumptions C18_segment_types.

(* ---- prediction: routed to the own month's model only ---------------------------------------------- *)
Theorem C18_wrapper_fits_three_month_weighted : wrapper_segment_type = "three_month_weighted".
Proof. exact wrapper_fits_weighted_l. Qed.
Print Assumptions C18_wrapper_fits_three_month_weighted.

Theorem C18_prediction_own_month : forall m, In m months ->
  exists s, prediction_segment "three_month_weighted" m = Some s /\
            own_segment (tbl "three_month_weighted") m = Some s.
Proof. exact prediction_own_month_l. Qed.
Print Assumptions C18_prediction_own_month.

(* the products summed into an hour's prediction: one term, the own month's model with weight 1 *)
Theorem C18_predict_single_model : forall m, In m months ->
  exists s, own_segment (tbl "three_month_weighted") m = Some s /\
            prediction_terms "three_month_weighted" m = [(s, 1%Q)].
Proof. exact predict_single_model_l. Qed.
Print Assumptions C18_predict_single_model.

(* ... hence, whatever the fitted segment models answer, the prediction is the own model's answer *)
Theorem C18_predict_hour_is_own_model :
  forall (V : Type) (vadd : V -> V -> V) (vscale : Q -> V -> V),
    (forall v, vscale 1%Q v = v) ->
    forall (models : string -> V) m, In m months ->
    exists s, own_segment (tbl "three_month_weighted") m = Some s /\
              predict_hour V vadd vscale models "three_month_weighted" m = Some (models s).
Proof. intros V vadd vscale H1 models. exact (predict_hour_own_l V vadd vscale H1 models). Qed.
Print Assumptions C18_predict_hour_is_own_model.

Theorem C18_predict_single_segment_type : forall m, prediction_terms "single" m = [("all", 1%Q)].
Proof. exact predict_single_l. Qed.
Print Assumptions C18_predict_single_segment_type.

(* ---- temperature bin features (exact arithmetic; every finite binary64 temperature is a rational) -- *)
Theorem C18_bins_sum_to_T : forall (T : Q) (e : list Q), increasing e ->
  (sum QOps (bin_features QOps T e) == T)%Q.
Proof. exact bins_sum_to_T_l. Qed.
Print Assumptions C18_bins_sum_to_T.

Theorem C18_bins_closed_form : forall (T : Q) (e : list Q), increasing e ->
  Forall2 Qeq (bin_features QOps T e) (bin_spec T e).
Proof. exact bins_closed_form_l. Qed.
Print Assumptions C18_bins_closed_form.

Theorem C18_bins_fill_in_order : forall (T : Q) (e : list Q), increasing e ->
  filled_in_order (capacities e) (bin_features QOps T e) /\
  Forall (fun b => 0 <= b)%Q (tl (bin_features QOps T e)).
Proof. exact bins_fill_in_order_l. Qed.
Print Assumptions C18_bins_fill_in_order.

Theorem C18_bins_count : forall (N : numops) (T : num N) e, List.length (bin_features N T e) = S (List.length e).
Proof. exact bins_length_l. Qed.
Print Assumptions C18_bins_count.

Theorem C18_bins_nan : forall (N : numops) e, bin_features_opt N None e = repeat None (S (List.length e)).
Proof. exact bins_nan_l. Qed.
Print Assumptions C18_bins_nan.

(* ---- occupancy -------------------------------------------------------------------------------------- *)
Theorem C18_occupied_xor_unoccupied : forall (N : numops) (b : bool) T eo eu,
  let ou := occupancy_split N (Some b) T eo eu in
  (b = true -> fst ou = bin_features_opt N T eo /\ Forall (fun x => x = Some (nzero N)) (snd ou)) /\
  (b = false -> snd ou = bin_features_opt N T eu /\ Forall (fun x => x = Some (nzero N)) (fst ou)).
Proof. exact occupied_xor_unoccupied_l. Qed.
Print Assumptions C18_occupied_xor_unoccupied.

(* the rows the processors hand on (after merge_features) are either blanked entirely or exactly that split *)
Theorem C18_feature_row_cases : forall (N : numops) others occ T eo eu,
  let r := feature_row N others occ T eo eu in
  r = occupancy_split N occ T eo eu \/
  (Forall (fun x => x = None) (fst r) /\ Forall (fun x => x = None) (snd r)).
Proof. exact feature_row_cases_l. Qed.
Print Assumptions C18_feature_row_cases.

(* ---- hour of week ------------------------------------------------------------------------------------- *)
Theorem C18_how_formula : forall dow hour, (0 <= dow < 7)%Z -> (0 <= hour < 24)%Z ->
  (hour_of_week dow hour = 24 * dow + hour /\ 0 <= hour_of_week dow hour < 168)%Z.
Proof. exact how_formula_l. Qed.
Print Assumptions C18_how_formula.

Theorem C18_how_injective : forall d h d' h',
  (0 <= d < 7)%Z -> (0 <= h < 24)%Z -> (0 <= d' < 7)%Z -> (0 <= h' < 24)%Z ->
  hour_of_week d h = hour_of_week d' h' -> d = d' /\ h = h'.
Proof. exact how_injective_l. Qed.
Print Assumptions C18_how_injective.

Theorem C18_how_onto : forall k, (0 <= k < 168)%Z ->
  exists d h, (0 <= d < 7)%Z /\ (0 <= h < 24)%Z /\ hour_of_week d h = k.
Proof. exact how_onto_l. Qed.
Print Assumptions C18_how_onto.

(* ---- extensions: dropped columns / absent models, fitted endpoint lists, both occupancy groups, wrapper ---------- *)
Theorem C18_weights_in_0_half_1 : forall type t, In (type, t) segment_tables -> forall s, In s t -> forall m, In m months ->
  (seg_weight s m == 0 \/ seg_weight s m == 1 # 2 \/ seg_weight s m == 1)%Q.
Proof. exact weights_in_0_half_1. Qed.
Print Assumptions C18_weights_in_0_half_1.

(* whichever months the predicted index covers (columns of zero total weight are dropped) and whichever segment
   models the fitted model holds: nothing but the hour's own month model contributes to its prediction *)
Theorem C18_predicted_only_by_own_model : forall present fitted m f w, In m months ->
  In (f, w) (prediction_terms_on present fitted "three_month_weighted" m) ->
  own_segment (tbl "three_month_weighted") m = Some f /\ w = 1%Q.
Proof. exact predicted_only_by_own_l. Qed.
Print Assumptions C18_predicted_only_by_own_model.

(* ... and it is exactly that model when it exists; an hour whose own model is absent gets no prediction (NaN),
   never a neighbour's *)
Theorem C18_predict_with_missing_models : forall present fitted m, In m months -> In m present ->
  exists own, own_segment (tbl "three_month_weighted") m = Some own /\
    prediction_terms_on present fitted "three_month_weighted" m = (if mem_str own fitted then [(own, 1%Q)] else []).
Proof. exact predict_on_l. Qed.
Print Assumptions C18_predict_with_missing_models.

(* the endpoint lists the feature processors use are the flagged candidates in candidate order: always increasing,
   so the hypothesis of the bin theorems holds for every combination of keep-flags *)
Theorem C18_candidate_endpoints_increasing : increasing default_bins.
Proof. exact candidates_increasing_l. Qed.
Print Assumptions C18_candidate_endpoints_increasing.

Theorem C18_sublist_increasing : forall flags l, increasing l -> increasing (select flags l).
Proof. exact select_increasing. Qed.
Print Assumptions C18_sublist_increasing.

Theorem C18_fitted_endpoints_increasing : forall flags, increasing (endpoints_of_flags flags).
Proof. exact endpoints_increasing_l. Qed.
Print Assumptions C18_fitted_endpoints_increasing.

Theorem C18_bins_sum_to_T_any_flags : forall flags T,
  (sum QOps (bin_features QOps T (endpoints_of_flags flags)) == T)%Q.
Proof. exact bins_sum_any_flags_l. Qed.
Print Assumptions C18_bins_sum_to_T_any_flags.

(* both feature groups of an hour together hold its temperature exactly once, the other group is all zero *)
Theorem C18_occupancy_features_sum_to_T : forall (b : bool) (t : Q) eo eu, increasing eo -> increasing eu ->
  let ou := occupancy_split QOps (Some b) (Some t) eo eu in
  exists o u, fst ou = map Some o /\ snd ou = map Some u /\ (sum QOps o + sum QOps u == t)%Q /\
              (if b then Forall (fun x => x = 0%Q) u else Forall (fun x => x = 0%Q) o).
Proof. exact occupancy_features_sum_l. Qed.
Print Assumptions C18_occupancy_features_sum_to_T.

(* wrapper.py files the uncertainty figures (n, n', MSE, mean) of calendar month m under the fitted segment whose
   full-weight month is m, and every fitted segment name has a known month key *)
Theorem C18_wrapper_month_key : forall m, In m months ->
  exists own, own_segment (tbl "three_month_weighted") m = Some own /\
              unc_segment (map seg_name (tbl "three_month_weighted")) m = Some own.
Proof. exact wrapper_month_key_l. Qed.
Print Assumptions C18_wrapper_month_key.

Theorem C18_wrapper_keys_known : forall s, In s (tbl "three_month_weighted") ->
  exists a n, month_key (seg_name s) = Some a /\ assoc a wrapper_month_dict = Some n.
Proof. exact wrapper_keys_known_l. Qed.
Print Assumptions C18_wrapper_keys_known.

(* ---- non-vacuity witnesses ------------------------------------------------------------------------------ *)
Example C18_ex_own_january : own_segment (tbl "three_month_weighted") 1 = Some "dec-jan-feb-weighted".
Proof. vm_compute. reflexivity. Qed.
Example C18_ex_row_january :
  filter (fun nw => negb (Qeq_bool (snd nw) 0)) (row_weights (tbl "three_month_weighted") 1)
  = [("dec-jan-feb-weighted", 1%Q); ("jan-feb-mar-weighted", (1 # 2)%Q); ("nov-dec-jan-weighted", (1 # 2)%Q)].
Proof. vm_compute. reflexivity. Qed.
Example C18_ex_prediction_december : prediction_segment "three_month_weighted" 12 = Some "nov-dec-jan-weighted".
Proof. vm_compute. reflexivity. Qed.
Example C18_ex_increasing : increasing [30; 45; 55; 65; 75; 90]%Q.
Proof. cbn. repeat split; discriminate. Qed.
Example C18_ex_bins_70 :
  map Qred (bin_features QOps 70 [30; 45; 55; 65; 75; 90]) = [30; 15; 10; 10; 5; 0; 0]%Q.
Proof. vm_compute. reflexivity. Qed.
Example C18_ex_bins_on_endpoint :
  map Qred (bin_features QOps 65 [30; 45; 55; 65; 75; 90]) = [30; 15; 10; 10; 0; 0; 0]%Q.
Proof. vm_compute. reflexivity. Qed.
Example C18_ex_bins_below_first :
  map Qred (bin_features QOps (-12) [30; 90]) = [-12; 0; 0]%Q.
Proof. vm_compute. reflexivity. Qed.
Example C18_ex_bins_float :
  bin_features FOps 70%float [30; 45; 55; 65; 75; 90]%float = [30; 15; 10; 10; 5; 0; 0]%float.
Proof. vm_compute. reflexivity. Qed.
Example C18_ex_occupied_values :
  let ou := occupancy_split QOps (Some true) (Some 50%Q) [30%Q] [45%Q] in
  map (option_map Qred) (fst ou) = [Some 30%Q; Some 20%Q] /\ snd ou = [Some 0%Q; Some 0%Q].
Proof. vm_compute. split; reflexivity. Qed.
(* outside the statement's domain: a NaN occupancy feature (hour of week absent from the lookup) would keep
   both groups; estimate_hour_of_week_occupancy re-indexes its result over all 168 hours, which the
   correspondence observes on every run *)
Example C18_ex_nan_occupancy_keeps_both :
  occupancy_split QOps None (Some (50 # 1)) [30 # 1] [45 # 1] =
  (bin_features_opt QOps (Some (50 # 1)) [30 # 1], bin_features_opt QOps (Some (50 # 1)) [45 # 1]).
Proof. exact occupancy_nan_keeps_both_l. Qed.
Example C18_ex_how : hour_of_week 6 23 = 167%Z /\ hour_of_week 0 0 = 0%Z /\ hour_of_week 2 5 = 53%Z.
Proof. vm_compute. repeat split. Qed.
Example C18_ex_missing_model :
  prediction_terms_on [1; 2]%Z ["jan-feb-mar-weighted"] "three_month_weighted" 1 = [] /\
  prediction_terms_on [1; 2]%Z ["jan-feb-mar-weighted"] "three_month_weighted" 2 = [("jan-feb-mar-weighted", 1%Q)].
Proof. vm_compute. split; reflexivity. Qed.
Example C18_ex_dropped_columns :
  map seg_name (filter (kept_segment [1; 2]%Z) (tbl "one_month")) = ["jan"; "feb"].
Proof. vm_compute. reflexivity. Qed.
Example C18_ex_endpoints_of_flags :
  endpoints_of_flags [true; false; true; false; false; true] = [30; 55; 90]%Q.
Proof. vm_compute. reflexivity. Qed.
Example C18_ex_occupancy_sum :
  let ou := occupancy_split QOps (Some false) (Some 70%Q) [30; 65]%Q [45; 55; 90]%Q in
  map (option_map Qred) (snd ou) = [Some 45; Some 10; Some 15; Some 0]%Q /\ fst ou = [Some 0; Some 0; Some 0]%Q.
Proof. vm_compute. split; reflexivity. Qed.
Example C18_ex_month_key :
  month_key "dec-jan-feb-weighted" = Some "jan" /\ unc_segment (map seg_name (tbl "three_month_weighted")) 12 = Some "nov-dec-jan-weighted".
Proof. vm_compute. split; reflexivity. Qed.
Example C18_ex_str_replace_split :
  str_split "-"%char (str_replace "-weighted" "" "a-weighted-b-weighted") = ["a"; "b"].
Proof. vm_compute. reflexivity. Qed.
(* the two regenerated candidate lists (rationals for the theorems, binary64 for the execution) are the same numbers;
   an Example rather than a Theorem: its proof computes with primitive floats, which Print Assumptions lists *)
Example C18_ex_candidate_endpoints_same_numbers : map Q2F default_bins = default_bins_f.
Proof. exact default_bins_same_l. Qed.

(* ==================================================================================================================== *)
(* Extension: which candidate endpoints are kept (_fit_temperature_bins / fit_temperature_bins) and the hour-of-week  *)
(* occupancy rule (_estimate_hour_of_week_occupancy). Model: Model/CalTrackFit.v; lemmas: Proofs/CalTrackFitProofs.v *)
(* (for arbitrary temperatures, candidates, minimum counts, thresholds, residual tables) and                           *)
(* Proofs/CalTrackFitTableProofs.v (regenerated candidates). Kept at the end of the file.                               *)
(* ==================================================================================================================== *)
From V Require Import Model.CalTrackFit Proofs.CalTrackFitProofs.

(* ---- kept endpoints -------------------------------------------------------------------------------------------------- *)
(* the kept endpoints are a sub-list of the candidates, in candidate order *)
Theorem C18_fit_bins_sublist : forall temps minc e, exists flags, fit_bins temps minc e = select flags e.
Proof. exact fit_bins_is_select. Qed.
Print Assumptions C18_fit_bins_sublist.

Theorem C18_fit_bins_subset : forall temps minc e x, In x (fit_bins temps minc e) -> In x e.
Proof. exact fit_bins_subset. Qed.
Print Assumptions C18_fit_bins_subset.

Theorem C18_fit_bins_increasing : forall temps minc e, increasing e -> increasing (fit_bins temps minc e).
Proof. exact fit_bins_increasing. Qed.
Print Assumptions C18_fit_bins_increasing.

(* every kept bin holds at least min_temperature_count temperatures -- or no endpoint is left: the single bin
   (-inf, +inf) is the documented exception (`if len(temp_summary) == 1: return set()`), it is kept whatever it holds *)
Theorem C18_fit_bins_min_count : forall temps minc e,
  fit_bins temps minc e = [] \/ Forall (fun c => (minc <= c)%nat) (bin_counts temps (fit_bins temps minc e)).
Proof. exact fit_bins_min_count. Qed.
Print Assumptions C18_fit_bins_min_count.

(* the loop ends only when _find_endpoints_to_remove finds nothing *)
Theorem C18_fit_bins_stable : forall temps minc e, removals temps minc (fit_bins temps minc e) = [].
Proof. exact fit_bins_stable. Qed.
Print Assumptions C18_fit_bins_stable.

(* nothing is merged without need: a list whose bins all hold the minimum is returned unchanged *)
Theorem C18_fit_bins_keeps_full_lists : forall temps minc e,
  Forall (fun c => (minc <= c)%nat) (bin_counts temps e) -> fit_bins temps minc e = e.
Proof. exact fit_bins_fixpoint. Qed.
Print Assumptions C18_fit_bins_keeps_full_lists.

Theorem C18_bin_counts_length : forall temps e, List.length (bin_counts temps e) = S (List.length e).
Proof. exact bin_counts_length. Qed.
Print Assumptions C18_bin_counts_length.

(* flag column and back, for any strictly increasing candidate list *)
Theorem C18_fit_flags_select : forall temps cands minc, normalize cands = cands -> strictly_increasing cands ->
  select (fit_flags temps cands minc) cands = fit_temperature_bins_list temps cands minc.
Proof. exact fit_flags_select. Qed.
Print Assumptions C18_fit_flags_select.

(* ---- occupancy rule ---------------------------------------------------------------------------------------------------- *)
(* totality: the lookup has 168 entries and, with data, each is a boolean *)
Theorem C18_occupancy_lookup_length : forall no_data thr rows, List.length (occupancy_lookup no_data thr rows) = 168%nat.
Proof. exact occupancy_length. Qed.
Print Assumptions C18_occupancy_lookup_length.

Theorem C18_occupancy_lookup_total : forall thr rows h, (0 <= h < 168)%Z ->
  nth_error (occupancy_lookup false thr rows) (Z.to_nat h) = Some (Some (occupied_flag thr rows h)).
Proof. exact occupancy_total. Qed.
Print Assumptions C18_occupancy_lookup_total.

(* occupied iff the fraction of positive residuals of that hour of the week exceeds the threshold *)
Theorem C18_occupied_iff_ratio : forall thr rows h, (0 < n_residuals rows h)%nat ->
  (occupied_flag thr rows h = true <-> (thr < ratio (n_positive rows h) (n_residuals rows h))%Q).
Proof. exact occupied_iff_ratio. Qed.
Print Assumptions C18_occupied_iff_ratio.

Theorem C18_ratio_gt_iff : forall thr p n, (0 < n)%nat ->
  ((thr < ratio p n)%Q <-> (thr * inject_Z (Z.of_nat n) < inject_Z (Z.of_nat p))%Q).
Proof. exact ratio_gt_iff. Qed.
Print Assumptions C18_ratio_gt_iff.

(* the cast: an hour of the week without any residual is NaN after the re-index and True after .astype(bool) *)
Theorem C18_occupied_without_residuals : forall thr rows h, n_residuals rows h = O -> occupied_flag thr rows h = true.
Proof. exact occupied_without_residuals. Qed.
Print Assumptions C18_occupied_without_residuals.

(* a segment without a single complete row: all 168 entries are NaN (the lookup is not cast); this is the NaN
   occupancy of C18_ex_nan_occupancy_keeps_both *)
Theorem C18_occupancy_no_data_all_nan : forall thr rows h, (0 <= h < 168)%Z ->
  nth_error (occupancy_lookup true thr rows) (Z.to_nat h) = Some None.
Proof. exact occupancy_no_data. Qed.
Print Assumptions C18_occupancy_no_data_all_nan.

(* ---- over the regenerated candidates (these may stop checking when the source changes; they come last) -------- *)
From V Require Import Proofs.CalTrackFitTableProofs.

Theorem C18_candidates_sorted_distinct : normalize default_bins = default_bins /\ strictly_increasing default_bins.
Proof. exact (conj candidates_normal_l candidates_strict_l). Qed.
Print Assumptions C18_candidates_sorted_distinct.

(* the endpoint list a feature processor selects with the keep-flags of fit_temperature_bins is the list
   _fit_temperature_bins returned; so all bin theorems above hold for it, and its bins hold the minimum count *)
Theorem C18_fitted_endpoints_are_the_kept_bins : forall temps minc,
  endpoints_of_flags (fit_flags temps default_bins minc) = fit_temperature_bins_list temps default_bins minc.
Proof. exact fitted_endpoints_l. Qed.
Print Assumptions C18_fitted_endpoints_are_the_kept_bins.

Theorem C18_fitted_endpoints_min_count : forall temps minc,
  let e := endpoints_of_flags (fit_flags temps default_bins minc) in
  e = [] \/ Forall (fun c => (minc <= c)%nat) (bin_counts temps e).
Proof. exact fitted_endpoints_min_count_l. Qed.
Print Assumptions C18_fitted_endpoints_min_count.

(* ---- witnesses ------------------------------------------------------------------------------------------------------------ *)
(* 3 temperatures below 30, 2 in (30,45], 3 in (45,55], 1 above: with a minimum of 2 the last bin is sparse (drop 55),
   then (45,+inf) holds 4, (30,45] 2, first 3: stop *)
Example C18_ex_fit_bins :
  fit_bins [10; 20; 25; 31; 40; 46; 50; 55; 70]%Q 2 [30; 45; 55]%Q = [30; 45]%Q /\
  bin_counts [10; 20; 25; 31; 40; 46; 50; 55; 70]%Q [30; 45]%Q = [3; 2; 4]%nat.
Proof. vm_compute. split; reflexivity. Qed.
(* only when both outer bins are full are the inner ones looked at: (30,45] is empty, its right endpoint 45 goes *)
Example C18_ex_fit_bins_middle :
  fit_bins [10; 20; 46; 50; 60; 70]%Q 2 [30; 45; 55]%Q = [30; 55]%Q.
Proof. vm_compute. reflexivity. Qed.
(* the exception: too few temperatures altogether leave the single bin *)
Example C18_ex_fit_bins_single_bin : fit_bins [50]%Q 20 [30; 45; 55; 65; 75; 90]%Q = [].
Proof. vm_compute. reflexivity. Qed.
Example C18_ex_fit_flags :
  fit_flags [10; 20; 25; 31; 40; 46; 50; 55; 70]%Q [30; 45; 55]%Q 2 = [true; true; false].
Proof. vm_compute. reflexivity. Qed.
Example C18_ex_normalize : normalize [55; 30; 45; 30]%Q = [30; 45; 55]%Q.
Proof. vm_compute. reflexivity. Qed.
(* 13 positive residuals out of 20 is not above the default threshold (the double nearest 0.65), 14 are; an hour without
   residuals is occupied *)
Example C18_ex_occupancy_threshold :
  let rows p := map (fun k => (5%Z, Nat.ltb k p)) (seq 0 20) in
  occupied_flag default_occupancy_threshold (rows 13%nat) 5 = false /\
  occupied_flag default_occupancy_threshold (rows 14%nat) 5 = true /\
  occupied_flag default_occupancy_threshold (rows 14%nat) 6 = true /\
  n_residuals (rows 14%nat) 6 = O.
Proof. vm_compute. repeat split. Qed.
(* the rule as the code evaluates it (binary64 division and comparison) and the rule over exact rationals give the same
   flag at the default threshold for every count up to 250 residuals per hour of week (a year of data has 53); an
   Example rather than a Theorem because its proof computes with primitive floats, which Print Assumptions lists.
   For other thresholds the two can differ inside the rounding band: 14 of 20 is not above the double nearest 0.7 *)
Example C18_ex_occupancy_float_rule_agrees : forall n p, (n <= 250)%nat -> (p <= n)%nat ->
  flag_f default_occupancy_threshold_f p n = flag_q default_occupancy_threshold p n.
Proof. exact occupancy_float_rule_agrees_l. Qed.
Example C18_ex_default_threshold_same_number : Q2F default_occupancy_threshold = default_occupancy_threshold_f.
Proof. exact default_threshold_same_l. Qed.
Example C18_ex_occupancy_rounding_band :
  flag_f (0x1.6666666666666p-1)%float 14 20 = false /\ flag_q (Qmake 3152519739159347 4503599627370496) 14 20 = true.
Proof. vm_compute. split; reflexivity. Qed.

(* ==================================================================================================================== *)
(* segment_time_series(..., drop_zero_weight_segments=True): only all-zero columns go                                  *)
(* ==================================================================================================================== *)
(* every (hour, segment) with a weight above zero survives the filter, for any table and any part of the year *)
Theorem C18_drop_keeps_positive : forall present t s m, In s t -> In m present -> Qle_bool (seg_weight s m) 0 = false ->
  In s (dropped_table present t).
Proof. exact drop_keeps_positive. Qed.
Print Assumptions C18_drop_keeps_positive.

Theorem C18_drop_preserves_positive_row : forall present t m, In m present ->
  positive_row (dropped_table present t) m = positive_row t m.
Proof. exact drop_preserves_positive_row. Qed.
Print Assumptions C18_drop_preserves_positive_row.

(* the dropped columns are zero on every hour of the index (all four tables) *)
Theorem C18_dropped_columns_all_zero : forall type t, In (type, t) segment_tables -> forall present s m, In s t ->
  kept_segment present s = false -> In m present -> In m months -> (seg_weight s m == 0)%Q.
Proof. exact dropped_all_zero_l. Qed.
Print Assumptions C18_dropped_columns_all_zero.

(* three_month_weighted on any part of the year, filtered or not: an hour keeps exactly three weights above zero,
   one 1 and two 1/2 (which segments they are: C18_weights_partition) *)
Theorem C18_weighted_row_after_drop : forall present m, In m months -> In m present ->
  positive_row (dropped_table present (tbl "three_month_weighted")) m = positive_row (tbl "three_month_weighted") m /\
  exists a b c, positive_row (tbl "three_month_weighted") m = [a; b; c] /\
    (Qeq_bool (snd a) 1 && Qeq_bool (snd b) (1 # 2) && Qeq_bool (snd c) (1 # 2)
     || Qeq_bool (snd a) (1 # 2) && Qeq_bool (snd b) 1 && Qeq_bool (snd c) (1 # 2)
     || Qeq_bool (snd a) (1 # 2) && Qeq_bool (snd b) (1 # 2) && Qeq_bool (snd c) 1) = true.
Proof. exact weighted_positive_row_l. Qed.
Print Assumptions C18_weighted_row_after_drop.

(* an index that covers January only keeps the three segments January has weight in -- the two neighbours hold only 1/2 *)
Example C18_ex_drop_january_only :
  map seg_name (dropped_table [1]%Z (tbl "three_month_weighted"))
  = ["dec-jan-feb-weighted"; "jan-feb-mar-weighted"; "nov-dec-jan-weighted"] /\
  segment_weights_on "three_month_weighted" true [1]%Z 1
  = Some [("dec-jan-feb-weighted", 1%Q); ("jan-feb-mar-weighted", (1 # 2)%Q); ("nov-dec-jan-weighted", (1 # 2)%Q)].
Proof. vm_compute. split; reflexivity. Qed.

(* ==================================================================================================================== *)
(* The value predicted for an hour: CalTRACKSegmentModel.predict and SegmentedModel.predict (Model/CalTrackPredict.v).  *)
(* ==================================================================================================================== *)
From V Require Import Model.CalTrackPredict Proofs.CalTrackPredictProofs.

(* for any frames (occupancy lookups, keep-flags), any segment models and parameters, any part of the year: the prediction
   of an hour is the value of its own month's segment model on that hour's features, NaN when that model is absent *)
Theorem C18_hour_prediction_is_own_value : forall frames models present m how T, In m months -> In m present ->
  exists own, own_segment (tbl "three_month_weighted") m = Some own /\
    hour_prediction frames models present "three_month_weighted" m how T =
    (if mem_str own (map fst models) then option_map (Qmult 1) (segment_value frames models own how T) else None).
Proof. exact hour_prediction_own_l. Qed.
Print Assumptions C18_hour_prediction_is_own_value.

(* ... so nothing about the other eleven segments enters: two models that agree on the own segment predict the same *)
Theorem C18_hour_prediction_independent_of_other_segments :
  forall frames models frames' models' present present' m how T, In m months -> In m present -> In m present' ->
  exists own, own_segment (tbl "three_month_weighted") m = Some own /\
    (assoc own frames = assoc own frames' -> assoc own models = assoc own models' ->
     hour_prediction frames models present "three_month_weighted" m how T =
     hour_prediction frames' models' present' "three_month_weighted" m how T).
Proof. exact hour_prediction_independent_l. Qed.
Print Assumptions C18_hour_prediction_independent_of_other_segments.

(* closed form of a segment model's answer for an occupied / unoccupied hour with a finite temperature *)
Theorem C18_occupied_value : forall p how c t eo eu, lookup_how how (sp_how p) = Some c ->
  let r := feature_row QOps true (Some true) (Some t) eo eu in
  exists v, segment_predict p how (fst r) (snd r) = Some v /\ (v == c + dot (sp_occ p) (bin_features QOps t eo))%Q.
Proof. exact occupied_value_l. Qed.
Print Assumptions C18_occupied_value.

Theorem C18_unoccupied_value : forall p how c t eo eu, lookup_how how (sp_how p) = Some c ->
  let r := feature_row QOps true (Some false) (Some t) eo eu in
  exists v, segment_predict p how (fst r) (snd r) = Some v /\ (v == c + dot (sp_unocc p) (bin_features QOps t eu))%Q.
Proof. exact unoccupied_value_l. Qed.
Print Assumptions C18_unoccupied_value.

(* the bins hold the temperature exactly once: with one slope on all occupied bins the prediction is c_h + b * T *)
Theorem C18_occupied_value_linear : forall p how c b t eo eu, lookup_how how (sp_how p) = Some c ->
  sp_occ p = repeat (Some b) (S (List.length eo)) -> increasing eo ->
  let r := feature_row QOps true (Some true) (Some t) eo eu in
  exists v, segment_predict p how (fst r) (snd r) = Some v /\ (v == c + b * t)%Q.
Proof. exact occupied_linear_l. Qed.
Print Assumptions C18_occupied_value_linear.

(* no prediction for an hour of the week the segment model has no parameter for, or for a NaN temperature *)
Theorem C18_no_hour_of_week_parameter : forall p how o u, lookup_how how (sp_how p) = None -> segment_predict p how o u = None.
Proof. exact no_how_parameter_l. Qed.
Print Assumptions C18_no_hour_of_week_parameter.

Theorem C18_nan_temperature_not_predicted : forall p how occ eo eu,
  let r := feature_row QOps true occ None eo eu in segment_predict p how (fst r) (snd r) = None.
Proof. exact nan_temperature_l. Qed.
Print Assumptions C18_nan_temperature_not_predicted.

(* witnesses: a January hour (hour of week 5, 50 degrees, occupied, endpoints 30 and 65 kept) of a model whose January
   segment has c_5 = 2 and occupied slopes 1/2, 1/4, 1: 2 + 1/2*30 + 1/4*20 + 0 = 22; February's parameters do not matter *)
Definition ex_frames : frames_t :=
  [("dec-jan-feb-weighted", (repeat true 168, [true; false; false; true; false; false], [false; false; false; false; false; false]));
   ("jan-feb-mar-weighted", (repeat false 168, [false; false; false; false; false; false], [false; false; false; false; false; false]))].
Definition ex_models (feb : Q) : models_t :=
  [("dec-jan-feb-weighted", Some {| sp_how := [(5%Z, 2%Q)]; sp_occ := [Some (1 # 2); Some (1 # 4); Some 1]%Q; sp_unocc := [Some 7%Q] |});
   ("jan-feb-mar-weighted", Some {| sp_how := [(5%Z, feb)]; sp_occ := [Some 3%Q]; sp_unocc := [Some 9%Q] |})].
Example C18_ex_hour_prediction :
  option_map Qred (hour_prediction ex_frames (ex_models 100) [1; 2]%Z "three_month_weighted" 1 5 (Some 50%Q)) = Some 22%Q /\
  option_map Qred (hour_prediction ex_frames (ex_models (-3)) [1]%Z "three_month_weighted" 1 5 (Some 50%Q)) = Some 22%Q /\
  hour_prediction ex_frames (ex_models 100) [1; 2]%Z "three_month_weighted" 1 6 (Some 50%Q) = None /\
  hour_prediction ex_frames (ex_models 100) [1; 2]%Z "three_month_weighted" 1 5 None = None /\
  hour_prediction ex_frames (ex_models 100) [1; 2; 3]%Z "three_month_weighted" 3 5 (Some 50%Q) = None.
Proof. vm_compute. repeat split. Qed.
Example C18_ex_linear :
  let p := {| sp_how := [(5%Z, 2%Q)]; sp_occ := repeat (Some (1 # 2)%Q) 3; sp_unocc := [] |} in
  let r := feature_row QOps true (Some true) (Some 70%Q) [30; 65]%Q [] in
  option_map Qred (segment_predict p 5 (fst r) (snd r)) = Some 37%Q.
Proof. vm_compute. reflexivity. Qed.
