(* C18 — CalTRACK hourly: each hour belongs to its own month; bin features sum to T.
   Statements only; proofs are in Proofs/CalTrackTableProofs.v (tables, finite) and Proofs/CalTrackProofs.v (bins, occupancy,
   hour of week; unbounded); the model is Model/CalTrack.v over the tables of
   Generated/CalTrackTables.v, which are regenerated from /repo on every run, so the finite theorems below
   are re-established against what the source says now. *)
From Coq Require Import ZArith QArith Qminmax List Bool String PrimFloat.
From V Require Import Generated.CalTrackTables Model.CalTrack Proofs.CalTrackProofs Proofs.CalTrackTableProofs.
Import ListNotations.
Local Open Scope string_scope.

(* ---- fitting weights: three_month_weighted ------------------------------------------------------- *)
(* every calendar month has full weight in exactly one segment (its own: the one no other month has full
   weight in), half weight in exactly the own segments of its two neighbour months, and none elsewhere *)
Theorem C18_weights_partition : forall m, In m months ->
  exists own prv nxt,
    own_segment (tbl "three_month_weighted") m = Some own /\
    own_segment (tbl "three_month_weighted") (prev_month m) = Some prv /\
    own_segment (tbl "three_month_weighted") (next_month m) = Some nxt /\
    forall s, In s (tbl "three_month_weighted") ->
      (seg_weight s m ==
       if String.eqb (seg_name s) own then 1
       else if String.eqb (seg_name s) prv || String.eqb (seg_name s) nxt then 1 # 2 else 0)%Q.
Proof. exact weights_partition_weighted_l. Qed.
Print Assumptions C18_weights_partition.

Theorem C18_own_segments_distinct : forall m m', In m months -> In m' months ->
  own_segment (tbl "three_month_weighted") m = own_segment (tbl "three_month_weighted") m' -> m = m'.
Proof. exact own_segment_injective_l. Qed.
Print Assumptions C18_own_segments_distinct.

Theorem C18_segment_names_distinct : NoDup (map seg_name (tbl "three_month_weighted")).
Proof. exact weighted_names_nodup. Qed.
Print Assumptions C18_segment_names_distinct.

(* ---- the other three segment types ---------------------------------------------------------------- *)
Theorem C18_weights_partition_one_month : forall m, In m months ->
  exists own,
    own_segment (tbl "one_month") m = Some own /\
    forall s, In s (tbl "one_month") ->
      (seg_weight s m == if String.eqb (seg_name s) own then 1 else 0)%Q.
Proof. exact weights_partition_one_month_l. Qed.
Print Assumptions C18_weights_partition_one_month.

Theorem C18_one_month_segments_distinct : forall m m', In m months -> In m' months ->
  own_segment (tbl "one_month") m = own_segment (tbl "one_month") m' -> m = m'.
Proof. exact own_segment_one_month_injective_l. Qed.
Print Assumptions C18_one_month_segments_distinct.

(* unweighted three-month segments: full weight in exactly the segments centred on the month and on its
   two neighbours, none elsewhere *)
Theorem C18_weights_partition_three_month : forall m, In m months ->
  exists own prv nxt,
    centre_segment (tbl "three_month") m = Some own /\
    centre_segment (tbl "three_month") (prev_month m) = Some prv /\
    centre_segment (tbl "three_month") (next_month m) = Some nxt /\
    forall s, In s (tbl "three_month") ->
      (seg_weight s m ==
       if String.eqb (seg_name s) own || String.eqb (seg_name s) prv || String.eqb (seg_name s) nxt
       then 1 else 0)%Q.
Proof. exact weights_partition_three_month_l. Qed.
Print Assumptions C18_weights_partition_three_month.

Theorem C18_weighted_is_three_month_halved : forall m, In m months ->
  exists own, own_segment (tbl "three_month_weighted") m = Some own /\
    centre_segment (tbl "three_month") m = Some (substring 0 (String.length own - 9) own) /\
    substring (String.length own - 9) 9 own = "-weighted".
Proof. exact weighted_is_three_month_halved_l. Qed.
Print Assumptions C18_weighted_is_three_month_halved.

Theorem C18_weights_single : forall m, segment_weights "single" m = Some [("all", 1%Q)].
Proof. exact weights_single_l. Qed.
Print Assumptions C18_weights_single.

Theorem C18_segment_types : map fst segment_tables = ["single"; "one_month"; "three_month"; "three_month_weighted"].
Proof. exact table_types_l. Qed.
Print Assumptions C18_segment_types.

(* ---- prediction: routed to the own month's model only ---------------------------------------------- *)
Theorem C18_wrapper_fits_three_month_weighted : wrapper_segment_type = "three_month_weighted".
Proof. exact wrapper_fits_weighted_l. Qed.
Print Assumptions C18_wrapper_fits_three_month_weighted.

Theorem C18_prediction_own_month : forall m, In m months ->
  exists s, prediction_segment "three_month_weighted" m = Some s /\
            own_segment (tbl "three_month_weighted") m = Some s.
Proof. exact prediction_own_month_l. Qed.
Print Assumptions C18_prediction_own_month.

(* the products summed into an hour's prediction: one term, the own month's model with weight 1 *)
Theorem C18_predict_single_model : forall m, In m months ->
  exists s, own_segment (tbl "three_month_weighted") m = Some s /\
            prediction_terms "three_month_weighted" m = [(s, 1%Q)].
Proof. exact predict_single_model_l. Qed.
Print Assumptions C18_predict_single_model.

(* ... hence, whatever the fitted segment models answer, the prediction is the own model's answer *)
Theorem C18_predict_hour_is_own_model :
  forall (V : Type) (vadd : V -> V -> V) (vscale : Q -> V -> V),
    (forall v, vscale 1%Q v = v) ->
    forall (models : string -> V) m, In m months ->
    exists s, own_segment (tbl "three_month_weighted") m = Some s /\
              predict_hour V vadd vscale models "three_month_weighted" m = Some (models s).
Proof. intros V vadd vscale H1 models. exact (predict_hour_own_l V vadd vscale H1 models). Qed.
Print Assumptions C18_predict_hour_is_own_model.

Theorem C18_predict_single_segment_type : forall m, prediction_terms "single" m = [("all", 1%Q)].
Proof. exact predict_single_l. Qed.
Print Assumptions C18_predict_single_segment_type.

(* ---- temperature bin features (exact arithmetic; every finite binary64 temperature is a rational) -- *)
Theorem C18_bins_sum_to_T : forall (T : Q) (e : list Q), increasing e ->
  (sum QOps (bin_features QOps T e) == T)%Q.
Proof. exact bins_sum_to_T_l. Qed.
Print Assumptions C18_bins_sum_to_T.

Theorem C18_bins_closed_form : forall (T : Q) (e : list Q), increasing e ->
  Forall2 Qeq (bin_features QOps T e) (bin_spec T e).
Proof. exact bins_closed_form_l. Qed.
Print Assumptions C18_bins_closed_form.

Theorem C18_bins_fill_in_order : forall (T : Q) (e : list Q), increasing e ->
  filled_in_order (capacities e) (bin_features QOps T e) /\
  Forall (fun b => 0 <= b)%Q (tl (bin_features QOps T e)).
Proof. exact bins_fill_in_order_l. Qed.
Print Assumptions C18_bins_fill_in_order.

Theorem C18_bins_count : forall (N : numops) (T : num N) e, List.length (bin_features N T e) = S (List.length e).
Proof. exact bins_length_l. Qed.
Print Assumptions C18_bins_count.

Theorem C18_bins_nan : forall (N : numops) e, bin_features_opt N None e = repeat None (S (List.length e)).
Proof. exact bins_nan_l. Qed.
Print Assumptions C18_bins_nan.

(* ---- occupancy -------------------------------------------------------------------------------------- *)
Theorem C18_occupied_xor_unoccupied : forall (N : numops) (b : bool) T eo eu,
  let ou := occupancy_split N (Some b) T eo eu in
  (b = true -> fst ou = bin_features_opt N T eo /\ Forall (fun x => x = Some (nzero N)) (snd ou)) /\
  (b = false -> snd ou = bin_features_opt N T eu /\ Forall (fun x => x = Some (nzero N)) (fst ou)).
Proof. exact occupied_xor_unoccupied_l. Qed.
Print Assumptions C18_occupied_xor_unoccupied.

(* the rows the processors hand on (after merge_features) are either blanked entirely or exactly that split *)
Theorem C18_feature_row_cases : forall (N : numops) others occ T eo eu,
  let r := feature_row N others occ T eo eu in
  r = occupancy_split N occ T eo eu \/
  (Forall (fun x => x = None) (fst r) /\ Forall (fun x => x = None) (snd r)).
Proof. exact feature_row_cases_l. Qed.
Print Assumptions C18_feature_row_cases.

(* ---- hour of week ------------------------------------------------------------------------------------- *)
Theorem C18_how_formula : forall dow hour, (0 <= dow < 7)%Z -> (0 <= hour < 24)%Z ->
  (hour_of_week dow hour = 24 * dow + hour /\ 0 <= hour_of_week dow hour < 168)%Z.
Proof. exact how_formula_l. Qed.
Print Assumptions C18_how_formula.

Theorem C18_how_injective : forall d h d' h',
  (0 <= d < 7)%Z -> (0 <= h < 24)%Z -> (0 <= d' < 7)%Z -> (0 <= h' < 24)%Z ->
  hour_of_week d h = hour_of_week d' h' -> d = d' /\ h = h'.
Proof. exact how_injective_l. Qed.
Print Assumptions C18_how_injective.

Theorem C18_how_onto : forall k, (0 <= k < 168)%Z ->
  exists d h, (0 <= d < 7)%Z /\ (0 <= h < 24)%Z /\ hour_of_week d h = k.
Proof. exact how_onto_l. Qed.
Print Assumptions C18_how_onto.

(* ---- non-vacuity witnesses ------------------------------------------------------------------------------ *)
Example C18_ex_own_january : own_segment (tbl "three_month_weighted") 1 = Some "dec-jan-feb-weighted".
Proof. vm_compute. reflexivity. Qed.
Example C18_ex_row_january :
  filter (fun nw => negb (Qeq_bool (snd nw) 0)) (row_weights (tbl "three_month_weighted") 1)
  = [("dec-jan-feb-weighted", 1%Q); ("jan-feb-mar-weighted", (1 # 2)%Q); ("nov-dec-jan-weighted", (1 # 2)%Q)].
Proof. vm_compute. reflexivity. Qed.
Example C18_ex_prediction_december : prediction_segment "three_month_weighted" 12 = Some "nov-dec-jan-weighted".
Proof. vm_compute. reflexivity. Qed.
Example C18_ex_increasing : increasing [30; 45; 55; 65; 75; 90]%Q.
Proof. cbn. repeat split; discriminate. Qed.
Example C18_ex_bins_70 :
  map Qred (bin_features QOps 70 [30; 45; 55; 65; 75; 90]) = [30; 15; 10; 10; 5; 0; 0]%Q.
Proof. vm_compute. reflexivity. Qed.
Example C18_ex_bins_on_endpoint :
  map Qred (bin_features QOps 65 [30; 45; 55; 65; 75; 90]) = [30; 15; 10; 10; 0; 0; 0]%Q.
Proof. vm_compute. reflexivity. Qed.
Example C18_ex_bins_below_first :
  map Qred (bin_features QOps (-12) [30; 90]) = [-12; 0; 0]%Q.
Proof. vm_compute. reflexivity. Qed.
Example C18_ex_bins_float :
  bin_features FOps 70%float [30; 45; 55; 65; 75; 90]%float = [30; 15; 10; 10; 5; 0; 0]%float.
Proof. vm_compute. reflexivity. Qed.
Example C18_ex_occupied_values :
  let ou := occupancy_split QOps (Some true) (Some 50%Q) [30%Q] [45%Q] in
  map (option_map Qred) (fst ou) = [Some 30%Q; Some 20%Q] /\ snd ou = [Some 0%Q; Some 0%Q].
Proof. vm_compute. split; reflexivity. Qed.
(* outside the statement's domain: a NaN occupancy feature (hour of week absent from the lookup) would keep
   both groups; estimate_hour_of_week_occupancy re-indexes its result over all 168 hours, which the
   correspondence observes on every run *)
Example C18_ex_nan_occupancy_keeps_both :
  occupancy_split QOps None (Some (50 # 1)) [30 # 1] [45 # 1] =
  (bin_features_opt QOps (Some (50 # 1)) [30 # 1], bin_features_opt QOps (Some (50 # 1)) [45 # 1]).
Proof. exact occupancy_nan_keeps_both_l. Qed.
Example C18_ex_how : hour_of_week 6 23 = 167%Z /\ hour_of_week 0 0 = 0%Z /\ hour_of_week 2 5 = 53%Z.
Proof. vm_compute. repeat split. Qed.
