(* C14 — approved-method settings are locked unless developer mode is explicit. *)
From Coq Require Import ZArith QArith List Bool String.
From V Require Import Model.Settings Generated.SettingsGen Proofs.SettingsProofs Proofs.SettingsGenProofs.
Import ListNotations.
Open Scope string_scope.

Theorem C14_defaults_are_approved : forall c, In c top_classes -> defaults_ok c = true.
Proof. exact defaults_are_approved_l. Qed.
Print Assumptions C14_defaults_are_approved.

Theorem C14_every_method_constant_is_dev_locked : forall c, In c locked_families -> locks_ok c = true.
Proof. exact every_method_constant_is_dev_locked_l. Qed.
Print Assumptions C14_every_method_constant_is_dev_locked.

Theorem C14_domains_are_approved : forall c, In c top_classes -> domains_ok c = true.
Proof. exact domains_are_approved_l. Qed.
Print Assumptions C14_domains_are_approved.
