(* C14 — approved-method settings are locked unless developer mode is explicit.
   Statements only; generic proofs are in Proofs/SettingsProofs.v; the decision procedures over the regenerated
   trees (Generated/SettingsGen.v, rewritten from /repo by harness/translate_settings.py on every run) are in
   Proofs/SettingsGenProofs.v and are evaluated here by vm_compute; the model is Model/Settings.v.
   Order: theorems that hold for every tree first, facts about the regenerated trees last, so that a change of the
   source that breaks one of the latter still leaves the former re-checked and counted. *)
From Coq Require Import ZArith QArith List Bool String.
From V Require Import Model.Settings Model.SettingsProg Generated.SettingsGen Proofs.SettingsProofs Proofs.SettingsGenProofs.
Import ListNotations.
Open Scope string_scope.

(* explicit witnesses (no existential variables under vm_compute) *)
Definition the (r : result sval) : sval := match r with Accept s => s | Reject _ => SLeaf JNull end.
Definition fields_of (s : sval) : list (string * sval) := match s with SObj _ f => f | SLeaf _ => [] end.

(* ================================================================== (2) the lock *)
(* The full statement, proved since the lock follows the DECLARED classes (/repo c15ad84d; before that it was refuted
   by a settings object of a subclass, finding C14-K1, see C14_subclass_object_is_refused below): whatever the override
   document — dicts, nested dicts, settings objects of the declared class or of a subclass — an accepted construction
   without developer mode leaves every developer leaf of the tree, at every nesting level, at the tree's default.
   Any tree, any registry, any depth; by induction on the path through the tree. *)
Theorem C14_dev_lock :
  forall reg n d c o vs ch kvs gov f,
    In VDevMode vs ->
    vtop reg (Node n d c o vs ch) kvs = Accept (SObj gov f) ->
    get_leaf "developer_mode" f = Some (JBool false) ->
    forall path l v, leaf_at ch path = Some l -> ldev l = true -> value_at (SObj gov f) path = Some v ->
    jv_eqb v (ldefault l) = true.
Proof. exact dev_lock_l. Qed.
Print Assumptions C14_dev_lock.

(* the lock is exact: it answers "developer mode is not enabled" only if some developer leaf of the tree, at some
   depth, does not hold its default — so a document that changes open fields only (season and weekday maps,
   uncertainty level, ...) is never refused by the lock.  By induction on the tree, for documents without object
   input; wf_children = field names unique, no optional nested object (checked on the regenerated trees below). *)
Theorem C14_lock_exact : forall reg n d c o vs ch kvs,
  wf_children ch = true -> no_inst_kvs kvs = true ->
  vtop reg (Node n d c o vs ch) kvs = Reject RDeveloper ->
  exists f path l v, vfields reg ch (norm_kvs kvs) = Some f /\
    leaf_at ch path = Some l /\ ldev l = true /\ value_at (SObj ch f) path = Some v /\ jv_eqb v (ldefault l) = false.
Proof. exact lock_exact_l. Qed.
Print Assumptions C14_lock_exact.

Theorem C14_nondev_not_locked : forall reg n d c o vs ch kvs f,
  wf_children ch = true -> no_inst_kvs kvs = true ->
  vfields reg ch (norm_kvs kvs) = Some f ->
  (forall path l v, leaf_at ch path = Some l -> ldev l = true -> value_at (SObj ch f) path = Some v ->
                    jv_eqb v (ldefault l) = true) ->
  vtop reg (Node n d c o vs ch) kvs <> Reject RDeveloper.
Proof. exact nondev_not_locked_l. Qed.
Print Assumptions C14_nondev_not_locked.

(* "unless developer mode is explicit": the lock validator passes as soon as developer_mode is True *)
Theorem C14_explicit_developer_mode_unlocks : forall gov f,
  get_leaf "developer_mode" f = Some (JBool true) -> run_vid VDevMode gov f = None.
Proof. exact explicit_developer_mode_unlocks_l. Qed.
Print Assumptions C14_explicit_developer_mode_unlocks.

(* non-vacuity: the lock does fire on the regenerated daily tree, two levels down, and the trees are well formed *)
Example C14_lock_exact_nonvacuous :
  vtop reg t_DailySettings [("split_selection", JObj [("penalty_power", JNum 3)])] = Reject RDeveloper /\
  (exists s, vtop reg t_DailySettings [("developer_mode", JBool true); ("split_selection", JObj [("penalty_power", JNum 3)])] = Accept s) /\
  wf_children children_DailySettings = true /\ wf_children children_DailyLegacySettings = true /\
  wf_children children_BillingSettings = true.
Proof.
  split; [vm_compute; reflexivity|]. split.
  - exists (the (vtop reg t_DailySettings [("developer_mode", JBool true); ("split_selection", JObj [("penalty_power", JNum 3)])])).
    vm_compute. reflexivity.
  - split; [|split]; vm_compute; reflexivity.
Qed.

(* non-vacuity: a nested open override on the regenerated daily tree is accepted without developer mode and a
   developer leaf two levels down is reachable *)
Example C14_dev_lock_nonvacuous :
  exists f, vtop reg t_DailySettings [("Season", JObj [(" MARCH ", JStr "Winter ")])] = Accept (SObj children_DailySettings f) /\
            get_leaf "developer_mode" f = Some (JBool false) /\
            value_at (SObj children_DailySettings f) ["season"; "march"] = Some (JStr "winter") /\
            (exists l, leaf_at children_DailySettings ["split_selection"; "criteria"] = Some l /\ ldev l = true) /\
            In VDevMode [VDevMode; VAlphaFinal; VFinalBounds; VInitStep].
Proof.
  exists (fields_of (the (vtop reg t_DailySettings [("Season", JObj [(" MARCH ", JStr "Winter ")])]))).
  split; [vm_compute; reflexivity|]. split; [vm_compute; reflexivity|]. split; [vm_compute; reflexivity|].
  split; [|left; reflexivity].
  exists (match leaf_at children_DailySettings ["split_selection"; "criteria"] with Some l => l | None =>
            {| lname := ""; ldev := false; lty := {| base := BBool; optional := false |}; ldefault := JNull; lexcl := false; lreq := [] |} end).
  split; vm_compute; reflexivity.
Qed.

(* regression witness of the former finding C14-K1 (fixed in /repo c15ad84d): a settings object of the legacy subclass
   in the split_selection field of the daily tree changes six developer-only constants; it is refused by the lock now —
   also when it is an object of the declared class with one developer leaf changed — and accepted in developer mode.
   Replayed on the implementation on every run (corpus/C14.json: must be REJECTED by the code). *)
Example C14_subclass_object_is_refused :
  vtop reg t_DailySettings [("split_selection", JInst "Split_Selection_Legacy_Definition" [])] = Reject RDeveloper /\
  vtop reg t_DailySettings [("split_selection", JInst "Split_Selection_Definition" [("criteria", JStr "aic")])] = Reject RDeveloper /\
  (exists s, vtop reg t_DailySettings [("split_selection", JInst "Split_Selection_Definition" [])] = Accept s) /\
  (exists s, vtop reg t_DailySettings [("developer_mode", JBool true);
                                       ("split_selection", JInst "Split_Selection_Legacy_Definition" [])] = Accept s /\
             value_at s ["split_selection"; "allow_separate_summer"] = Some (JBool false)).
Proof.
  split; [vm_compute; reflexivity|]. split; [vm_compute; reflexivity|]. split.
  - exists (the (vtop reg t_DailySettings [("split_selection", JInst "Split_Selection_Definition" [])])). vm_compute. reflexivity.
  - exists (the (vtop reg t_DailySettings [("developer_mode", JBool true); ("split_selection", JInst "Split_Selection_Legacy_Definition" [])])).
    split; vm_compute; reflexivity.
Qed.

(* ================================================================== (3) normalisation *)
Theorem C14_normalise_idempotent : forall kvs, normalise_kvs (normalise_kvs kvs) = normalise_kvs kvs.
Proof. exact normalise_kvs_idempotent_l. Qed.
Print Assumptions C14_normalise_idempotent.

(* key case/whitespace at every nesting level and case/whitespace of string values never change the outcome
   (acceptance, rejection reason, settled values) of constructing a settings class — any tree, any registry *)
Theorem C14_case_whitespace_irrelevant : forall reg t kvs, vtop reg t (normalise_kvs kvs) = vtop reg t kvs.
Proof. exact case_whitespace_irrelevant_l. Qed.
Print Assumptions C14_case_whitespace_irrelevant.

Example C14_case_whitespace_nonvacuous :
  let kvs := [("  Developer_Mode", JStr " TRUE "); ("SPLIT_selection ", JObj [(" Criteria", JStr " AIC ")])] in
  normalise_kvs kvs <> kvs /\
  exists s, vtop reg t_DailySettings kvs = Accept s /\ value_at s ["split_selection"; "criteria"] = Some (JStr "aic").
Proof.
  split; [vm_compute; discriminate|].
  exists (the (vtop reg t_DailySettings [("  Developer_Mode", JStr " TRUE "); ("SPLIT_selection ", JObj [(" Criteria", JStr " AIC ")])])).
  split; vm_compute; reflexivity.
Qed.

(* ... but HourlyModel picks the settings class from the RAW key "train_features" before any normalisation
   (hourly/model.py:106-113): at the constructor level key case does matter there.  A fact about the code the
   statement of C14 does not forbid; kept visible, replayed by the correspondence (stream "multi"). *)
Theorem C14_hourly_dispatch_is_case_sensitive :
  exists kvs, construct reg CHourlyModel (InDict (normalise_kvs kvs)) <> construct reg CHourlyModel (InDict kvs).
Proof. exists [("Train_Features", JList [JStr "ghi"])]. vm_compute. discriminate. Qed.
Print Assumptions C14_hourly_dispatch_is_case_sensitive.

(* ================================================================== (4) stored models *)
(* Full statement (kept visible): what a model records is what it was built with, and the record reloads to it.
   Refuted for the billing models only (below); enumerated for the daily ones (end of file). *)
Definition C14_stored_statement (c : ctor) : Prop :=
  forall i s, construct reg c i = Accept s ->
    stored_settings c s = dump s /\
    exists s', reload reg c (stored_settings c s) = Accept s' /\ dump s' = dump s.

(* the record is the dump of the settings for every constructor but the two billing ones *)
Theorem C14_stored_is_built_partial : forall c s,
  c <> CBillingModel -> c <> CBillingWeighted -> stored_settings c s = dump s.
Proof. intros [] s H1 H2; try reflexivity; contradiction. Qed.
Print Assumptions C14_stored_is_built_partial.

(* on the regenerated trees: default and open-override documents of the current daily model reload to themselves *)
Example C14_stored_daily_reloads :
  forall i, In i [InNone; InDict [("uncertainty_alpha", JNum (1 # 4)); ("season", JObj [("march", JStr "winter")])];
                  InDict [("developer_mode", JBool true); ("alpha_selection", JNum 1)]] ->
  exists s s', construct reg (CDailyModel "current") i = Accept s /\
               reload reg (CDailyModel "current") (stored_settings (CDailyModel "current") s) = Accept s' /\
               jv_eqb (dump s') (dump s) = true.
Proof.
  intros i Hi.
  exists (the (construct reg (CDailyModel "current") i)).
  exists (the (reload reg (CDailyModel "current") (stored_settings (CDailyModel "current") (the (construct reg (CDailyModel "current") i))))).
  destruct Hi as [<-|[<-|[<-|[]]]]; (split; [vm_compute; reflexivity|]); split; vm_compute; reflexivity.
Qed.

(* the legacy daily model (former finding D6 / C14-K2, fixed in /repo 394645be): the record of a legacy model built
   WITHOUT developer mode is refused by the current settings class (the lock, against the current defaults) and
   from_dict then rebuilds it as DailyModel(model="legacy"): it reloads to the settings it was built with, and the lock
   has run against the legacy defaults.  Regression case in corpus/C14.json. *)
Theorem C14_stored_legacy_reloads :
  exists s s', construct reg (CDailyModel "legacy") InNone = Accept s /\
               developer_mode_of s = Some false /\
               construct reg (CDailyModel "current") (InDict (match dump s with JObj kvs => kvs | _ => [] end)) = Reject RDeveloper /\
               reload reg (CDailyModel "legacy") (stored_settings (CDailyModel "legacy") s) = Accept s' /\
               jv_eqb (dump s') (dump s) = true.
Proof.
  exists (the (construct reg (CDailyModel "legacy") InNone)).
  exists (the (reload reg (CDailyModel "legacy") (stored_settings (CDailyModel "legacy") (the (construct reg (CDailyModel "legacy") InNone))))).
  split; [vm_compute; reflexivity|]. split; [vm_compute; reflexivity|]. split; [vm_compute; reflexivity|].
  split; vm_compute; reflexivity.
Qed.
Print Assumptions C14_stored_legacy_reloads.

(* refuted for the billing models: to_dict overwrites developer_mode (known findings C14-K3/K4) *)
Theorem C14_stored_billing_refuted :
  exists s s', construct reg CBillingModel InNone = Accept s /\
               jv_eqb (stored_settings CBillingModel s) (dump s) = false /\
               reload reg CBillingModel (stored_settings CBillingModel s) = Accept s' /\
               developer_mode_of s = Some false /\ developer_mode_of s' = Some true.
Proof.
  exists (the (construct reg CBillingModel InNone)).
  exists (the (reload reg CBillingModel (stored_settings CBillingModel (the (construct reg CBillingModel InNone))))).
  split; [vm_compute; reflexivity|]. repeat split; vm_compute; reflexivity.
Qed.
Print Assumptions C14_stored_billing_refuted.

(* ================================================================== (1) the constants (regenerated trees vs frozen list) *)
(* "Constructed without arguments, each model family uses exactly the approved method constants":
   the default of every leaf of every regenerated tree equals the frozen transcription
   /verif/approved_settings.json — same paths, same values *)
Theorem C14_defaults_are_approved : forall c, In c top_classes -> defaults_ok c = true.
Proof. apply lift_forallb. vm_cast_no_check (eq_refl true). Qed.
Print Assumptions C14_defaults_are_approved.

(* every approved constant of the daily / legacy / billing trees carries developer=True in the code exactly where
   the frozen list says "locked", every unlocked one is one of the documented open fields, and the root class
   runs the developer-mode check *)
Theorem C14_every_method_constant_is_dev_locked : forall c, In c locked_families -> locks_ok c = true.
Proof. apply lift_forallb. vm_cast_no_check (eq_refl true). Qed.
Print Assumptions C14_every_method_constant_is_dev_locked.

(* types, bounds and enum members of every field are the frozen ones (what "invalid value" means did not move) *)
Theorem C14_domains_are_approved : forall c, In c top_classes -> domains_ok c = true.
Proof. apply lift_forallb. vm_cast_no_check (eq_refl true). Qed.
Print Assumptions C14_domains_are_approved.

Example C14_constants_nonvacuous :
  In "DailySettings" locked_families /\ List.length (approved_of "DailySettings") = 48%nat /\
  leaf_at (children_of t_DailySettings) ["split_selection"; "penalty_power"] <> None.
Proof. split; [left; reflexivity|]. split; [vm_compute; reflexivity|]. vm_compute. discriminate. Qed.

(* exhaustive inside Coq, on the regenerated daily / legacy / billing trees: every leaf x every alternative of
   the model-side enumerator, one override, developer mode not given:
     developer leaf, value changes -> Reject RDeveloper;   value the field cannot take -> Reject RField;
     open leaf, valid value         -> accepted and visible at that path (or refused by the season/weekday
                                       option rule, never by the lock) *)
Theorem C14_every_single_override : forall c, In c locked_families -> singles_ok c = true.
Proof. apply lift_forallb. vm_cast_no_check (eq_refl true). Qed.
Print Assumptions C14_every_single_override.

(* the hourly trees carry no developer flag and run no lock: the lock statement is vacuous there *)
Theorem C14_hourly_trees_have_no_lock :
  forallb unlocked_ok ["BaseHourlySettings"; "HourlySolarSettings"; "HourlyNonSolarSettings"] = true.
Proof. vm_compute. reflexivity. Qed.
Print Assumptions C14_hourly_trees_have_no_lock.

(* build -> store -> reload, exhaustive inside Coq over every leaf x every model-side alternative (at most four
   members of a long enum; developer leaves overridden in developer mode, open leaves without it), on the regenerated
   trees: for the current daily model, DailyModel(model="legacy") and BillingModel every accepted construction reloads,
   and the reloaded settings dump to the record (for the billing model the record carries the forced developer_mode) *)
Theorem C14_stored_reload_enumerated :
  all_reloads_ok reg (CDailyModel "current") t_DailySettings = true /\
  all_reloads_ok reg (CDailyModel "legacy") t_DailyLegacySettings = true /\
  all_reloads_ok reg CBillingModel t_DailyLegacySettings = true.
Proof. split; [|split]; vm_cast_no_check (eq_refl true). Qed.
Print Assumptions C14_stored_reload_enumerated.

(* ================================================================== (5) the validator bodies, from their source *)
(* harness/translate_settings.py compiles the python source (ast) of the daily-family model validators —
   DailySettings._check_developer_mode, _check_alpha_final, _check_final_bounds_scalar,
   _check_initial_step_percentage and Split_Selection_Definition._check_reduce_splits_num_std — into programs of
   Model/SettingsProg.v on every run (prog_V* in Generated/SettingsGen.v).  Each regenerated program computes, for
   EVERY field state in which the fields it reads hold values, exactly the hand-written specification that the
   theorems above and the correspondence use (run_vid): guard structure (developer_mode switches the lock off and
   nothing else does), order of the tests, thresholds (2, 0, 1/2, length 2, the "nlopt" prefix of 5 characters) and
   the None / float / str case split.  A source edit of a validator changes the program and breaks the obligation
   named after it.  By case analysis on the values (python truthiness and comparisons as in SettingsProg.v). *)
Local Arguments String.eqb : simpl never.
Local Arguments Qle_bool : simpl never.
Local Arguments Qeq_bool : simpl never.
Local Arguments substring : simpl never.
Ltac split_matches :=
  unfold Qlt_b; rewrite ?Bool.negb_involutive;     (* a < b is not (b <= a): one kind of comparison atom *)
  repeat match goal with
         | |- context [negb ?y] => destruct y; cbn; try reflexivity
         | |- context [orb ?y _] => destruct y; cbn; try reflexivity
         | |- context [andb ?y _] => destruct y; cbn; try reflexivity
         | |- context [match ?x with _ => _ end] =>
             lazymatch x with
             | context [match _ with _ => _ end] => fail
             | _ => destruct x; cbn; try reflexivity
             end
         end.

Theorem C14_lock_validator_as_specified : forall gov f,
  present ["developer_mode"; "silent_developer_mode"] f = true ->
  run_prog gov f prog_VDevMode = run_vid VDevMode gov f.
Proof.
  intros gov f P. unfold present in P. cbn [forallb] in P.
  unfold run_prog, prog_VDevMode. cbn [run_vid]. unfold v_devmode. cbn.
  destruct (get_leaf "developer_mode" f) as [a|]; [|discriminate].
  destruct (get_leaf "silent_developer_mode" f) as [b|]; [|discriminate].
  clear P. destruct a, b; cbn; split_matches; try reflexivity.
Qed.
Print Assumptions C14_lock_validator_as_specified.

Theorem C14_alpha_final_validator_as_specified : forall gov f,
  present ["alpha_final"; "alpha_final_type"; "alpha_minimum"] f = true ->
  run_prog gov f prog_VAlphaFinal = run_vid VAlphaFinal gov f.
Proof.
  intros gov f P. unfold present in P. cbn [forallb] in P.
  unfold run_prog, prog_VAlphaFinal. cbn [run_vid]. unfold v_alpha_final. cbn.
  destruct (get_leaf "alpha_final" f) as [a|]; [|discriminate].
  destruct (get_leaf "alpha_final_type" f) as [b|]; [|discriminate].
  destruct (get_leaf "alpha_minimum" f) as [c|]; [|discriminate].
  clear P. destruct a, b, c; cbn; split_matches; try reflexivity.
Qed.
Print Assumptions C14_alpha_final_validator_as_specified.

Theorem C14_final_bounds_validator_as_specified : forall gov f,
  present ["final_bounds_scalar"; "alpha_final_type"] f = true ->
  run_prog gov f prog_VFinalBounds = run_vid VFinalBounds gov f.
Proof.
  intros gov f P. unfold present in P. cbn [forallb] in P.
  unfold run_prog, prog_VFinalBounds. cbn [run_vid]. unfold v_final_bounds. cbn.
  destruct (get_leaf "final_bounds_scalar" f) as [a|]; [|discriminate].
  destruct (get_leaf "alpha_final_type" f) as [b|]; [|discriminate].
  clear P. destruct a, b; cbn; split_matches; try reflexivity.
Qed.
Print Assumptions C14_final_bounds_validator_as_specified.

Theorem C14_initial_step_validator_as_specified : forall gov f,
  present ["initial_step_percentage"; "algorithm_choice"] f = true ->
  run_prog gov f prog_VInitStep = run_vid VInitStep gov f.
Proof.
  intros gov f P. unfold present in P. cbn [forallb] in P.
  unfold run_prog, prog_VInitStep. cbn [run_vid]. unfold v_init_step, starts_nlopt. cbn.
  destruct (get_leaf "initial_step_percentage" f) as [a|]; [|discriminate].
  destruct (get_leaf "algorithm_choice" f) as [b|]; [|discriminate].
  clear P. destruct a, b; cbn; split_matches; try reflexivity.
Qed.
Print Assumptions C14_initial_step_validator_as_specified.

Theorem C14_reduce_std_validator_as_specified : forall gov f,
  present ["reduce_splits_num_std"] f = true ->
  run_prog gov f prog_VReduceStd = run_vid VReduceStd gov f.
Proof.
  intros gov f P. unfold present in P. cbn [forallb] in P.
  unfold run_prog, prog_VReduceStd. cbn [run_vid]. unfold v_reduce_std. cbn.
  destruct (get_leaf "reduce_splits_num_std" f) as [a|]; [|discriminate].
  clear P. destruct a; cbn; try reflexivity.
  destruct l as [|x [|y [|z r]]]; cbn; try reflexivity; split_matches; try reflexivity.
Qed.
Print Assumptions C14_reduce_std_validator_as_specified.

(* non-vacuity: on the fields of a real construction of the regenerated daily tree the reads are present, and the
   regenerated programs do raise / lock / pass on concrete states *)
Example C14_validator_programs_nonvacuous :
  let f := fields_of (the (vtop reg t_DailySettings [("developer_mode", JBool true)])) in
  present ["developer_mode"; "silent_developer_mode"; "alpha_final"; "alpha_final_type"; "alpha_minimum";
           "final_bounds_scalar"; "initial_step_percentage"; "algorithm_choice"] f = true /\
  run_prog children_DailySettings f prog_VAlphaFinal = None /\
  run_prog [] [("alpha_final", SLeaf (JNum 3)); ("alpha_final_type", SLeaf (JStr "last")); ("alpha_minimum", SLeaf (JNum (-100)))]
           prog_VAlphaFinal = Some RCross /\
  run_prog [] [("initial_step_percentage", SLeaf JNull); ("algorithm_choice", SLeaf (JStr "nlopt_sbplx"))] prog_VInitStep = Some RCross /\
  run_prog [] [("reduce_splits_num_std", SLeaf (JList [JNum 1]))] prog_VReduceStd = Some RCross /\
  run_prog children_DailySettings
           (match vfields reg children_DailySettings [("alpha_selection", JNum 1)] with Some f' => f' | None => [] end) prog_VDevMode = Some RDeveloper.
Proof. repeat (split; [vm_compute; reflexivity|]). vm_compute. reflexivity. Qed.
