(* GENERATED on every run by harness/translate_caltrack.py from
     opendsm/eemeter/models/hourly_caltrack/segmentation.py (_segment_weights_*, segment_time_series)
     opendsm/eemeter/models/hourly_caltrack/model.py (_PredictionSegmentInfo)
     opendsm/eemeter/models/hourly_caltrack/wrapper.py (HourlyModel.segment_type, month_dict, model_month_dict)
     opendsm/eemeter/common/features.py (fit_temperature_bins default_bins / min_temperature_count, occupancy threshold)
   Do not edit. A segment is (name, explicit (month, weight) entries, weight of every other month);
   segments are listed in DataFrame column order. *)
From Coq Require Import ZArith QArith List String Ascii PrimFloat.
Import ListNotations.

Definition seg : Type := (string * list (Z * Q) * Q)%type.

Definition tbl_single : list seg := [
  ("all"%string, [], (1 # 1)%Q)
].

Definition tbl_one_month : list seg := [
  ("jan"%string, [(1%Z, (1 # 1)%Q)], (0 # 1)%Q);
  ("feb"%string, [(2%Z, (1 # 1)%Q)], (0 # 1)%Q);
  ("mar"%string, [(3%Z, (1 # 1)%Q)], (0 # 1)%Q);
  ("apr"%string, [(4%Z, (1 # 1)%Q)], (0 # 1)%Q);
  ("may"%string, [(5%Z, (1 # 1)%Q)], (0 # 1)%Q);
  ("jun"%string, [(6%Z, (1 # 1)%Q)], (0 # 1)%Q);
  ("jul"%string, [(7%Z, (1 # 1)%Q)], (0 # 1)%Q);
  ("aug"%string, [(8%Z, (1 # 1)%Q)], (0 # 1)%Q);
  ("sep"%string, [(9%Z, (1 # 1)%Q)], (0 # 1)%Q);
  ("oct"%string, [(10%Z, (1 # 1)%Q)], (0 # 1)%Q);
  ("nov"%string, [(11%Z, (1 # 1)%Q)], (0 # 1)%Q);
  ("dec"%string, [(12%Z, (1 # 1)%Q)], (0 # 1)%Q)
].

Definition tbl_three_month : list seg := [
  ("dec-jan-feb"%string, [(12%Z, (1 # 1)%Q); (1%Z, (1 # 1)%Q); (2%Z, (1 # 1)%Q)], (0 # 1)%Q);
  ("jan-feb-mar"%string, [(1%Z, (1 # 1)%Q); (2%Z, (1 # 1)%Q); (3%Z, (1 # 1)%Q)], (0 # 1)%Q);
  ("feb-mar-apr"%string, [(2%Z, (1 # 1)%Q); (3%Z, (1 # 1)%Q); (4%Z, (1 # 1)%Q)], (0 # 1)%Q);
  ("mar-apr-may"%string, [(3%Z, (1 # 1)%Q); (4%Z, (1 # 1)%Q); (5%Z, (1 # 1)%Q)], (0 # 1)%Q);
  ("apr-may-jun"%string, [(4%Z, (1 # 1)%Q); (5%Z, (1 # 1)%Q); (6%Z, (1 # 1)%Q)], (0 # 1)%Q);
  ("may-jun-jul"%string, [(5%Z, (1 # 1)%Q); (6%Z, (1 # 1)%Q); (7%Z, (1 # 1)%Q)], (0 # 1)%Q);
  ("jun-jul-aug"%string, [(6%Z, (1 # 1)%Q); (7%Z, (1 # 1)%Q); (8%Z, (1 # 1)%Q)], (0 # 1)%Q);
  ("jul-aug-sep"%string, [(7%Z, (1 # 1)%Q); (8%Z, (1 # 1)%Q); (9%Z, (1 # 1)%Q)], (0 # 1)%Q);
  ("aug-sep-oct"%string, [(8%Z, (1 # 1)%Q); (9%Z, (1 # 1)%Q); (10%Z, (1 # 1)%Q)], (0 # 1)%Q);
  ("sep-oct-nov"%string, [(9%Z, (1 # 1)%Q); (10%Z, (1 # 1)%Q); (11%Z, (1 # 1)%Q)], (0 # 1)%Q);
  ("oct-nov-dec"%string, [(10%Z, (1 # 1)%Q); (11%Z, (1 # 1)%Q); (12%Z, (1 # 1)%Q)], (0 # 1)%Q);
  ("nov-dec-jan"%string, [(11%Z, (1 # 1)%Q); (12%Z, (1 # 1)%Q); (1%Z, (1 # 1)%Q)], (0 # 1)%Q)
].

Definition tbl_three_month_weighted : list seg := [
  ("dec-jan-feb-weighted"%string, [(12%Z, (1 # 2)%Q); (1%Z, (1 # 1)%Q); (2%Z, (1 # 2)%Q)], (0 # 1)%Q);
  ("jan-feb-mar-weighted"%string, [(1%Z, (1 # 2)%Q); (2%Z, (1 # 1)%Q); (3%Z, (1 # 2)%Q)], (0 # 1)%Q);
  ("feb-mar-apr-weighted"%string, [(2%Z, (1 # 2)%Q); (3%Z, (1 # 1)%Q); (4%Z, (1 # 2)%Q)], (0 # 1)%Q);
  ("mar-apr-may-weighted"%string, [(3%Z, (1 # 2)%Q); (4%Z, (1 # 1)%Q); (5%Z, (1 # 2)%Q)], (0 # 1)%Q);
  ("apr-may-jun-weighted"%string, [(4%Z, (1 # 2)%Q); (5%Z, (1 # 1)%Q); (6%Z, (1 # 2)%Q)], (0 # 1)%Q);
  ("may-jun-jul-weighted"%string, [(5%Z, (1 # 2)%Q); (6%Z, (1 # 1)%Q); (7%Z, (1 # 2)%Q)], (0 # 1)%Q);
  ("jun-jul-aug-weighted"%string, [(6%Z, (1 # 2)%Q); (7%Z, (1 # 1)%Q); (8%Z, (1 # 2)%Q)], (0 # 1)%Q);
  ("jul-aug-sep-weighted"%string, [(7%Z, (1 # 2)%Q); (8%Z, (1 # 1)%Q); (9%Z, (1 # 2)%Q)], (0 # 1)%Q);
  ("aug-sep-oct-weighted"%string, [(8%Z, (1 # 2)%Q); (9%Z, (1 # 1)%Q); (10%Z, (1 # 2)%Q)], (0 # 1)%Q);
  ("sep-oct-nov-weighted"%string, [(9%Z, (1 # 2)%Q); (10%Z, (1 # 1)%Q); (11%Z, (1 # 2)%Q)], (0 # 1)%Q);
  ("oct-nov-dec-weighted"%string, [(10%Z, (1 # 2)%Q); (11%Z, (1 # 1)%Q); (12%Z, (1 # 2)%Q)], (0 # 1)%Q);
  ("nov-dec-jan-weighted"%string, [(11%Z, (1 # 2)%Q); (12%Z, (1 # 1)%Q); (1%Z, (1 # 2)%Q)], (0 # 1)%Q)
].

(* segment_time_series: segment type -> weight table *)
Definition segment_tables : list (string * list seg) := [("single"%string, tbl_single); ("one_month"%string, tbl_one_month); ("three_month"%string, tbl_three_month); ("three_month_weighted"%string, tbl_three_month_weighted)].

(* _PredictionSegmentInfo: fit segment type -> (segment type used when predicting,
   prediction segment name -> fitted segment name; None = predict with the fitted names) *)
Definition prediction_info : list (string * (string * option (list (string * string)))) := [
  ("single"%string, ("single"%string, None));
  ("three_month_weighted"%string, ("one_month"%string, (Some [("jan"%string, "dec-jan-feb-weighted"%string); ("feb"%string, "jan-feb-mar-weighted"%string); ("mar"%string, "feb-mar-apr-weighted"%string); ("apr"%string, "mar-apr-may-weighted"%string); ("may"%string, "apr-may-jun-weighted"%string); ("jun"%string, "may-jun-jul-weighted"%string); ("jul"%string, "jun-jul-aug-weighted"%string); ("aug"%string, "jul-aug-sep-weighted"%string); ("sep"%string, "aug-sep-oct-weighted"%string); ("oct"%string, "sep-oct-nov-weighted"%string); ("nov"%string, "oct-nov-dec-weighted"%string); ("dec"%string, "nov-dec-jan-weighted"%string)])))
].

(* the segment type the HourlyModel wrapper fits with *)
Definition wrapper_segment_type : string := "three_month_weighted"%string.

(* fit_temperature_bins: the candidate bin endpoints (the same numbers as rationals and as binary64) *)
Definition default_bins : list Q := [(30 # 1)%Q; (45 # 1)%Q; (55 # 1)%Q; (65 # 1)%Q; (75 # 1)%Q; (90 # 1)%Q].
Definition default_bins_f : list float := [(0x1.e000000000000p+4)%float; (0x1.6800000000000p+5)%float; (0x1.b800000000000p+5)%float; (0x1.0400000000000p+6)%float; (0x1.2c00000000000p+6)%float; (0x1.6800000000000p+6)%float].

(* fit_temperature_bins(min_temperature_count=...), estimate_hour_of_week_occupancy(threshold=...): the defaults the
   wrapper runs with (the threshold is the exact value of the binary64 literal) *)
Definition default_min_temperature_count : nat := 20.
Definition default_occupancy_threshold : Q := (5854679515581645 # 9007199254740992)%Q.
Definition default_occupancy_threshold_f : float := (0x1.4cccccccccccdp-1)%float.

(* HourlyModel.fit, uncertainty figures: month_dict, and k.replace(A, B).split(SEP)[I] *)
Definition wrapper_month_dict : list (string * Z) := [("jan"%string, 1%Z); ("feb"%string, 2%Z); ("mar"%string, 3%Z); ("apr"%string, 4%Z); ("may"%string, 5%Z); ("jun"%string, 6%Z); ("jul"%string, 7%Z); ("aug"%string, 8%Z); ("sep"%string, 9%Z); ("oct"%string, 10%Z); ("nov"%string, 11%Z); ("dec"%string, 12%Z)].
Definition wrapper_key_replace : string * string := ("-weighted"%string, ""%string).
Definition wrapper_key_sep : ascii := "-"%char.
Definition wrapper_key_index : nat := 1.
