(* GENERATED on every run by harness/translate_billing_agg.py from BillingModel.predict and
   BillingWeightedModel.predict - do not edit. *)
From Coq Require Import ZArith String List.
From V Require Import Model.BillingAgg.
Import ListNotations.
Definition gen_arg_chain_billing : arg_chain := [(TIsNone, RNoAgg); (TLowerEq "none"%string, RNoAgg); (TEq "monthly"%string, RFreq "MS"%string); (TEq "bimonthly"%string, RFreq "2MS"%string)].
Definition gen_arg_else_billing : err := ValueErr.
Definition gen_agg_table_billing : agg_table := [("cooling_load"%string, FSum, false); ("heating_load"%string, FSum, false); ("model_split"%string, FFirst, false); ("model_type"%string, FFirst, false); ("observed"%string, FSum, true); ("predicted"%string, FSum, false); ("predicted_unc"%string, FRss, false); ("season"%string, FFirst, false); ("temperature"%string, FMean, false)].
Definition gen_arg_chain_weighted : arg_chain := [(TIsNone, RNoAgg); (TLowerEq "none"%string, RNoAgg); (TEq "monthly"%string, RFreq "MS"%string); (TEq "bimonthly"%string, RFreq "2MS"%string)].
Definition gen_arg_else_weighted : err := ValueErr.
Definition gen_agg_table_weighted : agg_table := [("cooling_load"%string, FSum, false); ("heating_load"%string, FSum, false); ("model_split"%string, FFirst, false); ("model_type"%string, FFirst, false); ("observed"%string, FSum, true); ("predicted"%string, FSum, false); ("predicted_unc"%string, FRss, false); ("season"%string, FFirst, false); ("temperature"%string, FMean, false)].
