(* C15 — a building that follows the model is recovered by the fit: executable definitions.

   Written once over the numeric dictionary [N : num] (Model/Num.v): instantiated at [RNum] for the theorems
   (Proofs/RecoveryProofs.v, Properties/C15.v) and at [FNum] (binary64) for the evaluation of every fitted model
   inside coqc (Model/RecoveryRun.v, harness/c15.py).

   What is modelled
     building / gen_curve     the generating family of the property text: base load + heating slope x degrees
                              below the heating balance point + cooling slope x degrees above the cooling one
     doc_of                   the stored document (Model/DailyCurve.v [coeffs]) that IS that building:
                              hdd_tidd_cdd / hdd_tidd / tidd_cdd / tidd, as parameters.py stores them
     sse, mse, nrmse_ok, load_ok
                              the statement's two inequalities, decided without square roots
     seg_bounds, end_bounds, quantile_pct, final_box, initial_box
                              the optimiser's box as the code constructs it:
                              fit_hdd_tidd_cdd / fit_c_hdd_tidd / fit_tidd (bnds_0),
                              _hdd_tidd_cdd_smooth_update_bnds / _c_hdd_tidd_update_bnds / _tidd_update_bnds,
                              utilities/base_model.py get_T_bnds, numpy.quantile (linear interpolation)
   What is NOT modelled: the optimiser (NLopt DIRECT + SBPLX), the objective (adaptive loss, elastic net), the
   split selection.  No proofs here. *)
From Coq Require Import List Bool NArith.
From V Require Import Model.Num Model.DailyCurve.
Import ListNotations.

Section Recovery.
Variable N : num.

Local Notation zero := (@n_zero N).
Local Notation one := (@n_one N).
Local Notation "a + b" := (@n_add N a b) (at level 50, left associativity).
Local Notation "a - b" := (@n_sub N a b) (at level 50, left associativity).
Local Notation "a * b" := (@n_mul N a b) (at level 40, left associativity).
Local Notation "a / b" := (@n_div N a b) (at level 40, left associativity).
Local Notation "- a" := (@n_opp N a) (at level 35, right associativity).
Local Notation "a <? b" := (@n_ltb N a b) (at level 70, no associativity).
Local Notation "a <=? b" := (@n_leb N a b) (at level 70, no associativity).
Local Notation "a =? b" := (@n_eqb N a b) (at level 70, no associativity).

(* ---------------------------------------------------------------- the generating family *)

(* slopes are magnitudes; a slope of 0 means "no such load" (heating-only / cooling-only / flat) *)
Record building := {
  b_base : N;
  b_hbeta : N;
  b_hbp : N;
  b_cbeta : N;
  b_cbp : N
}.

(* max(a, 0) *)
Definition npos (a : N) : N := if a <? zero then zero else a.

Definition gen_heat (p : building) (T : N) : N := b_hbeta p * npos (b_hbp p - T).
Definition gen_cool (p : building) (T : N) : N := b_cbeta p * npos (T - b_cbp p).
Definition gen_curve (p : building) (T : N) : N := b_base p + gen_heat p T + gen_cool p T.

Definition shape_of (p : building) : shape :=
  if b_hbeta p =? zero then (if b_cbeta p =? zero then Tidd else TiddCdd)
  else (if b_cbeta p =? zero then HddTidd else HddTiddCdd).

(* the building written as a stored sub-model document (ModelCoefficients): the heating slope of the
   one-sided shapes is stored negative *)
Definition doc_of (p : building) : coeffs N :=
  match shape_of p with
  | HddTiddCdd | HddTiddCddSmooth =>
      Build_coeffs N HddTiddCdd (b_base p) (Some (b_hbp p)) (Some (b_hbeta p)) None
                   (Some (b_cbp p)) (Some (b_cbeta p)) None
  | HddTidd | HddTiddSmooth =>
      Build_coeffs N HddTidd (b_base p) (Some (b_hbp p)) (Some (- b_hbeta p)) None None None None
  | TiddCdd | TiddCddSmooth =>
      Build_coeffs N TiddCdd (b_base p) None None None (Some (b_cbp p)) (Some (b_cbeta p)) None
  | Tidd => Build_coeffs N Tidd (b_base p) None None None None None None
  end.

(* the vector the optimiser would have to return for that document (ModelCoefficients.to_np_array) *)
Definition raw_of (p : building) : list N :=
  match to_np_array N (doc_of p) with Some l => l | None => [] end.

(* ---------------------------------------------------------------- sums and errors over lists *)

Fixpoint nsum (l : list N) : N :=
  match l with [] => zero | x :: r => x + nsum r end.

Fixpoint sumsq (l : list N) : N :=
  match l with [] => zero | x :: r => x * x + sumsq r end.

(* sum of squared differences (over the common prefix) *)
Fixpoint sse (f g : list N) : N :=
  match f, g with
  | a :: f', b :: g' => (a - b) * (a - b) + sse f' g'
  | _, _ => zero
  end.

Fixpoint of_nat (n : nat) : N :=
  match n with O => zero | S k => of_nat k + one end.

Definition mean (l : list N) : N := nsum l / of_nat (length l).
Definition mse (f g : list N) : N := sse f g / of_nat (length f).

Definition five_pct : N := (one + one + one + one + one) / n_hundred.      (* 0.05 *)
Definition one_pct : N := one / n_hundred.                                 (* 0.01 *)

(* NRMSE(f,g) <= lim, normalised by the mean usage m > 0, written without a square root:
   mse(f,g) <= (lim m)^2 *)
Definition nrmse_ok (lim : N) (f g : list N) (m : N) : bool :=
  mse f g <=? (lim * m) * (lim * m).

(* a reported load is at most the fraction lim of the usage over the same days *)
Definition load_ok (lim : N) (load usage : list N) : bool :=
  nsum load <=? lim * nsum usage.

(* ---------------------------------------------------------------- order statistics, quantiles *)

Fixpoint insert (x : N) (l : list N) : list N :=
  match l with
  | [] => [x]
  | y :: r => if x <=? y then x :: l else y :: insert x r
  end.

Definition sort (l : list N) : list N := fold_right insert [] l.

Definition count (f : N -> bool) (l : list N) : nat := length (filter f l).
Definition count_le (b : N) (l : list N) : nat := count (fun t => t <=? b) l.
Definition count_ge (b : N) (l : list N) : nat := count (fun t => b <=? t) l.
Definition count_lt (b : N) (l : list N) : nat := count (fun t => t <? b) l.
Definition count_gt (b : N) (l : list N) : nat := count (fun t => b <? t) l.
Definition count_between (lo hi : N) (l : list N) : nat := count (fun t => (lo <=? t) && (t <=? hi)) l.

(* the regime-day counts of the property text ("at least a month of days in each active regime"):
   days strictly colder than the heating balance point, strictly hotter than the cooling one, and days in the
   temperature-independent regime (an inactive side imposes no limit) *)
Definition in_flat (p : building) (t : N) : bool :=
  ((b_hbeta p =? zero) || (b_hbp p <=? t)) && ((b_cbeta p =? zero) || (t <=? b_cbp p)).
Definition cold_days (p : building) (T : list N) : nat := count_lt (b_hbp p) T.
Definition hot_days (p : building) (T : list N) : nat := count_gt (b_cbp p) T.
Definition flat_days (p : building) (T : list N) : nat := count (in_flat p) T.
Definition family_days (d : nat) (p : building) (T : list N) : bool :=
  ((b_hbeta p =? zero) || Nat.leb d (cold_days p T)) &&
  ((b_cbeta p =? zero) || Nat.leb d (hot_days p T)) &&
  Nat.leb d (flat_days p T).

(* get_T_bnds: np.partition(T, n)[n] and np.partition(T, -n)[-n] — the n-th smallest (0-based) and the
   n-th largest (1-based) temperature *)
Definition seg_bounds (nmin : nat) (T : list N) : N * N :=
  let s := sort T in (nth nmin s zero, nth (length T - nmin) s zero).

(* np.min(T), np.max(T) *)
Definition end_bounds (T : list N) : N * N :=
  let s := sort T in (nth 0 s zero, nth (length T - 1) s zero).

Definition half : N := one / n_two.

(* numpy.lib._function_base_impl._lerp *)
Definition lerp (a b t : N) : N :=
  if t <? half then a + (b - a) * t else b - (b - a) * (one - t).

(* np.quantile(l, pct/100) with the default linear interpolation: virtual index (n-1) pct/100 *)
Definition quantile_pct (pct : nat) (l : list N) : N :=
  let s := sort l in
  let n1 := (length l - 1)%nat in
  let pos := (N.of_nat n1 * N.of_nat pct)%N in
  let i := N.to_nat (N.div pos 100) in
  let r := N.to_nat (N.modulo pos 100) in
  lerp (nth i s zero) (nth (Nat.min (S i) n1) s zero) (of_nat r / n_hundred).

(* intercept_bnds = np.quantile(obs, [0.01, 0.99]) *)
Definition icpt_bounds (obs : list N) : N * N := (quantile_pct 1 obs, quantile_pct 99 obs).

(* ---------------------------------------------------------------- the optimiser's box *)

Definition row := (N * N)%type.

(* np.sort(new_bnds, axis=1) on one row *)
Definition sort_row (r : row) : row := if snd r <? fst r then (snd r, fst r) else r.
(* "beta and k must be non-negative": lower bound raised to 0 *)
Definition clip0 (r : row) : row := if fst r <? zero then (zero, snd r) else r.

(* The box of the FINAL fit of a model key (fit_final_model -> fit_model -> fit_*(…, bnds=incoming,
   initial_fit=False)): the balance-point rows are [T_min_seg, T_max_seg], the intercept row is the 1 %–99 %
   quantile range of the usage, whatever came in; the slope / smoothing rows are the incoming ones, sorted,
   and (two-sided keys, and the smoothing row of the one-sided smooth key) with the lower end raised to 0.
   fix_identical_bnds (a row with equal ends is widened by 10^OoM) is not modelled: such a row is passed
   through; the pinned balance point of fit_c_hdd_tidd (row [T_max,T_max] / [T_min,T_min]) is accepted by the
   comparison in Model/RecoveryRun.v, not produced here. *)
Definition final_box (key : model_key) (nmin : nat) (T obs : list N) (incoming : list row)
  : option (list row) :=
  let bp := sort_row (seg_bounds nmin T) in
  let ic := sort_row (icpt_bounds obs) in
  let pos r := clip0 (sort_row r) in
  match key, incoming with
  | KFullSmooth, [_; hb; hk; _; cb; ck; _] => Some [bp; pos hb; pos hk; bp; pos cb; pos ck; ic]
  | KFull, [_; hb; _; cb; _] => Some [bp; pos hb; bp; pos cb; ic]
  | KCSmooth, [_; b; k; _] => Some [bp; sort_row b; pos k; ic]
  | KC, [_; b; _] => Some [bp; sort_row b; ic]
  | KTidd, [_] => Some [ic]
  | _, _ => None
  end.

(* fit_final_model.get_bnds: the rows handed to the final fit are built around the result x0 of the initial fit,
   x0_i -+ 10^(OoM(x0_i, "exact") + log10 scalar) = x0_i -+ |x0_i| scalar  (common/utils.py OoM_numba: the order of
   magnitude of 0 is defined as 1, so a zero entry gets -+ 10 scalar); scalar = settings.final_bounds_scalar *)
Definition get_bnds_row (scalar x : N) : row :=
  if x =? zero then (- (n_ten * scalar), n_ten * scalar)
  else (x - n_abs x * scalar, x + n_abs x * scalar).

(* the box of the final fit as a function of the initial fit's (reduced) result x0 *)
Definition final_box_from_initial (key : model_key) (nmin : nat) (T obs : list N) (scalar : N) (x0 : list N)
  : option (list row) :=
  final_box key nmin T obs (map (get_bnds_row scalar) x0).

(* The box of the INITIAL fit of a component (fit_initial_models_from_full_model -> fit_hdd_tidd_cdd(smooth=True,
   initial_fit=True, bnds=None)): balance points over the whole temperature range, slopes in [0, max_slope]
   (max_slope comes from the balance-point search and is an input here), smoothing in [0,1]. *)
Definition initial_box (T obs : list N) (max_slope_h max_slope_c : N) : list row :=
  let bp := sort_row (end_bounds T) in
  let ic := sort_row (icpt_bounds obs) in
  [bp; clip0 (sort_row (zero, max_slope_h)); (zero, one); bp; clip0 (sort_row (zero, max_slope_c)); (zero, one); ic].

Fixpoint in_box (b : list row) (x : list N) : bool :=
  match b, x with
  | [], [] => true
  | (lo, hi) :: b', v :: x' => (lo <=? v) && (v <=? hi) && in_box b' x'
  | _, _ => false
  end.

(* ---------------------------------------------------------------- distance in parameter space *)

(* One side of a stored curve against one side of the generator: slope difference x how far the temperature range
   reaches beyond the generator's balance point + stored slope x balance-point difference + stored slope x smoothing
   length.  bp_ref is the balance point of the stored side's asymptote (after undoing the smoothing shift). *)
Definition side_gap_n (beta k bp_ref b_beta b_bp dist : N) : N :=
  n_abs (b_beta - beta) * dist + beta * n_abs (b_bp - bp_ref) + beta * k.

(* a bound, uniform over Tlo <= T <= Thi, of |stored curve - generating curve| computed from the effective 7-vector
   that full_model is called with (Proofs/RecoveryProofs.v uniform_gap) *)
Definition param_gap (x : fullx N) (p : building) (Tlo Thi : N) : N :=
  n_abs (x_intercept x - b_base p)
  + side_gap_n (x_hdd_beta x) (x_hdd_k x) (x_hdd_bp x - x_hdd_k x) (b_hbeta p) (b_hbp p) (npos (b_hbp p - Tlo))
  + side_gap_n (x_cdd_beta x) (x_cdd_k x) (x_cdd_bp x + x_cdd_k x) (b_cbeta p) (b_cbp p) (npos (Thi - b_cbp p)).

(* the balance point of a side without load is immaterial: take the stored side's own *)
Definition free_bp (p : building) (x : fullx N) : building :=
  Build_building (b_base p)
    (b_hbeta p) (if b_hbeta p =? zero then x_hdd_bp x - x_hdd_k x else b_hbp p)
    (b_cbeta p) (if b_cbeta p =? zero then x_cdd_bp x + x_cdd_k x else b_cbp p).

End Recovery.

Arguments b_base {N} _.
Arguments b_hbeta {N} _.
Arguments b_hbp {N} _.
Arguments b_cbeta {N} _.
Arguments b_cbp {N} _.
