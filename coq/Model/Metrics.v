(* Model of opendsm/common/metrics.py (ColumnMetrics, _safe_divide, BaselineMetrics, ReportingMetrics),
   of the poor-fit gates of hourly/model.py (_model_fit_is_acceptable) and daily/model.py
   (_get_error_metrics, CVRMSE gate), over exact rationals.

   Conventions
   - a cell is [option Q]: [None] stands for NaN / +inf / -inf (the code keeps a row only when both
     cells pass np.isfinite);
   - every square root is kept as its square: [Root neg sq] denotes (-1)^neg * sqrt sq, sq >= 0;
   - [Undef] is Python's None, [NaN] and [Inf] are the IEEE values numpy scalars produce on x/0;
   - the lag-1 autocorrelation rho is irrational in general: the model reports its sign and its square,
     and validates a candidate n' (the implementation's value) by solving n' = n(1-rho)/(1+rho) for rho.
   Executable definitions only; the proofs are in Proofs/MetricsProofs.v. *)
From Coq Require Import ZArith QArith Qabs List Bool Sorting.Mergesort Orders.
Import ListNotations.
Open Scope Q_scope.

(* ------------------------------------------------------------------ values *)

Inductive val :=
| Num (q : Q)
| Root (neg : bool) (sq : Q)
| Undef
| NaN
| Inf (neg : bool).

Definition Qltb (a b : Q) : bool := negb (Qle_bool b a).
Definition sqr (x : Q) : Q := x * x.
Definition zsgn (x : Q) : Z := Z.sgn (Qnum x).

(* ------------------------------------------------------------------ rows *)

Definition cell := option Q.

(* _df[np.isfinite(observed) & np.isfinite(predicted)] : (observed, predicted) pairs *)
Fixpoint finite_pairs (rows : list (cell * cell)) : list (Q * Q) :=
  match rows with
  | [] => []
  | (Some o, Some p) :: rest => (o, p) :: finite_pairs rest
  | _ :: rest => finite_pairs rest
  end.

Definition observed_of (d : list (Q * Q)) : list Q := map fst d.
Definition predicted_of (d : list (Q * Q)) : list Q := map snd d.
Definition residuals_of (d : list (Q * Q)) : list Q := map (fun r => fst r - snd r) d.

(* ------------------------------------------------------------------ column statistics *)

(* sums.  The terms of one sum normally share their denominator (cells over a common power of two, their
   deviations from one mean, the squares of those): then only numerators are added and the result is
   reduced once; otherwise every partial sum is reduced.  Invisible up to == . *)
Definition qadd (a b : Q) : Q :=
  if (Qnum b =? 0)%Z then a
  else if Pos.eqb (Qden a) (Qden b) then Qmake (Qnum a + Qnum b) (Qden a)
  else Qred (a + b).
Definition psum (l : list Q) : Q := fold_right qadd 0 l.
Definition qsum (l : list Q) : Q := Qred (psum l).
Definition zlen {A} (l : list A) : Z := Z.of_nat (length l).
Definition qlen {A} (l : list A) : Q := inject_Z (zlen l).

Definition sum_sq (l : list Q) : Q := qsum (map sqr l).
Definition mean (l : list Q) : Q := Qred (qsum l / qlen l).
Definition dev (l : list Q) : list Q := let m := mean l in map (fun x => x - m) l.
(* Series.var(ddof=0): mean squared deviation from the mean *)
Definition variance (l : list Q) : Q := Qred (sum_sq (dev l) / qlen l).
Definition sum_abs (l : list Q) : Q := qsum (map Qabs l).
Definition sum_prod (xs ys : list Q) : Q := qsum (map (fun p => fst p * snd p) (combine xs ys)).

(* order statistics *)
(* a <= b; numerators are compared directly when the denominators coincide *)
Definition qleb (a b : Q) : bool :=
  if Pos.eqb (Qden a) (Qden b) then (Qnum a <=? Qnum b)%Z else Qle_bool a b.
Module QOrder <: TotalLeBool.
  Definition t := Q.
  Definition leb := qleb.
  Theorem leb_total : forall a1 a2, leb a1 a2 = true \/ leb a2 a1 = true.
  Proof.
    intros a b. unfold leb, qleb. rewrite (Pos.eqb_sym (Qden b) (Qden a)).
    destruct (Pos.eqb (Qden a) (Qden b)).
    - destruct (Z.leb_spec (Qnum a) (Qnum b)); [left; reflexivity|right; apply Z.leb_le, Z.lt_le_incl; assumption].
    - destruct (Qlt_le_dec b a) as [H|H].
      + right. apply Qle_bool_iff. apply Qlt_le_weak. exact H.
      + left. apply Qle_bool_iff. exact H.
  Qed.
End QOrder.
Module QSort := Sort QOrder.

Definition nthq (l : list Q) (i : Z) : Q := nth (Z.to_nat i) l 0.

(* np.quantile(x, a/b) (method "linear"): virtual index h = (n-1)*a/b, linear interpolation between
   the two neighbouring order statistics; 0 <= a <= b, 0 < b, x not empty *)
Definition quantile_sorted (s : list Q) (a b : Z) : Q :=
  let n := zlen s in
  let h := ((n - 1) * a)%Z in
  let lo := (h / b)%Z in
  let fr := inject_Z (h mod b) / inject_Z b in
  let x0 := nthq s lo in
  let x1 := nthq s (Z.min (lo + 1) (n - 1)) in
  Qred (x0 + fr * (x1 - x0)).
Definition quantile (l : list Q) (a b : Z) : Q := quantile_sorted (QSort.sort l) a b.
Definition median (l : list Q) : Q := quantile l 1 2.
Definition iqr (l : list Q) : Q := let s := QSort.sort l in Qred (quantile_sorted s 3 4 - quantile_sorted s 1 4).
Definition range_5_95 (l : list Q) : Q :=
  let s := QSort.sort l in Qred (quantile_sorted s 19 20 - quantile_sorted s 1 20).
(* median(|x - median x|); MAD_scaled is this times the constant 1/Phi^-1(3/4) *)
Definition mad (l : list Q) : Q := let m := median l in median (map (fun x => Qabs (x - m)) l).

(* Pearson correlation of two equally long lists, as (negative?, r^2); None = NaN (a constant column,
   fewer than two points) *)
Definition pearson (xs ys : list Q) : option (bool * Q) :=
  let dx := dev xs in
  let dy := dev ys in
  let vx := sum_sq dx in
  let vy := sum_sq dy in
  if Qeq_bool vx 0 || Qeq_bool vy 0 then None
  else let c := sum_prod dx dy in Some (Qltb c 0, Qred (c * c / (vx * vy))).

(* Series.autocorr(lag=1) = corr(x[1:], x[:-1]) *)
Definition autocorr1 (l : list Q) : option (bool * Q) := pearson (tl l) (removelast l).

(* ------------------------------------------------------------------ _safe_divide *)

Inductive ratio :=
| RNone                 (* None *)
| RNum (q : Q)
| RDivZero (sgn : Z).   (* x / 0 : ZeroDivisionError for Python numbers, +-inf / nan for numpy scalars *)

Definition safe_divide (num den mn : Q) : ratio :=
  if Qle_bool den mn && Qltb (10 * mn) num then RNone
  else if Qeq_bool den 0 then RDivZero (zsgn num)
  else RNum (Qred (num / den)).

Definition divzero_val (s : Z) : val :=
  if (0 <? s)%Z then Inf false else if (s <? 0)%Z then Inf true else NaN.

Definition ratio_val (r : ratio) : val :=
  match r with RNone => Undef | RNum q => Num q | RDivZero s => divzero_val s end.

(* the same for a numerator that is the root of [msq] (rmse and its adjusted forms, numpy scalars) *)
Definition root_gtb (msq t : Q) : bool := if Qltb t 0 then true else Qltb (sqr t) msq.   (* sqrt msq > t *)
Definition root_div (msq den : Q) : val :=
  if Qeq_bool den 0 then (if Qeq_bool msq 0 then NaN else Inf false)
  else Root (Qltb den 0) (Qred (msq / sqr den)).
Definition safe_divide_root (msq den mn : Q) : val :=
  if Qle_bool den mn && root_gtb msq (10 * mn) then Undef else root_div msq den.

(* what the property text asks of a reported ratio: undefined whenever the denominator is not safely
   positive, the quotient otherwise *)
Definition safe_divide_spec (num den mn : Q) : ratio :=
  if Qle_bool den mn then RNone else RNum (Qred (num / den)).

(* the repaired form of the root ratio (what the statement asks) *)
Definition safe_divide_root_spec (msq den mn : Q) : val :=
  if Qle_bool den mn then Undef else root_div msq den.

(* Two division policies are modelled: [AsCoded] is _safe_divide as it stands in the repository,
   [Repaired] is the statement's rule (the proposed one-line repair: denominator <= min -> None).
   The correspondence harness probes which of the two the code under test implements. *)
Inductive policy := AsCoded | Repaired.
Definition sdiv (pl : policy) (num den mn : Q) : ratio :=
  match pl with AsCoded => safe_divide num den mn | Repaired => safe_divide_spec num den mn end.
Definition sdiv_root (pl : policy) (msq den mn : Q) : val :=
  match pl with AsCoded => safe_divide_root msq den mn | Repaired => safe_divide_root_spec msq den mn end.

(* ------------------------------------------------------------------ BaselineMetrics *)

Definition ddof_of (n p : Z) : Z := if (n - p <? 1)%Z then 1%Z else (n - p)%Z.
Definition ddof_autocorr_of (nprime : Q) (p : Z) : Q :=
  let d := nprime - inject_Z p in if Qltb d 1 then 1 else Qred d.

(* n' = n (1 - rho) / (1 + rho); 1 when that is not finite (rho NaN, rho = -1) *)
Definition rho_of_nprime (n : Z) (np : Q) : Q := Qred ((inject_Z n - np) / (inject_Z n + np)).
Definition nprime_fallback (rho : option (bool * Q)) : bool :=
  match rho with None => true | Some (neg, r2) => neg && Qeq_bool r2 1 end.
Definition nprime_exact (n : Z) (rho : option (bool * Q)) (np : Q) : bool :=
  if nprime_fallback rho then Qeq_bool np 1
  else match rho with
       | None => false
       | Some (neg, r2) =>
           let r := rho_of_nprime n np in
           negb (Qeq_bool (inject_Z n + np) 0) && Qeq_bool (sqr r) r2 &&
           (if neg then Qle_bool r 0 else Qle_bool 0 r)
       end.

Record colstats := {
  c_sum : Q; c_mean : Q; c_var : Q; c_sum_sq : Q; c_median : Q; c_mad : Q; c_iqr : Q;
  c_std : val; c_cvstd : val
}.

Definition column (l : list Q) : colstats :=
  let m := mean l in
  let v := variance l in
  {| c_sum := qsum l; c_mean := m; c_var := v; c_sum_sq := sum_sq l; c_median := median l;
     c_mad := mad l; c_iqr := iqr l; c_std := Root false v; c_cvstd := root_div v m |}.

(* (exact sums of quotients over many different denominators are huge: the correspondence evaluates
   this with every term truncated to 2^-80, see MetricsRun.mape_trunc) *)
Definition mape_of (d : list (Q * Q)) (mn : Q) : val :=
  let nz := filter (fun r => Qle_bool mn (Qabs (fst r))) d in
  match nz with
  | [] => Undef
  | _ => Num (Qred (qsum (map (fun r => Qabs ((fst r - snd r) / fst r)) nz) / qlen nz))
  end.

Definition r_squared_adj_of (pl : policy) (r2 : option Q) (n ddof : Z) (mn : Q) : val :=
  match r2 with
  | None =>
      (* the numerator is NaN: "NaN > 10 min" is false, so only the repaired rule can answer None *)
      match pl with
      | Repaired => if Qle_bool (inject_Z (ddof - 1)) mn then Undef else NaN
      | AsCoded => NaN
      end
  | Some r =>
      match sdiv pl ((1 - r) * inject_Z (n - 1)) (inject_Z (ddof - 1)) mn with
      | RNone => Undef
      | RNum q => Num (Qred (1 - q))
      | RDivZero s => match divzero_val s with Inf neg => Inf (negb neg) | v => v end
      end
  end.

Record bmetrics := {
  b_n : Z; b_ddof : Z;
  b_obs : colstats; b_pred : colstats; b_res : colstats;
  b_rho : option (bool * Q);                 (* lag-1 autocorrelation of the residuals *)
  b_mae : Q; b_mbe : Q; b_sse : Q; b_mse : Q;
  b_rmse_adj_sq : Q;
  b_nmae : val; b_pnmae : val; b_nmbe : val; b_pnmbe : val;
  b_rmse : val; b_rmse_adj : val;
  b_cvrmse : val; b_cvrmse_adj : val; b_pnrmse : val; b_pnrmse_adj : val;
  b_r2 : option Q; b_r_squared : val; b_r_squared_adj : val
}.

(* [d] : the finite (observed, predicted) pairs, not empty; [p] = num_model_params; [mn] = _min_denominator *)
Definition baseline_p (pl : policy) (d : list (Q * Q)) (p : Z) (mn : Q) : bmetrics :=
  let obs := observed_of d in
  let res := residuals_of d in
  let n := zlen d in
  let ddof := ddof_of n p in
  let co := column obs in
  let cr := column res in
  let mae := Qred (sum_abs res / inject_Z n) in
  let mbe := c_mean cr in
  let sse := c_sum_sq cr in
  let mse := Qred (sse / inject_Z n) in
  let msa := Qred (sse / inject_Z ddof) in
  let mo := c_mean co in
  let io := c_iqr co in
  let r2 := match pearson (predicted_of d) obs with None => None | Some (_, r) => Some r end in
  {| b_n := n; b_ddof := ddof; b_obs := co; b_pred := column (predicted_of d); b_res := cr;
     b_rho := autocorr1 res;
     b_mae := mae; b_mbe := mbe; b_sse := sse; b_mse := mse; b_rmse_adj_sq := msa;
     b_nmae := ratio_val (sdiv pl mae mo mn); b_pnmae := ratio_val (sdiv pl mae io mn);
     b_nmbe := ratio_val (sdiv pl mbe mo mn); b_pnmbe := ratio_val (sdiv pl mbe io mn);
     b_rmse := Root false mse; b_rmse_adj := Root false msa;
     b_cvrmse := sdiv_root pl mse mo mn; b_cvrmse_adj := sdiv_root pl msa mo mn;
     b_pnrmse := sdiv_root pl mse io mn; b_pnrmse_adj := sdiv_root pl msa io mn;
     b_r2 := r2; b_r_squared := match r2 with Some r => Num r | None => NaN end;
     b_r_squared_adj := r_squared_adj_of pl r2 n ddof mn |}.
(* the repository as it stands *)
Definition baseline : list (Q * Q) -> Z -> Q -> bmetrics := baseline_p AsCoded.

(* the statistics downstream of n' (given as a rational witness, validated by [nprime_exact]) *)
Definition rmse_autocorr_adj_sq (m : bmetrics) (np : Q) (p : Z) : Q := Qred (b_sse m / ddof_autocorr_of np p).
Definition cvrmse_autocorr_adj (pl : policy) (m : bmetrics) (np : Q) (p : Z) (mn : Q) : val :=
  sdiv_root pl (rmse_autocorr_adj_sq m np p) (c_mean (b_obs m)) mn.
Definition pnrmse_autocorr_adj (pl : policy) (m : bmetrics) (np : Q) (p : Z) (mn : Q) : val :=
  sdiv_root pl (rmse_autocorr_adj_sq m np p) (c_iqr (b_obs m)) mn.

(* BaselineMetrics(df=rows, num_model_params=p) *)
Definition baseline_of_rows_p (pl : policy) (rows : list (cell * cell)) (p : Z) (mn : Q) : option bmetrics :=
  match finite_pairs rows with [] => None | d => Some (baseline_p pl d p mn) end.
Definition baseline_of_rows := baseline_of_rows_p AsCoded.

(* ------------------------------------------------------------------ hourly model *)

(* a row of the frame returned by HourlyModel._predict on the baseline: observed, predicted, and whether
   any interpolated_* flag is set *)
Definition hrow := (cell * cell * bool)%type.
Definition measured_rows (rows : list hrow) : list (cell * cell) :=
  map fst (filter (fun r => negb (snd r)) rows).
Definition hourly_baseline_metrics_p (pl : policy) (rows : list hrow) (p : Z) (mn : Q) : option bmetrics :=
  baseline_of_rows_p pl (measured_rows rows) p mn.
Definition hourly_baseline_metrics := hourly_baseline_metrics_p AsCoded.

(* v < t for a reported value (None is excluded by the caller; NaN compares false) *)
Definition val_ltb (v : val) (t : Q) : bool :=
  match v with
  | Num q => Qltb q t
  | Root neg s => if Qltb 0 t then (neg || Qltb s (sqr t)) else (neg && Qltb (sqr t) s)
  | Inf neg => neg
  | Undef | NaN => false
  end.
Definition val_gtb (v : val) (t : Q) : bool :=
  match v with
  | Num q => Qltb t q
  | Root neg s => if Qltb t 0 then (negb neg || Qltb s (sqr t)) else (negb neg && Qltb (sqr t) s)
  | Inf neg => negb neg
  | Undef | NaN => false
  end.
Definition is_undef (v : val) : bool := match v with Undef => true | _ => false end.

(* HourlyModel._model_fit_is_acceptable *)
Definition hourly_acceptable (cv pn : val) (tcv tpn : Q) : bool :=
  (negb (is_undef cv) && val_ltb cv tcv) || (negb (is_undef pn) && val_ltb pn tpn).
Definition hourly_disqualified (m : bmetrics) (tcv tpn : Q) : bool :=
  negb (hourly_acceptable (b_cvrmse_adj m) (b_pnrmse_adj m) tcv tpn).

(* ------------------------------------------------------------------ daily / billing model *)

Record derr := { d_mse : Q; d_mae : Q; d_rmse : val; d_cvrmse : val; d_pnrmse : val }.

(* DailyModel._get_error_metrics on the stacked residuals / observations of the chosen components *)
Definition daily_error (resid obs : list Q) : derr :=
  let mse := Qred (sum_sq resid / qlen resid) in
  {| d_mse := mse; d_mae := Qred (sum_abs resid / qlen resid); d_rmse := Root false mse;
     d_cvrmse := root_div mse (mean obs); d_pnrmse := root_div mse (range_5_95 obs) |}.
Definition daily_disqualified (e : derr) (t : Q) : bool := val_gtb (d_cvrmse e) t.

(* ------------------------------------------------------------------ ReportingMetrics *)

Record rmetrics := { r_n : Z; r_observed_sum : Q; r_predicted_sum : Q; r_savings : Q }.
Definition reporting (rows : list (cell * cell)) : rmetrics :=
  let d := finite_pairs rows in
  let so := qsum (observed_of d) in
  let sp := qsum (predicted_of d) in
  {| r_n := zlen d; r_observed_sum := so; r_predicted_sum := sp; r_savings := Qred (sp - so) |}.

(* total_savings_uncertainty = factor * E * t * cvrmse_autocorr_adj * sqrt(n/(m n') (1 + 2/n')):
   [t] (scipy's t quantile) and [factor] (1.26, or the polynomial in the number of months) are inputs;
   defined here for m > 0, n' > 0 and a cvrmse_autocorr_adj that is a root *)
Definition savings_uncertainty (E t factor : Q) (cv : val) (n m : Z) (np : Q) : val :=
  match cv with
  | Root neg s =>
      if (0 <? m)%Z && Qltb 0 np then
        let a := inject_Z n / (inject_Z m * np) * (1 + 2 / np) in
        let lin := factor * E * t in
        Root (xorb neg (Qltb lin 0)) (Qred (sqr lin * s * a))
      else Undef
  | _ => Undef
  end.

(* ------------------------------------------------------------------ the statement's gate *)

(* "ratio defined and below its threshold", as the property text has it: the ratio sqrt(msq)/den exists
   only over a safely positive denominator *)
Definition stmt_below (msq den mn t : Q) : bool :=
  Qltb mn den && Qltb 0 t && Qltb msq (sqr t * sqr den).
Definition hourly_disqualified_spec (m : bmetrics) (mn tcv tpn : Q) : bool :=
  negb (stmt_below (b_rmse_adj_sq m) (c_mean (b_obs m)) mn tcv ||
        stmt_below (b_rmse_adj_sq m) (c_iqr (b_obs m)) mn tpn).
