(* comparison helpers for the C02 hourly correspondence (cases written by harness/c02coq.py) *)
From Coq Require Import ZArith List Bool.
From V Require Import Model.CasesLib Model.HourlyState.
Import ListNotations.
Open Scope Z_scope.

Definition entry_eqb (a b : combo * label) : bool := combo_eqb (fst a) (fst b) && label_eqb (snd a) (snd b).
Definition table_eqb (a b : table) : bool := list_eqb entry_eqb a b.

Definition hout_eqb (a b : hout) : bool :=
  match a, b with
  | HErr, HErr => true
  | HPred i t a, HPred j u b => (i =? j) && table_eqb t u && (a =? b)
  | _, _ => false
  end.

(* the label oracle of one call, read from the implementation: the labels it gave to the missing combinations *)
Definition fill_of (fills : table) (c : combo) : Z :=
  match get fills c with Some v => v | None => -1 end.

(* one step of a history as the harness saw it *)
Record hobs := {
  o_table : table;            (* _df_temporal_clusters after the step *)
  o_ts : list Z;              (* _ts_features after the step *)
  o_warnings : list Z;        (* warnings after the step *)
  o_pred : option (option Z)  (* None: not a predict; Some None: the call raised; Some (Some k): class k of the result digest *)
}.

Inductive cop :=
| CPredict (d : dsum) (fills : table)
| COther.

Definition to_hop (o : cop) : hop :=
  match o with CPredict d fills => HPredict d (fill_of fills) | COther => HOther end.

Fixpoint trace (cfg : hcfg) (s : hstate) (ops : list cop) : list (hstate * option hout) :=
  match ops with
  | [] => []
  | o :: rest =>
      let s' := hstep cfg s (to_hop o) in
      let r := match o with CPredict d fills => Some (predict_out cfg (fill_of fills) s d) | COther => None end in
      (s', r) :: trace cfg s' rest
  end.

Definition raised_agrees (m : option hout) (o : option (option Z)) : bool :=
  match m, o with
  | None, None => true
  | Some HErr, Some None => true
  | Some (HPred _ _ _), Some (Some _) => true
  | _, _ => false
  end.

Definition step_agrees (m : hstate * option hout) (o : hobs) : bool :=
  table_eqb (clusters (fst m)) (o_table o) && list_eqb Z.eqb (ts_features (fst m)) (o_ts o) &&
  list_eqb Z.eqb (warnings (fst m)) (o_warnings o) && raised_agrees (snd m) (o_pred o).

(* equality pattern of the predictions: whenever the model computes the same result for the same data set twice,
   the implementation's two results are bit-identical (same digest class) *)
Fixpoint same_class_later (m : hout) (k : Z) (ms : list (hstate * option hout)) (os : list hobs) : bool :=
  match ms, os with
  | (_, Some m') :: ms', o :: os' =>
      (match o_pred o with
       | Some (Some k') => if hout_eqb m m' then k =? k' else true
       | _ => true
       end) && same_class_later m k ms' os'
  | _ :: ms', _ :: os' => same_class_later m k ms' os'
  | _, _ => true
  end.
Fixpoint pattern_ok (ms : list (hstate * option hout)) (os : list hobs) : bool :=
  match ms, os with
  | (_, Some m) :: ms', o :: os' =>
      (match o_pred o with Some (Some k) => same_class_later m k ms' os' | _ => true end) && pattern_ok ms' os'
  | _ :: ms', _ :: os' => pattern_ok ms' os'
  | _, _ => true
  end.

(* the oracle's contract, checked on what the implementation did: a filled label is one of the known labels *)
Definition labels_of (t : table) : list Z := flat_map (fun e => match snd e with Some v => [v] | None => [] end) t.
Fixpoint contract_ok (s : hstate) (cfg : hcfg) (ops : list cop) : bool :=
  match ops with
  | [] => true
  | o :: rest =>
      (match o with
       | CPredict d fills =>
           let r := reindex (clusters s) (ds_combos d) in
           forallb (fun e => match snd e with Some v => mem v (labels_of r) | None => true end) fills
       | COther => true
       end) && contract_ok (hstep cfg s (to_hop o)) cfg rest
  end.

Fixpoint all2 {A B} (f : A -> B -> bool) (a : list A) (b : list B) : bool :=
  match a, b with
  | [], [] => true
  | x :: a', y :: b' => f x y && all2 f a' b'
  | _, _ => false
  end.

Definition check_hourly (c : hcfg * hstate * list cop * list hobs) : bool :=
  let '(cfg, s0, ops, obs) := c in
  let ms := trace cfg s0 ops in
  all2 step_agrees ms obs && pattern_ok ms obs && contract_ok s0 cfg ops.
