(* Model of opendsm/eemeter/common/sufficiency_criteria.py (SufficiencyCriteria and its Daily / Billing /
   Hourly subclasses) and of the way the data classes (models/{daily,billing,hourly}/data.py) call it.

   Input: the "sufficiency frame" the data class hands to the criteria class, one [row] per index entry:
     ts (UTC seconds), local calendar month (index.month), observed (None = NaN), temperature present?,
     (temperature_not_null, temperature_null) (None = NaN), ghi present?, and "every other column non-null".
   Output: the set of disqualification names (a list sorted in the order of [all_dqnames], duplicate free)
   and the warnings the property speaks about, or the exception class.

   Executable definitions only; lemmas are in Proofs/SufficiencyProofs.v. *)
From Coq Require Import ZArith QArith List Bool Orders Sorting.Mergesort.
Import ListNotations.
Open Scope Z_scope.

Inductive family := Daily | Billing | Hourly.
Inductive period := Baseline | Reporting.

Record row := mkrow {
  r_ts : Z;
  r_month : Z;
  r_obs : option Q;
  r_temp : bool;
  r_cov : option (Z * Z);
  r_ghi : bool;
  r_aux : bool
}.

Record frame := mkframe {
  f_has_obs : bool;      (* the frame has an `observed` column (daily/billing drop it when it is all NaN) *)
  f_has_ghi : bool;      (* the frame has a `ghi` column *)
  f_rows : list row
}.

(* qualified names are "eemeter.sufficiency_criteria." ++ the snake-case name *)
Inductive dqname :=
| NoData                          (* no_data *)
| NegativeMeterValues             (* negative_meter_values *)
| IncorrectNumberOfTotalDays      (* incorrect_number_of_total_days *)
| TooManyDaysMissingData          (* too_many_days_with_missing_data *)
| TooManyDaysMissingMeter         (* too_many_days_with_missing_meter_data *)
| TooManyDaysMissingTemperature   (* too_many_days_with_missing_temperature_data *)
| MissingMonthlyTemperature       (* missing_monthly_temperature_data *)
| MissingMonthlyMeter             (* missing_monthly_meter_data *)
| MissingMonthlyGhi               (* missing_monthly_ghi_data *)
| OffcycleReads.                  (* offcycle_reads_in_billing_monthly_data *)

Definition all_dqnames : list dqname :=
  [NoData; NegativeMeterValues; IncorrectNumberOfTotalDays; TooManyDaysMissingData; TooManyDaysMissingMeter;
   TooManyDaysMissingTemperature; MissingMonthlyTemperature; MissingMonthlyMeter; MissingMonthlyGhi; OffcycleReads].

Definition dq_index (n : dqname) : Z :=
  match n with
  | NoData => 0 | NegativeMeterValues => 1 | IncorrectNumberOfTotalDays => 2 | TooManyDaysMissingData => 3
  | TooManyDaysMissingMeter => 4 | TooManyDaysMissingTemperature => 5 | MissingMonthlyTemperature => 6
  | MissingMonthlyMeter => 7 | MissingMonthlyGhi => 8 | OffcycleReads => 9
  end.
Definition dq_eqb (a b : dqname) : bool := dq_index a =? dq_index b.

Inductive warnname :=
| ExtremeValues          (* eemeter.sufficiency_criteria.extreme_values_detected *)
| UtcIndex               (* eemeter.data_quality.utc_index *)
| OffcycleWarning        (* eemeter.sufficiency_criteria.offcycle_reads_in_billing_monthly_data, in .warnings *)
| UnverifiableTemperature. (* eemeter.sufficiency_criteria.unable_to_confirm_daily_temperature_sufficiency *)

Definition all_warnnames : list warnname := [ExtremeValues; UtcIndex; OffcycleWarning; UnverifiableTemperature].
Definition w_index (n : warnname) : Z :=
  match n with ExtremeValues => 0 | UtcIndex => 1 | OffcycleWarning => 2 | UnverifiableTemperature => 3 end.
Definition w_eqb (a b : warnname) : bool := w_index a =? w_index b.

(* the individual checks of the criteria classes *)
Inductive check :=
| CNoData | CNegative | CLength | CValidDays | CValidMeter | CValidTemp
| CMonthlyTemp | CMonthlyMeter | CExtreme | CMonthlyGhi | CEstimated.

Definition check_index (c : check) : Z :=
  match c with
  | CNoData => 0 | CNegative => 1 | CLength => 2 | CValidDays => 3 | CValidMeter => 4 | CValidTemp => 5
  | CMonthlyTemp => 6 | CMonthlyMeter => 7 | CExtreme => 8 | CMonthlyGhi => 9 | CEstimated => 10
  end.
Definition check_eqb (a b : check) : bool := check_index a =? check_index b.

(* What the code fixes declaratively (regenerated from the source on every run, Generated/SufficiencyGen.v):
   thresholds, the check sequences, the flags the data classes pass. Fractions are rationals num/den;
   Proofs/SufficiencyProofs.v [threshold_exact] ties them to the binary64 constants the code compares with. *)
Record params := mkparams {
  p_max_len : Z;                       (* MAX_BASELINE_LENGTH *)
  p_min_len : Z;                       (* ceil(0.9 * MAX_BASELINE_LENGTH) *)
  p_cov_num : Z; p_cov_den : Z;        (* min_fraction_daily_coverage *)
  p_tcov_num : Z; p_tcov_den : Z;      (* min_fraction_hourly_temperature_coverage_per_period *)
  p_baseline_seq : family -> list check;
  p_reporting_seq : family -> list check;
  p_reporting_flag : family -> bool;   (* the reporting data class passes is_reporting_data=True *)
  p_offcycle_dq : bool;                (* billing: off-cycle reads are appended to .disqualification *)
  p_span_ignores_usage : bool;         (* _complete_rows: the usage column of reporting data is ignored *)
  p_baseline_adds_usage : family -> bool (* the baseline class adds an all-NaN usage column when it was dropped *)
}.

Definition is_some {A} (o : option A) : bool := match o with Some _ => true | None => false end.

(* ---------------- data.dropna(), n_days_total ---------------- *)

(* ign: the usage column does not count (reporting data, when the code says so) *)
Definition complete (ign : bool) (fr : frame) (r : row) : bool :=
  (ign || negb (f_has_obs fr) || is_some (r_obs r)) && r_temp r && is_some (r_cov r)
  && (negb (f_has_ghi fr) || r_ghi r) && r_aux r.

Definition complete_ts (ign : bool) (fr : frame) : list Z := map r_ts (filter (complete ign fr) (f_rows fr)).

Definition SECONDS_PER_DAY : Z := 86400.

(* (index.max() - index.min()).days + 1 over the complete rows; None = NaN (no complete row) *)
Definition n_days_total (ign : bool) (fr : frame) : option Z :=
  match complete_ts ign fr with
  | [] => None
  | t :: l => Some ((fold_left Z.max l t - fold_left Z.min l t) / SECONDS_PER_DAY + 1)
  end.

(* ---------------- day_counts, valid-day sums ---------------- *)

(* period to the next timestamp in seconds; the last row has none (NaT) *)
Fixpoint day_counts (rows : list row) : list (option Z) :=
  match rows with
  | [] => []
  | r :: rest =>
      match rest with
      | [] => [None]
      | r2 :: _ => Some (r_ts r2 - r_ts r) :: day_counts rest
      end
  end.

(* (mask * day_counts).sum(): NaN skipped *)
Fixpoint masked_sum (mask : list bool) (dc : list (option Z)) : Z :=
  match mask, dc with
  | m :: ms, d :: ds => (match d with Some s => if m then s else 0 | None => 0 end) + masked_sum ms ds
  | _, _ => 0
  end.

(* int(sum in days): truncation; the sum is kept in seconds, exactly *)
Definition to_days (secs : Z) : Z := Z.quot secs SECONDS_PER_DAY.

Definition valid_meter_row (r : row) : bool := is_some (r_obs r).
(* (not_null / (not_null + null)) > 0.9 ; 0/0 = NaN compares false *)
Definition valid_temp_row (p : params) (r : row) : bool :=
  match r_cov r with
  | Some (a, b) => p_tcov_num p * (a + b) <? p_tcov_den p * a
  | None => false
  end.
Definition valid_row (p : params) (is_rep : bool) (r : row) : bool :=
  if is_rep then valid_temp_row p r else valid_meter_row r && valid_temp_row p r.

Definition valid_secs (v : row -> bool) (rows : list row) : Z := masked_sum (map v rows) (day_counts rows).

(* pandas accumulates the day counts in binary64 before int(): a period length that is not a dyadic
   fraction of a day (675 s = 86400/128 does not divide it) makes the float sum inexact; when the exact sum
   is a whole number of days the float sum may fall just below it and int() loses a day (defect D20). *)
Definition non_dyadic (s : Z) : bool := negb (s mod 675 =? 0).
Fixpoint any_masked (mask : list bool) (dc : list (option Z)) : bool :=
  match mask, dc with
  | m :: ms, d :: ds => (match d with Some s => m && non_dyadic s | None => false end) || any_masked ms ds
  | _, _ => false
  end.
Definition near_integer_from_below (v : row -> bool) (rows : list row) : bool :=
  (valid_secs v rows mod SECONDS_PER_DAY =? 0) && any_masked (map v rows) (day_counts rows).

Record counts := mkcounts {
  c_total : option Z;     (* n_days_total *)
  c_valid : Z;            (* n_valid_days *)
  c_meter : Z;            (* n_valid_meter_value_days (baseline only) *)
  c_temp : Z              (* n_valid_temperature_days *)
}.

Definition compute_counts (p : params) (is_rep : bool) (fr : frame) : counts :=
  let rows := f_rows fr in
  {| c_total := n_days_total (is_rep && p_span_ignores_usage p) fr;
     c_valid := to_days (valid_secs (valid_row p is_rep) rows);
     c_meter := if is_rep then 0 else to_days (valid_secs valid_meter_row rows);
     c_temp := to_days (valid_secs (valid_temp_row p) rows) |}.

Definition near_flags (p : params) (is_rep : bool) (fr : frame) : bool * bool * bool :=
  let rows := f_rows fr in
  (near_integer_from_below (valid_row p is_rep) rows,
   if is_rep then false else near_integer_from_below valid_meter_row rows,
   near_integer_from_below (valid_temp_row p) rows).

(* ---------------- the checks ---------------- *)

(* fraction = n / float(n_days_total) if n_days_total > 0 else 0 ;  fraction < min_fraction_daily_coverage *)
Definition under (p : params) (n : Z) (total : option Z) : bool :=
  match total with
  | Some d => if 0 <? d then p_cov_den p * n <? p_cov_num p * d else true
  | None => true
  end.

Definition count_if {A} (f : A -> bool) (l : list A) : Z := Z.of_nat (length (filter f l)).

(* series.groupby(index.month).apply(lambda x: x.notna().mean()) < min_fraction ).any() *)
Definition month_under (p : params) (present : row -> bool) (rows : list row) (m : Z) : bool :=
  let g := filter (fun r => r_month r =? m) rows in
  p_cov_den p * count_if present g <? p_cov_num p * Z.of_nat (length g).
(* groupby(index.month) only produces groups for months that occur; an empty group compares 0 < 0 = false *)
Definition months12 : list Z := [1; 2; 3; 4; 5; 6; 7; 8; 9; 10; 11; 12].
Definition monthly_bad (p : params) (present : row -> bool) (rows : list row) : bool :=
  existsb (month_under p present rows) months12.

(* not is_reporting and n > MAX  or  n < MIN   (NaN compares false both ways) *)
Definition length_bad (p : params) (is_rep : bool) (total : option Z) : bool :=
  match total with
  | Some n => (negb is_rep && (p_max_len p <? n)) || (n <? p_min_len p)
  | None => false
  end.

Definition has_negative (rows : list row) : bool :=
  existsb (fun r => match r_obs r with Some q => negb (Qle_bool (0 # 1) q) | None => false end) rows.

(* extreme values: observed > median + 3 * (q75 - q25), linear-interpolated quantiles over the non-null values *)
Definition obs_values (rows : list row) : list Q :=
  flat_map (fun r => match r_obs r with Some q => [q] | None => [] end) rows.
(* sorting: the standard library's merge sort (8760 hourly values must sort in n log n) *)
Module QOrder <: TotalLeBool.
  Definition t := Q.
  Definition leb (a b : Q) : bool := Qle_bool a b.
  Lemma leb_total : forall a b, leb a b = true \/ leb b a = true.
  Proof.
    intros a b. unfold leb, Qle_bool.
    destruct (Z.leb_spec (Qnum a * QDen b) (Qnum b * QDen a)) as [H | H]; [left; reflexivity | right].
    apply Z.leb_le. apply Z.lt_le_incl. exact H.
  Qed.
End QOrder.
Module QSort := Sort QOrder.
Definition sort_values (l : list Q) : list Q := QSort.sort l.
Definition nthQ (l : list Q) (i : Z) : Q := nth (Z.to_nat i) l (0 # 1)%Q.
Definition quantile (s : list Q) (num den : Z) : Q :=
  let n := Z.of_nat (length s) in
  let pos := (n - 1) * num in
  let lo := pos / den in
  let a := nthQ s lo in
  let b := nthQ s (Z.min (lo + 1) (n - 1)) in
  Qred (a + (b - a) * Qmake (pos mod den) (Z.to_pos den))%Q.
Definition extreme_limit (s : list Q) : Q :=
  Qred (quantile s 1 2 + (3 # 1) * (quantile s 3 4 - quantile s 1 4))%Q.
Definition has_extreme (rows : list row) : bool :=
  match obs_values rows with
  | [] => false
  | vs => let lim := extreme_limit (sort_values vs) in existsb (fun v => negb (Qle_bool v lim)) vs
  end.

Definition run_check (p : params) (is_rep electric : bool) (fr : frame) (c : counts) (k : check)
  : list dqname * list warnname :=
  let rows := f_rows fr in
  let dq (b : bool) (n : dqname) := ((if b then [n] else []), @nil warnname) in
  match k with
  | CNoData => dq (negb (is_some (c_total c))) NoData
  | CNegative => dq (negb is_rep && negb electric && has_negative rows) NegativeMeterValues
  | CLength => dq (length_bad p is_rep (c_total c)) IncorrectNumberOfTotalDays
  | CValidDays => dq (under p (c_valid c) (c_total c)) TooManyDaysMissingData
  | CValidMeter => dq (negb is_rep && under p (c_meter c) (c_total c)) TooManyDaysMissingMeter
  | CValidTemp => dq (under p (c_temp c) (c_total c)) TooManyDaysMissingTemperature
  | CMonthlyTemp => dq (monthly_bad p r_temp rows) MissingMonthlyTemperature
  | CMonthlyMeter => dq (negb is_rep && monthly_bad p valid_meter_row rows) MissingMonthlyMeter
  | CMonthlyGhi => dq (f_has_ghi fr && monthly_bad p r_ghi rows) MissingMonthlyGhi
  | CExtreme => ([], if negb is_rep && has_extreme rows then [ExtremeValues] else [])
  | CEstimated => ([], [])
  end.

Definition run_sequence (p : params) (is_rep electric : bool) (fr : frame) (c : counts)
  (seq : list check) : list dqname * list warnname :=
  (flat_map (fun k => fst (run_check p is_rep electric fr c k)) seq,
   flat_map (fun k => snd (run_check p is_rep electric fr c k)) seq).

(* the reported *set*: sorted, duplicate free, independent of the order of the checks *)
Definition canon_dq (l : list dqname) : list dqname := filter (fun n => existsb (dq_eqb n) l) all_dqnames.
Definition canon_w (l : list warnname) : list warnname := filter (fun n => existsb (w_eqb n) l) all_warnnames.

(* ---------------- the data classes ---------------- *)

Inductive exn := AttributeError | OtherError.
Inductive outcome :=
| Accepted (dq : list dqname) (w : list warnname)
| Raised (e : exn).

(* what the pre-processing of the data class contributes besides the frame *)
Record ctx := mkctx {
  x_utc : bool;            (* the index is in UTC *)
  x_unverifiable : bool;   (* daily/billing: temperature coarser than hourly or of no inferable frequency *)
  x_offcycle : bool        (* billing: a billing period outside the accepted range was dropped *)
}.

Definition is_reporting_flag (p : params) (f : family) (w : period) : bool :=
  match w with Baseline => false | Reporting => p_reporting_flag p f end.
(* the daily/billing reporting classes do not pass is_electricity_data (default True) *)
Definition electric_flag (f : family) (w : period) (electric : bool) : bool :=
  match w, f with
  | Reporting, Daily | Reporting, Billing => true
  | _, _ => electric
  end.
Definition sequence_of (p : params) (f : family) (w : period) : list check :=
  match w with Baseline => p_baseline_seq p f | Reporting => p_reporting_seq p f end.
Definition is_billing (f : family) : bool := match f with Billing => true | _ => false end.
Definition is_hourly (f : family) : bool := match f with Hourly => true | _ => false end.

Definition dataclass_with_counts (p : params) (f : family) (w : period) (electric : bool) (cx : ctx) (fr : frame)
  (c : counts) : outcome :=
  let is_rep := is_reporting_flag p f w in
  (* `self.data.observed` on a frame without the column *)
  if negb is_rep && negb (f_has_obs fr) then Raised AttributeError else
  let '(dq, ws) := run_sequence p is_rep (electric_flag f w electric) fr c (sequence_of p f w) in
  let off := is_billing f && x_offcycle cx in
  Accepted
    (canon_dq (dq ++ (if off && p_offcycle_dq p then [OffcycleReads] else [])))
    (canon_w (ws ++ (if x_utc cx then [UtcIndex] else [])
                 ++ (if negb (is_hourly f) && x_unverifiable cx then [UnverifiableTemperature] else [])
                 ++ (if off && negb (p_offcycle_dq p) then [OffcycleWarning] else []))).

(* the frame the data class hands to the criteria class: a baseline frame whose usage column was dropped (every value
   missing) gets an all-NaN column back, when the code says so *)
Definition clear_obs (r : row) : row := mkrow (r_ts r) (r_month r) None (r_temp r) (r_cov r) (r_ghi r) (r_aux r).
Definition handed_frame (p : params) (f : family) (w : period) (fr : frame) : frame :=
  match w with
  | Baseline => if negb (f_has_obs fr) && p_baseline_adds_usage p f
                then mkframe true (f_has_ghi fr) (map clear_obs (f_rows fr)) else fr
  | Reporting => fr
  end.

Definition criteria (p : params) (f : family) (w : period) (electric : bool) (cx : ctx) (fr : frame) : outcome :=
  dataclass_with_counts p f w electric cx fr (compute_counts p (is_reporting_flag p f w) fr).
Definition dataclass (p : params) (f : family) (w : period) (electric : bool) (cx : ctx) (fr : frame) : outcome :=
  criteria p f w electric cx (handed_frame p f w fr).

Definition dq_of (o : outcome) : list dqname := match o with Accepted dq _ => dq | Raised _ => [] end.
Definition warnings_of (o : outcome) : list warnname := match o with Accepted _ w => w | Raised _ => [] end.

(* ---------------- the published criteria (what the property statement lists) ---------------- *)

Definition canonical_baseline (f : family) : list check :=
  match f with
  | Hourly => [CNoData; CNegative; CLength; CValidDays; CValidMeter; CValidTemp; CMonthlyTemp; CMonthlyMeter;
               CExtreme; CMonthlyGhi]
  | Daily => [CNoData; CNegative; CLength; CValidDays; CValidMeter; CValidTemp; CMonthlyTemp; CExtreme]
  | Billing => [CNoData; CNegative; CLength; CValidDays; CValidMeter; CValidTemp; CMonthlyTemp; CExtreme; CEstimated]
  end.
Definition canonical_reporting (f : family) : list check :=
  match f with
  | Hourly => [CNoData; CValidDays; CValidTemp; CMonthlyTemp; CMonthlyGhi]
  | _ => [CNoData; CValidDays; CValidTemp; CMonthlyTemp]
  end.

Definition published : params :=
  {| p_max_len := 365; p_min_len := 329; p_cov_num := 9; p_cov_den := 10; p_tcov_num := 9; p_tcov_den := 10;
     p_baseline_seq := canonical_baseline; p_reporting_seq := canonical_reporting;
     p_reporting_flag := fun _ => true; p_offcycle_dq := false; p_span_ignores_usage := true;
     p_baseline_adds_usage := fun _ => true |}.

Definition same_checks (a b : list check) : bool :=
  forallb (fun c => existsb (check_eqb c) b) a && forallb (fun c => existsb (check_eqb c) a) b.
Definition all_families : list family := [Daily; Billing; Hourly].

(* the regenerated parameters say what the statement says: thresholds and sets of checks (order of the checks is free) *)
Definition params_ok (p : params) : bool :=
  (p_max_len p =? 365) && (p_min_len p =? 329)
  && (p_cov_num p =? 9) && (p_cov_den p =? 10) && (p_tcov_num p =? 9) && (p_tcov_den p =? 10)
  && forallb (fun f => same_checks (p_baseline_seq p f) (canonical_baseline f)) all_families
  && forallb (fun f => same_checks (p_reporting_seq p f) (canonical_reporting f)) all_families.

(* ... and the glue of the six data classes is the statement's: reporting data is declared as such, off-cycle reads
   are warnings, usage is optional for reporting data, a baseline always has a usage column *)
Definition params_exact (p : params) : bool :=
  params_ok p && forallb (p_reporting_flag p) all_families && negb (p_offcycle_dq p) && p_span_ignores_usage p
  && forallb (p_baseline_adds_usage p) all_families.

(* ---------------- the statement, declaratively (used by Properties/C10.v) ----------------
   "the set of disqualifications they report is exactly the set of criteria the data violates: baseline span outside
   329-365 days, under 90% of days with valid usage, valid temperature or both (counting each timestamp's period up to
   the next timestamp), any calendar month under 90% temperature (and, hourly, usage/irradiance) coverage, negative
   usage for non-electric baselines, no data at all." *)

(* whole days with ..., counting each timestamp's period up to the next timestamp *)
Definition whole_days (v : row -> bool) (rows : list row) : Z := to_days (valid_secs v rows).
(* a day's temperature is valid when more than 90 % of its readings are present *)
Definition temp_valid90 (r : row) : bool :=
  match r_cov r with Some (a, b) => 9 * (a + b) <? 10 * a | None => false end.
Definition usage_present (r : row) : bool := is_some (r_obs r).

(* span: whole days between the first and the last timestamp that carries data, + 1 *)
Definition span_of (c : row -> bool) (rows : list row) : option Z :=
  match map r_ts (filter c rows) with
  | [] => None
  | t :: l => Some ((fold_left Z.max l t - fold_left Z.min l t) / SECONDS_PER_DAY + 1)
  end.

Definition under90 (n : Z) (total : option Z) : Prop :=
  match total with Some d => 10 * n < 9 * d | None => True end.

Definition in_month (m : Z) (r : row) : bool := r_month r =? m.
Definition month_under90 (present : row -> bool) (rows : list row) (m : Z) : Prop :=
  10 * count_if present (filter (in_month m) rows) < 9 * Z.of_nat (length (filter (in_month m) rows)).
Definition some_month_under90 (present : row -> bool) (rows : list row) : Prop :=
  exists m, 1 <= m <= 12 /\ month_under90 present rows m.

Definition has_data_baseline (fr : frame) (r : row) : bool :=
  usage_present r && r_temp r && is_some (r_cov r) && (negb (f_has_ghi fr) || r_ghi r) && r_aux r.
(* representation invariant: a frame without a usage column carries no usage value *)
Definition frame_wf (fr : frame) : Prop :=
  f_has_obs fr = false -> forall r, In r (f_rows fr) -> r_obs r = None.
(* reporting data: usage is optional *)
Definition has_data_reporting (fr : frame) (r : row) : bool :=
  r_temp r && is_some (r_cov r) && (negb (f_has_ghi fr) || r_ghi r) && r_aux r.

Definition violates_baseline (f : family) (electric : bool) (fr : frame) (n : dqname) : Prop :=
  let rows := f_rows fr in
  let span := span_of (has_data_baseline fr) rows in
  match n with
  | NoData => forall r, In r rows -> has_data_baseline fr r = false
  | NegativeMeterValues => electric = false /\ exists r q, In r rows /\ r_obs r = Some q /\ (q < 0)%Q
  | IncorrectNumberOfTotalDays => exists d, span = Some d /\ (d < 329 \/ 365 < d)
  | TooManyDaysMissingData => under90 (whole_days (fun r => usage_present r && temp_valid90 r) rows) span
  | TooManyDaysMissingMeter => under90 (whole_days usage_present rows) span
  | TooManyDaysMissingTemperature => under90 (whole_days temp_valid90 rows) span
  | MissingMonthlyTemperature => some_month_under90 r_temp rows
  | MissingMonthlyMeter => f = Hourly /\ some_month_under90 usage_present rows
  | MissingMonthlyGhi => f = Hourly /\ f_has_ghi fr = true /\ some_month_under90 r_ghi rows
  | OffcycleReads => False
  end.

Definition violates_reporting (f : family) (fr : frame) (n : dqname) : Prop :=
  let rows := f_rows fr in
  let span := span_of (has_data_reporting fr) rows in
  match n with
  | NoData => forall r, In r rows -> has_data_reporting fr r = false
  | TooManyDaysMissingData => under90 (whole_days temp_valid90 rows) span
  | TooManyDaysMissingTemperature => under90 (whole_days temp_valid90 rows) span
  | MissingMonthlyTemperature => some_month_under90 r_temp rows
  | MissingMonthlyGhi => f = Hourly /\ f_has_ghi fr = true /\ some_month_under90 r_ghi rows
  | _ => False
  end.

(* the usage column of reporting data is absent or complete (only needed for parameter records that do not ignore it) *)
Definition usage_irrelevant (fr : frame) : Prop :=
  f_has_obs fr = false \/ forall r, In r (f_rows fr) -> is_some (r_obs r) = true.

(* rows that differ only in the magnitude of the usage value *)
Definition same_shape (r r' : row) : Prop :=
  r_ts r = r_ts r' /\ r_month r = r_month r' /\ r_temp r = r_temp r' /\ r_cov r = r_cov r' /\ r_ghi r = r_ghi r'
  /\ r_aux r = r_aux r'
  /\ match r_obs r, r_obs r' with
     | None, None => True
     | Some q, Some q' => (q < 0 <-> q' < 0)%Q
     | _, _ => False
     end.

(* ---------------- what a parameter record that leaves the statement reports instead (the repaired findings
   C10-F2, C10-F4: regression characterisations) ---------------- *)

(* what HourlyReportingData reports while the criteria class is not told that the data is reporting data:
   the usage rules enter completeness and the count of valid days; the baseline-only checks are not run *)
Definition violates_reporting_as_baseline (fr : frame) (n : dqname) : Prop :=
  let rows := f_rows fr in
  let span := span_of (complete false fr) rows in
  match n with
  | NoData => forall r, In r rows -> complete false fr r = false
  | TooManyDaysMissingData => under90 (whole_days (fun r => usage_present r && temp_valid90 r) rows) span
  | TooManyDaysMissingTemperature => under90 (whole_days temp_valid90 rows) span
  | MissingMonthlyTemperature => some_month_under90 r_temp rows
  | MissingMonthlyGhi => f_has_ghi fr = true /\ some_month_under90 r_ghi rows
  | _ => False
  end.

(* daily / billing reporting data: the valid days count temperature only, the span is taken over the rows that also
   have usage *)
Definition violates_reporting_span_over_usage (f : family) (fr : frame) (n : dqname) : Prop :=
  let rows := f_rows fr in
  let span := span_of (complete false fr) rows in
  match n with
  | NoData => forall r, In r rows -> complete false fr r = false
  | TooManyDaysMissingData => under90 (whole_days temp_valid90 rows) span
  | TooManyDaysMissingTemperature => under90 (whole_days temp_valid90 rows) span
  | MissingMonthlyTemperature => some_month_under90 r_temp rows
  | MissingMonthlyGhi => f = Hourly /\ f_has_ghi fr = true /\ some_month_under90 r_ghi rows
  | _ => False
  end.


(* the parameters of the statement with the glue of the data classes as it was before the five repairs (regression) *)
Definition as_coded : params :=
  {| p_max_len := 365; p_min_len := 329; p_cov_num := 9; p_cov_den := 10; p_tcov_num := 9; p_tcov_den := 10;
     p_baseline_seq := canonical_baseline; p_reporting_seq := canonical_reporting;
     p_reporting_flag := fun f => match f with Hourly => false | _ => true end; p_offcycle_dq := true;
     p_span_ignores_usage := false; p_baseline_adds_usage := fun f => match f with Hourly => true | _ => false end |}.
