(* Model of the split selection criterion (property C13):
     opendsm/eemeter/models/daily/utilities/selection_criteria.py   neg_log_likelihood, selection_criteria
     opendsm/eemeter/models/daily/model.py                          _combination_selection_criteria (loss, TSS, N,
                                                                    num_coeffs of a combination), _get_error_metrics
                                                                    (wRMSE = sqrt(sum wSSE / sum N))
   written once over the numeric dictionary (Model/Num.v) plus the three functions the dictionary does not
   carry (ln, sqrt, pow: section variables), instantiated at R (Proofs/SelCritProofs.v, theorems) and at
   PrimFloat (Model/SelCritF.v, execution in the correspondence).  Executable definitions only.

   +-inf: neg_log_likelihood returns np.inf when loss <= 0 or N <= 0, so the information criteria become -inf;
   the result type [ext] carries that (a float NaN stays inside [Fin] on the float side).  The model is
   meant for N >= 1 (a combination always has days); for N <= 0 the code divides -inf by N, which is not
   mirrored. *)
From Coq Require Import List Bool.
From V Require Import Model.Num.
Import ListNotations.

Inductive ext (A : Type) : Type := Fin (a : A) | NInf | PInf.
Arguments Fin {A} a.
Arguments NInf {A}.
Arguments PInf {A}.

(* settings.split_selection.criteria (ModelSelectionCriteria), lower-cased by the caller *)
Inductive crit_type :=
  C_RMSE | C_RMSE_ADJ | C_R2 | C_R2_ADJ | C_FPE | C_AIC | C_AICC | C_CAIC | C_BIC | C_SABIC.

(* what a combination reads from one fitted component (OptimizedResult.N, .TSS, .wSSE) *)
Record cfit (A : Type) := { f_n : A; f_tss : A; f_wsse : A }.
Arguments f_n {A} c.
Arguments f_tss {A} c.
Arguments f_wsse {A} c.

Section SelCrit.
  Variable N : num.
  Variable x_ln x_sqrt : N -> N.
  Variable x_pow : N -> N -> N.            (* base ** exponent *)
  Variable two_pi : N.                     (* 2 * np.pi *)
  Variable tiny : N.                       (* 1e-6 *)
  Variable absorb : N -> ext N.            (* -inf + penalty: -inf, or NaN when the penalty is NaN / +inf *)

  Definition n_three : N := n_add n_two n_one.
  Definition n_24 : N := n_mul (n_mul (n_mul n_two n_two) n_two) n_three.

  (* df_penalized = N - K - 1; if df_penalized <= 0: df_penalized = 1e-6 *)
  Definition df_penalized (n k : N) : N :=
    let d := n_sub (n_sub n k) n_one in
    if n_leb d n_zero then tiny else d.

  (* neg_log_likelihood(loss, N) *)
  Definition neg_log_likelihood (loss n : N) : ext N :=
    if n_leb loss n_zero || n_leb n n_zero then PInf
    else Fin (n_mul (n_div (n_opp n) n_two)
                    (n_add (n_add (x_ln two_pi) (x_ln (n_div loss n))) n_one)).

  (* -2 * neg_log_likelihood(loss, N) + penalty *)
  Definition info_criterion (loss n pen : N) : ext N :=
    match neg_log_likelihood loss n with
    | Fin v => Fin (n_add (n_mul (n_opp n_two) v) pen)
    | PInf => absorb pen
    | NInf => PInf
    end.

  (* criteria /= N *)
  Definition normalise (n : N) (c : ext N) : ext N :=
    match c with Fin v => Fin (n_div v n) | NInf => NInf | PInf => PInf end.

  (* the penalty terms, as coded *)
  Definition pen_aic (c0 d0 k : N) : N := n_mul (n_mul c0 n_two) (x_pow k d0).
  Definition pen_aicc (c0 d0 n k : N) : N :=
    n_mul c0 (x_pow (n_add (n_mul n_two k)
                           (n_div (n_mul (n_mul n_two k) (n_add k n_one)) (df_penalized n k))) d0).
  Definition pen_caic (c0 d0 n k : N) : N := n_mul (n_mul c0 k) (x_pow (n_add (x_ln n) n_one) d0).
  Definition pen_bic (c0 d0 n k : N) : N := n_mul (n_mul c0 k) (x_pow (x_ln n) d0).
  Definition pen_sabic (c0 d0 n k : N) : N :=
    n_mul (n_mul c0 k) (x_pow (x_ln (n_div (n_add n n_two) n_24)) d0).

  (* selection_criteria(loss, TSS, N, num_coeffs, model_selection_criteria, penalty_multiplier, penalty_power) *)
  Definition selection_criteria (ty : crit_type) (c0 d0 loss tss n k : N) : ext N :=
    let dfp := df_penalized n k in
    match ty with
    | C_RMSE => Fin (x_sqrt (n_div loss n))
    | C_RMSE_ADJ => Fin (x_sqrt (n_div loss dfp))
    | C_R2 =>
        let r2 := n_sub n_one (n_div loss tss) in
        normalise n (Fin (n_mul (n_sub n_one r2) n_hundred))
    | C_R2_ADJ =>
        let r2 := n_sub n_one (n_div loss tss) in
        let r2adj := n_sub n_one (n_mul (n_sub n_one r2) (n_div (n_sub n n_one) dfp)) in
        normalise n (Fin (n_mul (n_sub n_one r2adj) n_hundred))
    | C_FPE => normalise n (Fin (n_div (n_mul loss (n_add (n_add n k) n_one)) dfp))
    | C_AIC => normalise n (info_criterion loss n (pen_aic c0 d0 k))
    | C_AICC => normalise n (info_criterion loss n (pen_aicc c0 d0 n k))
    | C_CAIC => normalise n (info_criterion loss n (pen_caic c0 d0 n k))
    | C_BIC => normalise n (info_criterion loss n (pen_bic c0 d0 n k))
    | C_SABIC => normalise n (info_criterion loss n (pen_sabic c0 d0 n k))
    end.

  (* ---------------------------------------------------------------- a combination of fitted components *)
  Definition sum_of (g : cfit N -> N) (l : list (cfit N)) : N :=
    fold_left (fun a c => n_add a (g c)) l n_zero.
  Definition count_of (l : list (cfit N)) : N := fold_left (fun a _ => n_add a n_one) l n_zero.

  (* _get_error_metrics(combination)[0] *)
  Definition wrmse (l : list (cfit N)) : N := x_sqrt (n_div (sum_of f_wsse l) (sum_of f_n l)).

  (* loss = wRMSE / wRMSE_base *)
  Definition combo_loss (base l : list (cfit N)) : N := n_div (wrmse l) (wrmse base).

  (* _combination_selection_criteria(combination): base = the components of "fw-su_sh_wi" *)
  Definition combo_criterion (ty : crit_type) (c0 d0 : N) (base l : list (cfit N)) : ext N :=
    selection_criteria ty c0 d0 (combo_loss base l) (sum_of f_tss l) (sum_of f_n l) (count_of l).
End SelCrit.

(* the order "<" of Python floats on extended values (NaN aside), given "<" on the finite ones *)
Definition ext_ltb {A : Type} (ltb : A -> A -> bool) (a b : ext A) : bool :=
  match a, b with
  | NInf, NInf => false
  | NInf, _ => true
  | _, NInf => false
  | Fin x, Fin y => ltb x y
  | Fin _, PInf => true
  | PInf, _ => false
  end.
