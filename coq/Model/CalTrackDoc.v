(* Stored CalTRACK hourly models (C01): state, document, reload.

   Mirrors
     opendsm/eemeter/models/hourly_caltrack/wrapper.py        HourlyModel.to_dict / from_dict, predict (the uncertainty loop)
     opendsm/eemeter/models/hourly_caltrack/model.py          CalTRACKHourlyModelResults.json / from_json,
                                                             CalTRACKHourlyModel.json / from_json
     opendsm/eemeter/models/hourly_caltrack/segmentation.py   CalTRACKSegmentModel.json / from_json, SegmentedModel.json
     opendsm/eemeter/models/hourly_caltrack/metrics.py        ModelMetrics.json / from_json (ModelMetricsFromJson)
   What is modelled because bugs live there:
     - `_autocorr_unc_vars` is keyed by "all" or by the INTEGER month; json turns the integers into strings and
       from_dict stores the parsed dictionary as it is, while predict selects the rows of a key with
       `df.index.month == key` (a string never matches);
     - warnings and metrics come back as plain dicts / ModelMetricsFromJson objects, which have no .json():
       the reloaded model cannot be serialised again;
     - `model_lookup` is derived from the segment models and the month mapping (written, never read back).
   The three lookup tables are pandas frames written with to_json(orient="split") (a string leaf of the tree);
   their text -> frame -> text round trip is pandas' and is trusted.  The regression prediction itself is a
   function of the fields in [ct_inputs] (a Section variable in the proofs).  Executable definitions only. *)
From Coq Require Import ZArith List Bool String PrimFloat.
From V Require Import Model.Json Model.DailyDoc.
Import ListNotations.
Open Scope string_scope.

(* a list of warnings is a list of EEMeterWarning objects on a fitted model, of plain dicts on a reloaded one *)
Inductive warns := WTyped (l : list warning) | WRaw (l : list json).

Record seg_model := {
  sg_name : string;
  sg_formula : option string;
  sg_params : list (string * float);
  sg_warnings : warns
}.

(* keys of the uncertainty map *)
Inductive ukey := KAll | KMonth (n : Z) | KText (s : string).    (* KText: a string other than "all" *)

(* one value of an uncertainty entry (mean_baseline_usage, n, n_prime, MSE): an int, a float -- NaN for a calendar
   month without baseline rows, written as the token NaN and read back as NaN -- or a JSON null kept verbatim
   (from_dict stores the parsed dictionary as it is; predict's arithmetic raises TypeError on a None) *)
Inductive uval := UInt (z : Z) | UFloat (f : float) | UNull.
Definition uentry := list (string * uval).

Definition uval_doc (v : uval) : json := match v with UInt z => JInt z | UFloat f => JNum f | UNull => JNull end.
Definition uentry_doc (e : uentry) : json := JObj (map (fun kv => (fst kv, uval_doc (snd kv))) e).
Definition parse_uval (j : json) : option uval :=
  match j with JInt z => Some (UInt z) | JNum f => Some (UFloat f) | JNull => Some UNull | _ => None end.
Definition parse_uentry (j : json) : option uentry :=
  match j with
  | JObj o => opt_all (map (fun kv => option_map (fun v => (fst kv, v)) (parse_uval (snd kv))) o)
  | _ => None
  end.
(* the ASHRAE-14 expression of predict can be evaluated on the entry (NaN propagates, None raises) *)
Definition arith_ok (e : uentry) : bool := forallb (fun kv => match snd kv with UNull => false | _ => true end) e.

(* per-segment metrics: ModelMetrics objects (fitted) or ModelMetricsFromJson objects (reloaded) *)
Inductive metrics := MNone | MNative (l : list (string * json)) | MReloaded (l : list (string * json)).

Record ct_state := {
  ct_status : string;
  ct_method : string;
  ct_segments : list seg_model;
  ct_pred_type : string;                               (* prediction_segment_type *)
  ct_mapping : option (list (string * string));        (* prediction_segment_name_mapping: month -> fitted segment *)
  ct_processor : string;
  ct_occupancy : string;
  ct_occ_bins : string;
  ct_unocc_bins : string;
  ct_segment_type : string;
  ct_unc : list (ukey * uentry);
  ct_warnings : warns;
  ct_metadata : json;
  ct_settings : json;
  ct_totals : metrics;
  ct_avgs : metrics
}.

(* ---------------------------------------------------------------- to_dict; None = an exception *)

(* [w.json() for w in warnings]: a dict has no .json() (an empty list never calls it) *)
Definition warns_doc (w : warns) : option json :=
  match w with
  | WTyped l => Some (JArr (map warning_doc l))
  | WRaw [] => Some (JArr [])
  | WRaw _ => None
  end.

Definition seg_doc (g : seg_model) : option json :=
  match warns_doc (sg_warnings g) with
  | None => None
  | Some w =>
      Some (JObj [("segment_name", JStr (sg_name g));
                  ("formula", match sg_formula g with Some f => JStr f | None => JNull end);
                  ("warnings", w);
                  ("model_params", JObj (map (fun p => (fst p, JNum (snd p))) (sg_params g)))])
  end.

Fixpoint find_seg (name : string) (l : list seg_model) : option seg_model :=
  match l with
  | [] => None
  | g :: rest => if String.eqb (sg_name g) name then Some g else find_seg name rest
  end.

(* fitted_model_lookup = {segment_name: model} keeps the LAST model of a name *)
Definition lookup_seg (name : string) (l : list seg_model) : option seg_model := find_seg name (rev l).

Fixpoint dedup_keys (seen : list string) (l : list (string * json)) : list (string * json) :=
  match l with
  | [] => []
  | (k, v) :: rest => if existsb (String.eqb k) seen then dedup_keys seen rest else (k, v) :: dedup_keys (k :: seen) rest
  end.

(* SegmentedModel.model_lookup as json: {pred_name: json_or_none(fitted.get(fit_name))} *)
Definition lookup_doc (segs : list seg_model) (mapping : option (list (string * string))) : option (list (string * json)) :=
  match mapping with
  | None =>
      (* one entry per distinct segment name, first position, last model *)
      option_map (dedup_keys [])
        (opt_all (map (fun g => match lookup_seg (sg_name g) segs with
                                | Some h => option_map (fun j => (sg_name g, j)) (seg_doc h)
                                | None => None end) segs))
  | Some m =>
      opt_all (map (fun kv => match lookup_seg (snd kv) segs with
                              | Some h => option_map (fun j => (fst kv, j)) (seg_doc h)
                              | None => Some (fst kv, JNull) end) m)
  end.

Definition metrics_doc (m : metrics) : option json :=
  match m with
  | MNone => Some JNull
  | MNative l => Some (JObj l)
  | MReloaded [] => Some (JObj [])
  | MReloaded _ => None                      (* 'ModelMetricsFromJson' object has no attribute 'json' *)
  end.

Definition ukey_string (k : ukey) : string :=
  match k with KAll => "all" | KMonth n => string_of_Z n | KText s => s end.

Definition ct_to_doc_objects (s : ct_state) : option json :=
  do segs <- opt_all (map seg_doc (ct_segments s));
  do lk <- lookup_doc (ct_segments s) (ct_mapping s);
  do ws <- warns_doc (ct_warnings s);
  do tm <- metrics_doc (ct_totals s);
  do am <- metrics_doc (ct_avgs s);
  Some (JObj [
    ("status", JStr (ct_status s));
    ("method_name", JStr (ct_method s));
    ("model", JObj [
       ("segment_models", JArr segs);
       ("model_lookup", JObj lk);
       ("prediction_segment_type", JStr (ct_pred_type s));
       ("prediction_segment_name_mapping",
          match ct_mapping s with Some m => JObj (map (fun kv => (fst kv, JStr (snd kv))) m) | None => JNull end);
       ("prediction_feature_processor", JStr (ct_processor s));
       ("occupancy_lookup", JStr (ct_occupancy s));
       ("occupied_temperature_bins", JStr (ct_occ_bins s));
       ("unoccupied_temperature_bins", JStr (ct_unocc_bins s));
       ("segment_type", JStr (ct_segment_type s));
       ("unc_vars", JObj (map (fun kv => (ukey_string (fst kv), uentry_doc (snd kv))) (ct_unc s)))]);
    ("warnings", ws);
    ("metadata", ct_metadata s);
    ("settings", ct_settings s);
    ("totals_metrics", tm);
    ("avgs_metrics", am)]).

(* ---------------------------------------------------------------- from_dict *)

Definition parse_param (kv : string * json) : option (string * float) :=
  match as_float (snd kv) with Some f => Some (fst kv, f) | None => None end.

Definition raw_warns (j : option json) : option warns :=
  match j with
  | Some (JArr l) => Some (WRaw l)
  | _ => None
  end.

Definition parse_seg (j : json) : option seg_model :=
  do name <- bind (field "segment_name" j) as_string;
  do f <- match field "formula" j with
          | Some (JStr s) => Some (Some s)
          | Some JNull | None => Some None
          | _ => None end;
  do ps <- bind (bind (field "model_params" j) as_obj) (fun o => opt_all (map parse_param o));
  do w <- raw_warns (field "warnings" j);
  Some {| sg_name := name; sg_formula := f; sg_params := ps; sg_warnings := w |}.

(* the month mapping and the prediction type are rebuilt from segment_type by _PredictionSegmentInfo *)
Definition month_mapping : list (string * string) :=
  [("jan", "dec-jan-feb-weighted"); ("feb", "jan-feb-mar-weighted"); ("mar", "feb-mar-apr-weighted");
   ("apr", "mar-apr-may-weighted"); ("may", "apr-may-jun-weighted"); ("jun", "may-jun-jul-weighted");
   ("jul", "jun-jul-aug-weighted"); ("aug", "jul-aug-sep-weighted"); ("sep", "aug-sep-oct-weighted");
   ("oct", "sep-oct-nov-weighted"); ("nov", "oct-nov-dec-weighted"); ("dec", "nov-dec-jan-weighted")].

Definition segment_info (segment_type : string) : option (string * option (list (string * string))) :=
  if String.eqb segment_type "single" then Some ("single", None)
  else if String.eqb segment_type "three_month_weighted" then Some ("one_month", Some month_mapping)
  else None.

(* how the keys of unc_vars are read back: repaired = true is the code as it is (since /repo f37e6233: digits become
   the month number again); false is the reader before that commit, which kept the strings json produced
   (regression witness) *)
Definition read_ukey (repaired : bool) (k : string) : ukey :=
  if String.eqb k "all" then KAll
  else if repaired then match Z_of_string k with Some n => KMonth n | None => KText k end
  else KText k.

Definition parse_metrics (j : option json) : option metrics :=
  match j with
  | Some (JObj []) | Some JNull | None => Some MNone          (* `if d:` is false for {} and None *)
  | Some (JObj l) => Some (MReloaded l)
  | _ => None
  end.

Definition ct_from_doc_gen (repaired : bool) (d : json) : option ct_state :=
  do status <- bind (field "status" d) as_string;
  do method <- bind (field "method_name" d) as_string;
  do m <- field "model" d;
  do segs <- bind (bind (field "segment_models" m) as_arr) (fun l => opt_all (map parse_seg l));
  do occ <- bind (field "occupancy_lookup" m) as_string;
  do ob <- bind (field "occupied_temperature_bins" m) as_string;
  do ub <- bind (field "unoccupied_temperature_bins" m) as_string;
  do stype <- bind (field "segment_type" m) as_string;
  do si <- segment_info stype;
  do unc <- bind (bind (field "unc_vars" m) as_obj)
                 (fun o => opt_all (map (fun kv => option_map (fun e => (fst kv, e)) (parse_uentry (snd kv))) o));
  do ws <- raw_warns (field "warnings" d);
  do md <- field "metadata" d;
  do st <- field "settings" d;
  do tm <- parse_metrics (field "totals_metrics" d);
  do am <- parse_metrics (field "avgs_metrics" d);
  Some {| ct_status := status; ct_method := method; ct_segments := segs; ct_pred_type := fst si; ct_mapping := snd si;
          ct_processor := "caltrack_hourly_prediction_feature_processor";
          ct_occupancy := occ; ct_occ_bins := ob; ct_unocc_bins := ub; ct_segment_type := stype;
          ct_unc := map (fun kv => (read_ukey repaired (fst kv), snd kv)) unc;
          ct_warnings := ws; ct_metadata := md; ct_settings := st; ct_totals := tm; ct_avgs := am |}.

Definition ct_from_doc_before_f37e6233 := ct_from_doc_gen false.
Definition ct_from_doc := ct_from_doc_gen true.

(* to_dict as coded (since /repo 3d0f44c1): reloaded warnings (plain dicts) and reloaded metrics
   (ModelMetricsFromJson) write themselves back.  [ct_to_doc_objects] above is the serialiser before that commit,
   which needs objects with a .json() (regression witness). *)
Definition relax_warns (w : warns) : warns :=
  match w with WRaw l => match opt_all (map parse_warning l) with Some t => WTyped t | None => w end | _ => w end.
Definition relax_metrics (m : metrics) : metrics := match m with MReloaded l => MNative l | _ => m end.
Definition relax (s : ct_state) : ct_state :=
  {| ct_status := ct_status s; ct_method := ct_method s;
     ct_segments := map (fun g => {| sg_name := sg_name g; sg_formula := sg_formula g; sg_params := sg_params g;
                                     sg_warnings := relax_warns (sg_warnings g) |}) (ct_segments s);
     ct_pred_type := ct_pred_type s; ct_mapping := ct_mapping s; ct_processor := ct_processor s;
     ct_occupancy := ct_occupancy s; ct_occ_bins := ct_occ_bins s; ct_unocc_bins := ct_unocc_bins s;
     ct_segment_type := ct_segment_type s; ct_unc := ct_unc s; ct_warnings := relax_warns (ct_warnings s);
     ct_metadata := ct_metadata s; ct_settings := ct_settings s;
     ct_totals := relax_metrics (ct_totals s); ct_avgs := relax_metrics (ct_avgs s) |}.
Definition ct_to_doc (s : ct_state) : option json := ct_to_doc_objects (relax s).

(* regression witness model (seeded change C01-3): a serialiser that writes the non-finite uncertainty statistics as
   null ("JSON hygiene") *)
Definition is_finite (f : float) : bool := PrimFloat.eqb f f && PrimFloat.ltb (PrimFloat.abs f) infinity.
Definition null_nonfinite (e : uentry) : uentry :=
  map (fun kv => (fst kv, match snd kv with UFloat f => if is_finite f then UFloat f else UNull | v => v end)) e.
Definition with_unc_map (f : uentry -> uentry) (s : ct_state) : ct_state :=
  {| ct_status := ct_status s; ct_method := ct_method s; ct_segments := ct_segments s; ct_pred_type := ct_pred_type s;
     ct_mapping := ct_mapping s; ct_processor := ct_processor s; ct_occupancy := ct_occupancy s;
     ct_occ_bins := ct_occ_bins s; ct_unocc_bins := ct_unocc_bins s; ct_segment_type := ct_segment_type s;
     ct_unc := map (fun kv => (fst kv, f (snd kv))) (ct_unc s); ct_warnings := ct_warnings s;
     ct_metadata := ct_metadata s; ct_settings := ct_settings s; ct_totals := ct_totals s; ct_avgs := ct_avgs s |}.
Definition ct_to_doc_nan_as_null (s : ct_state) : option json := ct_to_doc (with_unc_map null_nonfinite s).

(* ---------------------------------------------------------------- what predict reads *)

(* the rows of a reporting frame an uncertainty entry applies to: "all" -> every row, an int month -> the rows of
   that month, anything else (a string) -> `index.month == "3"` is False everywhere *)
Definition key_applies (k : ukey) (month : Z) : bool :=
  match k with KAll => true | KMonth n => (n =? month)%Z | KText _ => false end.

(* the entry that ends up written on the rows of a month: the loop visits the items in order, later writes win *)
Definition unc_lookup (unc : list (ukey * uentry)) (month : Z) : option uentry :=
  fold_left (fun acc kv => if key_applies (fst kv) month then Some (snd kv) else acc) unc None.

Record ct_inputs := {
  ci_segments : list (string * option string * list (string * float));    (* name, formula, parameters *)
  ci_pred_type : string;
  ci_mapping : option (list (string * string));
  ci_occupancy : string;
  ci_occ_bins : string;
  ci_unocc_bins : string
}.

Definition ct_inputs_of (s : ct_state) : ct_inputs :=
  {| ci_segments := map (fun g => (sg_name g, sg_formula g, sg_params g)) (ct_segments s);
     ci_pred_type := ct_pred_type s; ci_mapping := ct_mapping s;
     ci_occupancy := ct_occupancy s; ci_occ_bins := ct_occ_bins s; ci_unocc_bins := ct_unocc_bins s |}.
