(* The daily / billing model curve, written once over an arbitrary numeric dictionary [N : num].

   Mirrors, statement by statement,
     opendsm/eemeter/models/daily/parameters.py         ModelCoefficients.to_np_array, model_key
     opendsm/eemeter/models/daily/base_models/full_model.py
                                                        full_model (one temperature), get_full_model_x,
                                                        fix_full_model_x
     opendsm/eemeter/models/daily/utilities/base_model.py
                                                        get_smooth_coeffs
     opendsm/eemeter/models/daily/model.py              DailyModel._predict_submodel
   Executable definitions only (no proofs).  Instantiated at [RNumOf lo hi] for the theorems
   (Proofs/DailyCurveProofs.v) and at [FNum] for execution (Model/DailyCurveRun.v). *)
From Coq Require Import List Bool.
From V Require Import Model.Num.
Import ListNotations.

(* parameters.py: ModelType *)
Inductive shape :=
| HddTiddCddSmooth | HddTiddCdd | HddTiddSmooth | TiddCddSmooth | HddTidd | TiddCdd | Tidd.

(* parameters.py: ModelCoefficients.model_key (the string handed to get_full_model_x) *)
Inductive model_key := KFullSmooth | KFull | KCSmooth | KC | KTidd.

Definition key_of_shape (s : shape) : model_key :=
  match s with
  | HddTiddCddSmooth => KFullSmooth
  | HddTiddCdd => KFull
  | HddTiddSmooth | TiddCddSmooth => KCSmooth
  | HddTidd | TiddCdd => KC
  | Tidd => KTidd
  end.

Section DailyCurve.
Variable N : num.

Local Notation zero := (@n_zero N).
Local Notation one := (@n_one N).
Local Notation "a + b" := (@n_add N a b) (at level 50, left associativity).
Local Notation "a - b" := (@n_sub N a b) (at level 50, left associativity).
Local Notation "a * b" := (@n_mul N a b) (at level 40, left associativity).
Local Notation "a / b" := (@n_div N a b) (at level 40, left associativity).
Local Notation "- a" := (@n_opp N a) (at level 35, right associativity).
Local Notation "a <? b" := (@n_ltb N a b) (at level 70, no associativity).
Local Notation "a <=? b" := (@n_leb N a b) (at level 70, no associativity).
Local Notation "a >? b" := (@n_gtb N a b) (at level 70, no associativity).
Local Notation "a >=? b" := (@n_geb N a b) (at level 70, no associativity).
Local Notation "a =? b" := (@n_eqb N a b) (at level 70, no associativity).
Local Notation "a !=? b" := (@n_neqb N a b) (at level 70, no associativity).

(* ---------------------------------------------------------------- stored coefficients *)

(* ModelCoefficients: fields that a shape does not use are None *)
Record coeffs := {
  model_type : shape;
  intercept : N;
  hdd_bp : option N;
  hdd_beta : option N;
  hdd_k : option N;
  cdd_bp : option N;
  cdd_beta : option N;
  cdd_k : option N
}.

(* DailySubmodelParameters.temperature_constraints *)
Record tconstr := {
  T_min : N;
  T_max : N;
  T_min_seg : N;
  T_max_seg : N
}.

(* np.array([...]) of floats: fails (None) when a field the shape needs is absent *)
Fixpoint opt_list (l : list (option N)) : option (list N) :=
  match l with
  | [] => Some []
  | Some v :: rest => match opt_list rest with Some r => Some (v :: r) | None => None end
  | None :: _ => None
  end.

Definition to_np_array (c : coeffs) : option (list N) :=
  match model_type c with
  | HddTiddCddSmooth =>
      opt_list [hdd_bp c; hdd_beta c; hdd_k c; cdd_bp c; cdd_beta c; cdd_k c; Some (intercept c)]
  | HddTiddCdd => opt_list [hdd_bp c; hdd_beta c; cdd_bp c; cdd_beta c; Some (intercept c)]
  | HddTiddSmooth => opt_list [hdd_bp c; hdd_beta c; hdd_k c; Some (intercept c)]
  | TiddCddSmooth => opt_list [cdd_bp c; cdd_beta c; cdd_k c; Some (intercept c)]
  | HddTidd => opt_list [hdd_bp c; hdd_beta c; Some (intercept c)]
  | TiddCdd => opt_list [cdd_bp c; cdd_beta c; Some (intercept c)]
  | Tidd => Some [intercept c]
  end.

(* ---------------------------------------------------------------- the 7-vector of full_model *)

Record fullx := {
  x_hdd_bp : N;
  x_hdd_beta : N;
  x_hdd_k : N;
  x_cdd_bp : N;
  x_cdd_beta : N;
  x_cdd_k : N;
  x_intercept : N
}.

(* "if cdd_bp < hdd_bp: swap bp, beta, k"  (the same three lines open full_model and fix_full_model_x) *)
Definition order_bps (x : fullx) : fullx :=
  if x_cdd_bp x <? x_hdd_bp x then
    {| x_hdd_bp := x_cdd_bp x; x_hdd_beta := x_cdd_beta x; x_hdd_k := x_cdd_k x;
       x_cdd_bp := x_hdd_bp x; x_cdd_beta := x_hdd_beta x; x_cdd_k := x_hdd_k x;
       x_intercept := x_intercept x |}
  else x.

(* full_model.py: fix_full_model_x(x, T_min_seg, T_max_seg)
   (its two bounds are called *_seg in the callee, but get_full_model_x passes T_min, T_max) *)
Definition fix_full_model_x (x : fullx) (Tlo Thi : N) : fullx :=
  let x := order_bps x in
  let hdd_bp := x_hdd_bp x in
  let cdd_bp := x_cdd_bp x in
  (* if there is a slope, but the breakpoint is at the end, it's a c_hdd_tidd model *)
  let betas :=
    if hdd_bp !=? cdd_bp then
      if cdd_bp >=? Thi then (x_hdd_beta x, zero)
      else if hdd_bp <=? Tlo then (zero, x_cdd_beta x)
      else (x_hdd_beta x, x_cdd_beta x)
    else (x_hdd_beta x, x_cdd_beta x) in
  let hdd_beta := fst betas in
  let cdd_beta := snd betas in
  (* if slopes are zero then smoothing is zero *)
  let hdd_k := if hdd_beta =? zero then zero else x_hdd_k x in
  let cdd_k := if cdd_beta =? zero then zero else x_cdd_k x in
  {| x_hdd_bp := hdd_bp; x_hdd_beta := hdd_beta; x_hdd_k := hdd_k;
     x_cdd_bp := cdd_bp; x_cdd_beta := cdd_beta; x_cdd_k := cdd_k;
     x_intercept := x_intercept x |}.

(* full_model.py: get_full_model_x(model_key, x, T_min, T_max, T_min_seg, T_max_seg);
   None = the unpacking of x fails (wrong length) *)
Definition get_full_model_x (key : model_key) (x : list N) (Tmin Tmax Tmin_seg Tmax_seg : N)
  : option fullx :=
  let mk hb hbeta hk cb cbeta ck i :=
    {| x_hdd_bp := hb; x_hdd_beta := hbeta; x_hdd_k := hk;
       x_cdd_bp := cb; x_cdd_beta := cbeta; x_cdd_k := ck; x_intercept := i |} in
  let full :=
    match key, x with
    | KFullSmooth, [hb; hbeta; hk; cb; cbeta; ck; i] => Some (mk hb hbeta hk cb cbeta ck i)
    | KFull, [hb; hbeta; cb; cbeta; i] => Some (mk hb hbeta zero cb cbeta zero i)
    | KCSmooth, [bp; beta; k; i] =>
        if beta <? zero then Some (mk bp (- beta) k bp zero zero i)
        else Some (mk bp zero zero bp beta k i)
    | KC, [bp; beta; i] =>
        let bp' := if bp <? Tmin_seg then Tmin_seg else if bp >? Tmax_seg then Tmax_seg else bp in
        if beta <? zero then Some (mk bp' (- beta) zero bp' zero zero i)
        else Some (mk bp' zero zero bp' beta zero i)
    | KTidd, [i] => Some (mk zero zero zero zero zero zero i)
    | _, _ => None
    end in
  match full with
  | Some f => Some (fix_full_model_x f Tmin Tmax)
  | None => None
  end.

(* utilities/base_model.py: get_smooth_coeffs(hdd_bp, pct_hdd_k, cdd_bp, pct_cdd_k, min_pct_k=0.01)
   pct_match = 1, hence hdd_w = cdd_w = 0 (the lambertw branch is dead code).
   Includes the guard of /repo 742a3de4: for ordered inputs the shifted cooling balance point is never below the
   shifted heating one (over the reals they meet when the fractions add up to one; in binary64 they could cross by an ulp).
   Returns (hdd_bp', hdd_k, cdd_bp', cdd_k). *)
Definition min_pct_k : N := one / n_hundred.      (* 0.01, correctly rounded in binary64 *)

Definition get_smooth_coeffs (hdd_bp pct_hdd_k cdd_bp pct_cdd_k : N) : N * N * N * N :=
  if (pct_hdd_k <? min_pct_k) && (pct_cdd_k <? min_pct_k) then (hdd_bp, zero, cdd_bp, zero)
  else
    let hdd_w := zero in
    let cdd_w := zero in
    let pct_k_sum := pct_hdd_k + pct_cdd_k in
    let pcts := if pct_k_sum >? one then (pct_hdd_k / pct_k_sum, pct_cdd_k / pct_k_sum)
                else (pct_hdd_k, pct_cdd_k) in
    let pct_hdd_k := fst pcts in
    let pct_cdd_k := snd pcts in
    (* the smoothing parameter as a percentage of the maximum allowed k *)
    let hdd_k := pct_hdd_k * (cdd_bp - hdd_bp) / (one - hdd_w) in
    let cdd_k := pct_cdd_k * (cdd_bp - hdd_bp) / (one + cdd_w) in
    (* move breakpoints based on k *)
    let ordered := hdd_bp <=? cdd_bp in
    let hdd_bp := hdd_bp + hdd_k * (one - hdd_w) in
    let cdd_bp := cdd_bp - cdd_k * (one + cdd_w) in
    (* when the fractions add up to one the shifted breakpoints meet; rounding must not cross them *)
    let cdd_bp := if ordered && (cdd_bp <? hdd_bp) then hdd_bp else cdd_bp in
    (hdd_bp, hdd_k, cdd_bp, cdd_k).

(* ---------------------------------------------------------------- full_model, one temperature *)

(* which branch of the kernel's loop body a temperature selects: (beta, k, T_bp).
   The "temperature independent" branch only sets beta = 0.0; k and T_bp are then never read. *)
Definition regime (x : fullx) (Tmin Tmax Ti : N) : N * N * N :=
  let hdd_bp := x_hdd_bp x in
  let cdd_bp := x_cdd_bp x in
  if (Ti <? hdd_bp) || ((hdd_bp =? cdd_bp) && (cdd_bp >=? Tmax)) then
    (- x_hdd_beta x, x_hdd_k x, hdd_bp)              (* within the heating model *)
  else if (Ti >? cdd_bp) || ((hdd_bp =? cdd_bp) && (hdd_bp <=? Tmin)) then
    (x_cdd_beta x, - x_cdd_k x, cdd_bp)              (* within the cooling model *)
  else (zero, zero, zero).                           (* temperature independent *)

Definition evaluate (intercept : N) (r : N * N * N) (Ti : N) : N :=
  let beta := fst (fst r) in
  let k := snd (fst r) in
  let T_bp := snd r in
  if beta =? zero then intercept                                     (* tidd *)
  else if k =? zero then beta * (Ti - T_bp) + intercept              (* c_hdd *)
  else                                                               (* smoothed c_hdd *)
    let c_hdd := beta * (Ti - T_bp) + intercept in
    let exp_interior := one / k * (Ti - T_bp) in
    let exp_interior := n_clip exp_interior n_ln_min n_ln_max in
    n_abs (beta * k) * (n_exp exp_interior - one) + c_hdd.

Definition full_model1 (x : fullx) (Tmin Tmax Ti : N) : N :=
  (* if all variables are zero, return tidd model *)
  if (x_hdd_beta x =? zero) && (x_cdd_beta x =? zero) then one * x_intercept x
  else
    let x := order_bps x in
    evaluate (x_intercept x) (regime x Tmin Tmax Ti) Ti.

(* ---------------------------------------------------------------- DailyModel._predict_submodel *)

(* the vector handed to full_model *)
Definition effective_x (c : coeffs) (tc : tconstr) : option fullx :=
  match to_np_array c with
  | None => None
  | Some arr =>
      let key := key_of_shape (model_type c) in
      match get_full_model_x key arr (T_min tc) (T_max tc) (T_min_seg tc) (T_max_seg tc) with
      | None => None
      | Some x =>
          match key with
          | KFullSmooth =>
              let s := get_smooth_coeffs (x_hdd_bp x) (x_hdd_k x) (x_cdd_bp x) (x_cdd_k x) in
              Some {| x_hdd_bp := fst (fst (fst s)); x_hdd_beta := x_hdd_beta x; x_hdd_k := snd (fst (fst s));
                      x_cdd_bp := snd (fst s); x_cdd_beta := x_cdd_beta x; x_cdd_k := snd s;
                      x_intercept := x_intercept x |}
          | _ => Some x
          end
      end
  end.

(* (model, hdd_load, cdd_load) at one temperature *)
Definition loads_of (x : fullx) (Tmin Tmax Ti : N) : N * N * N :=
  let model := full_model1 x Tmin Tmax Ti in
  let load_only := model - x_intercept x in
  let hdd_load := if Ti <=? x_hdd_bp x then load_only else zero in
  let cdd_load := if Ti >=? x_cdd_bp x then load_only else zero in
  (model, hdd_load, cdd_load).

Definition predict_submodel (c : coeffs) (tc : tconstr) (Ti : N) : option (N * N * N) :=
  match effective_x c tc with
  | None => None
  | Some x => Some (loads_of x (T_min tc) (T_max tc) Ti)
  end.

End DailyCurve.

Arguments model_type {N} _.
Arguments intercept {N} _.
Arguments hdd_bp {N} _.
Arguments hdd_beta {N} _.
Arguments hdd_k {N} _.
Arguments cdd_bp {N} _.
Arguments cdd_beta {N} _.
Arguments cdd_k {N} _.
Arguments T_min {N} _.
Arguments T_max {N} _.
Arguments T_min_seg {N} _.
Arguments T_max_seg {N} _.
Arguments x_hdd_bp {N} _.
Arguments x_hdd_beta {N} _.
Arguments x_hdd_k {N} _.
Arguments x_cdd_bp {N} _.
Arguments x_cdd_beta {N} _.
Arguments x_cdd_k {N} _.
Arguments x_intercept {N} _.
