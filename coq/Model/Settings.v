(* C14 — settings trees, override documents, key/value normalisation, the developer-mode lock and the
   cross-field validators of opendsm/common/base_settings.py, eemeter/models/daily/utilities/settings.py,
   billing/settings.py, hourly/settings.py and the constructors DailyModel / BillingModel / HourlyModel.
   Executable definitions only.  The concrete trees (field names, nesting, developer flags, defaults, bounds,
   enums, validator lists) are NOT written here: harness/translate_settings.py regenerates them from the
   pydantic classes of /repo into Generated/SettingsGen.v on every run.

   Alphabet of the model (what the correspondence is run on): JSON values with ASCII strings and finite numbers;
   numeric strings given to numeric fields, tuples, NaN/inf are outside it (the property oracle still sees them). *)
From Coq Require Import ZArith QArith List Bool String Ascii NArith.
Import ListNotations.
Open Scope string_scope.

(* ------------------------------------------------------------------ strings: str.lower() / str.strip() on ASCII *)
Definition is_ws (c : ascii) : bool :=
  let n := N_of_ascii c in (((9 <=? n) && (n <=? 13)) || ((28 <=? n) && (n <=? 32)))%N.
Definition lower_ascii (c : ascii) : ascii :=
  let n := N_of_ascii c in if ((65 <=? n) && (n <=? 90))%N then ascii_of_N (n + 32) else c.
Fixpoint lower (s : string) : string :=
  match s with EmptyString => EmptyString | String c r => String (lower_ascii c) (lower r) end.
Fixpoint lstrip (s : string) : string :=
  match s with EmptyString => EmptyString | String c r => if is_ws c then lstrip r else s end.
Fixpoint rstrip (s : string) : string :=
  match s with
  | EmptyString => EmptyString
  | String c r => match rstrip r with
                  | EmptyString => if is_ws c then EmptyString else String c EmptyString
                  | r' => String c r'
                  end
  end.
Definition strip (s : string) : string := rstrip (lstrip s).
(* `k.lower().strip()` of base_settings.py:38 and :50 *)
Definition norm_str (s : string) : string := strip (lower s).

Fixpoint mem (s : string) (l : list string) : bool :=
  match l with [] => false | x :: r => String.eqb s x || mem s r end.

(* ------------------------------------------------------------------ documents *)
Inductive jv : Type :=
| JNull
| JBool (b : bool)
| JNum (q : Q)
| JStr (s : string)
| JList (l : list jv)
| JObj (kvs : list (string * jv))
(* an already constructed settings object of class `cls`, built as cls( **kvs ) (object input) *)
| JInst (cls : string) (kvs : list (string * jv)).

Fixpoint jv_eqb (a b : jv) {struct a} : bool :=
  match a, b with
  | JNull, JNull => true
  | JBool x, JBool y => Bool.eqb x y
  | JNum x, JNum y => Qeq_bool x y
  | JStr x, JStr y => String.eqb x y
  | JList x, JList y =>
      (fix go (x y : list jv) {struct x} : bool :=
         match x, y with
         | [], [] => true
         | a :: x', b :: y' => jv_eqb a b && go x' y'
         | _, _ => false
         end) x y
  | JObj x, JObj y =>
      (fix go (x y : list (string * jv)) {struct x} : bool :=
         match x, y with
         | [], [] => true
         | (k, a) :: x', (k', b) :: y' => String.eqb k k' && jv_eqb a b && go x' y'
         | _, _ => false
         end) x y
  | JInst c x, JInst c' y =>
      String.eqb c c' &&
      (fix go (x y : list (string * jv)) {struct x} : bool :=
         match x, y with
         | [], [] => true
         | (k, a) :: x', (k', b) :: y' => String.eqb k k' && jv_eqb a b && go x' y'
         | _, _ => false
         end) x y
  | _, _ => false
  end.

(* dict semantics: the last binding of a key wins *)
Fixpoint lookup {A} (k : string) (kvs : list (string * A)) : option A :=
  match kvs with
  | [] => None
  | (k', v) :: r => match lookup k r with
                    | Some x => Some x
                    | None => if String.eqb k k' then Some v else None
                    end
  end.

(* BaseSettings.__lowercase_property_keys__ : keys lower/strip, recursively through dict values only *)
Fixpoint norm_doc (v : jv) : jv :=
  match v with
  | JObj kvs => JObj (map (fun kv => (norm_str (fst kv), norm_doc (snd kv))) kvs)
  | _ => v
  end.
Definition norm_kvs (kvs : list (string * jv)) : list (string * jv) :=
  map (fun kv => (norm_str (fst kv), norm_doc (snd kv))) kvs.

(* the full normal form of an override document: keys as above, and every string that sits at a dict-value
   position lower/stripped (BaseSettings.lowercase_values) *)
Fixpoint normalise (v : jv) : jv :=
  match v with
  | JStr s => JStr (norm_str s)
  | JObj kvs => JObj (map (fun kv => (norm_str (fst kv), normalise (snd kv))) kvs)
  | _ => v
  end.
Definition normalise_kvs (kvs : list (string * jv)) : list (string * jv) :=
  map (fun kv => (norm_str (fst kv), normalise (snd kv))) kvs.

(* no object input anywhere in a document *)
Fixpoint no_inst (v : jv) : bool :=
  match v with
  | JInst _ _ => false
  | JObj kvs => forallb (fun kv => no_inst (snd kv)) kvs
  | _ => true
  end.
Definition no_inst_kvs (kvs : list (string * jv)) : bool := forallb (fun kv => no_inst (snd kv)) kvs.

(* ------------------------------------------------------------------ settings trees *)
Definition bound := option (Q * bool).     (* (limit, strict) *)
Inductive btype :=
| BBool
| BFloat (lo hi : bound)
| BInt (lo hi : bound)
| BStr
| BEnum (vals : list string)
| BFloatOrLit (lit : string)               (* Union[float, Literal[lit]] *)
| BListFloat
| BListStr
| BListAny.
Record ftype := { base : btype; optional : bool }.

Definition bound_eqb (a b : bound) : bool :=
  match a, b with
  | None, None => true
  | Some (x, s), Some (y, s') => Qeq_bool x y && Bool.eqb s s'
  | _, _ => false
  end.
Fixpoint strs_eqb (a b : list string) : bool :=
  match a, b with
  | [], [] => true
  | x :: a', y :: b' => String.eqb x y && strs_eqb a' b'
  | _, _ => false
  end.
Definition btype_eqb (a b : btype) : bool :=
  match a, b with
  | BBool, BBool | BStr, BStr | BListFloat, BListFloat | BListStr, BListStr | BListAny, BListAny => true
  | BFloat l h, BFloat l' h' | BInt l h, BInt l' h' => bound_eqb l l' && bound_eqb h h'
  | BEnum v, BEnum v' => strs_eqb v v'
  | BFloatOrLit x, BFloatOrLit y => String.eqb x y
  | _, _ => false
  end.
Definition ftype_eqb (a b : ftype) : bool := btype_eqb (base a) (base b) && Bool.eqb (optional a) (optional b).

Record leaf := {
  lname : string;
  ldev : bool;                             (* json_schema_extra["developer"] *)
  lty : ftype;
  ldefault : jv;
  lexcl : bool;                            (* Field(exclude=True): absent from model_dump() *)
  lreq : list string                       (* hourly `_add_required_features` (empty elsewhere) *)
}.

(* model validators (mode="after") in the order pydantic runs them; the semantics of each is below *)
Inductive vid :=
| VDevMode | VAlphaFinal | VFinalBounds | VInitStep | VReduceStd
| VOptions (names : list string) (allowed : option (list string))
| VTempBins | VEdgeBins
| VWavelet (names modes : list string)
| VAdaptive | VSeed.

Inductive stree :=
| Leaf (l : leaf)
| Node (name : string) (dev : bool) (cls : string) (opt : bool) (vals : list vid) (children : list stree).

Definition tname (t : stree) : string :=
  match t with Leaf l => lname l | Node n _ _ _ _ _ => n end.

Fixpoint find_tree (k : string) (ts : list stree) : option stree :=
  match ts with
  | [] => None
  | t :: r => if String.eqb k (tname t) then Some t else find_tree k r
  end.

(* class name -> (the class and its ancestors, tree of the class) *)
Definition registry := list (string * (list string * stree)).
Fixpoint lookup_reg (c : string) (reg : registry) : option (list string * stree) :=
  match reg with
  | [] => None
  | (c', x) :: r => if String.eqb c c' then Some x else lookup_reg c r
  end.

(* ------------------------------------------------------------------ settled (validated) settings *)
(* an object remembers the field list of ITS OWN class (`gov`; for dict input the declared class, for object input the
   class of the object that was passed in): model_dump() uses it; before /repo c15ad84d the lock walked it too *)
Inductive sval :=
| SLeaf (v : jv)
| SObj (gov : list stree) (fields : list (string * sval)).

Fixpoint getf (k : string) (f : list (string * sval)) : option sval :=
  match f with
  | [] => None
  | (k', v) :: r => if String.eqb k k' then Some v else getf k r
  end.
Definition get_leaf (k : string) (f : list (string * sval)) : option jv :=
  match getf k f with Some (SLeaf v) => Some v | _ => None end.

Inductive reason := RField | RDeveloper | RCross | RCrash | RType.
Inductive result (A : Type) := Accept (a : A) | Reject (r : reason).
Arguments Accept {A} a.
Arguments Reject {A} r.

(* ------------------------------------------------------------------ field coercion (pydantic lax mode, re-specified) *)
Definition Qlt_b (a b : Q) : bool := negb (Qle_bool b a).
Definition in_bounds (lo hi : bound) (q : Q) : bool :=
  (match lo with None => true | Some (b, strict) => if strict then Qlt_b b q else Qle_bool b q end) &&
  (match hi with None => true | Some (b, strict) => if strict then Qlt_b q b else Qle_bool q b end).
Definition is_integral (q : Q) : bool := Z.eqb (Z.modulo (Qnum q) (Zpos (Qden q))) 0.
Definition q_of_bool (b : bool) : Q := if b then 1%Q else 0%Q.

Definition bool_of_str (s : string) : option bool :=
  if mem s ["0"; "off"; "f"; "false"; "n"; "no"] then Some false
  else if mem s ["1"; "on"; "t"; "true"; "y"; "yes"] then Some true
  else None.

Definition all_some {A B} (f : A -> option B) : list A -> option (list B) :=
  fix go (l : list A) : option (list B) :=
    match l with
    | [] => Some []
    | x :: r => match f x, go r with
                | Some y, Some ys => Some (y :: ys)
                | _, _ => None
                end
    end.

Definition float_item (v : jv) : option jv :=
  match v with
  | JNum q => Some (JNum q)
  | JBool b => Some (JNum (q_of_bool b))
  | _ => None
  end.
Definition str_item (v : jv) : option jv :=
  match v with JStr s => Some (JStr (norm_str s)) | _ => None end.

Definition coerce_base (b : btype) (v : jv) : option jv :=
  match b, v with
  | BBool, JBool _ => Some v
  | BBool, JNum q => if Qeq_bool q 0 then Some (JBool false) else if Qeq_bool q 1 then Some (JBool true) else None
  | BBool, JStr s => option_map JBool (bool_of_str s)
  | BFloat lo hi, JNum q => if in_bounds lo hi q then Some (JNum q) else None
  | BFloat lo hi, JBool x => if in_bounds lo hi (q_of_bool x) then Some (JNum (q_of_bool x)) else None
  | BInt lo hi, JNum q => if is_integral q && in_bounds lo hi q then Some (JNum q) else None
  | BInt lo hi, JBool x => if in_bounds lo hi (q_of_bool x) then Some (JNum (q_of_bool x)) else None
  | BStr, JStr s => Some (JStr (norm_str s))
  | BEnum vals, JStr s => if mem s vals then Some (JStr s) else None
  | BFloatOrLit lit, JNum q => Some (JNum q)
  | BFloatOrLit lit, JBool x => Some (JNum (q_of_bool x))
  | BFloatOrLit lit, JStr s => if String.eqb s lit then Some (JStr s) else None
  | BListFloat, JList l => option_map JList (all_some float_item l)
  | BListStr, JList l => option_map JList (all_some str_item l)
  | BListAny, JList l => Some (JList l)
  | _, _ => None
  end.
Definition coerce (ty : ftype) (v : jv) : option jv :=
  match v with
  | JNull => if optional ty then Some JNull else None
  | _ => coerce_base (base ty) v
  end.

(* BaseSettings.lowercase_values : field_validator("*", mode="before") *)
Definition pre (v : jv) : jv := match v with JStr s => JStr (norm_str s) | _ => v end.

Definition mem_jstr (s : string) (l : list jv) : bool :=
  existsb (fun x => match x with JStr y => String.eqb s y | _ => false end) l.
(* for feature in required: if feature not in v: v.insert(0, feature) *)
Definition add_required (req : list string) (v : jv) : jv :=
  match v with
  | JList l => JList (fold_left (fun acc r => if mem_jstr r acc then acc else JStr r :: acc) req l)
  | _ => v
  end.

(* a missing key takes the class default WITHOUT validation (pydantic validate_default=False) *)
Definition validate_leaf (l : leaf) (kvs : list (string * jv)) : option jv :=
  match lookup (lname l) kvs with
  | None => Some (ldefault l)
  | Some v => option_map (add_required (lreq l)) (coerce (lty l) (pre v))
  end.

(* ------------------------------------------------------------------ the developer-mode lock, as coded (settings.py:196-214,
   since /repo c15ad84d): the walk follows the DECLARED classes — `fields` of the root class, and for a field that holds a
   settings object the model_fields of the field's annotated class — and reads the values with getattr; so an object of a
   subclass is compared with the defaults of the class its field declares, not with its own. *)
Fixpoint check_dev_t (t : stree) (v : sval) {struct t} : bool :=
  match t with
  | Leaf l =>
      match v with
      | SLeaf x => negb (ldev l && negb (jv_eqb x (ldefault l)))
      | SObj _ _ => true                    (* not reachable: no leaf type accepts a settings object *)
      end
  | Node _ dev _ _ _ ch =>
      match v with
      | SObj _ f =>                          (* a nested settings object is entered with the declared fields ... *)
          forallb (fun c => match getf (tname c) f with Some v' => check_dev_t c v' | None => true end) ch
      | SLeaf _ => negb dev                  (* ... anything else is compared: None != PydanticUndefined *)
      end
  end.
Definition check_dev (ch : list stree) (f : list (string * sval)) : bool :=
  forallb (fun c => match getf (tname c) f with Some v' => check_dev_t c v' | None => true end) ch.

(* ------------------------------------------------------------------ cross-field validators, as coded *)
Definition is_null (v : jv) : bool := match v with JNull => true | _ => false end.
Definition starts_nlopt (s : string) : bool := String.eqb (substring 0 5 s) "nlopt".

(* python truthiness (`if self.developer_mode:`); on the bool fields it is applied to it is the value itself *)
Definition truthy (v : jv) : bool :=
  match v with
  | JNull => false
  | JBool b => b
  | JNum q => negb (Qeq_bool q 0)
  | JStr s => negb (String.eqb s "")
  | JList l => match l with [] => false | _ => true end
  | JObj kvs => match kvs with [] => false | _ => true end
  | JInst _ _ => true
  end.
Definition v_devmode (gov : list stree) (f : list (string * sval)) : option reason :=
  match get_leaf "developer_mode" f with
  | Some v => if truthy v then None else if check_dev gov f then None else Some RDeveloper
  | None => Some RCrash
  end.

Definition v_alpha_final (f : list (string * sval)) : option reason :=
  match get_leaf "alpha_final" f, get_leaf "alpha_final_type" f, get_leaf "alpha_minimum" f with
  | Some af, Some aft, Some amin =>
      match af with
      | JNull => if is_null aft then None else Some RCross
      | JNum q => match amin with
                  | JNum m => if Qlt_b q m || Qlt_b 2 q then Some RCross else None
                  | _ => Some RCrash
                  end
      | JStr s => if String.eqb s "adaptive" then None else Some RCross
      | _ => None
      end
  | _, _, _ => Some RCrash
  end.

Definition v_final_bounds (f : list (string * sval)) : option reason :=
  match get_leaf "final_bounds_scalar" f, get_leaf "alpha_final_type" f with
  | Some fbs, Some aft =>
      match fbs with
      | JNull => if is_null aft then None else Some RCross
      | JNum q => if Qle_bool q 0 then Some RCross else if is_null aft then Some RCross else None
      | _ => Some RCrash
      end
  | _, _ => Some RCrash
  end.

Definition v_init_step (f : list (string * sval)) : option reason :=
  match get_leaf "initial_step_percentage" f, get_leaf "algorithm_choice" f with
  | Some isp, Some ac =>
      match isp with
      | JNum q => if Qle_bool q 0 || Qlt_b (1 # 2) q then Some RCross else None
      | JNull => match ac with
                 | JStr s => if starts_nlopt s then Some RCross else None
                 | _ => Some RType                       (* None[:5] : TypeError escapes the validator *)
                 end
      | _ => Some RCrash
      end
  | _, _ => Some RCrash
  end.

Definition v_reduce_std (f : list (string * sval)) : option reason :=
  match get_leaf "reduce_splits_num_std" f with
  | Some JNull => None
  | Some (JList l) =>
      if negb (Nat.eqb (List.length l) 2) then Some RCross
      else match l with
           | [JNum a; y] =>
               if Qle_bool a 0 then Some RCross
               else match y with
                    | JNum b => if Qle_bool b 0 then Some RCross else None
                    | _ => Some RCrash            (* not reachable: list[float] *)
                    end
           | _ => Some RCrash                     (* not reachable *)
           end
  | _ => Some RCrash
  end.

(* set_numeric_dict: (since /repo e5358469) every option must be one of the names the split components are
   hard-wired to (`allowed`; None = the older code without that loop), then every month / day must be an option *)
Definition v_options (names : list string) (allowed : option (list string)) (f : list (string * sval)) : option reason :=
  match get_leaf "options" f with
  | Some (JList opts) =>
      if negb (match allowed with
               | Some al => forallb (fun o => match o with JStr s => mem s al | _ => false end) opts
               | None => true
               end) then Some RCross
      else if forallb (fun n => match get_leaf n f with Some (JStr s) => mem_jstr s opts | _ => false end) names
      then None else Some RCross
  | _ => Some RCrash
  end.

Definition v_temp_bins (f : list (string * sval)) : option reason :=
  match get_leaf "method" f, get_leaf "n_bins" f, get_leaf "bin_width" f with
  | Some (JStr m), Some nb, Some bw =>
      if String.eqb m "set_bin_width" then
        if is_null bw then Some RCross
        else if (match bw with JNum q => Qle_bool q 0 | _ => false end) then Some RCross
        else if negb (is_null nb) then Some RCross else None
      else
        if is_null nb then Some RCross else if negb (is_null bw) then Some RCross else None
  | _, _, _ => Some RCrash
  end.

Definition v_edge_bins (f : list (string * sval)) : option reason :=
  match get_leaf "method" f, get_leaf "include_edge_bins" f, get_leaf "edge_bin_rate" f, get_leaf "edge_bin_percent" f with
  | Some (JStr m), Some (JBool inc), Some rate, Some pct =>
      if negb (String.eqb m "set_bin_width") && inc then Some RCross
      else if inc then (if is_null rate then Some RCross else if is_null pct then Some RCross else None)
      else (if negb (is_null rate) then Some RCross else if negb (is_null pct) then Some RCross else None)
  | _, _, _, _ => Some RCrash
  end.

Definition v_wavelet (names modes : list string) (f : list (string * sval)) : option reason :=
  match get_leaf "wavelet_name" f, get_leaf "wavelet_mode" f with
  | Some (JStr n), Some (JStr m) => if mem n names then (if mem m modes then None else Some RCross) else Some RCross
  | _, _ => Some RCrash
  end.

Definition v_adaptive (f : list (string * sval)) : option reason :=
  match get_leaf "adaptive_weights" f, get_leaf "adaptive_weight_max_iter" f, get_leaf "adaptive_weight_tol" f with
  | Some (JBool aw), Some mi, Some tol =>
      if aw then (if is_null mi then Some RCross else if is_null tol then Some RCross else None)
      else (if negb (is_null mi) then Some RCross else if negb (is_null tol) then Some RCross else None)
  | _, _, _ => Some RCrash
  end.

Definition run_vid (v : vid) (gov : list stree) (f : list (string * sval)) : option reason :=
  match v with
  | VDevMode => v_devmode gov f
  | VAlphaFinal => v_alpha_final f
  | VFinalBounds => v_final_bounds f
  | VInitStep => v_init_step f
  | VReduceStd => v_reduce_std f
  | VOptions names allowed => v_options names allowed f
  | VTempBins => v_temp_bins f
  | VEdgeBins => v_edge_bins f
  | VWavelet n m => v_wavelet n m f
  | VAdaptive => v_adaptive f
  | VSeed => None
  end.
(* pydantic runs the after-validators in definition order; the first one that raises ends validation *)
Fixpoint first_fail (vs : list vid) (gov : list stree) (f : list (string * sval)) : option reason :=
  match vs with
  | [] => None
  | v :: r => match run_vid v gov f with Some x => Some x | None => first_fail r gov f end
  end.

(* ------------------------------------------------------------------ validation *)
(* object input: cls( **kvs ) for a class whose fields are all leaves (every nested settings class is) *)
Definition vleaf_field (t : stree) (kvs : list (string * jv)) : option (string * sval) :=
  match t with
  | Leaf l => option_map (fun v => (lname l, SLeaf v)) (validate_leaf l kvs)
  | Node _ _ _ _ _ _ => None
  end.
Definition build_flat (t : stree) (kvs : list (string * jv)) : option sval :=
  match t with
  | Node _ _ _ _ vals children =>
      match all_some (fun c => vleaf_field c (norm_kvs kvs)) children with
      | Some f => match first_fail vals children f with None => Some (SObj children f) | Some _ => None end
      | None => None
      end
  | Leaf _ => None
  end.
(* pydantic accepts an instance of the declared class or of a subclass as it is (revalidate_instances='never') *)
Definition inst (reg : registry) (declared c : string) (kvs : list (string * jv)) : option sval :=
  match lookup_reg c reg with
  | Some (anc, t) => if mem declared anc then build_flat t kvs else None
  | None => None
  end.

Definition named (t : stree) (o : option sval) : option (string * sval) := option_map (pair (tname t)) o.

(* the value of field `t` of an object constructed from kwargs `kvs` (keys already normalised) *)
Fixpoint vfield (reg : registry) (t : stree) (kvs : list (string * jv)) {struct t} : option sval :=
  match t with
  | Leaf l => option_map SLeaf (validate_leaf l kvs)
  | Node name dev cls opt vals children =>
      let build := fun sub : list (string * jv) =>
        match all_some (fun c => named c (vfield reg c sub)) children with
        | Some f => match first_fail vals children f with None => Some (SObj children f) | Some _ => None end
        | None => None
        end in
      match lookup name kvs with
      | None => build []                                  (* default_factory *)
      | Some (JObj sub) => build (norm_kvs sub)           (* the nested class normalises its keys again *)
      | Some (JInst c sub) => inst reg cls c sub
      | Some JNull => if opt then Some (SLeaf JNull) else None
      | Some _ => None
      end
  end.

Definition vfields (reg : registry) (children : list stree) (kvs : list (string * jv)) : option (list (string * sval)) :=
  all_some (fun c => named c (vfield reg c kvs)) children.

(* cls( **kvs ) for a top-level settings class *)
Definition vtop (reg : registry) (t : stree) (kvs : list (string * jv)) : result sval :=
  match t with
  | Node _ _ _ _ vals children =>
      match vfields reg children (norm_kvs kvs) with
      | None => Reject RField
      | Some f => match first_fail vals children f with
                  | None => Accept (SObj children f)
                  | Some r => Reject r
                  end
      end
  | Leaf _ => Reject RCrash
  end.

(* ------------------------------------------------------------------ model_dump() *)
Definition excluded (k : string) (gov : list stree) : bool :=
  match find_tree k gov with Some (Leaf l) => lexcl l | _ => false end.
Fixpoint dump (s : sval) : jv :=
  match s with
  | SLeaf v => v
  | SObj gov fields =>
      JObj (flat_map (fun kv => match kv with (k, v) => if excluded k gov then [] else [(k, dump v)] end) fields)
  end.

(* ------------------------------------------------------------------ paths (specification side) *)
Fixpoint leaf_at (ts : list stree) (path : list string) {struct path} : option leaf :=
  match path with
  | [] => None
  | k :: rest =>
      match find_tree k ts with
      | Some (Leaf l) => match rest with [] => Some l | _ => None end
      | Some (Node _ _ _ _ _ ch) => match rest with [] => None | _ => leaf_at ch rest end
      | None => None
      end
  end.
Fixpoint value_at (s : sval) (path : list string) {struct path} : option jv :=
  match path with
  | [] => match s with SLeaf v => Some v | _ => None end
  | k :: rest => match s with
                 | SObj _ f => match getf k f with Some s' => value_at s' rest | None => None end
                 | SLeaf _ => None
                 end
  end.

(* all (path, leaf) of a tree, depth first *)
Fixpoint leaves_of (t : stree) : list (list string * leaf) :=
  match t with
  | Leaf l => [([lname l], l)]
  | Node n _ _ _ _ ch => map (fun pl => (n :: fst pl, snd pl)) (flat_map leaves_of ch)
  end.
Definition leaves_of_root (t : stree) : list (list string * leaf) :=
  match t with Leaf _ => [] | Node _ _ _ _ _ ch => flat_map leaves_of ch end.

(* {path: value} as a nested override document *)
Fixpoint override (path : list string) (v : jv) : list (string * jv) :=
  match path with
  | [] => []
  | [k] => [(k, v)]
  | k :: rest => [(k, JObj (override rest v))]
  end.

(* ------------------------------------------------------------------ constructors *)
Inductive ctor :=
| CClass (cls : string)                  (* a settings class called directly *)
| CDailyModel (model : string)           (* DailyModel(model=..., settings=...) *)
| CBillingModel
| CBillingWeighted
| CHourlyModel.
Inductive input :=
| InNone
| InDict (kvs : list (string * jv))
| InObj (cls : string) (kvs : list (string * jv)).

Fixpoint daily_name_norm (s : string) : string :=      (* model.replace(" ", "").replace("_", ".") *)
  match s with
  | EmptyString => EmptyString
  | String c r => if Ascii.eqb c " "%char then daily_name_norm r
                  else String (if Ascii.eqb c "_"%char then "."%char else c) (daily_name_norm r)
  end.
Definition daily_class (model : string) : option string :=
  let s := lower (daily_name_norm model) in
  if mem s ["current"; "default"] then Some "DailySettings"
  else if String.eqb s "legacy" then Some "DailyLegacySettings" else None.

Definition construct_class (reg : registry) (cls : string) (kvs : list (string * jv)) : result sval :=
  match lookup_reg cls reg with
  | Some (_, t) => vtop reg t kvs
  | None => Reject RCrash
  end.

(* `settings.get("train_features")` on the RAW dict (hourly/model.py:106-113) *)
Fixpoint raw_get (k : string) (kvs : list (string * jv)) : option jv :=
  match kvs with
  | [] => None
  | (k', v) :: r => if String.eqb k k' then Some v else raw_get k r
  end.
Definition hourly_class (kvs : list (string * jv)) : option string :=
  match raw_get "train_features" kvs with
  | None | Some JNull | Some (JList []) => Some "BaseHourlySettings"
  | Some (JList l) => if mem_jstr "ghi" l then Some "HourlySolarSettings" else Some "HourlyNonSolarSettings"
  | Some _ => None                                       (* outside the alphabet *)
  end.

Definition kvs_of (i : input) : list (string * jv) :=
  match i with InNone => [] | InDict k => k | InObj _ k => k end.

(* which settings class a constructor call builds (or how it fails before building one) *)
Definition target_class (c : ctor) (i : input) : result string :=
  match c, i with
  | CClass cls, InObj _ _ => Reject RCrash
  | CClass cls, _ => Accept cls
  | CDailyModel m, _ =>
      match daily_class m with
      | None => Reject RCrash                              (* Exception("Invalid 'settings' choice ...") *)
      | Some cls => match i with InObj _ _ => Reject RType | _ => Accept cls end   (* cls( **settings ) needs a mapping *)
      end
  | CBillingModel, InObj _ _ => Reject RType
  | CBillingModel, _ => Accept "DailyLegacySettings"      (* billing/model.py:64 : model="legacy", not BillingSettings *)
  | CBillingWeighted, InObj _ _ => Reject RType
  | CBillingWeighted, _ => Accept "BillingSettings"
  | CHourlyModel, InNone => Accept "BaseHourlySettings"
  | CHourlyModel, InDict kvs => match hourly_class kvs with Some cls => Accept cls | None => Reject RCrash end
  | CHourlyModel, InObj cls _ => Accept cls                (* the object is kept as it is *)
  end.

Definition construct (reg : registry) (c : ctor) (i : input) : result sval :=
  match target_class c i with
  | Accept cls => construct_class reg cls (kvs_of i)
  | Reject r => Reject r
  end.

(* ------------------------------------------------------------------ stored models *)
Fixpoint set_key (k : string) (v : jv) (kvs : list (string * jv)) : list (string * jv) :=
  match kvs with
  | [] => []
  | (k', x) :: r => if String.eqb k k' then (k', v) :: r else (k', x) :: set_key k v r
  end.
(* to_dict()["settings"] : settings.model_dump(); BillingModel.to_dict and BillingWeightedModel.to_dict force developer_mode (billing/model.py:186) *)
Definition stored_settings (c : ctor) (s : sval) : jv :=
  match c, dump s with
  | CBillingModel, JObj kvs | CBillingWeighted, JObj kvs => JObj (set_key "developer_mode" (JBool true) kvs)
  | _, d => d
  end.
(* from_dict : cls(settings=doc).  DailyModel.from_dict (daily/model.py:356-364, since /repo 394645be): the current
   settings class first; when that raises a pydantic.ValidationError (field error, lock, cross-field rule) and the class
   is DailyModel itself, once more as DailyModel(model="legacy", settings=doc) — the lock still runs, against the legacy
   defaults.  Any other exception (TypeError ...) propagates. *)
Definition is_validation_error (r : reason) : bool :=
  match r with RField | RDeveloper | RCross => true | RCrash | RType => false end.
Definition reload_ctor (reg : registry) (c : ctor) (kvs : list (string * jv)) : ctor :=
  match c with
  | CDailyModel _ =>
      match construct reg (CDailyModel "current") (InDict kvs) with
      | Reject r => if is_validation_error r then CDailyModel "legacy" else CDailyModel "current"
      | Accept _ => CDailyModel "current"
      end
  | _ => c
  end.
Definition reload (reg : registry) (c : ctor) (doc : jv) : result sval :=
  match doc with
  | JObj kvs => construct reg (reload_ctor reg c kvs) (InDict kvs)
  | _ => Reject RCrash
  end.

Definition developer_mode_of (s : sval) : option bool :=
  match s with
  | SObj _ f => match get_leaf "developer_mode" f with Some (JBool b) => Some b | _ => None end
  | SLeaf _ => None
  end.
Definition has_lock (t : stree) : bool :=
  match t with
  | Node _ _ _ _ vals _ => existsb (fun v => match v with VDevMode => true | _ => false end) vals
  | Leaf _ => false
  end.

(* ------------------------------------------------------------------ comparison with the frozen approved list *)
Definition list_eqb2 {A B} (eqb : A -> B -> bool) : list A -> list B -> bool :=
  fix go (a : list A) (b : list B) : bool :=
    match a, b with
    | [], [] => true
    | x :: a', y :: b' => eqb x y && go a' b'
    | _, _ => false
    end.

(* (path, default, developer flag) of every leaf of a top-level tree, in field order *)
Definition flat_defaults (t : stree) : list (list string * jv * bool) :=
  map (fun pl => (fst pl, ldefault (snd pl), ldev (snd pl))) (leaves_of_root t).
Definition flat_domains (t : stree) : list (list string * ftype) :=
  map (fun pl => (fst pl, lty (snd pl))) (leaves_of_root t).

Definition defaults_eqb (a b : list (list string * jv * bool)) : bool :=
  list_eqb2 (fun x y => strs_eqb (fst (fst x)) (fst (fst y)) && jv_eqb (snd (fst x)) (snd (fst y))) a b.
Definition locks_eqb (a b : list (list string * jv * bool)) : bool :=
  list_eqb2 (fun x y => strs_eqb (fst (fst x)) (fst (fst y)) && Bool.eqb (snd x) (snd y)) a b.
Definition domains_eqb (a b : list (list string * ftype)) : bool :=
  list_eqb2 (fun x y => strs_eqb (fst x) (fst y) && ftype_eqb (snd x) (snd y)) a b.

Definition path_matches (pat p : list string) : bool :=
  list_eqb2 (fun a b => String.eqb a "*" || String.eqb a b) pat p.
Definition is_open (open : list (list string)) (p : list string) : bool :=
  existsb (fun pat => path_matches pat p) open.
(* every approved constant is developer-locked or one of the documented open fields *)
Definition locked_or_open (open : list (list string)) (rows : list (list string * jv * bool)) : bool :=
  forallb (fun r => snd r || is_open open (fst (fst r))) rows.

Definition children_of (t : stree) : list stree :=
  match t with Node _ _ _ _ _ ch => ch | Leaf _ => [] end.

(* ------------------------------------------------------------------ model-side enumerators (every leaf x alternatives) *)
Definition bound_vals (lo hi : bound) : list Q :=
  ((match lo with Some (q, _) => [q; q + 1; q - 1] | None => [] end) ++
   (match hi with Some (q, _) => [q; q - 1; q + 1] | None => [] end) ++ [0; 1; 3 # 2; 5; -150])%list.
Definition alts_of (sib : list stree) (l : leaf) : list jv :=
  ((match base (lty l) with
    | BBool => [JBool true; JBool false; JStr " Yes "; JNum 0]
    | BFloat lo hi => map JNum (bound_vals lo hi)
    | BInt lo hi => map JNum (bound_vals lo hi)
    | BStr => flat_map (fun t => match t with
                                 | Leaf l' => match base (lty l') with BStr => [ldefault l'] | _ => [] end
                                 | Node _ _ _ _ _ _ => []
                                 end) sib
    | BEnum vals => map JStr vals
    | BFloatOrLit lit => [JStr lit; JNum 2; JNum (3 # 2); JNum 0]
    | BListFloat => [JList [JNum 1; JNum 2]; JList [JNum (7 # 5); JNum (1 # 2)]]
    | BListStr => []
    | BListAny => []
    end) ++ [JNull; JStr "no such value"; JList [JBool true]])%list.

(* (path, leaf, siblings) of every leaf below a root *)
Definition leaves_sib_of_root (t : stree) : list (list string * leaf * list stree) :=
  flat_map (fun c => match c with
                     | Leaf l => [([lname l], l, children_of t)]
                     | Node n _ _ _ _ ch =>
                         flat_map (fun c' => match c' with Leaf l => [([n; lname l], l, ch)] | Node _ _ _ _ _ _ => [] end) ch
                     end) (children_of t).

(* one field overridden, developer mode not given: a developer leaf that changes is refused by the lock, a value
   the field cannot take is refused as a field error, an open leaf that takes a valid value shows it.  A rule of a
   NESTED class (option names, reduce_splits_num_std) fails while the nested object is built, i.e. as a field
   error of the root, before the root's lock runs. *)
Definition nested_path (path : list string) : bool := match path with _ :: _ :: _ => true | _ => false end.
Definition single_override_ok (reg : registry) (t : stree) (x : list string * leaf * list stree) (v : jv) : bool :=
  match x with
  | (path, l, _) =>
      match coerce (lty l) (pre v) with
      | None => match vtop reg t (override path v) with Reject RField => true | _ => false end
      | Some v' =>
          if ldev l then
            if jv_eqb v' (ldefault l) then match vtop reg t (override path v) with Accept _ => true | _ => false end
            else match vtop reg t (override path v) with
                 | Reject RDeveloper => true
                 | Reject RField => nested_path path
                 | _ => false
                 end
          else
            match vtop reg t (override path v) with
            | Accept s => match value_at s path with Some got => jv_eqb got (add_required (lreq l) v') | None => false end
            | Reject RField => nested_path path
            | Reject _ => false
            end
      end
  end.
Definition all_single_overrides_ok (reg : registry) (t : stree) : bool :=
  forallb (fun x => forallb (single_override_ok reg t x) (alts_of (snd x) (snd (fst x)))) (leaves_sib_of_root t).

(* ------------------------------------------------------------------ well-formedness used by the exactness theorem *)
Fixpoint nodupb (l : list string) : bool :=
  match l with [] => true | x :: r => negb (mem x r) && nodupb r end.
(* field names unique at every level, no nested settings object is optional *)
Fixpoint wf_tree (t : stree) : bool :=
  match t with
  | Leaf _ => true
  | Node _ _ _ opt _ ch => negb opt && nodupb (map tname ch) && forallb wf_tree ch
  end.
Definition wf_children (ch : list stree) : bool := nodupb (map tname ch) && forallb wf_tree ch.

(* ------------------------------------------------------------------ build -> store -> reload on the enumerated overrides *)
Definition with_dev (dm : bool) (kvs : list (string * jv)) : list (string * jv) :=
  if dm then ("developer_mode", JBool true) :: ("silent_developer_mode", JBool true) :: kvs else kvs.
(* the record reloads and the reloaded settings dump to the record *)
Definition reload_ok (reg : registry) (c : ctor) (kvs : list (string * jv)) : bool :=
  match construct reg c (InDict kvs) with
  | Reject _ => true
  | Accept s =>
      let doc := stored_settings c s in
      match reload reg c doc with
      | Accept s' => jv_eqb (dump s') doc
      | Reject _ => false
      end
  end.
(* the alternatives of alts_of, at most four members of a long enum *)
Definition alts_light (sib : list stree) (l : leaf) : list jv :=
  match base (lty l) with
  | BEnum vals => (map JStr (firstn 4 vals) ++ [JNull; JStr "no such value"])%list
  | _ => alts_of sib l
  end.
Definition all_reloads_ok (reg : registry) (c : ctor) (t : stree) : bool :=
  forallb (fun x => forallb (fun v => reload_ok reg c (with_dev (ldev (snd (fst x))) (override (fst (fst x)) v)))
                            (alts_light (snd x) (snd (fst x))))
          (leaves_sib_of_root t).
