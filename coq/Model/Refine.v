(* What happens to the optimiser's result before it is stored (C12), written once over an arbitrary numeric
   dictionary [N : num], on top of Model/DailyCurve.v.

   Mirrors, statement by statement,
     opendsm/eemeter/models/daily/optimize_results.py   get_k, reduce_model, OptimizedResult._refine_model,
                                                        _set_model_key (coef_id <-> model_key is one-to-one: the
                                                        model uses [model_key] for both), eval
     opendsm/eemeter/models/daily/parameters.py         ModelCoefficients.from_np_arrays
     opendsm/eemeter/models/daily/base_models/hdd_tidd_cdd.py
                                                        evaluate_hdd_tidd_cdd_smooth / _hdd_tidd_cdd (what the objective
                                                        scored), _hdd_tidd_cdd_smooth_update_bnds
     opendsm/eemeter/models/daily/base_models/c_hdd_tidd.py
                                                        set_full_model_coeffs(_smooth), _c_hdd_tidd_update_bnds, pinning
     opendsm/eemeter/models/daily/base_models/tidd.py   set_full_model_coeffs, _tidd_update_bnds
   Executable definitions only (no proofs).  The optimiser itself is NOT modelled: the theorems take its result
   as an arbitrary vector of the box (Proofs/RefineProofs.v, Section variable with that contract). *)
From Coq Require Import List Bool.
From V Require Import Model.Num Model.DailyCurve.
Import ListNotations.

Section Refine.
Variable N : num.

Local Notation zero := (@n_zero N).
Local Notation one := (@n_one N).
Local Notation "a + b" := (@n_add N a b) (at level 50, left associativity).
Local Notation "a - b" := (@n_sub N a b) (at level 50, left associativity).
Local Notation "a * b" := (@n_mul N a b) (at level 40, left associativity).
Local Notation "a / b" := (@n_div N a b) (at level 40, left associativity).
Local Notation "- a" := (@n_opp N a) (at level 35, right associativity).
Local Notation "a <? b" := (@n_ltb N a b) (at level 70, no associativity).
Local Notation "a <=? b" := (@n_leb N a b) (at level 70, no associativity).
Local Notation "a >? b" := (@n_gtb N a b) (at level 70, no associativity).
Local Notation "a >=? b" := (@n_geb N a b) (at level 70, no associativity).
Local Notation "a =? b" := (@n_eqb N a b) (at level 70, no associativity).
Local Notation "a !=? b" := (@n_neqb N a b) (at level 70, no associativity).

Definition mkfx (hb hbeta hk cb cbeta ck i : N) : fullx N := Build_fullx N hb hbeta hk cb cbeta ck i.

(* ---------------------------------------------------------------- optimize_results.py: get_k *)
Definition get_k (hbp ph cbp pc Tmin_seg Tmax_seg : N) : N * N * N * N :=
  let '(hbp1, hk1, cbp1, ck1) := get_smooth_coeffs N hbp ph cbp pc in
  let '(hbp2, hk2, cbp2, ck2) :=
    if hbp >=? Tmax_seg then
      if (ck1 =? zero) && (zero =? zero) then (hbp, zero, hbp, ck1) else (hbp, zero, cbp1, ck1)
    else (hbp1, hk1, cbp1, ck1) in
  if cbp <=? Tmin_seg then
    if (zero =? zero) && (hk2 =? zero) then (cbp, hk2, cbp, zero) else (hbp2, hk2, cbp, zero)
  else (hbp2, hk2, cbp2, ck2).

(* ---------------------------------------------------------------- optimize_results.py: reduce_model
   [rec] stands for the recursive call of reduce_model on the collapsed vector with key c_hdd_tidd_smooth;
   None = none of the seven cases applies (the Python falls through with coef_id unbound; only NaN does that) *)
Definition reduce_step (rec : fullx N -> option (model_key * list N))
           (x : fullx N) (Tmin_seg Tmax_seg : N) (key : model_key) : option (model_key * list N) :=
  let hbp := x_hdd_bp x in let hbeta := x_hdd_beta x in let ph := x_hdd_k x in
  let cbp := x_cdd_bp x in let cbeta := x_cdd_beta x in let pc := x_cdd_k x in
  let i := x_intercept x in
  let is_full_smooth := match key with KFullSmooth => true | _ => false end in
  if (cbeta !=? zero) && (hbeta !=? zero) && ((pc !=? zero) || (ph !=? zero)) then
    Some (KFullSmooth, [hbp; hbeta; ph; cbp; cbeta; pc; i])
  else if (cbeta !=? zero) && (hbeta !=? zero) && (pc =? zero) && (ph =? zero) then
    Some (KFull, [hbp; hbeta; cbp; cbeta; i])
  else if (hbeta !=? zero) && (cbeta =? zero) && (ph !=? zero) then
    if is_full_smooth then
      let '(hbp', hk, cbp', ck) := get_k hbp ph cbp pc Tmin_seg Tmax_seg in
      if (hk =? zero) && (ck =? zero) then rec (mkfx hbp' hbeta hk cbp' cbeta ck i)
      else Some (KCSmooth, [hbp'; - hbeta; hk; i])
    else Some (KCSmooth, [hbp; - hbeta; ph; i])
  else if (hbeta =? zero) && (cbeta !=? zero) && (pc !=? zero) then
    if is_full_smooth then
      let '(hbp', hk, cbp', ck) := get_k hbp ph cbp pc Tmin_seg Tmax_seg in
      if (hk =? zero) && (ck =? zero) then rec (mkfx hbp' hbeta hk cbp' cbeta ck i)
      else Some (KCSmooth, [cbp'; cbeta; ck; i])
    else Some (KCSmooth, [cbp; cbeta; pc; i])
  else if (hbeta !=? zero) && (cbeta =? zero) && (ph =? zero) then
    Some (KC, [(if hbp >=? Tmax_seg then Tmax_seg else hbp); - hbeta; i])
  else if (hbeta =? zero) && (cbeta !=? zero) && (pc =? zero) then
    Some (KC, [(if cbp <=? Tmin_seg then Tmin_seg else cbp); cbeta; i])
  else if (cbeta =? zero) && (hbeta =? zero) then Some (KTidd, [i])
  else None.

Definition reduce_model (x : fullx N) (Tmin_seg Tmax_seg : N) (key : model_key) : option (model_key * list N) :=
  reduce_step (fun y => reduce_step (fun _ => None) y Tmin_seg Tmax_seg KCSmooth) x Tmin_seg Tmax_seg key.

(* ---------------------------------------------------------------- OptimizedResult._refine_model
   (coef_id, x) after the constructor *)
Definition refine (key : model_key) (raw : list N) (tc : tconstr N) : option (model_key * list N) :=
  match get_full_model_x N key raw (T_min tc) (T_max tc) (T_min_seg tc) (T_max_seg tc) with
  | None => None
  | Some x => reduce_model x (T_min_seg tc) (T_max_seg tc) key
  end.

(* ---------------------------------------------------------------- parameters.py: from_np_arrays *)
Definition from_np_arrays (id : model_key) (x : list N) : option (coeffs N) :=
  match id, x with
  | KFullSmooth, [hb; hbeta; hk; cb; cbeta; ck; i] =>
      if cb <? hb then Some (Build_coeffs N HddTiddCddSmooth i (Some cb) (Some cbeta) (Some ck) (Some hb) (Some hbeta) (Some hk))
      else Some (Build_coeffs N HddTiddCddSmooth i (Some hb) (Some hbeta) (Some hk) (Some cb) (Some cbeta) (Some ck))
  | KFull, [hb; hbeta; cb; cbeta; i] =>
      if cb <? hb then Some (Build_coeffs N HddTiddCdd i (Some cb) (Some cbeta) None (Some hb) (Some hbeta) None)
      else Some (Build_coeffs N HddTiddCdd i (Some hb) (Some hbeta) None (Some cb) (Some cbeta) None)
  | KCSmooth, [bp; beta; k; i] =>
      if beta <? zero then Some (Build_coeffs N HddTiddSmooth i (Some bp) (Some beta) (Some k) None None None)
      else Some (Build_coeffs N TiddCddSmooth i None None None (Some bp) (Some beta) (Some k))
  | KC, [bp; beta; i] =>
      if beta <? zero then Some (Build_coeffs N HddTidd i (Some bp) (Some beta) None None None None)
      else Some (Build_coeffs N TiddCdd i None None None (Some bp) (Some beta) None)
  | KTidd, [i] => Some (Build_coeffs N Tidd i None None None None None None)
  | _, _ => None
  end.

(* OptimizedResult.named_coeffs: what _create_params_from_fit_model stores *)
Definition named_coeffs (key : model_key) (raw : list N) (tc : tconstr N) : option (coeffs N) :=
  match refine key raw tc with
  | None => None
  | Some (id, x) => from_np_arrays id x
  end.

(* ---------------------------------------------------------------- the curve the optimiser scored
   the 7-vector that the objective hands to full_model for a raw vector *)
Definition scored_x (key : model_key) (raw : list N) : option (fullx N) :=
  match key, raw with
  | KFullSmooth, [hb; hbeta; ph; cb; cbeta; pc; i] =>
      let '(hb', hk, cb', ck) := get_smooth_coeffs N hb ph cb pc in Some (mkfx hb' hbeta hk cb' cbeta ck i)
  | KFull, [hb; hbeta; cb; cbeta; i] => Some (mkfx hb hbeta zero cb cbeta zero i)
  | KCSmooth, [bp; beta; k; i] =>
      if beta <? zero then Some (mkfx bp (- beta) k bp zero zero i) else Some (mkfx bp zero zero bp beta k i)
  | KC, [bp; beta; i] =>
      if beta <? zero then Some (mkfx bp (- beta) zero bp zero zero i) else Some (mkfx bp zero zero bp beta zero i)
  | KTidd, [i] => Some (mkfx zero zero zero zero zero zero i)
  | _, _ => None
  end.

Definition scored_curve (key : model_key) (raw : list N) (tc : tconstr N) (Ti : N) : option N :=
  match scored_x key raw with
  | None => None
  | Some x => Some (full_model1 N x (T_min tc) (T_max tc) Ti)
  end.

(* the curve of the stored coefficients: OptimizedResult.eval == DailyModel._predict_submodel on named_coeffs *)
Definition stored_curve (key : model_key) (raw : list N) (tc : tconstr N) (Ti : N) : option N :=
  match named_coeffs key raw tc with
  | None => None
  | Some c => match predict_submodel N c tc Ti with Some (p, _, _) => Some p | None => None end
  end.

(* ---------------------------------------------------------------- the box handed to the optimiser
   rows are (lower, upper). *)
Definition sort_row (r : N * N) : N * N := if snd r <? fst r then (snd r, fst r) else r.
Definition clip_lower_0 (r : N * N) : N * N := if fst r <? zero then (zero, snd r) else r.

(* common/utils.py: 10 ** OoM_numba(v, method="floor") = 10 ** floor(log10 |v|) for v <> 0, found by a decade search
   (10^n and 1/10^n are exact / correctly rounded in binary64 for |n| <= 22, which is what pow returns there) *)
Fixpoint pow10_up (fuel : nat) (a p : N) : N :=
  match fuel with
  | O => p
  | S f => if (n_ten * p) <=? a then pow10_up f a (n_ten * p) else p
  end.
Fixpoint pow10_down (fuel : nat) (a q : N) : N :=
  match fuel with
  | O => one / q
  | S f => if (one / q) <=? a then one / q else pow10_down f a (n_ten * q)
  end.
Definition pow10floor (v : N) : N :=
  let a := n_abs v in if one <=? a then pow10_up 330 a one else pow10_down 330 a n_ten.
(* OoM_numba returns 1.0 for 0.0, hence a width of 10 *)
Definition oom_width (v : N) : N := if v =? zero then n_ten else pow10floor v.

(* utilities/base_model.py: fix_identical_bnds, one row: identical bounds are widened SYMMETRICALLY by oom_width
   (so a degenerate [0,0] row becomes [-10,10]: whatever must stay non-negative has to be clamped AFTER this step) *)
Definition fix_identical_row (r : N * N) : N * N :=
  if fst r =? snd r then (fst r - oom_width (fst r), snd r + oom_width (fst r)) else r.

(* the update functions, over an arbitrary row fix-up [fix_identical] (instantiated with [fix_identical_row]) *)
Section Bounds.
Variable fix_identical : N * N -> N * N.

(* hdd_tidd_cdd.py: _hdd_tidd_cdd_smooth_update_bnds(new_bnds, bnds_0, smooth), rows of the smooth layout
   [hdd_bp; hdd_beta; hdd_k; cdd_bp; cdd_beta; cdd_k; intercept] *)
Definition update_bnds_full_smooth (nb b0 : list (N * N)) : option (list (N * N)) :=
  match nb, b0 with
  | [_; n1; n2; _; n4; n5; _], [b_bp; _; _; b_bp'; _; _; b_i] =>
      let f r := fix_identical (sort_row r) in
      Some [f b_bp; clip_lower_0 (f n1); clip_lower_0 (f n2); f b_bp'; clip_lower_0 (f n4); clip_lower_0 (f n5); f b_i]
  | _, _ => None
  end.

(* ... of the unsmoothed layout [hdd_bp; hdd_beta; cdd_bp; cdd_beta; intercept] *)
Definition update_bnds_full (nb b0 : list (N * N)) : option (list (N * N)) :=
  match nb, b0 with
  | [_; n1; _; n3; _], [b_bp; _; b_bp'; _; b_i] =>
      let f r := fix_identical (sort_row r) in
      Some [f b_bp; clip_lower_0 (f n1); f b_bp'; clip_lower_0 (f n3); f b_i]
  | _, _ => None
  end.

(* c_hdd_tidd.py: _c_hdd_tidd_update_bnds + the "identical breakpoint bounds are not expanded" step of fit_c_hdd_tidd;
   layouts [c_hdd_bp; c_hdd_beta; c_hdd_k; intercept] and [c_hdd_bp; c_hdd_beta; intercept] *)
Definition keep_pinned (b_bp r : N * N) : N * N := if fst b_bp =? snd b_bp then b_bp else r.

Definition update_bnds_c_smooth (nb b0 : list (N * N)) : option (list (N * N)) :=
  match nb, b0 with
  | [_; n1; n2; _], [b_bp; _; _; b_i] =>
      let f r := fix_identical (sort_row r) in
      Some [keep_pinned b_bp (f b_bp); f n1; clip_lower_0 (f n2); f b_i]
  | _, _ => None
  end.

Definition update_bnds_c (nb b0 : list (N * N)) : option (list (N * N)) :=
  match nb, b0 with
  | [_; n1; _], [b_bp; _; b_i] =>
      let f r := fix_identical (sort_row r) in
      Some [keep_pinned b_bp (f b_bp); f n1; f b_i]
  | _, _ => None
  end.

(* tidd.py: _tidd_update_bnds *)
Definition update_bnds_tidd (b0 : list (N * N)) : option (list (N * N)) :=
  match b0 with
  | [b_i] => Some [fix_identical (sort_row b_i)]
  | _ => None
  end.

End Bounds.

(* x inside the box, coordinate by coordinate *)
Fixpoint in_box (bnds : list (N * N)) (x : list N) : bool :=
  match bnds, x with
  | [], [] => true
  | (lo, hi) :: bs, v :: xs => (lo <=? v) && (v <=? hi) && in_box bs xs
  | _, _ => false
  end.

(* ---------------------------------------------------------------- utilities/base_model.py: get_T_bnds(T, settings)
   the temperature limits an OptimizedResult records for the days it was fitted on:
     T_min = np.min(T), T_max = np.max(T),
     T_min_seg = np.partition(T, n)[n], T_max_seg = np.partition(T, -n)[-n]      (n = settings.segment_minimum_count)
   np.partition(T, k)[k] is the k-th order statistic: element k of the sorted array (index -n = len - n, and -0 = 0);
   it raises ValueError when k is out of bounds (None).  Sorting by insertion with the instance's <=. *)
Fixpoint insert_sorted (x : N) (l : list N) : list N :=
  match l with
  | [] => [x]
  | y :: r => if x <=? y then x :: l else y :: insert_sorted x r
  end.
Definition sort_list (l : list N) : list N := fold_right insert_sorted [] l.

Definition get_T_bnds (T : list N) (n_seg : nat) : option (tconstr N) :=
  let s := sort_list T in
  let len := length s in
  match s with
  | [] => None
  | t0 :: _ =>
      if Nat.ltb n_seg len then
        let hi_idx := match n_seg with O => O | _ => (len - n_seg)%nat end in
        Some (Build_tconstr N t0 (nth (len - 1) s t0) (nth n_seg s t0) (nth hi_idx s t0))
      else None
  end.

End Refine.
