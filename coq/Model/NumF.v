(* IEEE binary64 instance of the numeric dictionary (execution side of the correspondences).
   Every primitive is eta-expanded (an unapplied alias of a primitive does not reduce under
   vm_compute in 8.16).  This file must not import Reals. *)
From Coq Require Import PrimFloat.
From V Require Import Model.Num.

Definition fadd (a b : float) : float := PrimFloat.add a b.
Definition fsub (a b : float) : float := PrimFloat.sub a b.
Definition fmul (a b : float) : float := PrimFloat.mul a b.
Definition fdiv (a b : float) : float := PrimFloat.div a b.
Definition fopp (a : float) : float := PrimFloat.opp a.
Definition fabs (a : float) : float := PrimFloat.abs a.
Definition fltb (a b : float) : bool := PrimFloat.ltb a b.
Definition fleb (a b : float) : bool := PrimFloat.leb a b.
Definition feqb (a b : float) : bool := PrimFloat.eqb a b.

(* exp: argument halved 10 times (exact: division by 2^10), degree-13 Taylor polynomial in Horner
   form, then 10 squarings.  Measured against libm on [-100,100]: relative error < 1e-12 (the
   correspondences that go through it compare within 1e-9); it is NOT bit-exact with libm.
   The package clips every exp argument to [ln_min, ln_max] = [-331.2, 331.9], so |x|/1024 < 0.33. *)
Definition fexp_kernel (y : float) : float :=
  let h (n : float) (acc : float) : float := fadd 1%float (fmul (fdiv y n) acc) in
  h 1%float (h 2%float (h 3%float (h 4%float (h 5%float (h 6%float (h 7%float (h 8%float (h 9%float
    (h 10%float (h 11%float (h 12%float (h 13%float 1%float)))))))))))).

Definition fsq (a : float) : float := fmul a a.

Definition fexp (x : float) : float :=
  let p := fexp_kernel (fdiv x 1024%float) in
  fsq (fsq (fsq (fsq (fsq (fsq (fsq (fsq (fsq (fsq p))))))))).

(* LN_MIN_POS_SYSTEM_VALUE / LN_MAX_POS_SYSTEM_VALUE of opendsm/common/utils.py, exact binary64
   values (the harness compares these literals with the package's constants on every run) *)
Definition f_ln_min : float := (-0x1.4b2c1fad0922dp+8)%float.
Definition f_ln_max : float := (0x1.4bdd91c500f4ap+8)%float.

Definition FNum : num := {|
  carrier := float;
  n_zero := 0%float;
  n_one := 1%float;
  n_add := fadd; n_sub := fsub; n_mul := fmul; n_div := fdiv;
  n_opp := fopp; n_abs := fabs;
  n_ltb := fltb; n_leb := fleb; n_eqb := feqb;
  n_exp := fexp;
  n_ln_min := f_ln_min;
  n_ln_max := f_ln_max
|}.

(* comparison helpers for the generated cases files *)
Definition f_is_nan (a : float) : bool := negb (PrimFloat.eqb a a).
(* same value (+0 = -0), or both NaN *)
Definition f_same (a b : float) : bool := PrimFloat.eqb a b || (f_is_nan a && f_is_nan b).
Definition fmax (a b : float) : float := if PrimFloat.ltb a b then b else a.
(* |a-b| <= 1e-9 * max(1,|a|,|b|), or same *)
Definition f_close (a b : float) : bool :=
  f_same a b ||
  PrimFloat.leb (PrimFloat.abs (PrimFloat.sub a b))
                (PrimFloat.mul 0x1.12e0be826d695p-30%float
                               (fmax 1%float (fmax (PrimFloat.abs a) (PrimFloat.abs b)))).
