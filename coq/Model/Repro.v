(* C03 — fitting is reproducible.
   The library as a state machine whose global state is what the code can consult OUTSIDE the arguments of a call:
     * numpy's global generator (the np.random functions), consulted in exactly one place, BaseHourlySettings._check_seed
       (hourly/settings.py): `seed is None  =>  _seed := np.random.randint(0, 2**32-1)`, else `_seed := seed`;
     * the size of the BLAS/OpenMP thread pools of the process (the assignment of OMP/MKL/OPENBLAS_NUM_THREADS
       in hourly/model.py:26-28 happens after numpy has been loaded and has no effect, so the pool size is whatever
       the environment of the process said) — consulted, as coded, by the CalTRACK hourly least squares (LAPACK);
     * the shared default list of CalTRACKHourlyModelResults.__init__(warnings=[]);
     * "warm" flags (numba cache, pydantic class construction, first use of a code path);
     * the models fitted so far in the process (Predict refers to them).
   Results are SYMBOLIC: [RFit fam d cfg cs] stands for an uninterpreted fit function applied to exactly what the
   modelled control flow hands down: family, data set, settings, and the random_state of every consumer of randomness
   (ElasticNet: _seed; bisecting k-means number i: _seed + i).  No numerics are modelled: BLAS summation order, thread
   scheduling, JIT caches and the NLopt C library have no executable model (DESIGN 8.3/8.4). *)
From Coq Require Import ZArith List Bool.
Import ListNotations.
Open Scope Z_scope.

Inductive family := Daily | Billing | Hourly | CalTrack.

(* ---- numpy's global generator: the free term of what has been done to it since the process started ---- *)
Inductive rng_ev :=
| EvSeed (k : Z)        (* np.random.seed(k) *)
| EvRandom (n : Z)      (* np.random.random(n) *)
| EvRandint.            (* one np.random.randint(0, 2**32-1, dtype=int64): the draw of _check_seed *)

Record rng := {
  r_origin : Z;           (* > 0: the OS-entropy start state of process number r_origin; 0: explicitly seeded;
                             -1: unknown (an unmodelled number of draws has been taken) *)
  r_evs : list rng_ev     (* events since then, most recent first *)
}.

Definition rng_start (pid : Z) : rng := {| r_origin := pid; r_evs := [] |}.
Definition rng_push (e : rng_ev) (r : rng) : rng :=
  match e with
  | EvSeed _ => {| r_origin := 0; r_evs := [e] |}
  | _ => {| r_origin := r_origin r; r_evs := e :: r_evs r |}
  end.

(* a generator state nothing is known about (kept for histories that declare unmodelled draws) *)
Definition rng_unknown : rng := {| r_origin := -1; r_evs := [] |}.

(* ---- seeds and random_state values ---- *)
Inductive sd :=
| SdLit (z : Z)           (* the integer given in the settings *)
| SdDraw (st : rng).      (* the value randint returns when the generator is in state st *)

(* random_state handed to a consumer: base + offset; None = the consumer is left to the global generator *)
Inductive consumer :=
| CElasticNet (rs : option (sd * Z))
| CKMeans (rs : option (sd * Z)).

Record hcfg := {
  h_id : Z;               (* identity of the remaining hourly settings (selection, adaptive weights, ...) *)
  h_recluster : nat;      (* temporal_cluster.recluster_count *)
  h_silhouette : bool     (* temporal_cluster.score_metric = "silhouette" (since /repo 6be031d0 silhouette_score gets
                             random_state=0; before, it drew from the global generator during a seeded fit) *)
}.

Fixpoint kmeans_consumers (base : sd) (i : Z) (n : nat) : list consumer :=
  match n with
  | O => []
  | S n' => CKMeans (Some (base, i)) :: kmeans_consumers base (i + 1) n'
  end.

(* HourlyModel.__init__: ElasticNet(random_state=settings.elasticnet._seed);
   _cluster_time_series: for i in range(recluster_count): BisectingKMeans(random_state=seed + i) *)
Definition hourly_consumers (c : hcfg) (base : sd) : list consumer :=
  CElasticNet (Some (base, 0)) :: kmeans_consumers base 0 (h_recluster c).

(* ---- symbolic results ---- *)
Inductive res :=
| RFit (f : family) (d : Z) (cfg : Z) (threads : Z) (cs : list consumer)
| RPredict (r : res)
| RNothing.

(* ---- an HourlyModel object that has been constructed (its settings object lives from construction on) ----
   BaseHourlySettings._check_seed writes the effective seed onto the object itself and onto ITS nested elasticnet /
   temporal_cluster settings objects (built per instance: default_factory).  HourlyModel.__init__ hands
   settings.elasticnet._seed to ElasticNet at construction; the clustering reads settings.temporal_cluster._seed at fit(). *)
Record hobj := {
  ob_cfg : hcfg;
  ob_seed : option Z;     (* the settings field `seed` *)
  ob_en : sd;             (* random_state ElasticNet was constructed with *)
  ob_eff : sd;            (* the _seed currently stored on the object's own settings (read by the clustering at fit) *)
  ob_fitted : bool
}.

(* a DailyModel / BillingModel object: its settings profile and, as its own prior state, the data it was last fitted on
   (df_meter, components, fit_components, the optimiser results of the previous fit stay on the object) *)
Record dbobj := { db_fam : family; db_cfg : Z; db_last : option Z }.

Fixpoint set_nth {A : Type} (k : nat) (x : A) (l : list A) : list A :=
  match l, k with
  | [], _ => []
  | _ :: rest, O => x :: rest
  | a :: rest, S k' => a :: set_nth k' x rest
  end.

(* ---- global state of one process ---- *)
Record gstate := {
  g_rng : rng;
  g_threads : Z;            (* BLAS/OpenMP pool size, fixed when the process starts *)
  g_salt : Z;               (* the hash salt of the interpreter (PYTHONHASHSEED; -1 = random): it fixes the iteration order
                               of every set / dict-from-set of strings in the process *)
  g_ct_default : list Z;    (* contents of the shared default list warnings=[] of CalTRACKHourlyModelResults *)
  g_warm : list family;     (* code paths that have run *)
  g_jit : list (family * Z); (* the numba JIT cache (in memory and on disk, NUMBA_CACHE_DIR): for each family whose code
                               has been compiled, the settings profile of the fit that compiled it -- that fit's view of
                               every module-level value is what numba froze into the compiled functions *)
  g_models : list res;      (* result of every operation so far, oldest first *)
  g_objs : list hobj;       (* the HourlyModel objects constructed so far (NewHourly, FromJson), oldest first *)
  g_dbs : list dbobj        (* the DailyModel / BillingModel objects constructed so far (NewDB) *)
}.

(* a process starts with whatever JIT cache earlier processes left on disk *)
Definition init_full (pid threads : Z) (cache : list (family * Z)) (salt : Z) : gstate :=
  {| g_rng := rng_start pid; g_threads := threads; g_salt := salt; g_ct_default := []; g_warm := []; g_jit := cache; g_models := [];
     g_objs := []; g_dbs := [] |}.
Definition init_cache (pid threads : Z) (cache : list (family * Z)) : gstate := init_full pid threads cache 0.
Definition init (pid threads : Z) : gstate := init_cache pid threads [].

Definition fam_eqb (a b : family) : bool :=
  match a, b with Daily, Daily | Billing, Billing | Hourly, Hourly | CalTrack, CalTrack => true | _, _ => false end.
(* the first fit of a family compiles its functions; later fits find them compiled *)
Definition jit_populate (f : family) (cfg : Z) (c : list (family * Z)) : list (family * Z) :=
  if existsb (fun p => fam_eqb (fst p) f) c then c else c ++ [(f, cfg)].

Inductive op :=
| FitDaily (d cfg : Z)
| FitBilling (d cfg : Z)
| FitHourly (d : Z) (c : hcfg) (seed : option Z)
| FitCalTrack (d : Z)
| Predict (k : nat)          (* predict, on its fixed reporting set, with the model returned by operation k of this process *)
| RngSeed (k : Z)
| RngRandom (n : Z)
| Unrelated (draws : bool)   (* python's random, data objects, reload, sorting ...; draws: also np.random.random(3) *)
(* the life cycle of an hourly model taken apart: objects are constructed first and used later *)
| NewHourly (c : hcfg) (seed : option Z)   (* HourlyModel(settings=...): object number length(g_objs) *)
| FitObj (k : nat) (d : Z)                 (* object k: fit(data d), then to_json() and the fixed prediction are taken *)
| ToJson (k : nat)                         (* object k (fitted): to_json() *)
| FromJson (k : nat)                       (* HourlyModel.from_json(object k .to_json()): a new object *)
| NewDB (f : family) (cfg : Z)             (* DailyModel(...) / BillingModel(...): daily/billing object number length(g_dbs) *)
| FitDB (k : nat) (d : Z).                 (* daily/billing object k: fit(data d) -- possibly not its first fit *)

Definition with_result (s : gstate) (r : rng) (w : list family) (x : res) : gstate * res :=
  ({| g_rng := r; g_threads := g_threads s; g_salt := g_salt s; g_ct_default := g_ct_default s; g_warm := w;
      g_jit := match x with RFit f _ cfg _ _ => jit_populate f cfg (g_jit s) | _ => g_jit s end;
      g_models := g_models s ++ [x]; g_objs := g_objs s; g_dbs := g_dbs s |}, x).

Definition with_objs (p : gstate * res) (objs : list hobj) : gstate * res :=
  ({| g_rng := g_rng (fst p); g_threads := g_threads (fst p); g_salt := g_salt (fst p); g_ct_default := g_ct_default (fst p);
      g_warm := g_warm (fst p); g_jit := g_jit (fst p); g_models := g_models (fst p); g_objs := objs;
      g_dbs := g_dbs (fst p) |}, snd p).

Definition with_dbs (p : gstate * res) (dbs : list dbobj) : gstate * res :=
  ({| g_rng := g_rng (fst p); g_threads := g_threads (fst p); g_salt := g_salt (fst p); g_ct_default := g_ct_default (fst p);
      g_warm := g_warm (fst p); g_jit := g_jit (fst p); g_models := g_models (fst p); g_objs := g_objs (fst p);
      g_dbs := dbs |}, snd p).

(* to_json() of an object re-runs the settings' after-validator (SerializeModel(settings=self.settings)): with a seed
   in the settings nothing changes; without, the object's _seed is replaced by a new draw *)
Definition revalidate (r : rng) (o : hobj) : rng * hobj :=
  match ob_seed o with
  | Some _ => (r, o)
  | None => (rng_push EvRandint r,
             {| ob_cfg := ob_cfg o; ob_seed := None; ob_en := ob_en o; ob_eff := SdDraw r; ob_fitted := ob_fitted o |})
  end.

Definition new_obj (r : rng) (c : hcfg) (seed : option Z) : rng * hobj :=
  match seed with
  | Some z => (r, {| ob_cfg := c; ob_seed := seed; ob_en := SdLit z; ob_eff := SdLit z; ob_fitted := false |})
  | None => (rng_push EvRandint r,
             {| ob_cfg := c; ob_seed := None; ob_en := SdDraw r; ob_eff := SdDraw r; ob_fitted := false |})
  end.

Definition obj_consumers (o : hobj) : list consumer :=
  CElasticNet (Some (ob_en o, 0)) :: kmeans_consumers (ob_eff o) 0 (h_recluster (ob_cfg o)).

Definition mark_fitted (o : hobj) : hobj :=
  {| ob_cfg := ob_cfg o; ob_seed := ob_seed o; ob_en := ob_en o; ob_eff := ob_eff o; ob_fitted := true |}.

(* as coded: 1 when the linear algebra of the family is sensitive to the pool size, i.e. only CalTRACK hourly
   (statsmodels WLS -> LAPACK); daily/billing use numba + NLopt, hourly uses coordinate descent and small SVDs *)
Definition thread_class (f : family) (env : Z) : Z :=
  match f with CalTrack => env | _ => 0 end.
(* the part of the process environment the CalTRACK hourly model consults, as coded: the BLAS pool size (statsmodels WLS ->
   LAPACK, known finding C03-K1).  Until /repo 15304f59 it also read the hash salt of the interpreter
   (CalTRACKSegmentModel.predict ordered the columns of its dot product by a set of strings; found by this check as C03-K2) *)
Definition ct_env (s : gstate) : Z := g_threads s.

Definition step (s : gstate) (o : op) : gstate * res :=
  match o with
  | FitDaily d cfg => with_result s (g_rng s) (Daily :: g_warm s) (RFit Daily d cfg (thread_class Daily (ct_env s)) [])
  | FitBilling d cfg => with_result s (g_rng s) (Billing :: g_warm s) (RFit Billing d cfg (thread_class Billing (ct_env s)) [])
  | FitHourly d c (Some z) =>
      with_result s (g_rng s) (Hourly :: g_warm s)
        (RFit Hourly d (h_id c) (thread_class Hourly (ct_env s)) (hourly_consumers c (SdLit z)))
  | FitHourly d c None =>
      (* the operation is construct + fit + to_json + predict.  As coded, the generator is consulted TWICE: once by
         _check_seed when the settings are constructed (this draw is the seed of the fit), and once more by to_json(),
         whose SerializeModel(settings=self.settings, ..) runs the settings' after-validator _check_seed again (the
         model's _seed is replaced by a new draw after serialisation; nothing of the fitted model depends on it) *)
      with_result s (rng_push EvRandint (rng_push EvRandint (g_rng s))) (Hourly :: g_warm s)
        (RFit Hourly d (h_id c) (thread_class Hourly (ct_env s)) (hourly_consumers c (SdDraw (g_rng s))))
  | FitCalTrack d =>
      (* every CalTRACKHourlyModelResults of the fit path is built with an explicit warnings list:
         the shared default is neither read nor written *)
      with_result s (g_rng s) (CalTrack :: g_warm s) (RFit CalTrack d 0 (thread_class CalTrack (ct_env s)) [])
  | Predict k =>
      with_result s (g_rng s) (g_warm s)
        (match nth_error (g_models s) k with
         | Some (RFit f d cfg t cs) => RPredict (RFit f d cfg t cs)
         | _ => RNothing
         end)
  | RngSeed k => with_result s (rng_push (EvSeed k) (g_rng s)) (g_warm s) RNothing
  | RngRandom n => with_result s (rng_push (EvRandom n) (g_rng s)) (g_warm s) RNothing
  | Unrelated true => with_result s (rng_push (EvRandom 3) (g_rng s)) (g_warm s) RNothing
  | Unrelated false => with_result s (g_rng s) (g_warm s) RNothing
  | NewHourly c seed =>
      let '(r, o) := new_obj (g_rng s) c seed in
      with_objs (with_result s r (g_warm s) RNothing) (g_objs s ++ [o])
  | FitObj k d =>
      match nth_error (g_objs s) k with
      | None => with_result s (g_rng s) (g_warm s) RNothing
      | Some o =>
          (* the fit reads ONLY the object's own settings; the observation (to_json) re-validates them *)
          let x := RFit Hourly d (h_id (ob_cfg o)) (thread_class Hourly (ct_env s)) (obj_consumers o) in
          let '(r, o') := revalidate (g_rng s) (mark_fitted o) in
          with_objs (with_result s r (Hourly :: g_warm s) x) (set_nth k o' (g_objs s))
      end
  | ToJson k =>
      match nth_error (g_objs s) k with
      | Some o =>
          if ob_fitted o then
            let '(r, o') := revalidate (g_rng s) o in
            with_objs (with_result s r (g_warm s) RNothing) (set_nth k o' (g_objs s))
          else with_result s (g_rng s) (g_warm s) RNothing
      | None => with_result s (g_rng s) (g_warm s) RNothing
      end
  | FromJson k =>
      match nth_error (g_objs s) k with
      | Some o =>
          if ob_fitted o then
            let '(r, o') := revalidate (g_rng s) o in
            let '(r2, n) := new_obj r (ob_cfg o) (ob_seed o) in
            with_objs (with_result s r2 (g_warm s) RNothing) (set_nth k o' (g_objs s) ++ [n])
          else with_result s (g_rng s) (g_warm s) RNothing
      | None => with_result s (g_rng s) (g_warm s) RNothing
      end
  | NewDB f cfg =>
      with_dbs (with_result s (g_rng s) (g_warm s) RNothing) (g_dbs s ++ [{| db_fam := f; db_cfg := cfg; db_last := None |}])
  | FitDB k d =>
      match nth_error (g_dbs s) k with
      | None => with_result s (g_rng s) (g_warm s) RNothing
      | Some o =>
          (* fit() re-initialises everything it uses from the data it is given: what the object was fitted on before
             (db_last) is not read *)
          with_dbs (with_result s (g_rng s) (db_fam o :: g_warm s)
                      (RFit (db_fam o) d (db_cfg o) (thread_class (db_fam o) (ct_env s)) []))
                   (set_nth k {| db_fam := db_fam o; db_cfg := db_cfg o; db_last := Some d |} (g_dbs s))
      end
  end.

(* does the operation use object k (everything else must leave it alone) *)
Definition touches (o : op) (k : nat) : bool :=
  match o with FitObj j _ | ToJson j | FromJson j => Nat.eqb j k | _ => false end.

(* a history: final state and the result of every operation, in order *)
Fixpoint run (s : gstate) (h : list op) : gstate * list res :=
  match h with
  | [] => (s, [])
  | o :: rest =>
      let '(s1, r) := step s o in
      let '(s2, rs) := run s1 rest in
      (s2, r :: rs)
  end.

(* what the last operation of a history returned *)
Definition out (x : gstate * list res) : res := last (snd x) RNothing.

(* an operation whose result the statement speaks about: a fit with "the same seed for the hourly model" *)
Definition seeded (o : op) : bool :=
  match o with
  | FitDaily _ _ | FitBilling _ _ | FitCalTrack _ => true
  | FitHourly _ _ (Some _) => true
  | _ => false
  end.

(* ... and which, as coded, leaves numpy's global generator where it was *)
Definition rng_clean (o : op) : bool :=
  match o with
  | FitHourly _ _ (Some _) => true
  | FitDaily _ _ | FitBilling _ _ | FitCalTrack _ | Predict _ | Unrelated false => true
  | _ => false
  end.

Definition is_fit (o : op) : bool :=
  match o with FitDaily _ _ | FitBilling _ _ | FitCalTrack _ | FitHourly _ _ _ => true | _ => false end.

Definition thread_sensitive (o : op) : bool := match o with FitCalTrack _ => true | _ => false end.

(* what a seeded fit returns, as a function of the operation and the pool size alone *)
Definition pure_out (env : Z) (o : op) : res :=
  match o with
  | FitDaily d cfg => RFit Daily d cfg 0 []
  | FitBilling d cfg => RFit Billing d cfg 0 []
  | FitHourly d c (Some z) => RFit Hourly d (h_id c) 0 (hourly_consumers c (SdLit z))
  | FitCalTrack d => RFit CalTrack d 0 env []
  | _ => RNothing
  end.

(* ---- interpretation by an uninterpreted fit / predict function ---- *)
Section Interp.
  Variable M : Type.                                               (* serialised model + fixed prediction *)
  Variable fitf : family -> Z -> Z -> Z -> list consumer -> M.     (* the numerical engines, as one function *)
  Variable predf : M -> M.
  Variable none : M.
  Fixpoint interp (r : res) : M :=
    match r with
    | RFit f d cfg t cs => fitf f d cfg t cs
    | RPredict r' => predf (interp r')
    | RNothing => none
    end.
End Interp.

(* ---- resolving draws against a table (what numpy's generator returns in a known state) ---- *)
Definition ev_eqb (a b : rng_ev) : bool :=
  match a, b with
  | EvSeed x, EvSeed y => x =? y
  | EvRandom x, EvRandom y => x =? y
  | EvRandint, EvRandint => true
  | _, _ => false
  end.
Fixpoint evs_eqb (a b : list rng_ev) : bool :=
  match a, b with
  | [], [] => true
  | x :: a', y :: b' => ev_eqb x y && evs_eqb a' b'
  | _, _ => false
  end.
(* equal terms denote equal generator states; an unknown state is equal to nothing, not even to itself *)
Definition rng_eqb (a b : rng) : bool :=
  negb (r_origin a =? -1) && (r_origin a =? r_origin b) && evs_eqb (r_evs a) (r_evs b).

Fixpoint lookup_draw (tbl : list (rng * Z)) (st : rng) : option Z :=
  match tbl with
  | [] => None
  | (k, v) :: rest => if rng_eqb k st then Some v else lookup_draw rest st
  end.

Definition norm_sd (tbl : list (rng * Z)) (x : sd) : sd :=
  match x with
  | SdLit z => SdLit z
  | SdDraw st => match lookup_draw tbl st with Some z => SdLit z | None => SdDraw st end
  end.
Definition norm_rs (tbl : list (rng * Z)) (r : option (sd * Z)) : option (sd * Z) :=
  match r with Some (b, i) => Some (norm_sd tbl b, i) | None => None end.
Definition norm_consumer (tbl : list (rng * Z)) (c : consumer) : consumer :=
  match c with CElasticNet r => CElasticNet (norm_rs tbl r) | CKMeans r => CKMeans (norm_rs tbl r) end.
Fixpoint norm_res (tbl : list (rng * Z)) (r : res) : res :=
  match r with
  | RFit f d cfg t cs => RFit f d cfg t (map (norm_consumer tbl) cs)
  | RPredict r' => RPredict (norm_res tbl r')
  | RNothing => RNothing
  end.
