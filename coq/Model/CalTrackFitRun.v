(* Executable comparisons used by the C18 correspondence for Model/CalTrackFit.v (harness/c18.py). *)
From Coq Require Import ZArith QArith List Bool String PrimFloat.
From V Require Import Model.CasesLib Generated.CalTrackTables Model.CalTrack Model.CalTrackRun Model.CalTrackFit
  Model.CalTrackPredict Model.CalTrackPredictRun.
Import ListNotations.

(* _fit_temperature_bins(temps, candidates, min_count): (non-null temperatures, candidates as given, min count, returned list) *)
Definition check_fit_bins (c : list Q * list Q * Z * list Q) : bool :=
  let '(temps, cands, minc, observed) := c in
  list_eqb Qeq_bool (fit_temperature_bins_list temps cands (Z.to_nat minc)) observed.

(* fit_temperature_bins(data, segmentation, occupancy_lookup) with its default candidates and minimum count:
   (segment type, rows (local month, occupied, temperature), [(segment, occupied keep-flags, unoccupied keep-flags)]) *)
Definition find_seg (name : string) (t : list seg) : option seg :=
  List.find (fun s => String.eqb (seg_name s) name) t.
Definition check_fit_api (c : string * list (Z * bool * Q) * list (string * list bool * list bool)) : bool :=
  let '(type, rows, observed) := c in
  forallb (fun o => let '(name, fo, fu) := o in
                    match find_seg name (tbl type) with
                    | Some s => let r := fit_temperature_bins_segment s rows default_bins default_min_temperature_count in
                                list_eqb Bool.eqb (fst r) fo && list_eqb Bool.eqb (snd r) fu
                    | None => false
                    end) observed.

(* _estimate_hour_of_week_occupancy: (no complete row, threshold (None = the default of the source), residual rows
   (hour of week, residual > 0), the returned lookup over 0..167 with None = NaN) *)
Definition check_occupancy_rule (c : bool * option float * list (Z * bool) * list (option bool)) : bool :=
  let '(no_data, thr, rows, observed) := c in
  let t := match thr with Some t => t | None => default_occupancy_threshold_f end in
  list_eqb (opt_eqb Bool.eqb) (occupancy_lookup_f no_data t rows) observed.

Inductive c18case2 : Type :=
| Old (c : c18case)
| CFitBins (c : list Q * list Q * Z * list Q)
| CFitApi (c : string * list (Z * bool * Q) * list (string * list bool * list bool))
| COccRule (c : bool * option float * list (Z * bool) * list (option bool))
| CPredictValue (c : frames_t * list (string * option (list (Z * Q) * list (option Q) * list (option Q))) * list Z * string
                      * list (Z * Z * option Q * option Q)).

Definition check_any2 (c : c18case2) : bool :=
  match c with
  | Old x => check_any x
  | CFitBins x => check_fit_bins x
  | CFitApi x => check_fit_api x
  | COccRule x => check_occupancy_rule x
  | CPredictValue x => check_predict_value x
  end.
