(* Model of the path by which the billing data classes take daily or hourly meter rows
   (_BillingData._compute_meter_value_df, branch "not min_granularity.startswith('billing')"):
     meter_series.resample("MS").sum(min_count=1)   -- one total per calendar month, NaN for a month without any value
     clean_billing_daily_data / as_freq(..., "D")    -- the month's total spread over its days by elapsed time
   Input: one [dayrow] per local day of the span: the calendar month it lies in (year * 12 + month), its length in
   seconds (23 / 24 / 25 hours) and the sum of the meter values supplied for it (None = no value that day).
   Output: the usage the sufficiency frame carries for each day (None = NaN).
   Executable definitions only; lemmas are in Proofs/BillingRowsProofs.v. *)
From Coq Require Import ZArith QArith List Bool.
Import ListNotations.
Open Scope Z_scope.

Record dayrow := mkday { d_key : Z; d_len : Z; d_val : option Q }.

Definition in_key (k : Z) (r : dayrow) : bool := d_key r =? k.
Definition has_val (r : dayrow) : bool := match d_val r with Some _ => true | None => false end.

(* sum of the values present *)
Fixpoint qsum (l : list Q) : Q := match l with [] => 0%Q | x :: t => (x + qsum t)%Q end.
Definition vals (l : list dayrow) : list Q :=
  flat_map (fun r => match d_val r with Some q => [q] | None => [] end) l.

(* resample("MS").sum(min_count = 1) when [min_count] is true, .sum() otherwise (an empty month sums to 0) *)
Definition month_total (min_count : bool) (k : Z) (l : list dayrow) : option Q :=
  let m := filter (in_key k) l in
  if min_count && negb (existsb has_val m) then None else Some (qsum (vals m)).

Fixpoint zsum (l : list Z) : Z := match l with [] => 0 | x :: t => x + zsum t end.
Definition month_len (k : Z) (l : list dayrow) : Z := zsum (map d_len (filter (in_key k) l)).

(* the share of one day: total * (its seconds / the month's seconds) *)
Definition share (t : Q) (r : dayrow) (mlen : Z) : Q := (t * (d_len r # 1) / (mlen # 1))%Q.

Definition spread_day (min_count : bool) (l : list dayrow) (r : dayrow) : option Q :=
  match month_total min_count (d_key r) l with
  | Some t => Some (share t r (month_len (d_key r) l))
  | None => None
  end.
Definition spread (min_count : bool) (l : list dayrow) : list (option Q) := map (spread_day min_count l) l.
