(* Executable comparison for Model/CalTrackPredict.v (harness/c18.py, stream predict_value). *)
From Coq Require Import ZArith QArith List Bool String.
From V Require Import Model.CasesLib Generated.CalTrackTables Model.CalTrack Model.CalTrackPredict.
Import ListNotations.

(* model parameters as the harness writes them: (hour-of-week coefficients, occupied bin coefficients, unoccupied) *)
Definition mk_params (c : list (Z * Q) * list (option Q) * list (option Q)) : seg_params :=
  let '(h, o, u) := c in {| sp_how := h; sp_occ := o; sp_unocc := u |}.

(* CalTRACKHourlyModel.predict: (frames, segment models, months of the index, fit segment type,
   rows (local month, hour of week, temperature, predicted value); None = NaN *)
Definition check_predict_value
  (c : frames_t * list (string * option (list (Z * Q) * list (option Q) * list (option Q))) * list Z * string
       * list (Z * Z * option Q * option Q)) : bool :=
  let '(frames, ms, present, ft, rows) := c in
  let models := map (fun nm => (fst nm, option_map mk_params (snd nm))) ms in
  forallb (fun r => let '(m, how, T, v) := r in
                    opt_eqb Qeq_bool (hour_prediction frames models present ft m how T) v) rows.
