(* Row accounting of DailyModel._predict / _initialize_data (opendsm/eemeter/models/daily/model.py),
   shared by the daily and billing models (BillingModel.predict calls the same _predict and then,
   optionally, aggregates: Model/BillingAgg.v).

   Executable definitions only; lemmas are in Proofs/RowsProofs.v.

   What is modelled (one frame = [has_obs] + [list row]):
     _initialize_data   sort_index; kept = rows surviving dropna() + np.isfinite(temperature)
                        (+ np.isfinite(observed) when the frame has an observed column);
                        dropped = rows whose index label is not among the kept labels (Index.isin)
     _predict           every kept row gets  predicted = f(segment, temperature) ; dropped rows are
                        carried over with predicted = NaN; the "mask observed" statement; concat; sort_index
   What is an oracle: [f] — the value of the sub-model curve, a function of the row's segment (season /
   weekday-weekend class, decided from the time stamp) and its finite temperature only.  It is a Section
   variable: nothing here depends on what the curve is (C11/C13 are about that).
   Not modelled: duplicated index labels in DataFrame.join (the data classes remove duplicates; the
   functions below are total, the theorems that need a duplicate-free index say so), the other
   columns (season, day_of_week, predicted_unc, heating_load, ... are functions of the same row).

   A cell is a binary64 value as pandas sees it: a finite number (payload type [A]: Q in the C07
   correspondence), +inf, -inf or NaN.  [A] is a Section variable so that other properties can reuse the
   row accounting with another payload. *)
From Coq Require Import ZArith QArith List Bool.
Import ListNotations.
Open Scope Z_scope.

(* ---------------------------------------------------------------- generic stable sort on a Z key *)
Section Sort.
  Variable B : Type.
  Variable key : B -> Z.
  (* insertion before the first element with a key >= : together with fold_right this is stable *)
  Fixpoint insert_by (x : B) (l : list B) : list B :=
    match l with
    | [] => [x]
    | y :: l' => if key x <=? key y then x :: l else y :: insert_by x l'
    end.
  Definition sort_by (l : list B) : list B := fold_right insert_by [] l.
End Sort.
Arguments insert_by {B} key x l.
Arguments sort_by {B} key l.

Section Rows.
  Variable A : Type.

  Inductive cell := V (a : A) | PInf | NInf | NaN.
  Definition notna (c : cell) : bool := match c with NaN => false | _ => true end.       (* Series.notna *)
  Definition finite (c : cell) : bool := match c with V _ => true | _ => false end.       (* np.isfinite *)
  Definition no_inf (c : cell) : bool := match c with PInf | NInf => false | _ => true end.

  (* input row of the frame handed to _predict: index label, segment id (which sub-model the time stamp
     selects), temperature, observed (ignored when the frame has no observed column) *)
  Record row := mkrow { ts : Z; seg : Z; temp : cell; obs : cell }.
  (* output row: the same plus the prediction *)
  Record orow := mkorow { o_ts : Z; o_seg : Z; o_temp : cell; o_obs : cell; o_pred : cell }.

  (* ---- _initialize_data ---- *)
  Definition complete (has_obs : bool) (r : row) : bool :=
    finite (temp r) && (negb has_obs || finite (obs r)).

  Definition label_in (l : list row) (t : Z) : bool := existsb (fun k => ts k =? t) l.

  Definition initialize_data (has_obs : bool) (rows : list row) : list row * list row :=
    let sorted := sort_by ts rows in
    let kept := filter (complete has_obs) sorted in
    let dropped := filter (fun r => negb (label_in kept (ts r))) sorted in
    (kept, dropped).

  (* ---- the masking statement (daily/model.py:315-317) ----
     MaskOff            what the unchanged code does: `dropped_rows[mask]["observed"] = np.nan` assigns into a
                        temporary copy, the frame that is returned is not touched
     MaskMissingTemp    the literal repair `dropped_rows.loc[dropped_rows["temperature"].isna(), "observed"] = np.nan`
     MaskNonFiniteTemp  the same with `~np.isfinite(temperature)` (also +-inf temperatures)
     MaskDropped        observed masked on every row that gets no prediction (the repair proposed for C07:
                        it is the one under which the full statement is a theorem) *)
  Inductive mask_policy := MaskOff | MaskMissingTemp | MaskNonFiniteTemp | MaskDropped.

  Definition mask_obs (pol : mask_policy) (r : row) : cell :=
    match pol with
    | MaskOff => obs r
    | MaskMissingTemp => if notna (temp r) then obs r else NaN
    | MaskNonFiniteTemp => if finite (temp r) then obs r else NaN
    | MaskDropped => NaN
    end.

  (* a frame without observed column has no observed values in the result either *)
  Definition out_obs (has_obs : bool) (c : cell) : cell := if has_obs then c else NaN.

  (* ---- _predict ---- *)
  Variable f : Z -> A -> A.    (* oracle: sub-model curve, by segment and finite temperature *)

  Definition predict_kept (has_obs : bool) (r : row) : orow :=
    mkorow (ts r) (seg r) (temp r) (out_obs has_obs (obs r))
           (match temp r with V t => V (f (seg r) t) | _ => NaN end).

  Definition carry_dropped (pol : mask_policy) (has_obs : bool) (r : row) : orow :=
    mkorow (ts r) (seg r) (temp r) (out_obs has_obs (mask_obs pol r)) NaN.

  Definition predict_rows (pol : mask_policy) (has_obs : bool) (rows : list row) : list orow :=
    let '(kept, dropped) := initialize_data has_obs rows in
    sort_by o_ts (map (predict_kept has_obs) kept ++ map (carry_dropped pol has_obs) dropped).

  (* the unchanged code and the repaired code *)
  Definition predict_rows_as_coded := predict_rows MaskOff.
  Definition predict_rows_repaired := predict_rows MaskDropped.

  (* ---- the C07 statement, row-wise ---- *)
  Definition row_both_or_neither (o : orow) : bool := Bool.eqb (notna (o_obs o)) (notna (o_pred o)).
  Definition both_or_neither (out : list orow) : Prop := Forall (fun o => row_both_or_neither o = true) out.
End Rows.

Arguments V {A} a.
Arguments PInf {A}.
Arguments NInf {A}.
Arguments NaN {A}.
Arguments notna {A} c.
Arguments finite {A} c.
Arguments no_inf {A} c.
Arguments mkrow {A} ts seg temp obs.
Arguments ts {A} r.
Arguments seg {A} r.
Arguments temp {A} r.
Arguments obs {A} r.
Arguments mkorow {A} o_ts o_seg o_temp o_obs o_pred.
Arguments o_ts {A} o.
Arguments o_seg {A} o.
Arguments o_temp {A} o.
Arguments o_obs {A} o.
Arguments o_pred {A} o.
Arguments complete {A} has_obs r.
Arguments label_in {A} l t.
Arguments initialize_data {A} has_obs rows.
Arguments mask_obs {A} pol r.
Arguments out_obs {A} has_obs c.
Arguments predict_kept {A} f has_obs r.
Arguments carry_dropped {A} pol has_obs r.
Arguments predict_rows {A} f pol has_obs rows.
Arguments predict_rows_as_coded {A} f has_obs rows.
Arguments predict_rows_repaired {A} f has_obs rows.
Arguments row_both_or_neither {A} o.
Arguments both_or_neither {A} out.

(* ---------------------------------------------------------------- sums over Q cells *)
Open Scope Q_scope.
Definition qcell := cell Q.
(* Series.sum() skips NaN; with no +-inf present it is the sum of the finite cells *)
Definition cval (c : qcell) : Q := match c with V q => q | _ => 0 end.
Definition nansum (l : list qcell) : Q := fold_right (fun c acc => cval c + acc) 0 l.
(* row-wise savings  predicted - observed : NaN as soon as one side is missing *)
Definition savings (o : orow Q) : qcell :=
  match o_pred o, o_obs o with
  | V p, V b => V (p - b)
  | _, _ => NaN
  end.
