(* The structure of the hourly preparation pipeline as a TABLE, and the model of Model/HourlyPrep.v re-run from such a
   table.  The table is what harness/translate_hourlyprep.py reads from the source with `ast` on every run
   (coq/Generated/HourlyPrepGen.v):

     hourly/data.py  _set_data            order of the row-level steps (zero -> NaN, remove_duplicates) before
                                          _get_contiguous_datetime and _interpolate; the zero rule: which column, which
                                          comparison, which constant, whether it is guarded by is_electricity_data
     hourly/data.py  _get_contiguous_datetime   the clock hours of the first / last stamp, the frequency of the grid
     data_processor_utilities.py remove_duplicates   keep="first" | "last"
     hourly_interpolation.py interpolate  the row threshold under which the autocorrelation stage is skipped, the ORDER of
                                          the fall-back methods and the direction of the time method, the flag rule

   [prep_col_by p] interprets a table: threshold, fall-back order, keep policy, order of the row-level steps and flag rule
   are taken from it.  [accepted p] is the decidable condition under which Proofs/HourlyPrepTableProofs.v shows, for ALL
   inputs and estimators, [prep_col_by p = prep_col] — the frame every C17 theorem speaks about.  It is deliberately
   wider than "equal to today's table": orders of steps that provably do not matter are accepted. *)
From Coq Require Import ZArith List Bool.
From V Require Import Model.HourlyPrep.
Import ListNotations.
Open Scope Z_scope.

Inductive direction := LBoth | LForward | LBackward.
Inductive fallback := FTime (d : direction) | FFfill | FBfill.
Inductive keep := KeepFirst | KeepLast.
Inductive rstep := RZero | RDedup.
Inductive cmpop := CmpEq | CmpNe | CmpLt | CmpLe | CmpGt | CmpGe.
Inductive flag_rule := FlagMissingAndPresent | FlagMissing.

Record pipeline := mkpipeline {
  p_min_rows : Z;                 (* autocorrelation stage skipped when len(df) <= this *)
  p_fallbacks : list fallback;    (* for method in [...] *)
  p_keep : keep;
  p_row_steps : list rstep;       (* statements of _set_data before _get_contiguous_datetime, in source order *)
  p_then_contiguous_interpolate : bool;   (* ... followed by _get_contiguous_datetime and then _interpolate *)
  p_zero_col : colname; p_zero_op : cmpop; p_zero_const : Z; p_zero_guarded : bool;
  p_first_hour : Z; p_last_hour : Z; p_freq_minutes : Z;
  p_flag : flag_rule
}.

(* what Model/HourlyPrep.v hard-codes *)
Definition model_pipeline : pipeline :=
  mkpipeline AUTOCORR_MIN_ROWS [FTime LBoth; FFfill; FBfill] KeepFirst [RZero; RDedup] true
             Obs CmpEq 0 true 0 23 STEP FlagMissingAndPresent.

Definition direction_eqb (a b : direction) : bool :=
  match a, b with LBoth, LBoth | LForward, LForward | LBackward, LBackward => true | _, _ => false end.
Definition is_fill (f : fallback) : bool := match f with FTime _ => false | _ => true end.
Definition colname_eqb (a b : colname) : bool :=
  match a, b with Temp, Temp | Obs, Obs | Ghi, Ghi => true | _, _ => false end.

(* the tables for which the interpreted pipeline IS the model (proved):
   - same threshold, keep-first, the zero rule `observed == 0` under the electricity guard, hours 0 / 23 on a 60-minute
     grid, flag = was missing and is present;
   - the time method in both directions comes first; after it ffill / bfill in any order and number (they are idle);
   - zero rule and duplicate removal in either order. *)
Definition accepted (p : pipeline) : bool :=
  (p_min_rows p =? AUTOCORR_MIN_ROWS)
  && match p_fallbacks p with FTime LBoth :: rest => forallb is_fill rest | _ => false end
  && match p_keep p with KeepFirst => true | KeepLast => false end
  && match p_row_steps p with [RZero; RDedup] | [RDedup; RZero] => true | _ => false end
  && p_then_contiguous_interpolate p
  && colname_eqb (p_zero_col p) Obs && match p_zero_op p with CmpEq => true | _ => false end
  && (p_zero_const p =? 0) && p_zero_guarded p
  && (p_first_hour p =? 0) && (p_last_hour p =? 23) && (p_freq_minutes p =? STEP)
  && match p_flag p with FlagMissingAndPresent => true | FlagMissing => false end.

Section ByTable.
  Variable A : Type.
  Variable is_zero : A -> bool.
  Variable lin : A -> A -> Z -> Z -> A.
  Variable est : colname -> col A -> col A.

  Definition apply_fallback (f : fallback) (x : col A) : col A :=
    match f with
    | FTime LBoth => time_linear lin x
    | FTime _ => x                     (* one-directional variants are outside the model; never [accepted] *)
    | FFfill => ffill x
    | FBfill => bfill x
    end.
  (* for method in [...]: if nothing is missing: break; otherwise apply the method *)
  Definition fallbacks_by (l : list fallback) (x : col A) : col A :=
    fold_left (fun x f => if has_missing x then apply_fallback f x else x) l x.

  Definition autocorr_stage_by (min_rows : Z) (c : colname) (x : col A) : col A :=
    if min_rows <? Z.of_nat (length x) then merge_fill x (est c x) else x.

  Definition dedup_by (k : keep) (rows : list (row A)) : list (row A) :=
    match k with
    | KeepFirst => remove_duplicates rows
    | KeepLast => rev (remove_duplicates (rev rows))
    end.

  Definition row_step (elec : bool) (k : keep) (s : rstep) (rows : list (row A)) : list (row A) :=
    match s with
    | RZero => map (zero_to_nan is_zero elec) rows
    | RDedup => dedup_by k rows
    end.

  Definition flags_by (r : flag_rule) (x y : col A) : list bool :=
    match r with
    | FlagMissingAndPresent => flags x y
    | FlagMissing => map (fun a : cell A => missing a) x
    end.

  Definition prep_col_range_by (p : pipeline) (elec : bool) (lo hi : Z) (rows : list (row A)) (c : colname) : out_col A :=
    let g := grid lo hi in
    let rows' := fold_left (fun rs s => row_step elec (p_keep p) s rs) (p_row_steps p) rows in
    let x := map (get c) (reindex g rows') in
    let y := fallbacks_by (p_fallbacks p) (autocorr_stage_by (p_min_rows p) c x) in
    combine (combine g y) (flags_by (p_flag p) x y).

  Definition prep_col_by (p : pipeline) (elec : bool) (bnds : list Z) (e : edges) (rows : list (row A)) (c : colname) : out_col A :=
    let '(lo, hi) := frame_range bnds e rows in prep_col_range_by p elec lo hi rows c.
End ByTable.

Arguments apply_fallback {A} lin f x.
Arguments fallbacks_by {A} lin l x.
Arguments autocorr_stage_by {A} est min_rows c x.
Arguments dedup_by {A} k rows.
Arguments row_step {A} is_zero elec k s rows.
Arguments flags_by {A} r x y.
Arguments prep_col_range_by {A} is_zero lin est p elec lo hi rows c.
Arguments prep_col_by {A} is_zero lin est p elec bnds e rows c.
