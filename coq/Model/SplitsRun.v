(* Executable comparisons used by the C13 correspondence (harness/c13.py). *)
From Coq Require Import ZArith List Bool String QArith.
From V Require Import Model.CasesLib Model.Splits Generated.SplitsGen.
Import ListNotations.
Open Scope list_scope.

(* the seasonal options read from the code; [] (every comparison then fails) if they do not parse *)
Definition gen_opts : list (list sgroup) :=
  match parse_options seasonal_options with Some o => o | None => [] end.

Definition str_list_eqb (a b : list string) : bool := CasesLib.list_eqb String.eqb a b.

(* _combinations(): (settings flags, ellipsoid filter outcome, season map, weekday map, histogram of
   the days of df_meter, the texts the implementation returned) *)
Definition trim_case : Type := (flags * option flags * list sname * list dname * hist * list string)%type.
Definition route_case : Type := (string * list sname * list dname * list (Z * Z * list string))%type.
Definition best_case : Type := (list (string * xr) * option string)%type.

Definition check_trim (c : trim_case) : bool :=
  let '(f, g, sm, wm, h, expected) := c in
  str_list_eqb (combinations gen_opts f g (lookup_s sm) (lookup_d wm) h) expected.

(* the same with the model's candidate list computed once per cases file
   (cands := Eval vm_compute in candidates gen_opts, in the prelude the harness writes) *)
Definition check_trim_with (cands : list split) (c : trim_case) : bool :=
  let '(f, g, sm, wm, h, expected) := c in
  let f' := match g with Some g' => flags_and f g' | None => f end in
  str_list_eqb (map print_split (trim f' (counts_of (lookup_s sm) (lookup_d wm) h) cands)) expected.

(* predict()['model_split']: the keys of the stored sub-models (joined by "__"), the maps, and for
   every (month, day-of-week) cell the sorted distinct model_split texts observed on its dates.
   The model slices the key text the way _meter_segment does. *)
Definition receivers_str (keys : list string) (sm : Z -> sname) (wm : Z -> dname) (month dow : Z)
  : option (list string) :=
  match all_some (map (fun k => match meter_segment_str k sm wm month dow with
                                | Some b => Some (k, b) | None => None end) keys) with
  | Some l => Some (map fst (filter (fun kb : string * bool => snd kb) l))
  | None => None
  end.

Definition check_route (c : route_case) : bool :=
  let '(text, sm, wm, obs) := c in
  let keys := split_dus text in
  forallb (fun e : Z * Z * list string =>
             let '(month, dow, seen) := e in
             match receivers_str keys (lookup_s sm) (lookup_d wm) month dow with
             | Some l => str_list_eqb (sort_strings l) seen
             | None => false
             end) obs.

(* the same through the structured parser; used to show that both readings agree on the cases *)
Definition check_route_parsed (c : route_case) : bool :=
  let '(text, sm, wm, obs) := c in
  match parse_split text with
  | None => false
  | Some s =>
      forallb (fun e : Z * Z * list string =>
                 let '(month, dow, seen) := e in
                 str_list_eqb (sort_strings (map print_comp (receivers s (lookup_s sm) (lookup_d wm) month dow))) seen)
              obs
  end.

Definition check_route_both (c : route_case) : bool := check_route c && check_route_parsed c.

(* a binary64 value m * 2^e as an exact extended rational (the harness writes every finite criterion
   this way: small literals instead of decimal fractions with hundreds of digits) *)
Definition xdy (m e : Z) : xr :=
  if (0 <=? e)%Z then XFin (Z.shiftl m e # 1)
  else XFin (m # Z.to_pos (Z.shiftl 1 (- e))).

(* _best_combination on a table of criteria *)
Definition check_best (c : best_case) : bool :=
  let '(l, expected) := c in opt_eqb String.eqb (best_x l) expected.
