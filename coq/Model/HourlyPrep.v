(* Model of the hourly data classes' preparation:
     opendsm/eemeter/models/hourly/data.py      _HourlyData._set_data  (zero -> NaN for electricity,
                                                remove_duplicates, _get_contiguous_datetime, _interpolate),
                                                _create_sufficiency_df
     opendsm/eemeter/common/data_processor_utilities.py   remove_duplicates (keep="first")
     opendsm/common/hourly_interpolation.py     interpolate (autocorrelation stage, then time / ffill / bfill,
                                                flag := was missing and now present)

   Executable definitions only; lemmas are in Proofs/HourlyPrepProofs.v, theorems in Properties/C17.v.

   Time stamps are integers: minutes since the Unix epoch (UTC).  The frame the code builds has one row per
   absolute hour, i.e. a step of [STEP] = 60 minutes from its first stamp (pd.date_range(start, end, freq="h")).
   The local calendar is data (DESIGN 3.3): [bnds] is the ascending list of the UTC minutes at which a local
   day starts (read from the tz database by the harness, not by pandas).  DST days are simply days whose
   boundaries are 23 or 25 steps apart.

   A cell is [option A] ([None] = NaN / absent).  The payload [A] is abstract in the theorems (with the test
   "is zero" and the linear interpolation function [lin] the time-method needs) and Q in the correspondence.

   What is an oracle: the value choice of the autocorrelation imputer (_interpolate_col) — [est], an ARBITRARY
   function from the column (and its name) to a proposed column.  The model only uses it through
   [merge_fill]: a proposed value is taken at positions that are missing, never elsewhere.  This is what the
   code does (x.loc[nan_series_idx] = ... with nan_series_idx drawn from x.index[x.isna()] on a unique index)
   and it is re-checked on every sampled execution by the harness (the column handed to and returned by
   _interpolate_col are recorded and compared).

   Two readings of the first / last stamp of the frame:
     as coded   earliest.replace(hour=0) / latest.replace(hour=23) keep the `fold` of the stamp they start from:
                on a day whose 00:00 occurs twice (clock put back at 01:00, America/Havana) a first supplied stamp
                that is the *second* 00:00 makes the frame start there ([lo_fwd] = 60 instead of 0); on a day whose
                23:00 occurs twice (clock put back at 24:00, America/Santiago, Asia/Beirut, America/Sao_Paulo) a last
                supplied stamp other than the *second* 23:00 makes the frame end at the first 23:00 ([hi_back] = 120
                instead of 60).  A day whose last clock hour is cut short (Asia/Pyongyang 2018-05-04, 23:30 -> 00:00)
                has [hi_back] = 30.
     whole days [no_skip]: from the first minute of the first supplied local day to the last hour of the last one.
   [edges] says which situation the input is in (computed by the harness from the tz database, not by pandas). *)
From Coq Require Import ZArith List Bool FMapPositive.
Import ListNotations.
Open Scope Z_scope.

Inductive colname := Temp | Obs | Ghi.

Definition STEP : Z := 60.
(* interpolate(): the autocorrelation stage is skipped when len(df) <= 3 * 24 *)
Definition AUTOCORR_MIN_ROWS : Z := 72.

Definition present {B} (o : option B) : bool := match o with Some _ => true | None => false end.
Definition missing {B} (o : option B) : bool := negb (present o).

(* [lo_fwd]: minutes from the start of the first supplied local day to the stamp earliest.replace(hour=0) denotes;
   [hi_back]: minutes from the stamp latest.replace(hour=23) denotes to the start of the following local day *)
Record edges := mkedges { lo_fwd : Z; hi_back : Z }.
Definition no_skip : edges := mkedges 0 STEP.

(* ------------------------------------------------------------------ local days *)
(* start of the local day that contains t: the last boundary <= t (bnds ascending) *)
Fixpoint day_start (bnds : list Z) (t cur : Z) : Z :=
  match bnds with
  | [] => cur
  | b :: rest => if b <=? t then day_start rest t b else cur
  end.
(* start of the local day after the one that contains t: the first boundary > t *)
Fixpoint day_next (bnds : list Z) (t dflt : Z) : Z :=
  match bnds with
  | [] => dflt
  | b :: rest => if t <? b then b else day_next rest t dflt
  end.

(* first and last stamp of the frame: local 00:00 of the first supplied day, local 23:00 of the last *)
Definition day_range (bnds : list Z) (e : edges) (tmin tmax : Z) : Z * Z :=
  (day_start bnds tmin tmin + lo_fwd e, day_next bnds tmax (tmax + STEP) - hi_back e).

Fixpoint grid_from (n : nat) (t : Z) : list Z :=
  match n with O => [] | S n' => t :: grid_from n' (t + STEP) end.
(* pd.date_range(lo, hi, freq="h"): lo, lo+1h, ... while <= hi *)
Definition grid (lo hi : Z) : list Z := grid_from (Z.to_nat ((hi - lo) / STEP + 1)) lo.

Section Prep.
  Variable A : Type.
  Variable is_zero : A -> bool.
  (* value of the straight line through (0, v0) and (d0 + d1, v1) at d0 *)
  Variable lin : A -> A -> Z -> Z -> A.

  Definition cell := option A.
  Definition col := list cell.
  Record row := mkrow { ts : Z; r_temp : cell; r_obs : cell; r_ghi : cell }.
  Definition get (c : colname) (r : row) : cell :=
    match c with Temp => r_temp r | Obs => r_obs r | Ghi => r_ghi r end.
  Definition blank_row (t : Z) : row := mkrow t None None None.

  (* ---- df.loc[df["observed"] == 0, "observed"] = np.nan   (electricity only) ---- *)
  Definition zero_cell (elec : bool) (c : cell) : cell :=
    match c with
    | Some v => if elec && is_zero v then None else Some v
    | None => None
    end.
  Definition zero_to_nan (elec : bool) (r : row) : row :=
    mkrow (ts r) (r_temp r) (zero_cell elec (r_obs r)) (r_ghi r).

  (* ---- remove_duplicates: df[~df.index.duplicated(keep="first")] ---- *)
  Fixpoint remove_dups_from (seen : list Z) (l : list row) : list row :=
    match l with
    | [] => []
    | r :: l' => if existsb (Z.eqb (ts r)) seen then remove_dups_from seen l'
                 else r :: remove_dups_from (ts r :: seen) l'
    end.
  Definition remove_duplicates (l : list row) : list row := remove_dups_from [] l.

  (* ---- _get_contiguous_datetime: df.reindex(complete_dt) ---- *)
  Definition lookup (t : Z) (rows : list row) : option row := find (fun r => ts r =? t) rows.
  Definition reindex (g : list Z) (rows : list row) : list row :=
    map (fun t => match lookup t rows with Some r => r | None => blank_row t end) g.

  Definition ts_min (r : row) (rest : list row) : Z := fold_left (fun m x => Z.min m (ts x)) rest (ts r).
  Definition ts_max (r : row) (rest : list row) : Z := fold_left (fun m x => Z.max m (ts x)) rest (ts r).

  (* ---- interpolate() on one column ---- *)
  (* the autocorrelation stage may write a cell only where it is missing *)
  Fixpoint merge_fill (x e : col) : col :=
    match x with
    | [] => []
    | xi :: x' => (if present xi then xi else hd None e) :: merge_fill x' (tl e)
    end.
  Variable est : colname -> col -> col.     (* oracle: the imputer's proposal, arbitrary *)
  Definition autocorr_stage (c : colname) (x : col) : col :=
    if AUTOCORR_MIN_ROWS <? Z.of_nat (length x) then merge_fill x (est c x) else x.

  (* Series.interpolate(method="time", limit_direction="both") on an equally spaced index:
     linear between the neighbouring values, the nearest value outside them, nothing on an empty column.
     [ann] pairs every cell with the next value at or after it (distance, value); [tl_fwd] walks forward
     carrying the previous value and its distance. *)
  Fixpoint ann (l : col) : list (cell * option (Z * A)) * option (Z * A) :=
    match l with
    | [] => ([], None)
    | c :: l' =>
        let '(r, nx) := ann l' in
        let here := match c with Some v => Some (0, v) | None => nx end in
        ((c, here) :: r, match here with Some (d, v) => Some (d + 1, v) | None => None end)
    end.
  Fixpoint tl_fwd (prev : option (Z * A)) (l : list (cell * option (Z * A))) : col :=
    match l with
    | [] => []
    | (Some v, _) :: l' => Some v :: tl_fwd (Some (1, v)) l'
    | (None, nx) :: l' =>
        (match prev, nx with
         | Some (d0, v0), Some (d1, v1) => Some (lin v0 v1 d0 d1)
         | Some (_, v0), None => Some v0
         | None, Some (_, v1) => Some v1
         | None, None => None
         end)
        :: tl_fwd (match prev with Some (d0, v0) => Some (d0 + 1, v0) | None => None end) l'
    end.
  Definition time_linear (x : col) : col := tl_fwd None (fst (ann x)).

  Fixpoint ffill_from (prev : cell) (l : col) : col :=
    match l with
    | [] => []
    | Some v :: l' => Some v :: ffill_from (Some v) l'
    | None :: l' => prev :: ffill_from prev l'
    end.
  Definition ffill (x : col) : col := ffill_from None x.
  Fixpoint bfill (l : col) : col :=
    match l with
    | [] => []
    | c :: l' => let r := bfill l' in (if present c then c else hd None r) :: r
    end.

  Definition has_missing (x : col) : bool := existsb missing x.
  (* for method in ["time", "ffill", "bfill"]: stop as soon as nothing is missing *)
  Definition fallbacks (x : col) : col :=
    let x1 := if has_missing x then time_linear x else x in
    let x2 := if has_missing x1 then ffill x1 else x1 in
    if has_missing x2 then bfill x2 else x2.
  Definition interp_col (c : colname) (x : col) : col := fallbacks (autocorr_stage c x).
  (* df.loc[df.index.isin(idx_missing) & ~df[col].isna(), interpolated_<col>] = True *)
  Definition flags (x y : col) : list bool :=
    map (fun p => missing (fst p) && present (snd p)) (combine x y).

  (* ---- the prepared frame, one column at a time: (stamp, value, interpolated_<col>) ---- *)
  Definition out_col := list (Z * cell * bool).
  Definition prep_col_range (elec : bool) (lo hi : Z) (rows : list row) (c : colname) : out_col :=
    let g := grid lo hi in
    let x := map (get c) (reindex g (remove_duplicates (map (zero_to_nan elec) rows))) in
    let y := interp_col c x in
    combine (combine g y) (flags x y).

  Definition frame_range (bnds : list Z) (e : edges) (rows : list row) : Z * Z :=
    match rows with
    | [] => (0, -1)
    | r :: rest => day_range bnds e (ts_min r rest) (ts_max r rest)
    end.
  Definition prep_col (elec : bool) (bnds : list Z) (e : edges) (rows : list row) (c : colname) : out_col :=
    let '(lo, hi) := frame_range bnds e rows in prep_col_range elec lo hi rows c.

  (* what the caller supplied for stamp t in column c: the first row carrying that stamp, zero electricity
     readings being treated as missing *)
  Definition supplied (elec : bool) (rows : list row) (t : Z) (c : colname) : cell :=
    match lookup t rows with
    | Some r => get c (zero_to_nan elec r)
    | None => None
    end.

  (* ---- _create_sufficiency_df: df.loc[df["interpolated_<col>"] == 1, col] = np.nan ---- *)
  Definition sufficiency_col (o : out_col) : list (Z * cell) :=
    map (fun p : Z * cell * bool => (fst (fst p), if snd p then None else snd (fst p))) o.

  (* ---- the same frame computed through a finite map (what the correspondence executes: reindex through
     [find] is quadratic); Proofs/HourlyPrepProofs.v shows the two agree ---- *)
  Definition key (lo t : Z) : positive := Z.to_pos (t - lo + 1).
  Definition index_rows (lo : Z) (rows : list row) : PositiveMap.t row :=
    fold_left (fun m r =>
                 if ts r <? lo then m
                 else if PositiveMap.mem (key lo (ts r)) m then m
                 else PositiveMap.add (key lo (ts r)) r m)
              rows (PositiveMap.empty row).
  Definition reindex_fast (lo : Z) (g : list Z) (rows : list row) : list row :=
    let m := index_rows lo rows in
    map (fun t => match PositiveMap.find (key lo t) m with Some r => r | None => blank_row t end) g.
  Definition prep_col_range_fast (elec : bool) (lo hi : Z) (rows : list row) (c : colname) : out_col :=
    let g := grid lo hi in
    let x := map (get c) (reindex_fast lo g (map (zero_to_nan elec) rows)) in
    let y := interp_col c x in
    combine (combine g y) (flags x y).
  Definition prep_col_fast (elec : bool) (bnds : list Z) (e : edges) (rows : list row) (c : colname) : out_col :=
    let '(lo, hi) := frame_range bnds e rows in prep_col_range_fast elec lo hi rows c.
End Prep.

Arguments mkrow {A} ts r_temp r_obs r_ghi.
Arguments ts {A} r.
Arguments r_temp {A} r.
Arguments r_obs {A} r.
Arguments r_ghi {A} r.
Arguments get {A} c r.
Arguments blank_row {A} t.
Arguments zero_cell {A} is_zero elec c.
Arguments zero_to_nan {A} is_zero elec r.
Arguments remove_dups_from {A} seen l.
Arguments remove_duplicates {A} l.
Arguments lookup {A} t rows.
Arguments reindex {A} g rows.
Arguments ts_min {A} r rest.
Arguments ts_max {A} r rest.
Arguments merge_fill {A} x e.
Arguments autocorr_stage {A} est c x.
Arguments ann {A} l.
Arguments tl_fwd {A} lin prev l.
Arguments time_linear {A} lin x.
Arguments ffill_from {A} prev l.
Arguments ffill {A} x.
Arguments bfill {A} l.
Arguments has_missing {A} x.
Arguments fallbacks {A} lin x.
Arguments interp_col {A} lin est c x.
Arguments flags {A} x y.
Arguments prep_col_range {A} is_zero lin est elec lo hi rows c.
Arguments frame_range {A} bnds e rows.
Arguments prep_col {A} is_zero lin est elec bnds e rows c.
Arguments supplied {A} is_zero elec rows t c.
Arguments sufficiency_col {A} o.
Arguments index_rows {A} lo rows.
Arguments reindex_fast {A} lo g rows.
Arguments prep_col_range_fast {A} is_zero lin est elec lo hi rows c.
Arguments prep_col_fast {A} is_zero lin est elec bnds e rows c.
