(* Real-number instance of the numeric dictionary (theorem side).
   [RNumOf lo hi] leaves the two exp-clip bounds open, so that theorems can be stated for every pair
   [lo <= 0 <= hi]; [RNum] fixes them to the exact rational values of the package's two binary64
   constants (the harness compares them with float.as_integer_ratio() of the constants on every run). *)
From Coq Require Import Reals.
From V Require Import Model.Num.
Local Open Scope R_scope.

Definition Rltb (a b : R) : bool := if Rlt_dec a b then true else false.
Definition Rleb (a b : R) : bool := if Rle_dec a b then true else false.
Definition Reqb (a b : R) : bool := if Req_EM_T a b then true else false.

Definition RNumOf (lo hi : R) : num := {|
  carrier := R;
  n_zero := 0;
  n_one := 1;
  n_add := Rplus; n_sub := Rminus; n_mul := Rmult; n_div := Rdiv;
  n_opp := Ropp; n_abs := Rabs;
  n_ltb := Rltb; n_leb := Rleb; n_eqb := Reqb;
  n_exp := exp;
  n_ln_min := lo;
  n_ln_max := hi
|}.

(* -0x1.4b2c1fad0922dp+8 and 0x1.4bdd91c500f4ap+8 as exact fractions *)
Definition R_ln_min : R := - (5826045740618285 / 17592186044416).
Definition R_ln_max : R := 2919119857387429 / 8796093022208.

Definition RNum : num := RNumOf R_ln_min R_ln_max.

Lemma Rltb_true : forall a b, Rltb a b = true <-> a < b.
Proof. intros a b; unfold Rltb; destruct (Rlt_dec a b); split; intros; auto; discriminate. Qed.
Lemma Rltb_false : forall a b, Rltb a b = false <-> b <= a.
Proof.
  intros a b; unfold Rltb; destruct (Rlt_dec a b) as [H|H]; split; intros H0; auto.
  - discriminate.
  - exfalso. apply (Rlt_irrefl a). apply Rlt_le_trans with b; assumption.
  - apply Rnot_lt_le. exact H.
Qed.
Lemma Rleb_true : forall a b, Rleb a b = true <-> a <= b.
Proof. intros a b; unfold Rleb; destruct (Rle_dec a b); split; intros; auto; discriminate. Qed.
Lemma Rleb_false : forall a b, Rleb a b = false <-> b < a.
Proof.
  intros a b; unfold Rleb; destruct (Rle_dec a b) as [H|H]; split; intros H0; auto.
  - discriminate.
  - exfalso. apply (Rlt_irrefl a). apply Rle_lt_trans with b; assumption.
  - apply Rnot_le_lt. exact H.
Qed.
Lemma Reqb_true : forall a b, Reqb a b = true <-> a = b.
Proof. intros a b; unfold Reqb; destruct (Req_EM_T a b); split; intros; auto; discriminate. Qed.
Lemma Reqb_false : forall a b, Reqb a b = false <-> a <> b.
Proof. intros a b; unfold Reqb; destruct (Req_EM_T a b); split; intros; auto; try discriminate; contradiction. Qed.

Lemma R_ln_bounds : R_ln_min <= 0 <= R_ln_max.
Proof.
  unfold R_ln_min, R_ln_max. split.
  - apply Ropp_le_cancel. rewrite Ropp_0, Ropp_involutive.
    apply Rlt_le, Rdiv_lt_0_compat; apply IZR_lt; reflexivity.
  - apply Rlt_le, Rdiv_lt_0_compat; apply IZR_lt; reflexivity.
Qed.
