(* Model of the disqualification gate of DailyModel / BillingModel / HourlyModel:
   fit(), predict(), to_json()/from_json() as a life-cycle state machine (C04, and the
   aliasing-free part of C02).  The numeric fit is an oracle: [poor d] says whether fitting
   data [d] ends in the poor-fit disqualification.  Names and time zones are integers (ids). *)
From Coq Require Import ZArith List Bool.
Import ListNotations.
Open Scope Z_scope.

Inductive family := Daily | Billing | Hourly.

(* what kind of Python object is handed to fit / predict *)
Inductive dkind :=
| Baseline (f : family)      (* DailyBaselineData / BillingBaselineData / HourlyBaselineData *)
| Reporting (f : family)
| Raw.                       (* anything without .tz / .df / .disqualification, e.g. a DataFrame *)

Record dobj := {
  d_id : Z;                  (* identity of the underlying dataset (only the poor-fit oracle looks at it) *)
  d_kind : dkind;
  d_dq : list Z;             (* qualified names of the data object's disqualifications *)
  d_tz : Z;
  d_ghi : bool               (* the frame has a ghi column *)
}.

Record mstate := {
  fitted : bool;
  m_dq : list Z;
  m_tz : Z;
  m_ghi : bool;              (* the model's feature list contains ghi *)
  m_reloaded : bool          (* the object came from from_json and has not been fitted since (bookkeeping only:
                                since /repo 4e082e66 a reloaded hourly object can be fitted again like any other) *)
}.

Inductive exn :=
| TypeErr | DataSufficiency | RuntimeErr | Disqualified | ValueTz | ValueMissingFeature | AttrErr.

Inductive outcome := Frame | Fitted | Err (e : exn).

Definition family_eqb (a b : family) : bool :=
  match a, b with Daily, Daily | Billing, Billing | Hourly, Hourly => true | _, _ => false end.

Definition is_baseline_of (f : family) (k : dkind) : bool :=
  match k with Baseline g => family_eqb f g | _ => false end.
Definition is_data_of (f : family) (k : dkind) : bool :=
  match k with Baseline g | Reporting g => family_eqb f g | Raw => false end.
Definition has_attrs (k : dkind) : bool := match k with Raw => false | _ => true end.

Definition nonempty {A} (l : list A) : bool := match l with [] => false | _ => true end.

Definition POOR_FIT : Z := -1.

Definition unfitted (ghi_explicit : bool) : mstate :=
  {| fitted := false; m_dq := []; m_tz := 0; m_ghi := ghi_explicit; m_reloaded := false |}.

Section Gate.
  (* oracle: does the numeric fit of this data miss the goodness-of-fit thresholds *)
  Variable poor : dobj -> bool.

  Definition fit (f : family) (s : mstate) (d : dobj) (ignore : bool) : mstate * outcome :=
    if negb (is_baseline_of f (d_kind d)) then (s, Err TypeErr)
    else if nonempty (d_dq d) && negb ignore then (s, Err DataSufficiency)
    else if family_eqb f Hourly && m_ghi s && negb (d_ghi d) then (s, Err ValueMissingFeature)
    else
      ({| fitted := true;
          m_dq := d_dq d ++ (if poor d then [POOR_FIT] else []);
          m_tz := d_tz d;
          m_ghi := if fitted s then m_ghi s else (m_ghi s || (family_eqb f Hourly && d_ghi d));
          m_reloaded := false |},
       Fitted).

  (* guard order per family, as coded *)
  Definition predict (f : family) (s : mstate) (d : dobj) (ignore : bool) : outcome :=
    match f with
    | Daily =>
        if negb (fitted s) then Err RuntimeErr
        else if nonempty (m_dq s) && negb ignore then Err Disqualified
        else if negb (has_attrs (d_kind d)) then Err AttrErr
        else if negb (m_tz s =? d_tz d) then Err ValueTz
        else if negb (is_data_of Daily (d_kind d)) then Err TypeErr
        else Frame
    | Billing =>
        if negb (fitted s) then Err RuntimeErr
        else if nonempty (m_dq s) && negb ignore then Err Disqualified
        else if negb (is_data_of Billing (d_kind d)) then Err TypeErr
        else if negb (m_tz s =? d_tz d) then Err ValueTz
        else Frame
    | Hourly =>
        if negb (fitted s) then Err RuntimeErr
        else if negb (has_attrs (d_kind d)) then Err AttrErr
        else if m_ghi s && negb (d_ghi d) then Err ValueMissingFeature
        else if negb (m_tz s =? d_tz d) then Err ValueTz
        else if nonempty (m_dq s) && negb ignore then Err Disqualified
        else if negb (is_data_of Hourly (d_kind d)) then Err TypeErr
        else Frame
    end.

  (* to_json . from_json : the stored document keeps names of disqualifications, time zone, features *)
  Definition reload (s : mstate) : mstate :=
    {| fitted := true; m_dq := m_dq s; m_tz := m_tz s; m_ghi := m_ghi s; m_reloaded := true |}.

  Inductive op :=
  | OFit (d : dobj) (ignore : bool)
  | OPredict (d : dobj) (ignore : bool)
  | OReload.                   (* replace the object by from_json(to_json(object)); needs a fitted object *)

  Definition step (f : family) (s : mstate) (o : op) : mstate * option outcome :=
    match o with
    | OFit d i => let '(s', r) := fit f s d i in (s', Some r)
    | OPredict d i => (s, Some (predict f s d i))
    | OReload => if fitted s then (reload s, None) else (s, None)
    end.

  Fixpoint run (f : family) (s : mstate) (ops : list op) : mstate * list (option outcome) :=
    match ops with
    | [] => (s, [])
    | o :: rest =>
        let '(s', r) := step f s o in
        let '(s'', rs) := run f s' rest in (s'', r :: rs)
    end.
End Gate.

(* ------------------------------------------------------------------------------------------------
   The guard prefix of fit() / predict() as a LIST in source order.  coq/Generated/GateGen.v holds the
   lists read from /repo's source on every run (harness/translate_gate.py); Properties/C04.v proves that
   [fit] and [predict] above are their interpretation.  A guard that reads an attribute of the data object
   (.tz, .df) raises AttributeError on an object without these attributes. *)
Inductive pguard :=
| PUnfitted      (* if not self.is_fitted: raise RuntimeError *)
| PDisq          (* if self.disqualification and not ignore_disqualification: raise DisqualifiedModelError *)
| PTz            (* if str(self.baseline_timezone) != str(reporting_data.tz): raise ValueError *)
| PType          (* if not isinstance(reporting_data, (<family baseline>, <family reporting>)): raise TypeError *)
| PFeature       (* if set(self._ts_features) - set(reporting_data.df.columns): raise ValueError *)
| PTouch.        (* a block that reads reporting_data.<attr> and raises nothing itself *)

Inductive fguard :=
| FType          (* if not isinstance(baseline_data, <family baseline>): raise TypeError *)
| FDisq          (* if baseline_data.disqualification and not ignore_disqualification: raise DataSufficiencyError *)
| FFeature.      (* if "ghi" in self._ts_features and "ghi" not in baseline_data.df.columns: raise ValueError *)

Fixpoint interp_predict (f : family) (gs : list pguard) (s : mstate) (d : dobj) (ignore : bool) : outcome :=
  match gs with
  | [] => Frame
  | g :: r =>
      match g with
      | PUnfitted => if negb (fitted s) then Err RuntimeErr else interp_predict f r s d ignore
      | PDisq => if nonempty (m_dq s) && negb ignore then Err Disqualified else interp_predict f r s d ignore
      | PTz => if negb (has_attrs (d_kind d)) then Err AttrErr
               else if negb (m_tz s =? d_tz d) then Err ValueTz else interp_predict f r s d ignore
      | PType => if negb (is_data_of f (d_kind d)) then Err TypeErr else interp_predict f r s d ignore
      | PFeature => if negb (has_attrs (d_kind d)) then Err AttrErr
                    else if m_ghi s && negb (d_ghi d) then Err ValueMissingFeature else interp_predict f r s d ignore
      | PTouch => if negb (has_attrs (d_kind d)) then Err AttrErr else interp_predict f r s d ignore
      end
  end.

Fixpoint interp_fit (f : family) (gs : list fguard) (s : mstate) (d : dobj) (ignore : bool) : option exn :=
  match gs with
  | [] => None
  | g :: r =>
      match g with
      | FType => if negb (is_baseline_of f (d_kind d)) then Some TypeErr else interp_fit f r s d ignore
      | FDisq => if nonempty (d_dq d) && negb ignore then Some DataSufficiency else interp_fit f r s d ignore
      | FFeature => if m_ghi s && negb (d_ghi d) then Some ValueMissingFeature else interp_fit f r s d ignore
      end
  end.
