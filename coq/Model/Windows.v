(* Model of opendsm/eemeter/common/transform.py: get_baseline_data / get_reporting_data.
   Timestamps are integers (nanoseconds since the epoch in the correspondence), a row carries
   its cells as [option Z] ([None] = NaN).  The index is assumed sorted and duplicate free
   where a theorem needs it (stated there); the functions themselves are total. *)
From Coq Require Import ZArith List Bool.
Import ListNotations.
Open Scope Z_scope.

Definition row := (Z * list (option Z))%type.
Definition ts (r : row) : Z := fst r.
Definition is_some {A} (o : option A) : bool := match o with Some _ => true | None => false end.
Definition complete (r : row) : bool := forallb is_some (snd r).
Definition blank (r : row) : row := (fst r, map (fun _ => None) (snd r)).

(* label slices of a sorted index: data[:e] and data[s:] (both ends inclusive in pandas) *)
Definition slice_to (e : Z) (d : list row) : list row := filter (fun r => ts r <=? e) d.
Definition slice_from (s : Z) (d : list row) : list row := filter (fun r => s <=? ts r) d.

Fixpoint blank_last (d : list row) : list row :=
  match d with
  | [] => []
  | [r] => [blank r]
  | r :: rest => r :: blank_last rest
  end.

Fixpoint last_ts (d : list row) (dflt : Z) : Z :=
  match d with [] => dflt | r :: rest => last_ts rest (ts r) end.
Definition first_ts (d : list row) (dflt : Z) : Z :=
  match d with [] => dflt | r :: _ => ts r end.

(* Index.get_indexer([t], method="nearest") on an increasing index:
   pad candidate = last label <= t, backfill candidate = first label >= t,
   the left one wins only on a strictly smaller distance (ties go right). *)
Definition pad (d : list row) (t : Z) : option Z :=
  match slice_to t d with [] => None | l => Some (last_ts l 0) end.
Definition backfill (d : list row) (t : Z) : option Z :=
  match slice_from t d with [] => None | r :: _ => Some (ts r) end.
Definition nearest (d : list row) (t : Z) : option Z :=
  match pad d t, backfill d t with
  | Some l, Some r => if (t - l) <? (r - t) then Some l else Some r
  | Some l, None => Some l
  | None, Some r => Some r
  | None, None => None
  end.

Definition DAY : Z := 86400 * 1000000000.

Inductive result :=
| Ok (rows : list row) (warn_end warn_start : bool)
| ErrNoData
| ErrValue.

Record bopts := {
  b_start : option Z;            (* None = unbounded *)
  b_end : option Z;
  b_max_days : option Z;
  b_overshoot : bool;            (* allow_billing_period_overshoot *)
  b_n_over : option Z;           (* n_days_billing_period_overshoot *)
  b_ignore_gap : bool            (* ignore_billing_period_gap_for_day_count *)
}.

Definition all_missing (d : list row) : bool := forallb (fun r => negb (complete r)) d.

Definition opt_ltb (a : Z) (b : option Z) (dflt : bool) : bool :=
  match b with Some x => a <? x | None => dflt end.

(* the effective end of the baseline: the requested end, or the last reading at or before it
   when ignore_billing_period_gap_for_day_count applies *)
Definition baseline_end_limit (o : bopts) (before : list row) : option Z :=
  match b_end o with
  | None => None
  | Some e =>
      let data_end := last_ts before e in
      if b_ignore_gap o &&
         (match b_n_over o with None => true | Some n => (e - n * DAY) <? data_end end)
      then Some data_end else Some e
  end.

Definition baseline_start_target (o : bopts) (before : list row) : option Z :=
  match baseline_end_limit o before, b_max_days o with
  | Some e, Some m => Some (e - m * DAY)
  | _, _ => b_start o
  end.

Definition get_baseline_data (o : bopts) (data : list row) : result :=
  match b_max_days o, b_start o with
  | Some _, Some _ => ErrValue
  | _, _ =>
    let before := match b_end o with Some e => slice_to e data | None => data end in
    match before with
    | [] => ErrNoData
    | _ =>
      let start_target := baseline_start_target o before in
      let start_limit :=
        match start_target with
        | None => None
        | Some t => if b_overshoot o then nearest before t else Some t
        end in
      let sel := match start_limit with Some s => slice_from s before | None => before end in
      if all_missing sel then ErrNoData
      else
        (* the gap warnings compare the data range with the limits *as moved* by the options
           (transform.py passes start_limit / end_limit, not the requested start / end) *)
        Ok (blank_last sel)
           (match b_end o, baseline_end_limit o before with
            | Some e, Some el => last_ts data e <? el | _, _ => false end)
           (match b_start o, start_limit with
            | Some s, Some sl => sl <? first_ts data s | _, _ => false end)
    end
  end.

Record ropts := {
  r_start : option Z;
  r_end : option Z;
  r_max_days : option Z;
  r_overshoot : bool;
  r_ignore_gap : bool
}.

Definition reporting_start_limit (o : ropts) (after : list row) : option Z :=
  match r_start o with
  | None => None
  | Some s => if r_ignore_gap o then Some (first_ts after s) else Some s
  end.

Definition reporting_end_target (o : ropts) (after : list row) : option Z :=
  match reporting_start_limit o after, r_max_days o with
  | Some s, Some m => Some (s + m * DAY)
  | _, _ => r_end o
  end.

Definition get_reporting_data (o : ropts) (data : list row) : result :=
  match r_max_days o, r_end o with
  | Some _, Some _ => ErrValue
  | _, _ =>
    let after := match r_start o with Some s => slice_from s data | None => data end in
    match after with
    | [] => ErrNoData
    | _ =>
      let end_target := reporting_end_target o after in
      let end_limit :=
        match end_target with
        | None => None
        | Some t => if r_overshoot o then nearest after t else Some t
        end in
      let sel := match end_limit with Some e => slice_to e after | None => after end in
      if all_missing sel then ErrNoData
      else
        Ok (blank_last sel)
           (match r_end o, end_limit with
            | Some e, Some el => last_ts data e <? el | _, _ => false end)
           (match r_start o, reporting_start_limit o after with
            | Some s, Some sl => sl <? first_ts data s | _, _ => false end)
    end
  end.
