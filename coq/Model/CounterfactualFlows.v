(* C05 — what "two reporting sets that differ only in the usage column" means for the daily / billing row
   pipeline (Model/Rows.v, Model/PredictRows.v) and the CalTRACK hourly predict flow
   (opendsm/eemeter/models/hourly_caltrack/wrapper.py:166-207, segmentation.py:185-225).
   Executable definitions and relations only; lemmas are in Proofs/CounterfactualProofs.v. *)
From Coq Require Import ZArith List Bool Arith.
From V Require Import Model.Rows Model.PredictRows Model.Resample Model.TempAgg.
Import ListNotations.

(* ------------------------------------------------------------------ daily / billing, Model/Rows.v *)
Section DailyRows.
  Context {A : Type}.
  (* everything of a row except the usage cell: index label, segment (season x weekday class of the stamp),
     temperature *)
  Definition wc_of (r : row A) : Z * Z * cell A := (ts r, seg r, temp r).
  Definition same_weather_calendar_rows (a b : list (row A)) : Prop := map wc_of a = map wc_of b.

  (* the frame carries a prediction p at index label t *)
  Definition predicted_at (out : list (orow A)) (t : Z) (p : A) : Prop :=
    exists o, In o out /\ o_ts o = t /\ o_pred o = V p.

  (* alterations of the usage column named by the property text, as functions on frames *)
  Definition set_obs (c : cell A) (r : row A) : row A := mkrow (ts r) (seg r) (temp r) c.
  Definition blank_rows (rows : list (row A)) : list (row A) := map (set_obs NaN) rows.
  Definition map_obs (g : A -> A) (rows : list (row A)) : list (row A) :=
    map (fun r => set_obs (match obs r with Rows.V a => Rows.V (g a) | c => c end) r) rows.
  (* replace the usage cells by an arbitrary list of cells (shuffling, partial blanking, anything) *)
  Fixpoint replace_obs (cells : list (cell A)) (rows : list (row A)) : list (row A) :=
    match rows, cells with
    | r :: rest, c :: cs => set_obs c r :: replace_obs cs rest
    | r :: rest, [] => set_obs NaN r :: replace_obs [] rest
    | [], _ => []
    end.
End DailyRows.

(* ------------------------------------------------------------------ daily / billing, Model/PredictRows.v
   (with the routing by `_meter_segment` and the left join made explicit) *)
Section DailyPipeline.
  Context {V : Type}.
  Definition dwc_of (r : @PredictRows.drow V) : Z * option V := (d_ts r, d_temp r).
  Definition same_weather_calendar_drows (a b : list (@PredictRows.drow V)) : Prop := map dwc_of a = map dwc_of b.
End DailyPipeline.

(* ------------------------------------------------------------------ CalTRACK hourly
   HourlyModel.predict (wrapper.py):
     model_prediction = self.model.predict(reporting_data.df.index, reporting_data.df["temperature"])
     df_res["predicted"]             = model_prediction                       -- index and temperature only
     df_res["predicted_uncertainty"] = NaN, or, when `observed` is not all NaN, per fitted month a value computed from
                                       np.sum(observed of the month's rows) and the number of those rows
   SegmentedModel.predict is row-wise: the weight of each segment comes from the month of the stamp, the features from
   the hour of week (occupancy lookup) and the temperature of the row (C18 models those); here it is the oracle
   [row_pred]. *)
Section CalTrackFlow.
  Context {T O Y U : Type}.
  Record crow := { c_utc : Z; c_month : Z; c_how : Z; c_temp : option T; c_obs : option O }.

  Variable row_pred : Z -> Z -> option T -> option Y.      (* month, hour of week, temperature *)
  Variable unc_of : Z -> list O -> nat -> option U.        (* month, non-null usage of the month's rows, number of rows *)

  Definition month_rows (m : Z) (rows : list crow) : list crow := filter (fun r => Z.eqb (c_month r) m) rows.
  Definition usage_of (rows : list crow) : list O :=
    flat_map (fun r => match c_obs r with Some o => [o] | None => [] end) rows.
  Definition all_blank (rows : list crow) : bool :=
    forallb (fun r => match c_obs r with None => true | Some _ => false end) rows.

  Record cout := { co_utc : Z; co_pred : option Y; co_unc : option U }.

  Definition caltrack_predict (rows : list crow) : list cout :=
    map (fun r => {| co_utc := c_utc r;
                     co_pred := row_pred (c_month r) (c_how r) (c_temp r);
                     co_unc := if all_blank rows then None
                               else let mr := month_rows (c_month r) rows in
                                    unc_of (c_month r) (usage_of mr) (length mr) |}) rows.

  Definition cwc_of (r : crow) : Z * Z * Z * option T := (c_utc r, c_month r, c_how r, c_temp r).
  Definition same_weather_calendar_crows (a b : list crow) : Prop := map cwc_of a = map cwc_of b.
End CalTrackFlow.

(* ------------------------------------------------------------------ daily data class: the temperature of a meter day
   (opendsm/eemeter/models/daily/data.py _compute_meter_value_df / _compute_temperature_features; the aggregation itself
   is C09's Model/TempAgg.v, imported read-only).  The class first builds the index of the METER DAYS and then gives every
   meter day the mean of the hourly temperatures from its stamp up to the next meter day's stamp (merge_asof backward).
   The aggregation reads weather only; usage can enter through the meter-day index alone:
     DayIndexFromCalendar   the index is a function of the stamps of the frame (what the statement needs)
     as coded               usage present: the stamps of the readings plus, for every calendar date without a reading, a
                            filler day stamped on a clock [fill_clock]; usage all NaN / absent: local midnights.
                            fill_clock = FrameStart   (unchanged code: the time of day of the first row of the frame)
                                       | ReadingClock (proposed repair C05-4.diff: the time of day of the readings)
   Stamps are local wall-clock minutes (the harness converts; a calendar day is 1440 of them — windows over a clock change
   are not generated for this stream). *)
Open Scope Z_scope.
Inductive fill_clock := FrameStart | ReadingClock.

Definition date_of (s : Z) : Z := s / 1440.
Definition clock_of (s : Z) : Z := s mod 1440.

Fixpoint insert_stamp (x : Z) (l : list Z) : list Z :=
  match l with
  | [] => [x]
  | y :: t => if x =? y then l else if x <? y then x :: l else y :: insert_stamp x t
  end.
Definition sort_stamps (l : list Z) : list Z := fold_right insert_stamp [] l.

(* pd.date_range(start, end, freq="D"): start, start + 1 day, ... <= end *)
Definition day_range (start stop : Z) : list Z :=
  if stop <? start then [] else map (fun k => start + 1440 * Z.of_nat k) (seq 0 (S (Z.to_nat ((stop - start) / 1440)))).

(* frame: stamps of its rows (sorted), and which rows carry a usage reading *)
Definition meter_index_as_coded (fc : fill_clock) (stamps : list Z) (has_usage : list bool) : list Z :=
  let readings := map fst (filter snd (combine stamps has_usage)) in
  match stamps, readings with
  | [], _ => []
  | first :: _, [] => day_range (date_of first * 1440) (last stamps first)          (* resample("D").first() *)
  | first :: _, r0 :: _ =>
      let start := match fc with
                   | FrameStart => first
                   | ReadingClock => date_of first * 1440 + clock_of (fold_right Z.min r0 readings)
                   end in
      let fillers := filter (fun f => negb (existsb (fun r => date_of r =? date_of f) readings))
                            (day_range start (last stamps first)) in
      sort_stamps (readings ++ fillers)
  end.

(* the temperature rows of the meter days *)
Definition day_temps (tol : option Z) (midx : list Z) (temps : list reading) : list (Z * trow) :=
  combine midx (rows_for tol midx temps).

(* the stage as the statement needs it: index from the stamps of the frame *)
Definition daily_stage (day_index : list Z -> list Z) (tol : option Z) (fr : list frow) : list (Z * trow) :=
  day_temps tol (day_index (map f_stamp fr)) (temps_of fr).
(* the stage as coded (one reading per day at most, hourly weather) *)
Definition daily_stage_as_coded (fc : fill_clock) (tol : option Z) (fr : list frow) : list (Z * trow) :=
  day_temps tol (meter_index_as_coded fc (map f_stamp fr) (map (fun r => match f_obs r with Some _ => true | None => false end) fr))
            (temps_of fr).

Definition same_weather_frows (a b : list frow) : Prop :=
  map (fun r => (f_stamp r, f_temp r)) a = map (fun r => (f_stamp r, f_temp r)) b.
Definition same_usage_presence (a b : list frow) : Prop :=
  map (fun r => match f_obs r with Some _ => true | None => false end) a =
  map (fun r => match f_obs r with Some _ => true | None => false end) b.

(* successor of an entry in an index *)
Definition next_in (idx : list Z) (lo : Z) (hi : option Z) : Prop :=
  exists pre rest, idx = pre ++ lo :: rest /\ hi = match rest with h :: _ => Some h | [] => None end.

(* ------------------------------------------------------------------ CalTRACK hourly from_series: the clock the rows are
   labelled on (hour of week and month are read from the local fields of the data object's index).
   Zones are identifiers, 0 = UTC.  UnionToUtc is the code as it is: merge_features unions two differently-zoned indexes
   into UTC, and with meter_data = None the placeholder meter is a copy of the temperature series (its zone).
   WeatherClock is the proposed repair (C05-6.diff). *)
Inductive zone_policy := UnionToUtc | WeatherClock.
Definition index_zone (zp : zone_policy) (meter_zone : option Z) (weather_zone : Z) : Z :=
  match zp with
  | WeatherClock => weather_zone
  | UnionToUtc => match meter_zone with
                  | None => weather_zone
                  | Some mz => if mz =? weather_zone then mz else 0
                  end
  end.
