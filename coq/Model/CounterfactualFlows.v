(* C05 — what "two reporting sets that differ only in the usage column" means for the daily / billing row
   pipeline (Model/Rows.v, Model/PredictRows.v) and the CalTRACK hourly predict flow
   (opendsm/eemeter/models/hourly_caltrack/wrapper.py:166-207, segmentation.py:185-225).
   Executable definitions and relations only; lemmas are in Proofs/CounterfactualProofs.v. *)
From Coq Require Import ZArith List Bool Arith.
From V Require Import Model.Rows Model.PredictRows.
Import ListNotations.

(* ------------------------------------------------------------------ daily / billing, Model/Rows.v *)
Section DailyRows.
  Context {A : Type}.
  (* everything of a row except the usage cell: index label, segment (season x weekday class of the stamp),
     temperature *)
  Definition wc_of (r : row A) : Z * Z * cell A := (ts r, seg r, temp r).
  Definition same_weather_calendar_rows (a b : list (row A)) : Prop := map wc_of a = map wc_of b.

  (* the frame carries a prediction p at index label t *)
  Definition predicted_at (out : list (orow A)) (t : Z) (p : A) : Prop :=
    exists o, In o out /\ o_ts o = t /\ o_pred o = V p.

  (* alterations of the usage column named by the property text, as functions on frames *)
  Definition set_obs (c : cell A) (r : row A) : row A := mkrow (ts r) (seg r) (temp r) c.
  Definition blank_rows (rows : list (row A)) : list (row A) := map (set_obs NaN) rows.
  Definition map_obs (g : A -> A) (rows : list (row A)) : list (row A) :=
    map (fun r => set_obs (match obs r with Rows.V a => Rows.V (g a) | c => c end) r) rows.
  (* replace the usage cells by an arbitrary list of cells (shuffling, partial blanking, anything) *)
  Fixpoint replace_obs (cells : list (cell A)) (rows : list (row A)) : list (row A) :=
    match rows, cells with
    | r :: rest, c :: cs => set_obs c r :: replace_obs cs rest
    | r :: rest, [] => set_obs NaN r :: replace_obs [] rest
    | [], _ => []
    end.
End DailyRows.

(* ------------------------------------------------------------------ daily / billing, Model/PredictRows.v
   (with the routing by `_meter_segment` and the left join made explicit) *)
Section DailyPipeline.
  Context {V : Type}.
  Definition dwc_of (r : @drow V) : Z * option V := (d_ts r, d_temp r).
  Definition same_weather_calendar_drows (a b : list (@drow V)) : Prop := map dwc_of a = map dwc_of b.
End DailyPipeline.

(* ------------------------------------------------------------------ CalTRACK hourly
   HourlyModel.predict (wrapper.py):
     model_prediction = self.model.predict(reporting_data.df.index, reporting_data.df["temperature"])
     df_res["predicted"]             = model_prediction                       -- index and temperature only
     df_res["predicted_uncertainty"] = NaN, or, when `observed` is not all NaN, per fitted month a value computed from
                                       np.sum(observed of the month's rows) and the number of those rows
   SegmentedModel.predict is row-wise: the weight of each segment comes from the month of the stamp, the features from
   the hour of week (occupancy lookup) and the temperature of the row (C18 models those); here it is the oracle
   [row_pred]. *)
Section CalTrackFlow.
  Context {T O Y U : Type}.
  Record crow := { c_utc : Z; c_month : Z; c_how : Z; c_temp : option T; c_obs : option O }.

  Variable row_pred : Z -> Z -> option T -> option Y.      (* month, hour of week, temperature *)
  Variable unc_of : Z -> list O -> nat -> option U.        (* month, non-null usage of the month's rows, number of rows *)

  Definition month_rows (m : Z) (rows : list crow) : list crow := filter (fun r => Z.eqb (c_month r) m) rows.
  Definition usage_of (rows : list crow) : list O :=
    flat_map (fun r => match c_obs r with Some o => [o] | None => [] end) rows.
  Definition all_blank (rows : list crow) : bool :=
    forallb (fun r => match c_obs r with None => true | Some _ => false end) rows.

  Record cout := { co_utc : Z; co_pred : option Y; co_unc : option U }.

  Definition caltrack_predict (rows : list crow) : list cout :=
    map (fun r => {| co_utc := c_utc r;
                     co_pred := row_pred (c_month r) (c_how r) (c_temp r);
                     co_unc := if all_blank rows then None
                               else let mr := month_rows (c_month r) rows in
                                    unc_of (c_month r) (usage_of mr) (length mr) |}) rows.

  Definition cwc_of (r : crow) : Z * Z * Z * option T := (c_utc r, c_month r, c_how r, c_temp r).
  Definition same_weather_calendar_crows (a b : list crow) : Prop := map cwc_of a = map cwc_of b.
End CalTrackFlow.
