(* C06 — instances and comparison helpers used by the generated cases files (harness/c06.py). *)
From Coq Require Import ZArith List Bool Arith Lia.
From V Require Import Model.CasesLib Model.Dst Model.PredictRows.
Import ListNotations.

(* values are integers that are multiples of 4, so (a + b) / 2 is exact both here and in binary64 *)
Definition zmean (a b : Z) : Z := ((a + b) / 2)%Z.

Definition err_eqb (a b : err) : bool :=
  match a, b with
  | EValue, EValue | EKey, EKey | EIndex, EIndex | EUnbound, EUnbound | ERagged, ERagged
  | EShape, EShape | ELength, ELength | EDupIndex, EDupIndex => true
  | _, _ => false
  end.

Definition res_eqb {A} (eqb : A -> A -> bool) (a b : res A) : bool :=
  match a, b with
  | Ok x, Ok y => eqb x y
  | Err e, Err f => err_eqb e f
  | _, _ => false
  end.

Definition pair_eqb (a b : nat * nat) : bool := (fst a =? fst b) && (snd a =? snd b).
Definition idx_eqb (a b : dst_indices) : bool :=
  list_eqb pair_eqb (fst a) (fst b) && list_eqb pair_eqb (snd a) (snd b).

(* compact days: the rows of one local date are 60 minutes apart (checked by the harness on the real index
   before it uses this encoding), first row at `utc0` minutes since the epoch; `obs` is the null-pattern of the
   `observed` column: a default and the positions (within the day) where the cell differs from it *)
Definition cday := (Z * list nat * (bool * list nat) * option err)%type.
Fixpoint expand_from (u : Z) (pos : nat) (hs : list nat) (obs : bool * list nat) : list hour_stamp :=
  match hs with
  | [] => []
  | h :: t => {| hs_utc := u; hs_hour := h;
                 hs_obs := if existsb (Nat.eqb pos) (snd obs) then negb (fst obs) else fst obs |}
              :: expand_from (u + 60)%Z (S pos) t obs
  end.
Definition expand (c : cday) : day :=
  let '(u, hs, obs, loc) := c in {| d_rows := expand_from u 0 hs obs; d_loc := loc |}.

(* ---- stream ci : _get_contiguous_datetime *)
Definition check_ci (c : Z * Z * list Z) : bool :=
  let '(s, e, expected) := c in list_eqb Z.eqb (contiguous_index s e) expected.

(* ---- stream gi : _get_dst_indices *)
(* the behaviour the implementation shows on the probes of harness/c06.py (0 = as coded) *)
Definition policy_of (count_rows loc_by_mask : bool) : policy :=
  {| count_rows := count_rows; loc_by_mask := loc_by_mask |}.

Definition check_gi (c : policy * list cday * res dst_indices) : bool :=
  let '(pol, days, expected) := c in res_eqb idx_eqb (get_dst_indices pol (map expand days)) expected.

(* ---- stream cd : the correct_dst closure + np.array (one feature) *)
Definition check_cd (c : list (list Z) * dst_indices * res (list (list Z))) : bool :=
  let '(agg, idx, expected) := c in
  res_eqb (list_eqb (list_eqb Z.eqb)) (feature_matrix zmean agg idx) expected.

(* ---- stream td : _transform_dst *)
Definition check_td (c : list Z * dst_indices * res (list Z)) : bool :=
  let '(pred, idx, expected) := c in
  res_eqb (list_eqb Z.eqb) (transform_dst zmean pred idx) expected.

(* ---- stream ts : the commented insert/delete loop of the source, executed by the harness *)
Definition check_ts (c : list Z * dst_indices * option (list Z)) : bool :=
  let '(pred, idx, expected) := c in
  opt_eqb (list_eqb Z.eqb) (transform_spec zmean pred idx) expected.

(* ---- stream hp : HourlyModel.predict, outcome only (values come from the regression, which is not modelled) *)
Inductive exc_class := XValueError | XIndexError | XUnboundLocalError | XKeyError.
Definition class_of (e : err) : exc_class :=
  match e with
  | EIndex => XIndexError
  | EUnbound => XUnboundLocalError
  | EKey => XKeyError
  | _ => XValueError
  end.
Definition exc_eqb (a b : exc_class) : bool :=
  match a, b with
  | XValueError, XValueError | XIndexError, XIndexError | XUnboundLocalError, XUnboundLocalError
  | XKeyError, XKeyError => true
  | _, _ => false
  end.
Inductive outcome := Rows (n : N) (index_kept : bool) | Raised (c : exc_class).

Definition zero_regress (agg : list (list Z)) : list Z := repeat 0%Z (24 * length agg).
Definition hourly_outcome (pol : policy) (days : list day) : outcome :=
  match hourly_predict zmean (fun _ => 0%Z) zero_regress pol days with
  | Ok rows => Rows (N.of_nat (length rows))
                    (list_eqb Z.eqb (map fst rows) (index_of days)
                     && forallb (fun r => match snd r with Some _ => true | None => false end) rows)
  | Err e => Raised (class_of e)
  end.
Definition outcome_eqb (a b : outcome) : bool :=
  match a, b with
  | Rows n x, Rows m y => N.eqb n m && Bool.eqb x y
  | Raised c, Raised d => exc_eqb c d
  | _, _ => false
  end.
Definition check_hp (c : policy * list cday * outcome) : bool :=
  let '(pol, days, expected) := c in outcome_eqb (hourly_outcome pol (map expand days)) expected.

(* ---- stream dp : DailyModel._predict / BillingModel.predict row accounting *)
(* cell: None = NaN, Some false = +-inf, Some true = finite *)
Definition dcase_row := (Z * option bool * option bool * list bool)%type.   (* ts, temperature, observed, membership per key *)

Fixpoint assoc (t : Z) (rows : list dcase_row) : list bool :=
  match rows with
  | [] => []
  | (ts, _, _, m) :: rest => if Z.eqb ts t then m else assoc t rest
  end.

Definition to_drow (r : dcase_row) : @drow bool :=
  let '(ts, te, ob, _) := r in {| d_ts := ts; d_temp := te; d_obs := ob |}.

Definition pair_key (p : Z * bool) : Z := (2 * fst p + (if snd p then 1 else 0))%Z.

Definition daily_out (obs_supplied : bool) (nkeys : nat) (rows : list dcase_row) : list (Z * bool) :=
  let member := fun (k : nat) (r : @drow bool) => nth k (assoc (d_ts r) rows) false in
  let out := daily_predict (fun b : bool => b) (fun (_ : nat) (t : bool) => Some t) member (seq 0 nkeys)
                           obs_supplied (map to_drow rows) in
  sort_by pair_key (map (fun rp => (d_ts (fst rp), cell_ok (fun b : bool => b) (snd rp))) out).

Definition zb_eqb (a b : Z * bool) : bool := Z.eqb (fst a) (fst b) && Bool.eqb (snd a) (snd b).
Definition check_dp (c : bool * nat * list dcase_row * list (Z * bool)) : bool :=
  let '(obs_supplied, nkeys, rows, expected) := c in
  list_eqb zb_eqb (daily_out obs_supplied nkeys rows) expected.

(* ---- stream ex : the guard pattern_ok against the code: on a clock pattern (no Long 23 / Short 0 adjacency) the chain
   correct_dst -> 24 slots per day -> _transform_dst -> one value per clock hour goes through on the implementation
   exactly when pattern_ok holds (C06_hourly_guard_exact) *)
Definition check_ex (c : list daykind * bool) : bool :=
  forallb kind_ok (fst c) && Bool.eqb (pattern_ok (fst c)) (snd c).
