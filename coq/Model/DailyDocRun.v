(* Executable comparison helpers of the C01 correspondence (daily / billing), evaluated by vm_compute inside
   the generated cases files.  Documents are compared structurally (same JSON text: [json_eqb]); predictions
   are compared bit-exactly where the kernel evaluates no exponential and within 1e-9 otherwise (the model's
   own exp is not libm's) -- the policy of Model/DailyCurveRun.v, whose row check is reused. *)
From Coq Require Import ZArith List Bool String PrimFloat.
From V Require Import Model.Num Model.NumF Model.DailyCurve Model.DailyCurveRun Model.Json Model.DocSchema
                      Model.DailyDoc Generated.C01Gen.
Import ListNotations.
Open Scope string_scope.

Definition from_doc' := from_doc current_schema legacy_schema.

(* rows of one sub-model: (temperature, predicted, predicted_unc, heating_load, cooling_load) *)
Definition prow := (float * float * float * float * float)%type.

Definition check_prow (sm : submodel) (x : fullx F) (r : prow) : bool :=
  let '(Ti, p, u, h, c) := r in
  fbits_eqb u (sm_func sm) && check_row x (T_min (sm_tc sm)) (T_max (sm_tc sm)) (Ti, p, h, c).

Definition check_sub (s : daily_state) (kr : string * list prow) : bool :=
  let (k, rows) := kr in
  match find_sub k (ds_subs s) with
  | None => false
  | Some sm =>
      match effective_x F (sm_c sm) (sm_tc sm) with
      | Some x => forallb (check_prow sm x) rows
      | None => match rows with [] => true | _ => false end
      end
  end.

(* a day of a predict() frame: month, day of week (Monday = 1), the split key in its model_split column, and its
   temperature / predicted / predicted_unc / heating_load / cooling_load *)
Definition drow := (nat * nat * string * prow)%type.

(* what the implementation did with a document *)
Inductive outcome :=
| Rejected                                    (* from_dict raised *)
| Accepted (redump : option json)             (* json.loads(from_dict(d).to_json()); None = the very document d *)
           (preds : list (string * list prow))       (* _predict_submodel of the reloaded object, per split key *)
           (season weekday : list json)      (* settings.season._num_dict / weekday_weekend._num_dict values *)
           (days : list drow).               (* rows of from_dict(d).predict(a year of days) *)

Definition jopt_eqb (a : option json) (b : json) : bool := match a with Some x => json_eqb x b | None => false end.

Fixpoint maps_eqb (a : list (option json)) (b : list json) : bool :=
  match a, b with
  | [], [] => true
  | x :: r1, y :: r2 => jopt_eqb x y && maps_eqb r1 r2
  | _, _ => false
  end.

(* the day is routed to exactly the sub-model the frame names, and predicted as that sub-model predicts *)
Definition check_day (c : mclass) (s : daily_state) (r : drow) : bool :=
  let '(month, dow, key, row) := r in
  match route (maps_of (schema_of current_schema legacy_schema c) s) (ds_subs s) month dow with
  | [k] => String.eqb k key && check_sub s (key, [row])
  | _ => false
  end.

Definition check_accept (c : mclass) (s : daily_state) (redump : json) (preds : list (string * list prow))
                        (season weekday : list json) (days : list drow) : bool :=
  json_eqb (to_doc c s) redump &&
  forallb (check_sub s) preds &&
  maps_eqb (season_map (schema_of current_schema legacy_schema c) (ds_settings s)) season &&
  maps_eqb (weekday_map (schema_of current_schema legacy_schema c) (ds_settings s)) weekday &&
  forallb (check_day c s) days.

(* stream "docs": (class, document, outcome) against from_dict as coded *)
Definition check_doc (cs : mclass * json * outcome) : bool :=
  let '(c, d, o) := cs in
  match o with
  | Rejected => match from_doc' c d with None => true | Some _ => false end
  | Accepted redump0 preds season weekday days =>
      let redump := match redump0 with Some r => r | None => d end in
      match from_doc' c d with
      | Some s => check_accept c s redump preds season weekday days
      | None => false
      end
  end.

(* stream "state": the attributes of a fitted model, read into a state literal, against its to_dict() *)
Definition check_state (cs : mclass * daily_state * json) : bool :=
  let '(c, s, d) := cs in json_eqb (to_doc c s) d.
