(* C20: the semantics-bearing facts of get_baseline_data / get_reporting_data as DATA.  coq/Generated/WindowsGen.v
   holds the record read from /repo's source on every run (harness/translate_windows.py); [modelled_wsrc] is the
   record Model/Windows.v was written for, and Proofs/WindowsSrcProofs.v spells each field out on the model's
   functions. *)
From Coq Require Import ZArith Bool.
Open Scope Z_scope.

Inductive cmp := CLt | CLe | CGt | CGe.
Definition cmpz (c : cmp) (a b : Z) : bool :=
  match c with CLt => a <? b | CLe => a <=? b | CGt => b <? a | CGe => b <=? a end.

(* timedelta(days=n) on a pd.Timestamp adds n * 86400 s of elapsed time; DateOffset(days=n), or timedelta on a
   datetime.datetime, moves the wall clock instead *)
Inductive dayunit := ElapsedDays | WallClockDays.
Definition day_ns (u : dayunit) : option Z :=
  match u with ElapsedDays => Some (86400 * 1000000000) | WallClockDays => None end.

Inductive lookup := Nearest | Pad | Backfill.

Record wsrc := {
  w_day_unit : dayunit;
  w_limits_normalised : bool;            (* start / end converted to pd.Timestamp on entry *)
  w_slices_inclusive : bool;             (* data[:end_limit], data[start_limit:] : label slices, both bounds kept *)
  w_overshoot_tolerance_cmp : cmp;       (* end_limit - n days  <cmp>  data_end *)
  w_gap_end_cmp : cmp;                   (* data_end  <cmp>  end_limit    => gap at the end *)
  w_gap_start_cmp : cmp;                 (* start_limit  <cmp>  data_start => gap at the start *)
  w_warnings_use_moved_limits : bool;    (* the helpers get start_limit / end_limit as moved by the options *)
  w_max_days_guard_is_not_none : bool;   (* `max_days is not None`: 0 is a limit like any other *)
  w_boundary_lookup : lookup;
  w_blank_last_row : bool;
  w_empty_is_all_rows_incomplete : bool  (* selection.dropna().empty raises the dedicated error *)
}.

Definition modelled_wsrc : wsrc :=
  {| w_day_unit := ElapsedDays;
     w_limits_normalised := true;
     w_slices_inclusive := true;
     w_overshoot_tolerance_cmp := CLt;
     w_gap_end_cmp := CLt;
     w_gap_start_cmp := CLt;
     w_warnings_use_moved_limits := true;
     w_max_days_guard_is_not_none := true;
     w_boundary_lookup := Nearest;
     w_blank_last_row := true;
     w_empty_is_all_rows_incomplete := true |}.
