(* The numeric dictionary of DESIGN 3.1.

   Numeric models (the daily curve, later the metrics) are written ONCE, inside a [Section] with
   [Variable N : num], and instantiated
     - at the Coq reals       ([Model/NumR.v], [RNumOf lo hi] / [RNum])  -> theorems,
     - at IEEE binary64       ([Model/NumF.v], [FNum], PrimFloat)        -> execution by vm_compute in the
                                                                            correspondence checks.
   A record and a section variable are used rather than a module type, so that no module-level
   declaration of an abstract constant is needed anywhere in the development.

   Fields are prefixed with [n_] so that importing this file next to Reals / PrimFloat never shadows
   [exp], [abs], ... .

   [n_ln_min], [n_ln_max] are the two "system value" constants of opendsm/common/utils.py
   (LN_MIN_POS_SYSTEM_VALUE, LN_MAX_POS_SYSTEM_VALUE) between which the package clips every argument
   of [exp]; they belong to the numeric environment of the package, not to a particular model. *)

Record num := {
  carrier :> Type;
  n_zero : carrier;
  n_one : carrier;
  n_add : carrier -> carrier -> carrier;
  n_sub : carrier -> carrier -> carrier;
  n_mul : carrier -> carrier -> carrier;
  n_div : carrier -> carrier -> carrier;
  n_opp : carrier -> carrier;
  n_abs : carrier -> carrier;
  n_ltb : carrier -> carrier -> bool;      (* a <  b ; false when unordered (NaN) *)
  n_leb : carrier -> carrier -> bool;      (* a <= b ; false when unordered *)
  n_eqb : carrier -> carrier -> bool;      (* a == b ; -0 == +0, NaN <> NaN *)
  n_exp : carrier -> carrier;
  n_ln_min : carrier;
  n_ln_max : carrier
}.

Arguments n_zero {n}.
Arguments n_one {n}.
Arguments n_add {n} _ _.
Arguments n_sub {n} _ _.
Arguments n_mul {n} _ _.
Arguments n_div {n} _ _.
Arguments n_opp {n} _.
Arguments n_abs {n} _.
Arguments n_ltb {n} _ _.
Arguments n_leb {n} _ _.
Arguments n_eqb {n} _ _.
Arguments n_exp {n} _.
Arguments n_ln_min {n}.
Arguments n_ln_max {n}.

(* Python's comparison operators written with the three primitive tests
   ([a > b] is [b < a], [a >= b] is [b <= a], [a != b] is [not (a == b)]; all IEEE-exact). *)
Definition n_gtb {N : num} (a b : N) : bool := n_ltb b a.
Definition n_geb {N : num} (a b : N) : bool := n_leb b a.
Definition n_neqb {N : num} (a b : N) : bool := negb (n_eqb a b).

(* small exact constants, built from [one] (exact in binary64) *)
Definition n_two {N : num} : N := n_add n_one n_one.
Definition n_ten {N : num} : N :=
  let two := @n_two N in let four := n_add two two in let eight := n_add four four in n_add eight two.
Definition n_hundred {N : num} : N := n_mul (@n_ten N) n_ten.

(* min(max(x, lo), hi) -- np.clip on scalars (NaN is never clipped here: inputs are finite) *)
Definition n_clip {N : num} (x lo hi : N) : N :=
  let y := if n_ltb x lo then lo else x in
  if n_ltb hi y then hi else y.
