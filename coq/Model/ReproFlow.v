(* C03 — seed plumbing as the SOURCE says it.  The translator harness/translate_repro.py reads the anchored files
   with Python's ast module (fail-closed) and writes Generated/ReproGen.v: every call site that constructs a consumer
   of randomness, every use of a global generator, every assignment of a `_seed` attribute, every binding of a
   function parameter that carries a seed, every mutable default argument.  Here: the little data-flow language those
   tables are written in, and its resolution.  Theorems about the regenerated tables: Properties/C03.v. *)
From Coq Require Import ZArith List Bool String.
Import ListNotations.
Open Scope string_scope.

(* under which condition on the settings field `seed` a statement runs *)
Inductive guard := GAlways | GSeedNone | GSeedGiven.

(* where a value comes from *)
Inductive src :=
| SNone                       (* the literal None: the consumer falls back on the global generator *)
| SAbsent                     (* the keyword is not passed: same effect as None *)
| SConst                      (* an integer literal *)
| SExternal                   (* a parameter of a function nobody in the scanned files calls *)
| SField                      (* the settings field `seed` *)
| SGlobalDraw                 (* a call of the global generator (a np.random function) *)
| SAttr (owner : string)      (* the attribute `_seed` of: "" (the hourly settings), "elasticnet", "temporal_cluster" *)
| SParam (f p : string)       (* parameter p of function f *)
| SPlusIdx (s : src)          (* s + <index of an enclosing `for _ in range(..)` loop> *)
| SOther (what : string).     (* anything the translator could read but this language has no word for *)

Record site := {
  s_file : string; s_func : string; s_callee : string;
  s_kwargs : list string;         (* the keyword names of the call, in order *)
  s_dead : bool;                  (* lexically inside `if x:` where x = False is the only assignment of x *)
  s_src : src                     (* the value of random_state= / seed= *)
}.

Record rng_use := {
  u_file : string; u_func : string; u_call : string;
  u_guard : guard;                (* the enclosing `if <..>.seed is None` *)
  u_target : string               (* "X._seed" when the statement is an assignment to a _seed attribute, else "" *)
}.

Record attr_assign := { a_owner : string; a_guard : guard; a_src : src }.
Record binding := { b_func : string; b_param : string; b_args : list src }.   (* one entry per call site of b_func *)

(* mutable default arguments *)
Inductive usage := UUnused | UReadOnly | UEscapes.   (* escapes: stored in an attribute, returned, mutated or passed on *)
Record mdefault := {
  m_file : string; m_func : string; m_param : string;
  m_pydantic : bool;              (* a field default of a pydantic model: copied per instance by pydantic *)
  m_usage : usage;
  m_calls : nat;                  (* call sites of the function in the scanned files *)
  m_explicit : nat                (* ... that pass the parameter explicitly *)
}.

Inductive leaf := LField | LDraw | LConst | LBad.

Definition guard_ok (given : bool) (g : guard) : bool :=
  match g with GAlways => true | GSeedNone => negb given | GSeedGiven => given end.

Section Flow.
  Variable assigns : list attr_assign.
  Variable bindings : list binding.

  (* all leaves a value can come from, when the settings seed is given / is None *)
  Fixpoint resolve (fuel : nat) (given : bool) (s : src) : list leaf :=
    match fuel with
    | O => [LBad]
    | S fuel' =>
        match s with
        | SNone | SAbsent | SExternal | SOther _ => [LBad]
        | SConst => [LConst]
        | SField => [LField]
        | SGlobalDraw => [LDraw]
        | SPlusIdx s' => resolve fuel' given s'
        | SAttr o =>
            match flat_map (fun a => if String.eqb (a_owner a) o && guard_ok given (a_guard a)
                                     then resolve fuel' given (a_src a) else []) assigns with
            | [] => [LBad]            (* read but never assigned *)
            | l => l
            end
        | SParam f p =>
            match flat_map (fun b => if String.eqb (b_func b) f && String.eqb (b_param b) p
                                     then match b_args b with
                                          | [] => [LBad]     (* the function is never called: external callers decide *)
                                          | l => flat_map (resolve fuel' given) l
                                          end
                                     else []) bindings with
            | [] => [LBad]
            | l => l
            end
        end
    end.

  Definition leaf_is (x y : leaf) : bool :=
    match x, y with LField, LField | LDraw, LDraw | LConst, LConst | LBad, LBad => true | _, _ => false end.
  Definition all_leaves (want : leaf) (l : list leaf) : bool :=
    match l with [] => false | _ => forallb (leaf_is want) l end.

  (* exemptions, by name and exact keyword list (sklearn contract, trusted):
     PCA(n_components=<ratio in (0,1)>) selects the exact full SVD (svd_solver='auto' -> 'full'); no randomness *)
  Definition exempt (s : site) : bool :=
    String.eqb (s_callee s) "PCA" &&
    match s_kwargs s with ["n_components"] => true | _ => false end.

  (* a consumer site is fine when, with a seed given in the settings, what it receives comes from that seed and
     nothing else; and with no seed given, from the one documented draw and nothing else *)
  Definition site_seeded (s : site) : bool :=
    all_leaves LField (resolve 12 true (s_src s)) && all_leaves LDraw (resolve 12 false (s_src s)).
  (* ... or it is a literal: reproducible, though deaf to the seed *)
  Definition site_constant (s : site) : bool :=
    all_leaves LConst (resolve 12 true (s_src s)) && all_leaves LConst (resolve 12 false (s_src s)).
  Definition site_ok (s : site) : bool := s_dead s || exempt s || site_seeded s || site_constant s.

  (* as coded, one consumer is not reached by the seed: scoring.py score_clusters calls
     silhouette_score(.., sample_size=10_000) without random_state (live only for score_metric = "silhouette") *)
  Definition silhouette_site (s : site) : bool :=
    String.eqb (s_callee s) "silhouette_score" && String.eqb (s_file s) "opendsm/common/clustering/scoring.py" &&
    String.eqb (s_func s) "score_clusters".

  Definition live_consumers (l : list site) : list string :=
    map s_callee (filter (fun s => negb (s_dead s) && negb (exempt s)) l).
End Flow.

(* the global generator is consulted only to choose the seed when the settings give none *)
Definition rng_use_ok (u : rng_use) : bool :=
  match u_guard u with GSeedNone => String.eqb (u_target u) "_seed" | _ => false end.

Definition mdefault_ok (m : mdefault) : bool :=
  m_pydantic m ||
  match m_usage m with
  | UUnused | UReadOnly => true
  | UEscapes => Nat.ltb 0 (m_calls m) && Nat.eqb (m_calls m) (m_explicit m)
  end.

(* order sensitivity: the iteration order of a set of str / bytes / datetime depends on the hash salt of the process
   (PYTHONHASHSEED, random by default).  A site is a place where a set's iteration order flows into something ordered:
   for-loop or list/dict comprehension over a set, list(s), tuple(s), x.extend(s), sep.join(s), np.array(s), s.pop(),
   unpacking, lst += s.  (sorted(s), len, membership, set algebra are order-free and are not sites.) *)
Record osite := { o_file : string; o_func : string; o_kind : string; o_text : string }.

(* allow-list, each justified by reading the code:
   - DailyModel._components: components = list(set([...])) is followed at once by
     components = sorted(components, key=lambda x: (len(x), x)), a total order on distinct strings;
   - _get_dst_indices: missing_hour.pop() is guarded by `if len(missing_hour) != 1: raise`, and the elements are ints
     (int hashes are not salted) *)
Definition osite_ok (o : osite) : bool :=
  (String.eqb (o_file o) "opendsm/eemeter/models/daily/model.py" && String.eqb (o_func o) "DailyModel._components" &&
   String.eqb (o_kind o) "call" && String.eqb (o_text o) "list(set([i for item in self.combinations for i in item.split('__')]))") ||
  (String.eqb (o_file o) "opendsm/eemeter/models/hourly/model.py" && String.eqb (o_func o) "_get_dst_indices" &&
   String.eqb (o_kind o) "pop" && String.eqb (o_text o) "missing_hour.pop()").

(* writes to state shared by the whole process.  Why it matters beyond the running process: the numba functions are
   compiled with cache=True and a module-level value read inside them is frozen into the compiled code AND into the
   on-disk JIT cache, so a fit that assigned such a value would decide the results of later processes *)
Inductive gwkind :=
| GGlobalStmt      (* a `global` statement *)
| GImported        (* assignment / mutation through an imported name: module attribute, class attribute, another module's container *)
| GModuleObject    (* mutation, inside a function, of an object bound at module level in the same file *)
| GConfigCall.     (* sklearn.set_config, np.seterr, os.putenv, logging.basicConfig, warnings.filterwarnings outside catch_warnings, ... *)
Record gwrite := { w_file : string; w_scope : string (* function, or "<import>" *); w_kind : gwkind; w_target : string }.

(* allow-list: statements executed ONCE, when the module is imported, writing the same constant in every process;
   nothing inside a function is allowed.
   - hourly/model.py: os.environ[OMP/MKL/OPENBLAS_NUM_THREADS] = "1" (the thread pin; see known finding C03-K1),
     sklearn.set_config(assume_finite, skip_parameter_validation)
   - bisect_k_means.py: logging.basicConfig (log output only) *)
Definition gwrite_ok (w : gwrite) : bool :=
  String.eqb (w_scope w) "<import>" &&
  ((String.eqb (w_file w) "opendsm/eemeter/models/hourly/model.py" &&
    (String.eqb (w_target w) "os.environ['OMP_NUM_THREADS']" || String.eqb (w_target w) "os.environ['MKL_NUM_THREADS']" ||
     String.eqb (w_target w) "os.environ['OPENBLAS_NUM_THREADS']" || String.eqb (w_target w) "sklearn.set_config")) ||
   (String.eqb (w_file w) "opendsm/common/clustering/bisect_k_means.py" && String.eqb (w_target w) "logging.basicConfig")).

(* nested settings objects: _check_seed WRITES the seed onto self.elasticnet and self.temporal_cluster.  That is a write
   to the object's own state only if those nested objects are made per settings object; `default=X()` of a frozen
   (hashable) pydantic model is ONE instance shared by every settings object of the process *)
Inductive ndkind :=
| NdFactory     (* default_factory: a new object per instance *)
| NdCopied      (* a default that pydantic copies per instance *)
| NdShared.     (* two settings objects were built and hold the very same nested object *)
Definition nd_ok (n : string * string * ndkind) : bool :=
  match snd n with NdShared => false | _ => true end.
(* every nested object a `_seed` is written to is per instance, in every class that has the field *)
Definition seed_write_ok (nested : list (string * string * ndkind)) (a : attr_assign) : bool :=
  String.eqb (a_owner a) "" ||
  (existsb (fun n => String.eqb (snd (fst n)) (a_owner a)) nested &&
   forallb (fun n => negb (String.eqb (snd (fst n)) (a_owner a)) || nd_ok n) nested).

(* optimiser start vectors: optimize.py obj_fcn_dec writes every trial point INTO the x0 array it was given
   (x0[idx_opt] = x), so an x0 that outlives the call would carry one fit's last trial point into the next *)
Inductive x0kind :=
| XFresh      (* built by the call expression itself, or a local assigned only from such expressions *)
| XParam      (* a parameter of the enclosing function *)
| XShared     (* an attribute, a module-level or closure object *)
| XOther.
Definition x0_ok (x : string * string * string * x0kind) : bool :=
  match snd x with XFresh => true | _ => false end.

(* NLopt algorithms that draw random numbers (and would need nlopt.srand): the daily defaults must not be among them *)
Definition stochastic_nlopt : list string :=
  ["nlopt_direct_l_rand"; "nlopt_direct_l_rand_noscal"; "nlopt_crs2_lm"; "nlopt_mlsl"; "nlopt_mlsl_lds";
   "nlopt_stogo_rand"; "nlopt_isres"; "nlopt_esch"].
Definition algorithm_ok (a : string) : bool := negb (existsb (String.eqb a) stochastic_nlopt).
