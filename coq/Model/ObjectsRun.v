(* comparison helper for the C02 multi-object correspondence (cases written by harness/c02coq.py) *)
From Coq Require Import ZArith List Bool Arith.
From V Require Import Model.CasesLib Model.Objects.
Import ListNotations.

Definition sharing_of (l : list (mclass * option mclass)) (c : mclass) : option mclass :=
  match find (fun e => mclass_eqb (fst e) c) l with Some e => snd e | None => None end.

Definition optz_eqb (a b : option Z) : bool := opt_eqb Z.eqb a b.

(* objects (indices into the world before the step) whose serialised form differs after it, the fitted one excluded *)
Fixpoint changed_objs (g : sharing) (w w' : world) (skip : option nat) (i n : nat) : list nat :=
  match n with
  | O => []
  | S m =>
      (if optz_eqb (serial g w i) (serial g w' i) || match skip with Some k => Nat.eqb k i | None => false end
       then [] else [i]) ++ changed_objs g w w' skip (S i) m
  end.

Fixpoint wtrace (g : sharing) (w : world) (ops : list wop) : list (list nat) :=
  match ops with
  | [] => []
  | o :: rest =>
      let w' := wstep g w o in
      changed_objs g w w' (target o) 0 (length (w_objs w)) :: wtrace g w' rest
  end.

Definition check_objects (c : list (mclass * option mclass) * list wop * list (list nat)) : bool :=
  let '(g, ops, expected) := c in
  list_eqb (list_eqb Nat.eqb) (wtrace (sharing_of g) {| w_objs := []; w_class := fun _ => 0%Z |} ops) expected.
