(* Support for the generated correspondence files (coq/Cases/, never committed). *)
From Coq Require Import ZArith List Bool NArith.
Import ListNotations.

Inductive verif_result := VERIF_RESULT (n : N) (bad : list N).

Fixpoint mismatches_from (i : N) (l : list bool) : list N :=
  match l with
  | [] => []
  | b :: rest => if b then mismatches_from (N.succ i) rest else i :: mismatches_from (N.succ i) rest
  end.
Definition mismatches (l : list bool) : list N := mismatches_from 0%N l.

Definition opt_eqb {A} (eqb : A -> A -> bool) (a b : option A) : bool :=
  match a, b with
  | Some x, Some y => eqb x y
  | None, None => true
  | _, _ => false
  end.

Fixpoint list_eqb {A} (eqb : A -> A -> bool) (a b : list A) : bool :=
  match a, b with
  | [], [] => true
  | x :: a', y :: b' => eqb x y && list_eqb eqb a' b'
  | _, _ => false
  end.
