(* Model of the pure helpers of opendsm/common/utils.py that feed reported statistics:
   median_absolute_deviation, OoM (floor / ceil / round), RoundToSigFigs, np_clip, fast_std / weighted_std,
   t_stat / unc_factor plumbing (scipy's t.ppf stays an input).  Exact rationals; NaN is [None];
   every root is kept as its square (see Model/Metrics.v).  Executable definitions only. *)
From Coq Require Import ZArith QArith Qabs Qround List Bool.
From V Require Import Model.Metrics.
Import ListNotations.
Open Scope Q_scope.

(* ------------------------------------------------------------------ median_absolute_deviation *)

Definition mad_about (l : list Q) (mu : Q) : Q := median (map (fun x => Qabs (x - mu)) l).
(* median_absolute_deviation(x, median=mu) = median(|x - mu|) * MAD_k ; mu defaults to the median of x *)
Definition median_absolute_deviation (k : Q) (l : list Q) (mu : option Q) : Q :=
  k * mad_about l (match mu with Some m => m | None => median l end).

(* ------------------------------------------------------------------ OoM *)

Definition qpow10 (k : Z) : Q :=
  match k with
  | Z0 => 1
  | Zpos p => inject_Z (Z.pow_pos 10 p)
  | Zneg p => Qmake 1 (Pos.pow 10 p)
  end.

(* decade search: the k with 10^k <= a < 10^(k+1), a > 0; [None] when the fuel runs out *)
Fixpoint decade_up (fuel : nat) (a : Q) (k : Z) : option Z :=
  match fuel with
  | O => None
  | S f => if Qltb a (qpow10 (k + 1)) then Some k else decade_up f a (k + 1)
  end.
Fixpoint decade_down (fuel : nat) (a : Q) (k : Z) : option Z :=
  match fuel with
  | O => None
  | S f => if Qle_bool (qpow10 k) a then Some k else decade_down f a (k - 1)
  end.
Definition decade (a : Q) : option Z :=
  if Qle_bool 1 a then decade_up 400 a 0 else decade_down 400 a (-1).

Inductive oom_method := OFloor | OCeil | ORound.

(* OoM_numba(x, method) for one finite element: 1 for x = 0 (as coded), otherwise floor / ceil / round of
   log10 |x|.  round: log10 a >= k + 1/2  <->  a^2 >= 10^(2k+1) *)
Definition oom (m : oom_method) (x : Q) : option Z :=
  if Qeq_bool x 0 then Some 1%Z
  else
    let a := Qabs x in
    match decade a with
    | None => None
    | Some k =>
        match m with
        | OFloor => Some k
        | OCeil => if Qeq_bool a (qpow10 k) then Some k else Some (k + 1)%Z
        | ORound => if Qltb (a * a) (qpow10 (2 * k + 1)) then Some k else Some (k + 1)%Z
        end
    end.

(* ------------------------------------------------------------------ RoundToSigFigs *)

(* np.round: to the nearest integer, ties to the even one *)
Definition round_half_even (y : Q) : Z :=
  let f := Qfloor y in
  let r := y - inject_Z f in
  if Qltb r (1 # 2) then f
  else if Qltb (1 # 2) r then (f + 1)%Z
  else if Z.even f then f else (f + 1)%Z.

(* RoundToSigFigs(x, p) for one finite element: mags = 10^(p - 1 - OoM(|x|)) with the DEFAULT method "round";
   for x = 0 the code substitutes 10^(p-1), whose OoM is p - 1, so mags = 1 *)
Definition sig_mags (x : Q) (p : Z) : option Q :=
  if Qeq_bool x 0 then Some 1
  else match oom ORound x with Some k => Some (qpow10 (p - 1 - k)) | None => None end.
Definition round_sig (x : Q) (p : Z) : option Q :=
  match sig_mags x p with
  | Some m => Some (Qred (inject_Z (round_half_even (x * m)) / m))
  | None => None
  end.
(* what "p significant figures" asks for: the last kept digit is the p-th one, i.e. the unit is
   10^(floor(log10|x|) - p + 1) *)
Definition sig_unit_spec (x : Q) (p : Z) : option Q :=
  match oom OFloor x with Some k => Some (qpow10 (k - p + 1)) | None => None end.

(* ------------------------------------------------------------------ np_clip (the numba overload) *)

(* NaN stays NaN; below a_min -> a_min; above a_max -> a_max (tests in this order) *)
Definition clip (a : option Q) (lo hi : Q) : option Q :=
  match a with
  | None => None
  | Some x => if Qltb x lo then Some lo else if Qltb hi x then Some hi else Some x
  end.

(* ------------------------------------------------------------------ fast_std / weighted_std (squared) *)

Definition sum_sq_about (l : list Q) (m : Q) : Q := qsum (map (fun x => sqr (x - m)) l).
Definition wsum (w l : list Q) : Q := qsum (map (fun p => fst p * snd p) (combine w l)).

(* np.allclose(weights - weights[0], 0): |w_i - w_0| <= 1e-8 *)
Definition weights_all_equal (w : list Q) : bool :=
  match w with
  | [] => true
  | w0 :: _ => forallb (fun wi => Qle_bool (Qabs (wi - w0)) (1 # 100000000)) w
  end.

(* weighted_std(x, w, mean)^2: the weights are normalised when their sum is off 1 by more than 1e-6,
   the variance is divided by (1 - 1/n) *)
Definition weighted_var (l w : list Q) (m : Q) : Q :=
  let s := qsum w in
  let w' := if Qltb s (1 - (1 # 1000000)) || Qltb (1 + (1 # 1000000)) s then map (fun wi => wi / s) w else w in
  Qred (qsum (map (fun p => fst p * sqr (snd p - m)) (combine w' l)) / (1 - 1 / qlen l)).

(* fast_std(x, weights, mean)^2 *)
Definition fast_var (l : list Q) (w : option (list Q)) (m : option Q) : Q :=
  let unweighted := match w with None => true | Some ws => (length ws =? 1)%nat || weights_all_equal ws end in
  if unweighted then
    match m with
    | None => variance l
    | Some mu => Qred (sum_sq_about l mu / qlen l)
    end
  else
    match w with
    | Some ws => weighted_var l ws (match m with Some mu => mu | None => Qred (wsum ws l / qsum ws) end)
    | None => 0
    end.

(* ------------------------------------------------------------------ t_stat / unc_factor plumbing *)

(* the arguments t_stat hands to scipy's t.ppf: (percentile, degrees of freedom); an unknown tail leaves
   the percentile unassigned (UnboundLocalError) *)
Definition t_args (alpha : Q) (n : Z) (tail : Z) : option (Q * Z) :=
  if (tail =? 1)%Z then Some (1 - alpha, (n - 1)%Z)
  else if (tail =? 2)%Z then Some (1 - alpha / 2, (n - 1)%Z)
  else None.

Inductive interval := CI | PI | OtherInterval.
(* unc_factor = base + root, with t = t_stat(alpha, n): CI: t / sqrt n ; PI: t + t / sqrt n ; anything else: None *)
Definition unc_factor (t : Q) (n : Z) (i : interval) : option (Q * val) :=
  let r := Root (Qltb t 0) (Qred (sqr t / inject_Z n)) in
  match i with
  | CI => Some (0, r)
  | PI => Some (t, r)
  | OtherInterval => None
  end.
