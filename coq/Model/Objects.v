(* C02 — several model objects alive in one process.  A model object's serialised form contains the metrics of its
   last fit.  Where are they kept?  Per instance (the attribute is created in __init__), or in a mutable container
   defined at CLASS level that instance methods fill in place — then every instance of the class (and of the classes
   that inherit the attribute) writes into, and serialises from, ONE container.  Which of the two the source does is
   a configuration per model class, read from the source on every run (harness/translate_c02.py -> Generated/C02Gen.v):
   [shared c = Some r] : instances of c keep that state in a class-level container defined by class r.
   Executable definitions only; lemmas are in Proofs/ObjectsProofs.v. *)
From Coq Require Import ZArith List Bool Arith.
Import ListNotations.

Inductive mclass := MDaily | MBilling | MHourly.

Definition mclass_eqb (a b : mclass) : bool :=
  match a, b with MDaily, MDaily | MBilling, MBilling | MHourly, MHourly => true | _, _ => false end.

Definition sharing := mclass -> option mclass.
Definition no_sharing : sharing := fun _ => None.

Record mobject := {
  o_class : mclass;
  o_own : Z                  (* the part of the document the instance owns (identity of the fit that produced it) *)
}.

Record world := {
  w_objs : list mobject;
  w_class : mclass -> Z      (* the class-level containers *)
}.

Inductive wop :=
| WNew (c : mclass)               (* a new, unfitted model object *)
| WFit (k : nat) (v : Z)          (* object k is fitted on the meter whose fit is v *)
| WPredict (k : nat)
| WStore (k : nat).               (* to_json / to_dict *)

Fixpoint set_nth {A} (l : list A) (n : nat) (x : A) : list A :=
  match l, n with
  | [], _ => []
  | _ :: r, O => x :: r
  | y :: r, S k => y :: set_nth r k x
  end.

Definition wstep (g : sharing) (w : world) (o : wop) : world :=
  match o with
  | WNew c => {| w_objs := w_objs w ++ [{| o_class := c; o_own := 0%Z |}]; w_class := w_class w |}
  | WFit k v =>
      match nth_error (w_objs w) k with
      | Some x =>
          match g (o_class x) with
          | Some r => {| w_objs := w_objs w;
                         w_class := fun c => if mclass_eqb c r then v else w_class w c |}
          | None => {| w_objs := set_nth (w_objs w) k {| o_class := o_class x; o_own := v |}; w_class := w_class w |}
          end
      | None => w
      end
  | WPredict _ | WStore _ => w
  end.

Definition wrun (g : sharing) (w : world) (ops : list wop) : world := fold_left (wstep g) ops w.

(* what to_json shows of that state *)
Definition serial (g : sharing) (w : world) (k : nat) : option Z :=
  match nth_error (w_objs w) k with
  | Some x => Some (match g (o_class x) with Some r => w_class w r | None => o_own x end)
  | None => None
  end.

Definition target (o : wop) : option nat :=
  match o with WFit k _ => Some k | _ => None end.
