(* Stored daily / billing models (C01): state, document, reload.

   Mirrors
     opendsm/eemeter/models/daily/model.py      DailyModel._create_params_from_fit_model, to_dict, from_dict
     opendsm/eemeter/models/daily/parameters.py ModelCoefficients, DailySubmodelParameters, DailyModelParameters
                                                (pydantic dump order, None-valued optional fields, enum -> value)
     opendsm/eemeter/models/billing/model.py    BillingModel.to_dict (forces developer_mode), __init__ (legacy settings)
   The coefficient payloads are binary64 ([FNum]); the curve they are evaluated with is Model/DailyCurve.v.
   The two settings schemas are arguments ([cur] = DailySettings, [leg] = DailyLegacySettings); the theorems
   instantiate them with the schemas regenerated from the package (Generated/C01Gen.v).
   Executable definitions only. *)
From Coq Require Import ZArith List Bool String Ascii PrimFloat.
From V Require Import Model.Num Model.NumF Model.DailyCurve Model.Json Model.DocSchema.
Import ListNotations.
Open Scope string_scope.

Definition F := FNum.

(* ---------------------------------------------------------------- state *)

(* EEMeterWarning: qualified_name, description, data (a dict or a list, kept as a tree) *)
Record warning := { w_name : string; w_desc : string; w_data : json }.

(* DailySubmodelParameters under its split key ("fw-su_sh_wi", "wd-su", ...) *)
Record submodel := {
  sm_key : string;
  sm_c : coeffs F;
  sm_tc : tconstr F;
  sm_func : float
}.

(* what a fitted (or reloaded) DailyModel / BillingModel carries and to_dict writes *)
Record daily_state := {
  ds_subs : list submodel;            (* insertion order of params.submodels *)
  ds_error : json;                    (* info["error"]: wRMSE, RMSE, MAE, CVRMSE, PNRMSE *)
  ds_tz : string;                     (* str(baseline_timezone) *)
  ds_dq : list warning;
  ds_warnings : list warning;
  ds_settings : json                  (* the settings tree as stored *)
}.

Inductive mclass := Daily | Billing.

(* ---------------------------------------------------------------- ModelType <-> its value *)

Definition string_of_shape (s : shape) : string :=
  match s with
  | HddTiddCddSmooth => "hdd_tidd_cdd_smooth"
  | HddTiddCdd => "hdd_tidd_cdd"
  | HddTiddSmooth => "hdd_tidd_smooth"
  | TiddCddSmooth => "tidd_cdd_smooth"
  | HddTidd => "hdd_tidd"
  | TiddCdd => "tidd_cdd"
  | Tidd => "tidd"
  end.

Definition all_shapes : list shape :=
  [HddTiddCddSmooth; HddTiddCdd; HddTiddSmooth; TiddCddSmooth; HddTidd; TiddCdd; Tidd].

Definition shape_of_string (s : string) : option shape :=
  find (fun sh => String.eqb (string_of_shape sh) s) all_shapes.

(* ---------------------------------------------------------------- to_dict *)

Definition warning_doc (w : warning) : json :=
  JObj [("qualified_name", JStr (w_name w)); ("description", JStr (w_desc w)); ("data", w_data w)].

Definition coeffs_doc (c : coeffs F) : json :=
  JObj [("model_type", JStr (string_of_shape (model_type c)));
        ("intercept", JNum (intercept c));
        ("hdd_bp", jopt_float (hdd_bp c));
        ("hdd_beta", jopt_float (hdd_beta c));
        ("hdd_k", jopt_float (hdd_k c));
        ("cdd_bp", jopt_float (cdd_bp c));
        ("cdd_beta", jopt_float (cdd_beta c));
        ("cdd_k", jopt_float (cdd_k c))].

Definition tc_doc (tc : tconstr F) : json :=
  JObj [("T_min", JNum (T_min tc)); ("T_max", JNum (T_max tc));
        ("T_min_seg", JNum (T_min_seg tc)); ("T_max_seg", JNum (T_max_seg tc))].

Definition submodel_doc (sm : submodel) : string * json :=
  (sm_key sm, JObj [("coefficients", coeffs_doc (sm_c sm));
                    ("temperature_constraints", tc_doc (sm_tc sm));
                    ("f_unc", JNum (sm_func sm))]).

Definition settings_out (c : mclass) (settings : json) : json :=
  match c with Daily => settings | Billing => force_dev settings end.

Definition to_doc (c : mclass) (s : daily_state) : json :=
  JObj [("submodels", JObj (map submodel_doc (ds_subs s)));
        ("info", JObj [("error", ds_error s);
                       ("baseline_timezone", JStr (ds_tz s));
                       ("disqualification", JArr (map warning_doc (ds_dq s)));
                       ("warnings", JArr (map warning_doc (ds_warnings s)))]);
        ("settings", settings_out c (ds_settings s))].

(* ---------------------------------------------------------------- from_dict *)

Definition bind {A B} (o : option A) (f : A -> option B) : option B := match o with Some a => f a | None => None end.
Notation "'do' x <- a ; b" := (bind a (fun x => b)) (at level 200, x name, a at level 100, b at level 200).

(* EEMeterWarning(qualified_name=..., description=..., data=...): data must be a dict or a list *)
Definition parse_warning (j : json) : option warning :=
  do n <- bind (field "qualified_name" j) as_string;
  do d <- bind (field "description" j) as_string;
  do x <- field "data" j;
  match x with
  | JObj _ | JArr _ => Some {| w_name := n; w_desc := d; w_data := x |}
  | _ => None
  end.

(* `if not warnings: return []` *)
Definition parse_warnings (j : option json) : option (list warning) :=
  match j with
  | None | Some JNull => Some []
  | Some (JArr l) => opt_all (map parse_warning l)
  | Some _ => None
  end.

(* an Optional[float] = None field: absent or null is None *)
Definition opt_field (k : string) (j : json) : option (option float) :=
  match field k j with None => Some None | Some v => as_opt_float v end.

Definition parse_coeffs (j : json) : option (coeffs F) :=
  do mt <- bind (bind (field "model_type" j) as_string) shape_of_string;
  do i <- bind (field "intercept" j) as_float;
  do hb <- opt_field "hdd_bp" j;
  do hbeta <- opt_field "hdd_beta" j;
  do hk <- opt_field "hdd_k" j;
  do cb <- opt_field "cdd_bp" j;
  do cbeta <- opt_field "cdd_beta" j;
  do ck <- opt_field "cdd_k" j;
  Some (Build_coeffs F mt i hb hbeta hk cb cbeta ck).

Definition parse_tc (j : json) : option (tconstr F) :=
  do a <- bind (field "T_min" j) as_float;
  do b <- bind (field "T_max" j) as_float;
  do c <- bind (field "T_min_seg" j) as_float;
  do d <- bind (field "T_max_seg" j) as_float;
  Some (Build_tconstr F a b c d).

Definition parse_submodel (kv : string * json) : option submodel :=
  let (k, j) := kv in
  do c <- bind (field "coefficients" j) parse_coeffs;
  do tc <- bind (field "temperature_constraints" j) parse_tc;
  do u <- bind (field "f_unc" j) as_float;
  Some {| sm_key := k; sm_c := c; sm_tc := tc; sm_func := u |}.

Section Reload.
Variable cur leg : schema.

(* the settings class the constructor of each model class validates with *)
Definition schema_of (c : mclass) : schema := match c with Daily => cur | Billing => leg end.

(* one settings class: `cls(settings=settings)` with the class's own schema, then the parameters;
   None = an exception (pydantic ValidationError, ...) *)
Definition from_doc_one_class (c : mclass) (d : json) : option daily_state :=
  do st <- field "settings" d;
  if negb (accepts (schema_of c) st) then None else
  do subs <- bind (bind (field "submodels" d) as_obj) (fun l => opt_all (map parse_submodel l));
  do info <- field "info" d;
  do err <- field "error" info;
  do tz <- bind (field "baseline_timezone" info) as_string;
  do dq <- parse_warnings (field "disqualification" info);
  do ws <- parse_warnings (field "warnings" info);
  Some {| ds_subs := subs; ds_error := err; ds_tz := tz; ds_dq := dq; ds_warnings := ws; ds_settings := st |}.

(* DailyModel.from_dict / BillingModel.from_dict as coded (since /repo 394645be): a DailyModel document whose
   settings the current class rejects is read with the legacy class (`cls(model="legacy", settings=...)`) *)
Definition from_doc (c : mclass) (d : json) : option daily_state :=
  match from_doc_one_class c d with
  | Some s => Some s
  | None => match c with Daily => from_doc_one_class Billing d | Billing => None end
  end.

(* the settings schema that produced the state's effective season / weekday maps *)
Definition maps_of (sch : schema) (s : daily_state) : list (option json) * list (option json) :=
  (season_map sch (ds_settings s), weekday_map sch (ds_settings s)).

End Reload.

(* ---------------------------------------------------------------- prediction *)

Fixpoint find_sub (k : string) (l : list submodel) : option submodel :=
  match l with
  | [] => None
  | sm :: rest => if String.eqb (sm_key sm) k then Some sm else find_sub k rest
  end.

(* DailyModel._predict_submodel at one temperature: (predicted, predicted_unc, heating_load, cooling_load) *)
Definition predict_sub (s : daily_state) (k : string) (T : float) : option (float * float * float * float) :=
  match find_sub k (ds_subs s) with
  | None => None
  | Some sm =>
      match predict_submodel F (sm_c sm) (sm_tc sm) T with
      | Some (p, h, c) => Some (p, sm_func sm, h, c)
      | None => None
      end
  end.

(* predict's timezone guard, as coded: `str(self.baseline_timezone) != str(reporting_data.tz)` raises ValueError.
   A fitted model holds the baseline's tzinfo OBJECT, a reloaded one the string str() gave when it was stored; the
   guard reads both only through str(), i.e. through [ds_tz].  (A guard that also compared the objects would
   decide differently for the two -- seeded change C01-5; that is observable only on the implementation.) *)
Definition tz_guard_refuses (s : daily_state) (reporting_tz : string) : bool := negb (String.eqb (ds_tz s) reporting_tz).

(* ---- which sub-model predicts a day: DailyModel._meter_segment through combo_dictionary and the season column.
   A split key is "<days>-<seasons>": days = fw | wd | we, seasons = su / sh / wi joined by "_".
   The month -> season and day -> weekday/weekend maps are those of the model's settings: __init__ derives
   combo_dictionary["wd"/"we"] from settings.weekday_weekend, _initialize_data reads settings.season. *)
Fixpoint split_us (s acc : string) : list string :=
  match s with
  | EmptyString => [acc]
  | String c r => if Ascii.eqb c "_"%char then acc :: split_us r "" else split_us r (acc ++ String c "")
  end.

Definition season_of_code (code : string) : option string :=
  if String.eqb code "su" then Some "summer" else if String.eqb code "sh" then Some "shoulder"
  else if String.eqb code "wi" then Some "winter" else None.

Definition jstr_is (j : option json) (s : string) : bool :=
  match j with Some (JStr x) => String.eqb x s | _ => false end.

(* month 1..12, dow 1..7 (Monday = 1); maps = (season of each month, day class of each day) *)
Definition covers (maps : list (option json) * list (option json)) (key : string) (month dow : nat) : bool :=
  let days := String.substring 0 2 key in
  let seasons := split_us (String.substring 3 (String.length key - 3) key) "" in
  let season_here := nth (month - 1) (fst maps) None in
  let day_here := nth (dow - 1) (snd maps) None in
  existsb (fun code => match season_of_code code with Some name => jstr_is season_here name | None => false end) seasons &&
  (String.eqb days "fw" || (String.eqb days "wd" && jstr_is day_here "weekday") || (String.eqb days "we" && jstr_is day_here "weekend")).

Definition route (maps : list (option json) * list (option json)) (subs : list submodel) (month dow : nat) : list string :=
  map sm_key (filter (fun sm => covers maps (sm_key sm) month dow) subs).

(* the prediction of a day: every sub-model that covers it, at the day's temperature *)
Definition predict_day (maps : list (option json) * list (option json)) (s : daily_state) (month dow : nat) (T : float)
  : list (string * option (float * float * float * float)) :=
  map (fun k => (k, predict_sub s k T)) (route maps (ds_subs s) month dow).
