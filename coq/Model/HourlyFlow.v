(* C05 — HourlyModel.predict (opendsm/eemeter/models/hourly/model.py:382-484, 612-763, 976-1028, 1409-1477) as a
   composition of stages with EXPLICIT inputs, so that every place where the reporting period's `observed`
   column is read is visible in the text of the model.  Executable definitions only; lemmas are in
   Proofs/HourlyFlowProofs.v.

   Stage                                   reads                                    code
   -------------------------------------------------------------------------------------------------------------
   dst_stage      DST normalisation idx    local hours of the rows of each date,    _get_dst_indices 1409-1442
                                           + (count_rows = false, the code as it    counts["observed"] == 23 / 25
                                           is) the NUMBER OF NON-NULL `observed`    (count() skips NaN)
                                           CELLS of each date
   cluster_stage  temporal clusters        stored table, (month, weekday) of rows;  correct_missing_temporal_clusters
                                           when a combination is not in the table:  612-714
                                           `observed` decides the branch and, in
                                           the first branch, the labels
   table_after    model state afterwards   the (re-indexed, repaired) table is      728  self._df_temporal_clusters = ...
                                           stored back into the model (StoreBack)
   ts_matrix      per-row features         weather of the row, its cluster label    _normalize_features 828-850 (frozen
                                           (frozen scalers, bin edges, edge-bin     scalers), _add_temperature_bins,
                                           coefficients are inside the oracle)      _add_temperature_bin_masked_ts
   feature_matrix 24 slots per date        ts_matrix + DST indices                  correct_dst, np.array 976-1006
   regress        linear map + y-scaler    the matrix only                          self._model.predict, inverse_transform
   transform_dst  back to the real clock   predictions + DST indices                1445-1477
   reindex        one row per input stamp  index                                    410-416

   `observed` is therefore read in exactly two places (dst_stage when count_rows = false, cluster_stage when a
   combination is missing); `observed_norm` (845-848) is computed but is not an input of X at predict time.

   The DST stages are the definitions of Model/Dst.v (property C06, tied to the code by C06's correspondence);
   they are imported, not re-stated.  Oracles (not modelled, record [oracles]): the two repairs of the cluster
   table, the per-row feature maps, the regression, the two means used for the 23/25-hour days. *)
From Coq Require Import ZArith List Bool Arith.
From V Require Import Model.Dst.
Import ListNotations.

(* how the rows of a date are counted when looking for 23/25-hour days is a switch of Model/Dst.v ([policy]):
     count_rows = false   the code as it is: df.groupby(date).count()["observed"] — non-null usage cells
     count_rows = true    the proposed repair (/var/tmp/proposed-fixes/C05-1.diff): rows of the date
   (the other switch, loc_by_mask, is about the label lookup at midnight clock changes: C06's subject) *)
Definition count_observed : policy := as_coded.
Definition count_rows_only : policy := {| count_rows := true; loc_by_mask := false |}.

(* what happens to the corrected cluster table at the end of predict *)
Inductive state_policy :=
| StoreBack        (* the code as it is: self._df_temporal_clusters = correct_missing_temporal_clusters(df) *)
| KeepLocal.       (* the proposed repair (C05-2.diff): the corrected table is local to the call *)

Definition combo := (Z * Z)%type.                 (* (month 1..12, day_of_week 0..6) *)
Definition table := list (combo * Z).             (* _df_temporal_clusters: combination -> cluster label *)
Definition ctable := list (combo * option Z).     (* the table re-indexed on a reporting frame; None = NaN *)

Definition combo_eqb (a b : combo) : bool := (fst a =? fst b)%Z && (snd a =? snd b)%Z.
Definition combo_ltb (a b : combo) : bool := (fst a <? fst b)%Z || ((fst a =? fst b)%Z && (snd a <? snd b)%Z).

(* drop_duplicates().sort_values([month, day_of_week]) *)
Fixpoint insert_combo (c : combo) (l : list combo) : list combo :=
  match l with
  | [] => [c]
  | x :: t => if combo_eqb c x then l else if combo_ltb c x then c :: l else x :: insert_combo c t
  end.

Definition lookup_combo (t : table) (c : combo) : option Z :=
  match find (fun p => combo_eqb (fst p) c) t with Some p => Some (snd p) | None => None end.

Definition is_none {A} (o : option A) : bool := match o with None => true | Some _ => false end.
Definition is_some {A} (o : option A) : bool := negb (is_none o).

(* DataFrame.reindex(df_temporal_index) *)
Definition reindexed (t : table) (cs : list combo) : ctable := map (fun c => (c, lookup_combo t c)) cs.
Definition has_missing (ct : ctable) : bool := existsb (fun p => is_none (snd p)) ct.
Definition has_known (ct : ctable) : bool := existsb (fun p => is_some (snd p)) ct.

Definition label_in (ct : ctable) (c : combo) : option Z :=
  match find (fun p => combo_eqb (fst p) c) ct with Some p => snd p | None => None end.

(* the table as a later call sees it *)
Definition known_part (ct : ctable) : table :=
  flat_map (fun p => match snd p with Some l => [(fst p, l)] | None => [] end) ct.

Section Flow.
  Context {W O F C Y : Type}.
  (* W: weather cells of a row (temperature, ghi, supplemental columns); O: a non-null usage value;
     F: time-series feature vector of a row; C: categorical features of a row; Y: a predicted value *)

  Record hrow := { r_utc : Z; r_month : Z; r_dow : Z; r_hour : nat; r_w : W; r_obs : option O }.
  (* the rows of one local date, in index order; h_loc = Some e: df.loc["YYYY-MM-DD"] raises e (Model/Dst.v) *)
  Record hday := { h_rows : list hrow; h_loc : option err }.
  Definition frame := list hday.

  Definition all_rows (fr : frame) : list hrow := concat (map h_rows fr).
  Definition index_of_frame (fr : frame) : list Z := map r_utc (all_rows fr).
  Definition combo_of (r : hrow) : combo := (r_month r, r_dow r).
  Definition combos_of (fr : frame) : list combo := fold_right insert_combo [] (map combo_of (all_rows fr)).

  (* "observed" in df.columns and not df["observed"].isnull().all()   (HourlyReportingData adds an all-NaN
     column when the caller supplies none, so "absent" and "all NaN" are the same frame here) *)
  Definition obs_usable (fr : frame) : bool := existsb (fun r => is_some (r_obs r)) (all_rows fr).

  (* ---------------------------------------------------------------- stage: DST indices *)
  Definition stamp (r : hrow) : hour_stamp :=
    {| hs_utc := r_utc r; hs_hour := r_hour r; hs_obs := is_some (r_obs r) |}.
  Definition dst_day (d : hday) : day := {| d_rows := map stamp (h_rows d); d_loc := h_loc d |}.
  Definition dst_stage (pol : policy) (fr : frame) : res dst_indices := get_dst_indices pol (map dst_day fr).

  (* the only way the count enters _get_dst_indices: the two tests `== 23` and `== 25` *)
  Definition dst_trigger (pol : policy) (d : hday) : bool * bool :=
    (day_count pol (dst_day d) =? 23, day_count pol (dst_day d) =? 25).
  Definition rows_trigger (d : hday) : bool * bool := (length (h_rows d) =? 23, length (h_rows d) =? 25).

  Record oracles := {
    (* nearest known load shape (cdist over the hourly means of `observed`): reads the usage column *)
    repair_by_obs : ctable -> frame -> res ctable;   (* may raise (cdist / pivot on usage with gaps) *)
    (* unstack / ffill / bfill over the month x weekday grid: reads the table only *)
    repair_by_calendar : ctable -> ctable;
    ts_feat : W -> option Z -> F;          (* normalised temperature x bin / cluster dummies, edge-bin terms *)
    cat_feat : W -> option Z -> C;         (* cluster dummies, temperature-bin dummies *)
    regress : list (list F * option C) -> list Y;   (* ElasticNet.predict, y-scaler inverse, flatten *)
    mean2F : F -> F -> F;                  (* (a + b) / 2 on feature vectors (correct_dst) *)
    mean2Y : Y -> Y -> Y                   (* (a + b) / 2 on predictions (_transform_dst) *)
  }.
  Variable K : oracles.

  (* ---------------------------------------------------------------- stage: temporal clusters *)
  Definition cluster_stage (t : table) (fr : frame) : res ctable :=
    let re := reindexed t (combos_of fr) in
    if has_missing re then
      if obs_usable fr then
        (* cdist(X, X_known) with no known combination at all: ValueError (shapes (n,24) vs (0,0)) *)
        if has_known re then repair_by_obs K re fr else Err EValue
      else Ok (repair_by_calendar K re)
    else Ok re.

  Definition table_after (sp : state_policy) (t : table) (fr : frame) : table :=
    match sp with
    | KeepLocal => t
    | StoreBack => match cluster_stage t fr with Ok ct => known_part ct | Err _ => t end
    end.

  (* ---------------------------------------------------------------- stage: features *)
  Definition row_label (ct : ctable) (r : hrow) : option Z := label_in ct (combo_of r).
  Definition ts_matrix (ct : ctable) (fr : frame) : list (list F) :=
    map (fun d => map (fun r => ts_feat K (r_w r) (row_label ct r)) (h_rows d)) fr.
  (* df[categorical + ["date"]].groupby("date").first() *)
  Definition day_cat (ct : ctable) (d : hday) : option C :=
    match h_rows d with r :: _ => Some (cat_feat K (r_w r) (row_label ct r)) | [] => None end.

  (* ---------------------------------------------------------------- the whole of _predict *)
  Definition hourly_flow (pol : policy) (t : table) (fr : frame) : res (list (Z * option Y)) :=
    bind (dst_stage pol fr) (fun idx =>
    bind (cluster_stage t fr) (fun ct =>
    bind (feature_matrix (mean2F K) (ts_matrix ct fr) idx) (fun agg =>
    if negb (all24 agg) then Err EShape else
    bind (transform_dst (mean2Y K) (regress K (combine agg (map (day_cat ct) fr))) idx) (fun y =>
    let index := index_of_frame fr in
    if negb (length y =? length index) then Err ELength
    else reindex (combine index y) index)))).

  (* a model object used for several reporting sets, one after the other *)
  Fixpoint table_after_all (sp : state_policy) (t : table) (history : list frame) : table :=
    match history with
    | [] => t
    | fr :: rest => table_after_all sp (table_after sp t fr) rest
    end.
  Definition hourly_flow_after (pol : policy) (sp : state_policy) (t : table) (history : list frame) (fr : frame) :=
    hourly_flow pol (table_after_all sp t history) fr.

  (* ---------------------------------------------------------------- relations used by the theorems *)
  (* two reporting frames that differ in nothing but the usage column *)
  Definition strip (r : hrow) : Z * Z * Z * nat * W := (r_utc r, r_month r, r_dow r, r_hour r, r_w r).
  Definition strip_day (d : hday) : list (Z * Z * Z * nat * W) * option err := (map strip (h_rows d), h_loc d).
  Definition same_weather_calendar (fr fr' : frame) : Prop := map strip_day fr = map strip_day fr'.

  (* the statement's guard: the stored table knows every (month, weekday) of the reporting frame *)
  Definition covers (t : table) (fr : frame) : bool :=
    forallb (fun c => is_some (lookup_combo t c)) (combos_of fr).

  Definition fully_observed (fr : frame) : bool := forallb (fun r => is_some (r_obs r)) (all_rows fr).
  Definition blank (fr : frame) : bool := negb (obs_usable fr).
  Definition regular_days (fr : frame) : bool := forallb (fun d => length (h_rows d) =? 24) fr.
End Flow.

Arguments hrow : clear implicits.
Arguments hday : clear implicits.
Arguments frame : clear implicits.
Arguments oracles : clear implicits.

(* the property's reading of "unchanged": every timestamp predicted in both runs carries the same value, and a run
   that predicts on one side and raises on the other is a difference *)
Definition agree {Y} (a b : res (list (Z * option Y))) : Prop :=
  match a, b with
  | Ok x, Ok y => forall ts p q, In (ts, Some p) x -> In (ts, Some q) y -> p = q
  | Err _, Err _ => True
  | _, _ => False
  end.

(* ------------------------------------------------------------------ the calendar repair, concretely
   (hourly/model.py, else-branch of correct_missing_temporal_clusters):
     df_temporal_clusters.unstack()      rows: months of the frame, columns: weekdays of the frame, NaN where the
                                         combination is unknown or does not occur in the frame
     .ffill(axis=1).bfill(axis=1)        along the weekdays of each month
     .ffill(axis=0).bfill(axis=0)        then along the months
     .stack()                            back to (month, weekday)
   It reads the re-indexed table only.  Offered as the instance of the oracle [repair_by_calendar] that the
   correspondence uses; the theorems hold for any instance. *)
Fixpoint insert_z (x : Z) (l : list Z) : list Z :=
  match l with
  | [] => [x]
  | y :: t => if (x =? y)%Z then l else if (x <? y)%Z then x :: l else y :: insert_z x t
  end.
Definition sorted_set (l : list Z) : list Z := fold_right insert_z [] l.

Fixpoint ffill (prev : option Z) (l : list (option Z)) : list (option Z) :=
  match l with
  | [] => []
  | x :: t => let v := match x with Some _ => x | None => prev end in v :: ffill v t
  end.
Definition bfill (l : list (option Z)) : list (option Z) := rev (ffill None (rev l)).
Definition fill_line (l : list (option Z)) : list (option Z) := bfill (ffill None l).

Fixpoint transpose (n : nat) (g : list (list (option Z))) : list (list (option Z)) :=
  match n with
  | O => []
  | S k => map (fun r => match r with x :: _ => x | [] => None end) g :: transpose k (map (@tl (option Z)) g)
  end.

Definition calendar_fill (ct : ctable) : ctable :=
  let months := sorted_set (map (fun p => fst (fst p)) ct) in
  let dows := sorted_set (map (fun p => snd (fst p)) ct) in
  let grid := map (fun m => map (fun d => label_in ct (m, d)) dows) months in
  let g1 := map fill_line grid in                                        (* axis = 1 *)
  let g2 := transpose (length months) (map fill_line (transpose (length dows) g1)) in   (* axis = 0 *)
  let cell (c : combo) : option Z :=
    match find (fun mr => (fst mr =? fst c)%Z) (combine months g2) with
    | Some mr => match find (fun dv => (fst dv =? snd c)%Z) (combine dows (snd mr)) with
                 | Some dv => snd dv
                 | None => None
                 end
    | None => None
    end in
  map (fun p => (fst p, cell (fst p))) ct.

(* ------------------------------------------------------------------ the data class in front of predict
   _HourlyData._set_data (hourly/data.py): the caller's records, in the order given, may repeat a time stamp (meter and
   weather feeds concatenated without a join).  Stages:
     select          remove_duplicates: keep the FIRST record of every stamp, whatever it holds (CalTRACK 2.3.2.2) —
                     a function of the index alone (KeepFirst).  DropEmptyKeepFirst is the variant that discards records
                     without any reading first (`df.dropna(how="all")` before the de-duplication): whether a record is
                     empty depends on its usage cell, so the surviving record does too.
     calendar        _get_contiguous_datetime: the contiguous hourly index from local 00:00 of the first selected stamp
                     to 23:00 of the last one, grouped by local date — a function of the selected index (oracle: C06
                     models it, Model/Dst.v contiguous_index; the tz data are not modelled)
     fill_w, fill_o  interpolate(): every column is gap-filled from ITS OWN values (oracles, one per column)
   The result is the frame handed to hourly_flow. *)
Inductive dedup_policy := KeepFirst | DropEmptyKeepFirst.

Section DataStage.
  Context {Wc W O : Type}.       (* Wc: the weather cells of a caller's record (each may be NaN); W: weather after gap filling *)
  Record rec := { q_utc : Z; q_w : Wc; q_obs : option O }.
  Variable w_empty : Wc -> bool.                    (* every weather cell of the record is NaN *)
  Definition empty_rec (r : rec) : bool := w_empty (q_w r) && is_none (q_obs r).

  Fixpoint keep_first (seen : list Z) (l : list rec) : list rec :=
    match l with
    | [] => []
    | r :: t => if existsb (Z.eqb (q_utc r)) seen then keep_first seen t else r :: keep_first (q_utc r :: seen) t
    end.
  Definition select (p : dedup_policy) (l : list rec) : list rec :=
    match p with
    | KeepFirst => keep_first [] l
    | DropEmptyKeepFirst => keep_first [] (filter (fun r => negb (empty_rec r)) l)
    end.

  Definition cal_stamp := (Z * Z * Z * nat)%type.                       (* utc, month, weekday, local hour *)
  Variable calendar : list Z -> list (list cal_stamp * option err).     (* selected index -> dates of the contiguous index *)
  Variable fill_w : list (option Wc) -> list W.                         (* None: the contiguous index has no record there *)
  Variable fill_o : list (option O) -> list (option O).

  Definition find_rec (sel : list rec) (u : Z) : option rec := find (fun r => Z.eqb (q_utc r) u) sel.
  Definition cs_utc (s : cal_stamp) : Z := let '(u, _, _, _) := s in u.

  Definition mk_hrow (s : cal_stamp) (w : W) (o : option O) : hrow W O :=
    let '(u, m, d, h) := s in {| r_utc := u; r_month := m; r_dow := d; r_hour := h; r_w := w; r_obs := o |}.

  Fixpoint split_days (cal : list (list cal_stamp * option err)) (flat : list (hrow W O)) : frame W O :=
    match cal with
    | [] => []
    | (st, loc) :: rest =>
        {| h_rows := firstn (length st) flat; h_loc := loc |} :: split_days rest (skipn (length st) flat)
    end.

  Definition data_stage (p : dedup_policy) (recs : list rec) : frame W O :=
    let sel := select p recs in
    let cal := calendar (map q_utc sel) in
    let stamps := concat (map fst cal) in
    let wcol := fill_w (map (fun s => option_map q_w (find_rec sel (cs_utc s))) stamps) in
    let ocol := fill_o (map (fun s => match find_rec sel (cs_utc s) with Some r => q_obs r | None => None end) stamps) in
    let flat := map (fun swk => mk_hrow (fst (fst swk)) (snd (fst swk)) (nth (snd swk) ocol None))
                    (combine (combine stamps wcol) (seq 0 (length stamps))) in
    split_days cal flat.

  (* two lists of records that differ in nothing but the usage cells *)
  Definition rec_view (r : rec) : Z * Wc := (q_utc r, q_w r).
  Definition same_records_but_usage (a b : list rec) : Prop := map rec_view a = map rec_view b.
End DataStage.

Arguments rec : clear implicits.

(* ------------------------------------------------------------------ the zero rule of the data class
   _HourlyData._set_data: "Convert electricity data having 0 meter values to NaNs":
       df.loc[df["observed"] == 0, "observed"] = np.nan
   acts on the USAGE cell of the record only (ZeroUsageCell).  ZeroWholeRow is the variant that blanks the whole record
   (`df = df.mask(df["observed"] == 0)`): the weather cells of a record then depend on its usage value. *)
Inductive zero_policy := ZeroUsageCell | ZeroWholeRow.

Section ZeroStage.
  Context {Wc W O : Type}.
  Variable is_zero : O -> bool.          (* observed == 0 *)
  Variable w_nan : Wc.                   (* all weather cells NaN *)

  Definition zero_rec (zp : zero_policy) (elec : bool) (r : rec Wc O) : rec Wc O :=
    if elec && match q_obs r with Some o => is_zero o | None => false end
    then {| q_utc := q_utc r; q_w := match zp with ZeroUsageCell => q_w r | ZeroWholeRow => w_nan end; q_obs := None |}
    else r.

  Variable w_empty : Wc -> bool.
  Variable calendar : list Z -> list (list cal_stamp * option err).
  Variable fill_w : list (option Wc) -> list W.
  Variable fill_o : list (option O) -> list (option O).

  (* the whole of _set_data: zero rule, de-duplication, contiguous index, gap filling *)
  Definition public_stage (zp : zero_policy) (elec : bool) (p : dedup_policy) (recs : list (rec Wc O)) : frame W O :=
    data_stage w_empty calendar fill_w fill_o p (map (zero_rec zp elec) recs).
End ZeroStage.
