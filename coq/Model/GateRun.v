From Coq Require Import ZArith List Bool.
From V Require Import Model.CasesLib Model.Gate.
Import ListNotations.
Open Scope Z_scope.

Definition exn_eqb (a b : exn) : bool :=
  match a, b with
  | TypeErr, TypeErr | DataSufficiency, DataSufficiency | RuntimeErr, RuntimeErr
  | Disqualified, Disqualified | ValueTz, ValueTz | ValueMissingFeature, ValueMissingFeature
  | AttrErr, AttrErr => true
  | _, _ => false
  end.
Definition outcome_eqb (a b : outcome) : bool :=
  match a, b with
  | Frame, Frame | Fitted, Fitted => true
  | Err x, Err y => exn_eqb x y
  | _, _ => false
  end.

(* a case: family, explicit-ghi flag, ids of the datasets whose fit is poor (the oracle), ops, and what the
   implementation did: the outcome of every op and (fitted, dq names, tz) of the object after every op *)
Definition obs := (option outcome * (bool * list Z * Z))%type.

Definition obs_eqb (a b : obs) : bool :=
  let '(o1, (f1, q1, t1)) := a in
  let '(o2, (f2, q2, t2)) := b in
  opt_eqb outcome_eqb o1 o2 && Bool.eqb f1 f2 && list_eqb Z.eqb q1 q2 && (negb f1 || (t1 =? t2)).

Fixpoint trace (poor : dobj -> bool) (f : family) (s : mstate) (ops : list op) : list obs :=
  match ops with
  | [] => []
  | o :: rest =>
      let '(s', r) := step poor f s o in
      (r, (fitted s', m_dq s', m_tz s')) :: trace poor f s' rest
  end.

Definition poor_of (ids : list Z) (d : dobj) : bool := existsb (fun k => k =? d_id d) ids.

Definition check_gate (c : family * bool * list Z * list op * list obs) : bool :=
  let '(f, ghi, poor_ids, ops, expected) := c in
  list_eqb obs_eqb (trace (poor_of poor_ids) f (unfitted ghi) ops) expected.
