(* Executable comparison used by the C20 correspondence. *)
From Coq Require Import ZArith List Bool.
From V Require Import Model.CasesLib Model.Windows.
Import ListNotations.
Open Scope Z_scope.

Definition row_eqb (a b : row) : bool :=
  (fst a =? fst b) && list_eqb (opt_eqb Z.eqb) (snd a) (snd b).

Definition result_eqb (a b : result) : bool :=
  match a, b with
  | Ok r1 e1 s1, Ok r2 e2 s2 => list_eqb row_eqb r1 r2 && Bool.eqb e1 e2 && Bool.eqb s1 s2
  | ErrNoData, ErrNoData => true
  | ErrValue, ErrValue => true
  | _, _ => false
  end.

Definition check_baseline (c : bopts * list row * result) : bool :=
  let '(o, d, exp) := c in result_eqb (get_baseline_data o d) exp.
Definition check_reporting (c : ropts * list row * result) : bool :=
  let '(o, d, exp) := c in result_eqb (get_reporting_data o d) exp.
