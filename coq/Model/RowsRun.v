(* Executable comparison used by the C07 correspondence (harness/c07.py).
   The curve oracle [f] of Model/Rows.v is instantiated by the unsmoothed three-segment curve
   (model types tidd / hdd_tidd_cdd with hdd_bp <= cdd_bp strictly inside the fitted range), the only
   shapes the C07 generator produces:  E(T) = intercept + hdd_beta*(hdd_bp - T)  below hdd_bp,
   intercept + cdd_beta*(T - cdd_bp) above cdd_bp, intercept in between.  (The curve itself is C11's subject.) *)
From Coq Require Import ZArith QArith Qabs List Bool.
From V Require Import Model.CasesLib Model.Rows.
Import ListNotations.

Record pl := mkpl { p_seg : Z; p_intercept : Q; p_hbp : Q; p_hbeta : Q; p_cbp : Q; p_cbeta : Q }.

Definition Qltb (a b : Q) : bool := negb (Qle_bool b a).

Definition pl_eval (p : pl) (t : Q) : Q :=
  if Qltb t (p_hbp p) then p_intercept p + p_hbeta p * (p_hbp p - t)
  else if Qltb (p_cbp p) t then p_intercept p + p_cbeta p * (t - p_cbp p)
  else p_intercept p.

Definition curve_of (ps : list pl) (s : Z) (t : Q) : Q :=
  match find (fun p => Z.eqb (p_seg p) s) ps with
  | Some p => pl_eval p t
  | None => 0
  end.

(* Series.sum() with +-inf present: +inf, -inf, or NaN when both signs occur *)
Definition has_kind (k : qcell -> bool) (l : list qcell) : bool := existsb k l.
Definition is_pinf (c : qcell) : bool := match c with PInf => true | _ => false end.
Definition is_ninf (c : qcell) : bool := match c with NInf => true | _ => false end.
Definition nansum_ext (l : list qcell) : qcell :=
  match has_kind is_pinf l, has_kind is_ninf l with
  | true, true => NaN
  | true, false => PInf
  | false, true => NInf
  | false, false => V (nansum l)
  end.

Definition Qmax3 (a b c : Q) : Q :=
  let m := if Qle_bool a b then b else a in if Qle_bool m c then c else m.
(* |a-b| <= 1e-9 * max(1,|a|,|b|) *)
Definition close (a b : Q) : bool :=
  Qle_bool (Qabs (a - b)) ((1 # 1000000000) * Qmax3 1 (Qabs a) (Qabs b)).
Definition cell_close (a b : qcell) : bool :=
  match a, b with
  | V x, V y => close x y
  | PInf, PInf => true
  | NInf, NInf => true
  | NaN, NaN => true
  | _, _ => false
  end.

(* kind of a cell as the harness encodes it: 0 finite, 1 +inf, 2 -inf, 3 NaN *)
Definition kind (c : qcell) : Z := match c with V _ => 0 | PInf => 1 | NInf => 2 | NaN => 3 end%Z.

Definition policy_of (n : Z) : mask_policy :=
  if Z.eqb n 0 then MaskOff else if Z.eqb n 1 then MaskMissingTemp
  else if Z.eqb n 2 then MaskNonFiniteTemp else MaskDropped.

(* which masking behaviours satisfy the C07 statement over the property's quantifier (usage a number or missing,
   temperature anything) — Properties/C07.v proves  C07_statement_q pol <-> mode_satisfies_statement pol = true.
   The harness evaluates it for the behaviour it detected on the implementation. *)
Definition mode_satisfies_statement (pol : mask_policy) : bool :=
  match pol with
  | MaskNonFiniteTemp | MaskDropped => true
  | MaskOff | MaskMissingTemp => false
  end.

(* one case: (policy, has_obs, sub-models, input rows, expected)
   expected = (per-row pattern [(ts, kind observed, kind predicted)] of the un-aggregated frame,
               [(sum observed, sum predicted)] for every frame returned: the un-aggregated one and, for billing
               models, the monthly and bi-monthly ones — their column totals are the totals of the daily columns
               (C19 totals_conserved), so all of them are compared with the model's daily totals) *)
Definition pattern := list (Z * Z * Z).
Definition pattern_of (out : list (orow Q)) : pattern :=
  map (fun o => (o_ts o, kind (o_obs o), kind (o_pred o))) out.
Definition pat_eqb (a b : Z * Z * Z) : bool :=
  let '(t1, o1, p1) := a in let '(t2, o2, p2) := b in Z.eqb t1 t2 && Z.eqb o1 o2 && Z.eqb p1 p2.

Definition case := (Z * bool * list pl * list (row Q) * (pattern * list (qcell * qcell)))%type.

Definition model_out (c : case) : list (orow Q) :=
  let '(pol, has_obs, ps, rows, _) := c in
  predict_rows (curve_of ps) (policy_of pol) has_obs rows.

Definition check_predict (c : case) : bool :=
  let out := model_out c in
  let '(_, _, _, _, (pat, sums)) := c in
  let so := nansum_ext (map (@o_obs Q) out) in
  let sp := nansum_ext (map (@o_pred Q) out) in
  list_eqb pat_eqb (pattern_of out) pat
  && forallb (fun s => cell_close so (fst s) && cell_close sp (snd s)) sums.

(* ---- the public entry point: DailyModel.predict / BillingModel.predict(aggregation=None) ----
   predict() accepts two data classes for its reporting_data argument (DailyReportingData / DailyBaselineData, billing:
   BillingReportingData / BillingBaselineData), checks the type, takes the frame (.df) and hands it to _predict.
   The data class is carried by the model's entry point and by every generated case, and is NOT an input of the row
   pipeline: Properties/C07.v proves that the output depends on the frame only, and the correspondence runs both
   classes through the public predict() against this one definition. *)
Inductive data_class := ReportingData | BaselineData.
Definition data_class_of (n : Z) : data_class := if Z.eqb n 0 then ReportingData else BaselineData.
Definition predict_public {A : Type} (f : Z -> A -> A) (pol : mask_policy) (dc : data_class) (has_obs : bool)
           (rows : list (row A)) : list (orow A) :=
  predict_rows f pol has_obs rows.

(* a case with its data class: (0 reporting | 1 baseline, case) *)
Definition check_predict_dc (c : Z * case) : bool :=
  let '(dc, cc) := c in
  let '(pol, has_obs, ps, rows, _) := cc in
  list_eqb (fun a b => pat_eqb a b) (pattern_of (predict_public (curve_of ps) (policy_of pol) (data_class_of dc) has_obs rows))
           (pattern_of (model_out cc))
  && check_predict cc.

(* diagnostics for a disagreement *)
Definition show_predict (c : case) :=
  let out := model_out c in
  (pattern_of out, nansum_ext (map (@o_obs Q) out), nansum_ext (map (@o_pred Q) out)).

Definition show_predict_dc (c : Z * case) := show_predict (snd c).

(* monomorphic constructors for the generated cases files *)
Definition qV (q : Q) : qcell := V q.
Definition qPInf : qcell := PInf.
Definition qNInf : qcell := NInf.
Definition qNaN : qcell := NaN.
Definition qrow (t s : Z) (te ob : qcell) : row Q := mkrow t s te ob.
