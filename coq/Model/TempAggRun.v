(* Executable comparison helpers used by the C09 correspondence (harness/c09.py); number encoding of ResampleRun.v. *)
From Coq Require Import ZArith QArith List Bool Uint63.
From V Require Import Model.CasesLib Model.Resample Model.ResampleRun Model.TempAgg.
Import ListNotations.
Open Scope Z_scope.

Definition oz_q (o : option Z) : option Q := option_map inject_Z o.

(* one observed row: temperature, temperature_not_null, temperature_null (each possibly NaN) *)
Definition trow_close (r : trow) (e : qv * qv * qv) : bool :=
  let '(m, a, b) := e in
  oq_close (t_mean r) (qv_to m) && oq_close (oz_q (t_notnull r)) (qv_to a) && oq_close (oz_q (t_null r)) (qv_to b).

Inductive tobs := ORows (l : list (qv * qv * qv)) | OAllNaN.

(* the input frame row by row: stamp, observed, temperature *)
Definition frm (l : list (int * qv * qv)) : list frow :=
  map (fun p => (zi (fst (fst p)), qv_to (snd (fst p)), qv_to (snd p))) l.

Definition check_hourly (c : bool * bool * option int * list int * list frow * tobs) : bool :=
  let '(elec, billing, tol, midx, fr, e) := c in
  match class_hourly elec billing (option_map zi tol) (map zi midx) fr, e with
  | TRows rows, ORows l => list_eqb2 trow_close rows l
  | TErrAllNaN, OAllNaN => true
  | _, _ => false
  end.

Definition check_subhourly (c : bool * bool * bool * list frow * list Z * int * list (qv * qv * qv)) : bool :=
  let '(elec, scale, exact, fr, bs, first, e) := c in
  let rows := class_subhourly elec scale exact fr bs in
  match rows with [] => true | r :: _ => fst r =? zi first end &&
  list_eqb2 trow_close (map snd rows) e.

(* as_freq(series, "D", series_type="instantaneous", include_coverage=True) *)
Definition check_asfreq_inst (c : list reading * list Z * int * list (qv * qv)) : bool :=
  let '(rs, bs, first, e) := c in
  let rows := as_freq_inst rs bs in
  starts_at rows first &&
  list_eqb2 (fun r x => oq_close (d_val r) (qv_to (fst x)) && oq_close (Some (d_cov r)) (qv_to (snd x))) rows e.
