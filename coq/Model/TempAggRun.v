(* Executable comparison helpers used by the C09 correspondence (harness/c09.py); number encoding of ResampleRun.v. *)
From Coq Require Import ZArith QArith List Bool Uint63.
From V Require Import Model.CasesLib Model.Resample Model.ResampleRun Model.TempAgg.
Import ListNotations.
Open Scope Z_scope.

Definition oz_q (o : option Z) : option Q := option_map inject_Z o.

(* one observed row: temperature, temperature_not_null, temperature_null (each possibly NaN) *)
Definition trow_close (r : trow) (e : qv * qv * qv) : bool :=
  let '(m, a, b) := e in
  oq_close (t_mean r) (qv_to m) && oq_close (oz_q (t_notnull r)) (qv_to a) && oq_close (oz_q (t_null r)) (qv_to b).

Inductive tobs := ORows (l : list (qv * qv * qv)) | OAllNaN.

Definition check_hourly (c : bool * option int * list int * list reading * tobs) : bool :=
  let '(billing, tol, midx, temps, e) := c in
  match hourly_path billing (option_map zi tol) (map zi midx) temps, e with
  | TRows rows, ORows l => list_eqb2 trow_close rows l
  | TErrAllNaN, OAllNaN => true
  | _, _ => false
  end.

(* temperature only (the counts of the billing class are not observable per day when the frame is not daily) *)
Definition check_hourly_temp (c : bool * option int * list int * list reading * list qv) : bool :=
  let '(billing, tol, midx, temps, e) := c in
  match hourly_path billing (option_map zi tol) (map zi midx) temps with
  | TRows rows => list_eqb2 (fun r x => oq_close (t_mean r) (qv_to x)) rows e
  | TErrAllNaN => false
  end.

Definition check_subhourly (c : bool * bool * list reading * list Z * int * list (qv * qv * qv)) : bool :=
  let '(scale, exact, rs, bs, first, e) := c in
  let rows := subhourly_path scale exact rs bs in
  match rows with [] => true | r :: _ => fst r =? zi first end &&
  list_eqb2 trow_close (map snd rows) e.

(* as_freq(series, "D", series_type="instantaneous", include_coverage=True) *)
Definition check_asfreq_inst (c : list reading * list Z * int * list (qv * qv)) : bool :=
  let '(rs, bs, first, e) := c in
  let rows := as_freq_inst rs bs in
  starts_at rows first &&
  list_eqb2 (fun r x => oq_close (d_val r) (qv_to (fst x)) && oq_close (Some (d_cov r)) (qv_to (snd x))) rows e.
