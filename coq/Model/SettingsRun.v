(* C14 — comparison helpers for the generated correspondence cases (harness/c14.py). *)
From Coq Require Import ZArith QArith List Bool String.
From V Require Import Model.Settings Model.CasesLib.
Import ListNotations.
Open Scope string_scope.

Definition reason_eqb (a b : reason) : bool :=
  match a, b with
  | RField, RField | RDeveloper, RDeveloper | RCross, RCross | RCrash, RCrash | RType, RType => true
  | _, _ => false
  end.

(* difference of a dump against the default dump of the same class: [(path, value)] in field order *)
Fixpoint jdiff (rpath : list string) (a b : jv) {struct a} : list (list string * jv) :=
  match a, b with
  | JObj x, JObj y =>
      if list_eqb String.eqb (map fst x) (map fst y) then
        (fix go (x y : list (string * jv)) {struct x} : list (list string * jv) :=
           match x, y with
           | (k, va) :: x', (_, vb) :: y' => (jdiff (k :: rpath) va vb ++ go x' y')%list
           | _, _ => []
           end) x y
      else [(rev rpath, a)]
  | _, _ => if jv_eqb a b then [] else [(rev rpath, a)]
  end.

Definition diff_eqb (a b : list (list string * jv)) : bool :=
  list_eqb (fun x y => list_eqb String.eqb (fst x) (fst y) && jv_eqb (snd x) (snd y)) a b.

Inductive expect :=
| EAccept (cls : string) (diff : list (list string * jv))   (* accepted: class of the settings object, dump minus default dump *)
| EReject (r : reason).

Definition outcome_ok (reg : registry) (cls : result string) (got : result sval) (ex : expect) : bool :=
  match got, ex with
  | Reject r, EReject r' => reason_eqb r r'
  | Accept s, EAccept c diff =>
      match cls with
      | Accept c' =>
          String.eqb c c' &&
          match construct_class reg c [] with
          | Accept s0 => diff_eqb (jdiff [] (dump s) (dump s0)) diff
          | Reject _ => false
          end
      | Reject _ => false
      end
  | _, _ => false
  end.

(* one constructor call *)
Definition check_case (reg : registry) (c : ctor * input * expect) : bool :=
  match c with (ct, inp, ex) => outcome_ok reg (target_class ct inp) (construct reg ct inp) ex end.

(* the complete default dump of a class *)
Definition check_default (reg : registry) (c : string * jv) : bool :=
  match construct_class reg (fst c) [] with
  | Accept s => jv_eqb (dump s) (snd c)
  | Reject _ => false
  end.

(* build, store, reload: (ctor, input, stored settings minus default dump, outcome of from_dict) *)
Definition reload_class (reg : registry) (c : ctor) (doc : jv) : result string :=
  match doc with
  | JObj kvs => target_class (reload_ctor reg c kvs) (InDict kvs)
  | _ => Reject RCrash
  end.
Definition check_stored (reg : registry) (c : ctor * input * list (list string * jv) * expect) : bool :=
  match c with
  | (ct, inp, sdiff, ex) =>
      match construct reg ct inp, target_class ct inp with
      | Accept s, Accept cls =>
          let doc := stored_settings ct s in
          match construct_class reg cls [] with
          | Accept s0 => diff_eqb (jdiff [] doc (dump s0)) sdiff && outcome_ok reg (reload_class reg ct doc) (reload reg ct doc) ex
          | Reject _ => false
          end
      | _, _ => false
      end
  end.

(* diagnostics *)
Definition show (reg : registry) (ct : ctor) (inp : input) : result jv * result string :=
  (match construct reg ct inp with Accept s => Accept (dump s) | Reject r => Reject r end, target_class ct inp).
