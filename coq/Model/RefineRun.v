(* Executable comparison helpers of the C12 correspondence: Model/Refine.v at [FNum] (binary64). *)
From Coq Require Import List Bool PrimFloat.
From V Require Import Model.Num Model.NumF Model.DailyCurve Model.DailyCurveRun Model.Refine Model.CasesLib.
Import ListNotations.

Definition key_eqb (a b : model_key) : bool :=
  match a, b with
  | KFullSmooth, KFullSmooth | KFull, KFull | KCSmooth, KCSmooth | KC, KC | KTidd, KTidd => true
  | _, _ => false
  end.

Definition shape_eqb (a b : shape) : bool :=
  match a, b with
  | HddTiddCddSmooth, HddTiddCddSmooth | HddTiddCdd, HddTiddCdd | HddTiddSmooth, HddTiddSmooth
  | TiddCddSmooth, TiddCddSmooth | HddTidd, HddTidd | TiddCdd, TiddCdd | Tidd, Tidd => true
  | _, _ => false
  end.

Definition fopt_same (a b : option float) : bool := opt_eqb f_same a b.

Definition coeffs_same (a b : coeffs F) : bool :=
  shape_eqb (model_type a) (model_type b) && f_same (intercept a) (intercept b) &&
  fopt_same (hdd_bp a) (hdd_bp b) && fopt_same (hdd_beta a) (hdd_beta b) && fopt_same (hdd_k a) (hdd_k b) &&
  fopt_same (cdd_bp a) (cdd_bp b) && fopt_same (cdd_beta a) (cdd_beta b) && fopt_same (cdd_k a) (cdd_k b).

(* OptimizedResult constructed directly on a raw vector: (model_key, raw x, constraints,
   implementation's (coef_id as key, x) and named_coeffs) -- exact *)
Definition check_refine (cs : model_key * list float * tconstr F * option (model_key * list float) * option (coeffs F)) : bool :=
  let '(key, raw, tc, exp_ref, exp_named) := cs in
  opt_eqb (fun a b : model_key * list float => key_eqb (fst a) (fst b) && list_eqb f_same (snd a) (snd b))
          (refine F key raw tc) exp_ref &&
  opt_eqb coeffs_same (named_coeffs F key raw tc) exp_named.

(* the two curves on a raw vector: rows (T, scored by the objective's model function, OptimizedResult.eval) *)
Definition check_curves (cs : model_key * list float * tconstr F * list (float * float * float)) : bool :=
  let '(key, raw, tc, rows) := cs in
  match scored_x F key raw, named_coeffs F key raw tc with
  | Some xs, Some c =>
      match effective_x F c tc with
      | Some xe =>
          forallb (fun r : float * float * float =>
                     let '(Ti, sc, st) := r in
                     cmp (uses_exp xs (T_min tc) (T_max tc) Ti) (full_model1 F xs (T_min tc) (T_max tc) Ti) sc &&
                     cmp (uses_exp xe (T_min tc) (T_max tc) Ti) (full_model1 F xe (T_min tc) (T_max tc) Ti) st) rows
      | None => false
      end
  | _, _ => match rows with [] => true | _ => false end
  end.

(* bounds construction as coded, degenerate rows included (fix_identical_bnds = fix_identical_row):
   (layout 0..4 = full smooth / full / c smooth / c / tidd, new_bnds, bnds_0, implementation's result) *)
Definition row_same (a b : float * float) : bool := f_same (fst a) (fst b) && f_same (snd a) (snd b).
Definition check_bounds (cs : nat * list (float * float) * list (float * float) * option (list (float * float))) : bool :=
  let '(layout, nb, b0, expected) := cs in
  let fixid := fix_identical_row F in
  let got :=
    match layout with
    | 0 => update_bnds_full_smooth F fixid nb b0
    | 1 => update_bnds_full F fixid nb b0
    | 2 => update_bnds_c_smooth F fixid nb b0
    | 3 => update_bnds_c F fixid nb b0
    | _ => update_bnds_tidd F fixid b0
    end in
  opt_eqb (list_eqb row_same) got expected.

(* fix_identical_bnds called directly on one row *)
Definition check_fix_identical (cs : (float * float) * (float * float)) : bool :=
  let '(r, expected) := cs in row_same (fix_identical_row F r) expected.

(* ModelCoefficients.from_np_arrays called directly: (coef_id as key, array, implementation's coefficients) -- exact *)
Definition check_from_np (cs : model_key * list float * option (coeffs F)) : bool :=
  let '(id, x, expected) := cs in opt_eqb coeffs_same (from_np_arrays F id x) expected.

(* get_T_bnds on the temperatures of a component: (T, segment_minimum_count, implementation's four limits; None = ValueError) *)
Definition tc_same (a b : tconstr F) : bool :=
  f_same (T_min a) (T_min b) && f_same (T_max a) (T_max b) && f_same (T_min_seg a) (T_min_seg b) && f_same (T_max_seg a) (T_max_seg b).
Definition check_tbnds (cs : list float * nat * option (tconstr F)) : bool :=
  let '(T, n, expected) := cs in opt_eqb tc_same (get_T_bnds F T n) expected.
