(* Civil calendar for property C13: what pandas' DatetimeIndex.month / .dayofweek + 1 (read by
   DailyModel._initialize_data, daily/model.py:513-514) give for the local civil date of a row.
   A date is the number of days since 1970-01-01 (proleptic Gregorian); the conversion is Hinnant's
   civil_from_days over Z.  Executable definitions only; validated against pandas / CPython for every
   day 1970-2100 by the `calendar` stream of harness/c13.py; the range lemmas are in
   Proofs/SplitsProofs.v. *)
From Coq Require Import ZArith List Bool.
Import ListNotations.
Open Scope Z_scope.

(* day of the 400-year era, 0 .. 146096, counted from 0000-03-01 *)
Definition doe_of (z : Z) : Z := (z + 719468) mod 146097.
Definition era_of (z : Z) : Z := (z + 719468) / 146097.

Definition yoe_of_doe (doe : Z) : Z := (doe - doe / 1460 + doe / 36524 - doe / 146096) / 365.
Definition doy_of_doe (doe : Z) : Z :=
  let yoe := yoe_of_doe doe in doe - (365 * yoe + yoe / 4 - yoe / 100).
Definition mp_of_doe (doe : Z) : Z := (5 * doy_of_doe doe + 2) / 153.
Definition month_of_doe (doe : Z) : Z :=
  let mp := mp_of_doe doe in if mp <? 10 then mp + 3 else mp - 9.
Definition dom_of_doe (doe : Z) : Z := doy_of_doe doe - (153 * mp_of_doe doe + 2) / 5 + 1.

Definition month_of (z : Z) : Z := month_of_doe (doe_of z).          (* 1 .. 12 *)
Definition dom_of (z : Z) : Z := dom_of_doe (doe_of z).              (* 1 .. 31 *)
Definition year_of (z : Z) : Z :=
  let y := yoe_of_doe (doe_of z) + era_of z * 400 in
  if month_of z <=? 2 then y + 1 else y.
(* ISO day of the week, Monday = 1 (pandas dayofweek + 1); 1970-01-01 was a Thursday *)
Definition dow_of (z : Z) : Z := (z + 3) mod 7 + 1.

(* bounded universal quantifier over z, z+1, ..., z+n-1 *)
Fixpoint all_from (n : nat) (z : Z) (p : Z -> bool) : bool :=
  match n with
  | O => true
  | S k => if p z then all_from k (z + 1) p else false
  end.

(* one calendar month as the implementation sees it: first day number, number of days, year, month,
   ISO weekday of the first day *)
Definition month_run : Type := (Z * Z * Z * Z * Z)%type.

Definition check_month_run (r : month_run) : bool :=
  let '(start, len, y, m, dow0) := r in
  all_from (Z.to_nat len) 0
    (fun k => let z := start + k in
              (year_of z =? y) && (month_of z =? m) && (dom_of z =? k + 1)
              && (dow_of z =? (dow0 - 1 + k) mod 7 + 1)).

(* consecutive runs: each starts where the previous one ended *)
Fixpoint runs_contiguous (l : list month_run) : bool :=
  match l with
  | [] => true
  | r1 :: rest =>
      match rest with
      | [] => true
      | r2 :: _ =>
          let '(s1, n1, _, _, _) := r1 in
          let '(s2, _, _, _, _) := r2 in
          (s1 + n1 =? s2) && runs_contiguous rest
      end
  end.

Definition check_calendar (l : list month_run) : bool :=
  runs_contiguous l && forallb check_month_run l.
