(* C05 — executable comparison helpers used by the generated cases files (harness/c05.py). *)
From Coq Require Import ZArith QArith List Bool Arith.
From V Require Import Model.CasesLib Model.Dst Model.DstRun Model.Rows Model.RowsRun Model.HourlyFlow
                      Model.CounterfactualFlows.
Import ListNotations.

(* ================================================================== hourly: outcome and equality pattern
   The oracles of Model/HourlyFlow.v are instantiated by constants: the outcome class of the pipeline (rows
   returned / exception class) and the stage inputs do not depend on them as long as the regression returns 24
   values per date (sklearn contract).  repair_by_obs labels a missing combination 0 (any label would do: the
   comparison never looks at values when that branch is taken); repair_by_calendar is the concrete grid fill of
   Model/HourlyFlow.v. *)
Definition fill0 (ct : ctable) : ctable :=
  map (fun p => (fst p, match snd p with Some l => Some l | None => Some 0%Z end)) ct.

Definition unit_oracles : oracles unit unit Z unit Z :=
  {| repair_by_obs := fun ct _ => Ok (fill0 ct);
     repair_by_calendar := calendar_fill;
     ts_feat := fun _ _ => 0%Z;
     cat_feat := fun _ _ => tt;
     regress := fun X => repeat 0%Z (24 * length X);
     mean2F := fun _ _ => 0%Z;
     mean2Y := fun _ _ => 0%Z |}.

Definition policy_of_z (n : Z) : policy := if Z.eqb n 0 then count_observed else count_rows_only.

(* compact frames: the rows of one local date are 60 minutes apart (checked by the harness), first row at utc0
   minutes; a date has one month and one weekday; the null-pattern of `observed` of a date is a default and the
   positions where the cell differs from it *)
Definition hfday := (Z * list nat * Z * Z * option err)%type.       (* utc0, local hours, month, weekday, df.loc error *)
Definition obspat := (bool * list nat)%type.

Fixpoint mk_rows (u : Z) (pos : nat) (hs : list nat) (m dw : Z) (op : obspat) : list (hrow unit unit) :=
  match hs with
  | [] => []
  | h :: t =>
      {| r_utc := u; r_month := m; r_dow := dw; r_hour := h; r_w := tt;
         r_obs := if (if existsb (Nat.eqb pos) (snd op) then negb (fst op) else fst op) then Some tt else None |}
      :: mk_rows (u + 60)%Z (S pos) t m dw op
  end.

Fixpoint mk_frame (days : list hfday) (pats : list obspat) : frame unit unit :=
  match days with
  | [] => []
  | (u, hs, m, dw, loc) :: rest =>
      let op := match pats with p :: _ => p | [] => (false, []) end in
      {| h_rows := mk_rows u 0 hs m dw op; h_loc := loc |} :: mk_frame rest (tl pats)
  end.

Definition flow_outcome (pol : policy) (t : table) (fr : frame unit unit) : outcome :=
  match hourly_flow unit_oracles pol t fr with
  | Ok rows => Rows (N.of_nat (length rows))
                    (list_eqb Z.eqb (map fst rows) (index_of_frame fr)
                     && forallb (fun r => match snd r with Some _ => true | None => false end) rows)
  | Err e => Raised (class_of e)
  end.

Definition ctable_eqb (a b : ctable) : bool :=
  list_eqb (fun p q => combo_eqb (fst p) (fst q) && opt_eqb Z.eqb (snd p) (snd q)) a b.

(* does the model promise that two runs give the same predictions?  Exactly the hypotheses of the theorems:
   same DST indices (Proofs/HourlyFlowProofs.v dst_stage_ext) and a cluster stage that does not read usage
   (covered: cluster_stage_ni; both blank: cluster_stage_blank_ni).  Weather and calendar are shared by construction. *)
Definition expect_equal (pol : policy) (t : table) (a b : frame unit unit) : bool :=
  res_eqb idx_eqb (dst_stage pol a) (dst_stage pol b) && (covers t a || (blank a && blank b)).

(* one case: (policy, stored table, days, variants); variant = (null-pattern per date, what the implementation did,
   whether its predictions were identical to those of the first variant on every stamp predicted in both — or both
   raised) *)
Definition hfcase := (Z * table * list hfday * list (list obspat * outcome * bool))%type.

(* the run goes through the usage-reading repair of the cluster table (an oracle that may raise) *)
Definition uses_obs_repair (t : table) (fr : frame unit unit) : bool :=
  let re := reindexed t (combos_of fr) in has_missing re && obs_usable fr && has_known re.

Definition outcome_ok (pol : policy) (t : table) (fr : frame unit unit) (oc : outcome) : bool :=
  outcome_eqb (flow_outcome pol t fr) oc
  || (uses_obs_repair t fr && match dst_stage pol fr, oc with Ok _, Raised XValueError => true | _, _ => false end).

Definition check_hf (c : hfcase) : bool :=
  let '(pz, t, days, variants) := c in
  let pol := policy_of_z pz in
  match variants with
  | [] => true
  | (p0, _, _) :: _ =>
      let fr0 := mk_frame days p0 in
      forallb (fun v : list obspat * outcome * bool =>
                 let '(p, oc, same) := v in
                 let fr := mk_frame days p in
                 outcome_ok pol t fr oc
                 && (if expect_equal pol t fr0 fr then same else true)) variants
  end.

Definition show_hf (c : hfcase) :=
  let '(pz, t, days, variants) := c in
  let pol := policy_of_z pz in
  match variants with
  | [] => []
  | (p0, _, _) :: _ =>
      let fr0 := mk_frame days p0 in
      map (fun v : list obspat * outcome * bool =>
             let '(p, oc, same) := v in
             let fr := mk_frame days p in
             (flow_outcome pol t fr, expect_equal pol t fr0 fr, covers t fr, uses_obs_repair t fr, dst_stage pol fr)) variants
  end.

(* the cluster label every (month, weekday) of the frame was given in a run (read from the implementation's processed
   frame), against cluster_stage — except where the usage-reading repair (an oracle) supplied labels *)
Definition check_labels (c : table * list hfday * list obspat * ctable) : bool :=
  let '(t, days, pats, expected) := c in
  let fr := mk_frame days pats in
  if uses_obs_repair t fr then true
  else match cluster_stage unit_oracles t fr with
       | Ok ct => ctable_eqb ct expected
       | Err _ => false
       end.
Definition show_labels (c : table * list hfday * list obspat * ctable) :=
  let '(t, days, pats, expected) := c in cluster_stage unit_oracles t (mk_frame days pats).

(* the stored table after one predict (StoreBack), for the stages the model computes itself: a covered frame *)
Definition table_eqb (a b : table) : bool :=
  list_eqb (fun p q => combo_eqb (fst p) (fst q) && Z.eqb (snd p) (snd q)) a b.
Definition check_table_after (c : table * list hfday * list obspat * table) : bool :=
  let '(t, days, pats, expected) := c in
  let fr := mk_frame days pats in
  if covers t fr then table_eqb (table_after unit_oracles StoreBack t fr) expected else true.

(* ================================================================== daily / billing: predictions row by row
   case = (masking policy, sub-models, base rows (ts, segment, temperature), variants);
   variant = (usage column supplied?, usage cells, what the implementation returned: (ts, predicted) per row).
   The curve oracle is RowsRun.curve_of (unsmoothed three-segment curve, dyadic coefficients). *)
Definition base_row := (Z * Z * qcell)%type.
Fixpoint with_obs (rows : list base_row) (cells : list qcell) : list (row Q) :=
  match rows with
  | [] => []
  | (t, s, te) :: rest =>
      mkrow t s te (match cells with c :: _ => c | [] => NaN end) :: with_obs rest (tl cells)
  end.

Definition dcase := (Z * list pl * list base_row * list (bool * list qcell * list (Z * qcell)))%type.

Definition pred_eqb (a b : Z * qcell) : bool := Z.eqb (fst a) (fst b) && cell_close (snd a) (snd b).

Definition daily_model (pol : Z) (ps : list pl) (rows : list base_row) (v : bool * list qcell) : list (Z * qcell) :=
  map (fun o => (o_ts o, o_pred o)) (predict_rows (curve_of ps) (policy_of pol) (fst v) (with_obs rows (snd v))).

Definition check_daily (c : dcase) : bool :=
  let '(pol, ps, rows, variants) := c in
  forallb (fun v : bool * list qcell * list (Z * qcell) =>
             list_eqb pred_eqb (daily_model pol ps rows (fst v)) (snd v)) variants.

Definition show_daily (c : dcase) :=
  let '(pol, ps, rows, variants) := c in
  map (fun v : bool * list qcell * list (Z * qcell) => daily_model pol ps rows (fst v)) variants.

(* ================================================================== the data class in front of hourly predict
   stream ds: which record of a repeated time stamp survives.  A record is (utc minutes, has a temperature, has any weather
   reading, has a usage reading); expected: for every stamp of data.df, whether its temperature had to be gap-filled (no selected record
   there, or the selected record carries no weather). *)
Definition dsrec := (Z * bool * bool * option bool)%type.
(* utc, temperature present, some weather cell present, usage: None = NaN, Some true = exactly 0, Some false = another value *)
Definition to_rec (r : dsrec) : rec (bool * bool) bool :=
  let '(u, te, anyw, us) := r in {| q_utc := u; q_w := (te, anyw); q_obs := us |}.
Definition dedup_of_z (n : Z) : dedup_policy := if Z.eqb n 0 then KeepFirst else DropEmptyKeepFirst.
Definition zero_of_z (n : Z) : zero_policy := if Z.eqb n 0 then ZeroUsageCell else ZeroWholeRow.
Definition no_weather (w : bool * bool) : bool := negb (snd w).

(* case: (de-duplication, zero rule, electricity?, records in order, expected per stamp of data.df: temperature gap-filled?) *)
Definition check_ds (c : Z * Z * bool * list dsrec * list (Z * bool)) : bool :=
  let '(p, zp, elec, recs, expected) := c in
  let sel := select no_weather (dedup_of_z p)
                    (map (zero_rec (fun z : bool => z) (false, false) (zero_of_z zp) elec) (map to_rec recs)) in
  forallb (fun e : Z * bool =>
             Bool.eqb (match find_rec sel (fst e) with Some r => negb (fst (q_w r)) | None => true end) (snd e)) expected.

(* instances for the witnesses of Properties/C05.v: one local date of 24 stamps, weather = a temperature or nothing,
   gap filling by 0, and oracles under which the prediction of an hour IS its (filled) temperature *)
Definition one_day_calendar (_ : list Z) : list (list cal_stamp * option err) :=
  [(map (fun k => ((60 * Z.of_nat k)%Z, 6%Z, 2%Z, k)) (seq 0 24), None)].
Definition fill_zero (l : list (option (option Z))) : list Z :=
  map (fun o => match o with Some (Some z) => z | _ => 0%Z end) l.
Definition temp_empty (w : option Z) : bool := match w with None => true | Some _ => false end.
Definition weather_oracles (O : Type) : oracles Z O Z unit Z :=
  {| repair_by_obs := fun ct _ => Ok (fill0 ct);
     repair_by_calendar := calendar_fill;
     ts_feat := fun w _ => w;
     cat_feat := fun _ _ => tt;
     regress := fun X => concat (map fst X);
     mean2F := fun a b => ((a + b) / 2)%Z;
     mean2Y := fun a b => ((a + b) / 2)%Z |}.
Definition witness_stage (p : dedup_policy) (recs : list (rec (option Z) unit)) : frame Z unit :=
  data_stage temp_empty one_day_calendar fill_zero (fun l => l) p recs.
(* stamp 0 occurs twice: a meter record (usage, no temperature) then a weather record (70 degrees, no usage) *)
Definition witness_recs (usage : option unit) : list (rec (option Z) unit) :=
  {| q_utc := 0; q_w := None; q_obs := usage |} :: {| q_utc := 0; q_w := Some 70%Z; q_obs := None |}
  :: map (fun k => {| q_utc := (60 * Z.of_nat k)%Z; q_w := Some 50%Z; q_obs := usage |}) (seq 1 23).

(* ================================================================== daily data class: the meter-day index
   stream mi: (filler clock, local wall-clock minutes of the rows of the frame, which rows carry a usage reading,
   the index of data.df in local wall-clock minutes) *)
Definition fc_of_z (n : Z) : fill_clock := if Z.eqb n 0 then FrameStart else ReadingClock.
Definition check_mi (c : Z * list Z * list bool * list Z) : bool :=
  let '(p, stamps, has, expected) := c in
  list_eqb Z.eqb (meter_index_as_coded (fc_of_z p) stamps has) expected.
Definition show_mi (c : Z * list Z * list bool * list Z) :=
  let '(p, stamps, has, expected) := c in meter_index_as_coded (fc_of_z p) stamps has.

(* witness for the zero rule: 24 records of one date at 50 degrees; the usage of the first one is the argument *)
Definition zero_recs (u : Z) : list (rec (option Z) Z) :=
  {| q_utc := 0; q_w := Some 50%Z; q_obs := Some u |}
  :: map (fun k => {| q_utc := (60 * Z.of_nat k)%Z; q_w := Some 50%Z; q_obs := Some 7%Z |}) (seq 1 23).
Definition zero_stage_witness (zp : zero_policy) (recs : list (rec (option Z) Z)) : frame Z Z :=
  public_stage (Z.eqb 0) None temp_empty one_day_calendar fill_zero (fun l => l) zp true KeepFirst recs.

(* stream iz: the zone of the index of HourlyCaltrackReportingData.from_series (0 = UTC, 1 = the meter's zone, 2 = a third zone) *)
Definition zonepol_of_z (n : Z) : zone_policy := if Z.eqb n 0 then UnionToUtc else WeatherClock.
Definition check_iz (c : Z * option Z * Z * Z) : bool :=
  let '(p, mz, wz, expected) := c in Z.eqb (index_zone (zonepol_of_z p) mz wz) expected.
