(* What harness/translate_select.py reads off the SOURCE TEXT of the selection code (Generated/SelectGen.v):
   arithmetic expressions as terms of [expr], the shape of the selection loop of _best_combination as a
   [loop_shape], and their meaning: [eval] over the numeric dictionary, [gen_selection_criteria] (an
   interpreter of the generated tables with the structure of selection_criteria()), [loop_model] (which
   executable model a loop of a given shape is).  Executable definitions only; Proofs/SelectProofs.v shows
   that the tables generated from today's source mean exactly Model/SelCrit.v and Model/Splits.v (best). *)
From Coq Require Import ZArith List Bool String.
From V Require Import Model.Num Model.SelCrit Model.Splits.
Import ListNotations.
Open Scope string_scope.

Inductive cmp_op := CmpLt | CmpLe | CmpGt | CmpGe | CmpEq | CmpNe | CmpOther.
Inductive init_val := InitPosInf | InitNegInf | InitOther.

Inductive expr :=
| EVar (name : string)                       (* a parameter / local that is not inlined / self.attribute *)
| EConst (z : Z)                             (* integer literal *)
| ETiny                                      (* the literal 1e-6 *)
| ETwoPi                                     (* 2 * np.pi *)
| EAdd (a b : expr) | ESub (a b : expr) | EMul (a b : expr) | EDiv (a b : expr) | EPow (a b : expr)
| ENeg (a : expr)
| ELog (a : expr) | ESqrt (a : expr)
| ELen (name : string)                       (* len(name) *)
| ECall (fn : string) (args : list string).  (* a call whose value is supplied by the environment *)

(* for incumbent HoF = {name: None, criterion: init}; for combo in ITER: c = CALL(combo);
   if [c CMP HoF[criterion]] (and EXTRA conditions): HoF[name] = combo; HoF[criterion] = c; (OTHER statements)
   return HoF[name] *)
Record loop_shape := {
  ls_init : init_val;
  ls_iter : string;
  ls_crit_call : string;
  ls_cmp : cmp_op;
  ls_new_on_left : bool;
  ls_extra_conditions : nat;
  ls_updates_name : bool;
  ls_updates_crit : bool;
  ls_other_statements : nat;
  ls_returns_name : bool
}.

Definition cmp_eqb (a b : cmp_op) : bool :=
  match a, b with
  | CmpLt, CmpLt | CmpLe, CmpLe | CmpGt, CmpGt | CmpGe, CmpGe | CmpEq, CmpEq | CmpNe, CmpNe | CmpOther, CmpOther => true
  | _, _ => false
  end.

(* the loop that Model/Splits.v models as [best]: start from +inf, strict "new < incumbent" (or the mirrored
   "incumbent > new"), no further condition, both fields updated, nothing else done, the name returned *)
Definition strict_less (s : loop_shape) : bool :=
  (cmp_eqb (ls_cmp s) CmpLt && ls_new_on_left s) || (cmp_eqb (ls_cmp s) CmpGt && negb (ls_new_on_left s)).

Definition is_best_shape (s : loop_shape) : bool :=
  match ls_init s with InitPosInf => true | _ => false end
  && (ls_iter s =? "self.combinations") && (ls_crit_call s =? "self._combination_selection_criteria")
  && strict_less s && Nat.eqb (ls_extra_conditions s) 0 && ls_updates_name s && ls_updates_crit s
  && Nat.eqb (ls_other_statements s) 0 && ls_returns_name s.

Definition loop_fn : Type := forall A : Type, (A -> A -> bool) -> A -> list (string * A) -> option string.

Definition loop_model (s : loop_shape) : option loop_fn :=
  if is_best_shape s then Some (fun A lt top l => best A lt top l) else None.

(* ------------------------------------------------------------------ meaning of expressions *)
Section Eval.
  Variable N : num.
  Variable x_ln x_sqrt : N -> N.
  Variable x_pow : N -> N -> N.
  Variable two_pi tiny : N.
  Variable absorb : N -> ext N.
  Variable env : string -> N.                (* variables, "len:<name>", and the value of a call by its function name *)

  (* the integer literals the code uses *)
  Definition eval_const (z : Z) : N :=
    match z with
    | 0%Z => n_zero | 1%Z => n_one | 2%Z => n_two | 24%Z => n_24 N | 100%Z => n_hundred
    | _ => n_zero
    end.
  Definition const_known (z : Z) : bool :=
    match z with 0%Z | 1%Z | 2%Z | 24%Z | 100%Z => true | _ => false end.

  Fixpoint eval (e : expr) : N :=
    match e with
    | EVar v => env v
    | EConst z => eval_const z
    | ETiny => tiny
    | ETwoPi => two_pi
    | EAdd a b => n_add (eval a) (eval b)
    | ESub a b => n_sub (eval a) (eval b)
    | EMul a b => n_mul (eval a) (eval b)
    | EDiv a b => n_div (eval a) (eval b)
    | EPow a b => x_pow (eval a) (eval b)
    | ENeg a => n_opp (eval a)
    | ELog a => x_ln (eval a)
    | ESqrt a => x_sqrt (eval a)
    | ELen v => env ("len:" ++ v)
    | ECall fn _ => env fn
    end.

  Fixpoint consts_known (e : expr) : bool :=
    match e with
    | EConst z => const_known z
    | EAdd a b | ESub a b | EMul a b | EDiv a b | EPow a b => consts_known a && consts_known b
    | ENeg a | ELog a | ESqrt a => consts_known a
    | _ => true
    end.

  Definition cmp_holds (c : cmp_op) (a b : N) : bool :=
    match c with
    | CmpLt => n_ltb a b | CmpLe => n_leb a b | CmpGt => n_ltb b a | CmpGe => n_leb b a
    | CmpEq => n_eqb a b | CmpNe => negb (n_eqb a b) | CmpOther => false
    end.

  Definition guard_holds (g : string * cmp_op * Z) : bool :=
    let '(v, c, z) := g in cmp_holds c (env v) (eval_const z).
End Eval.

(* ------------------------------------------------------------------ selection_criteria() rebuilt from the tables *)
Definition lookup (name : string) (l : list (string * expr)) : option expr :=
  match find (fun p => fst p =? name) l with Some p => Some (snd p) | None => None end.

Definition crit_name (ty : crit_type) : string :=
  match ty with
  | C_RMSE => "rmse" | C_RMSE_ADJ => "rmse_adj" | C_R2 => "r_squared" | C_R2_ADJ => "r_squared_adj" | C_FPE => "fpe"
  | C_AIC => "aic" | C_AICC => "aicc" | C_CAIC => "caic" | C_BIC => "bic" | C_SABIC => "sabic"
  end.


Section Interp.
  Variable N : num.
  Variable x_ln x_sqrt : N -> N.
  Variable x_pow : N -> N -> N.
  Variable two_pi tiny : N.
  Variable absorb : N -> ext N.
  (* the generated tables *)
  Variable nll_guards : list (string * cmp_op * Z).
  Variable nll_e dfp_e dfp_fallback : expr.
  Variable dfp_guard : string * cmp_op * Z.
  Variable branches : list (string * expr).
  Variable unnormalised : list string.
  Variable normalise_by : string.

  Definition base_env (c0 d0 loss tss n k : N) : string -> N := fun s =>
    if s =? "loss" then loss else if s =? "TSS" then tss else if s =? "N" then n
    else if s =? "num_coeffs" then k else if s =? "penalty_multiplier" then c0
    else if s =? "penalty_power" then d0 else n_zero.
  Definition with_var (env : string -> N) (name : string) (v : N) : string -> N :=
    fun s => if s =? name then v else env s.

  Definition ev (env : string -> N) (e : expr) : N := eval N x_ln x_sqrt x_pow two_pi tiny env e.

  (* neg_log_likelihood: `if g1 or g2 ...: return np.inf`, else the expression *)
  Definition interp_nll (env : string -> N) : ext N :=
    if existsb (guard_holds N env) nll_guards then PInf else Fin (ev env nll_e).

  (* df_penalized = e; if df_penalized <op> c: df_penalized = fallback *)
  Definition interp_dfp (env : string -> N) : N :=
    let d := ev env dfp_e in
    if guard_holds N (with_var env (fst (fst dfp_guard)) d) dfp_guard then ev env dfp_fallback else d.

  Definition interp_criterion (ty : crit_type) (c0 d0 loss tss n k : N) : ext N :=
    let env0 := base_env c0 d0 loss tss n k in
    let env1 := with_var env0 "df_penalized" (interp_dfp env0) in
    match lookup (crit_name ty) branches with
    | None => PInf
    | Some e =>
        let raw :=
          match e with
          | EAdd (EMul (ENeg (EConst 2%Z)) (ECall fn _)) pen =>      (* -2 * neg_log_likelihood(loss, N) + penalty *)
              match interp_nll env0 with
              | Fin v => Fin (ev (with_var env1 fn v) e)
              | PInf => absorb (ev env1 pen)                         (* -2 * inf + penalty *)
              | NInf => PInf
              end
          | _ => Fin (ev env1 e)
          end in
        if existsb (String.eqb (crit_name ty)) unnormalised then raw
        else normalise N (env0 normalise_by) raw                     (* criteria /= N *)
    end.
End Interp.

(* _combination_selection_criteria / _get_error_metrics: environments for the three small expressions *)
Definition env_wrmse (N : num) (wsse n : N) : string -> N :=
  fun s => if s =? "wSSE" then wsse else if s =? "N" then n else n_zero.
Definition env_loss (N : num) (w wbase : N) : string -> N :=
  fun s => if s =? "wRMSE" then w else if s =? "self.wRMSE_base" then wbase else n_zero.
Definition env_len (N : num) (name : string) (len : N) : string -> N :=
  fun s => if s =? ("len:" ++ name) then len else n_zero.

(* everything the translator emits, as one value *)
Record sel_tables := {
  t_loop : loop_shape;
  t_components_src : string;
  t_num_coeffs : expr;
  t_loss : expr;
  t_wrmse : expr;
  t_call_args : list string;
  t_nll_guards : list (string * cmp_op * Z);
  t_nll : expr;
  t_crit_args : list string;
  t_dfp : expr;
  t_dfp_guard : string * cmp_op * Z;
  t_dfp_fallback : expr;
  t_branches : list (string * expr);
  t_unnormalised : list string;
  t_normalise_by : string
}.

Definition tables_criterion (N : num) (x_ln x_sqrt : N -> N) (x_pow : N -> N -> N) (two_pi tiny : N)
           (absorb : N -> ext N) (t : sel_tables) : crit_type -> N -> N -> N -> N -> N -> N -> ext N :=
  interp_criterion N x_ln x_sqrt x_pow two_pi tiny absorb
    (t_nll_guards t) (t_nll t) (t_dfp t) (t_dfp_fallback t) (t_dfp_guard t) (t_branches t) (t_unnormalised t)
    (t_normalise_by t).

Definition tables_consts_known (t : sel_tables) : bool :=
  forallb (fun p => consts_known (snd p)) (t_branches t) && consts_known (t_nll t) && consts_known (t_dfp t)
  && consts_known (t_dfp_fallback t).
