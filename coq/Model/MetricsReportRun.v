(* Executable comparison for the ReportingMetrics stream of the C16 correspondence: the month count M, the
   frequency factor (from the constants read off the source), total_savings_uncertainty, fsu and
   predicted_data_point_unc are all computed by the model; scipy's t quantile is the only input. *)
From Coq Require Import ZArith QArith Qabs Qminmax List Bool PrimFloat.
From V Require Import Model.CasesLib Model.Metrics Model.MetricsRun Generated.MetricsGen Model.MetricsReport.
Import ListNotations.
Open Scope Q_scope.

Record ucase := {
  uc_den : positive; uc_rows : list (option Z * option Z);
  uc_months : list Z;          (* calendar month of every row, on the rows' own clock *)
  uc_freq : freq;
  uc_t : float;                (* t_stat as the implementation obtained it from scipy *)
  uc_cv : xobs;                (* the baseline's cvrmse_autocorr_adj *)
  uc_n : Z; uc_np : xobs;      (* baseline n and n' *)
  uc_exp : list xobs           (* n, observed_sum, predicted_sum, savings, total_savings_uncertainty, fsu, predicted_data_point_unc *)
}.
Definition uncertainty_fields (c : ucase) : list bool :=
  let rows := mk_rows (uc_den c) (uc_rows c) in
  let r := reporting rows in
  let cv := match to_obsv (uc_cv c) with ONum q => Root (Qltb q 0) (sqr q) | _ => Undef end in
  let np := match to_obsv (uc_np c) with ONum q => q | _ => 0 end in
  let u := reporting_uncertainty (uc_freq c) rows (uc_months c) (q_of_float (uc_t c)) cv (uc_n c) np in
  let lenient (v : val) (o : obsv) := match u_total u with Undef => true | _ => val_match 0 v o end in
  zipcheck [ int_match (r_n r); num_match 0 (r_observed_sum r); num_match 0 (r_predicted_sum r);
             num_match (Qmax (Qabs (r_observed_sum r)) (Qabs (r_predicted_sum r))) (r_savings r);
             lenient (u_total u); lenient (u_fsu u); lenient (u_point u) ]
           (map to_obsv (uc_exp c)).
Definition check_uncertainty (c : ucase) : bool := forallb (fun b => b) (uncertainty_fields c).
Definition uncertainty_bad (c : ucase) : list N := mismatches (uncertainty_fields c).
