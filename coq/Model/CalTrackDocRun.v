(* Executable comparison helpers of the C01 correspondence (CalTRACK hourly), evaluated by vm_compute. *)
From Coq Require Import ZArith List Bool String PrimFloat.
From V Require Import Model.Json Model.DailyDoc Model.CalTrackDoc Model.CasesLib Model.HourlyDocRun.
Import ListNotations.
Open Scope string_scope.

(* stream "state-caltrack": attributes of the fitted wrapper -> state literal; Coq computes to_doc; vs to_json() *)
Definition check_cstate (cs : ct_state * json) : bool :=
  let (s, d) := cs in ojson_eqb (ct_to_doc s) (Some d).

(* payload-level equality of states: how warnings / metrics are represented (objects or plain dicts) is not compared *)
Definition warns_payload (w : warns) : list json := match w with WTyped l => map warning_doc l | WRaw l => l end.
Definition metrics_payload (m : metrics) : list (string * json) :=
  match m with MNone => [] | MNative l => l | MReloaded l => l end.
Definition jlist_eqb (a b : list json) : bool := json_eqb (JArr a) (JArr b).
Definition ukey_eqb (a b : ukey) : bool :=
  match a, b with
  | KAll, KAll => true
  | KMonth x, KMonth y => (x =? y)%Z
  | KText x, KText y => String.eqb x y
  | _, _ => false
  end.
Definition ostring_eqb (a b : option string) : bool := opt_eqb String.eqb a b.
Definition seg_eqb (a b : seg_model) : bool :=
  String.eqb (sg_name a) (sg_name b) && ostring_eqb (sg_formula a) (sg_formula b) &&
  list_eqb (fun p q : string * float => String.eqb (fst p) (fst q) && fbits_eqb (snd p) (snd q)) (sg_params a) (sg_params b) &&
  jlist_eqb (warns_payload (sg_warnings a)) (warns_payload (sg_warnings b)).
Definition pair_eqb (p q : string * string) : bool := String.eqb (fst p) (fst q) && String.eqb (snd p) (snd q).

Definition ct_state_eqb (a b : ct_state) : bool :=
  String.eqb (ct_status a) (ct_status b) && String.eqb (ct_method a) (ct_method b) &&
  list_eqb seg_eqb (ct_segments a) (ct_segments b) &&
  String.eqb (ct_pred_type a) (ct_pred_type b) && opt_eqb (list_eqb pair_eqb) (ct_mapping a) (ct_mapping b) &&
  String.eqb (ct_processor a) (ct_processor b) &&
  String.eqb (ct_occupancy a) (ct_occupancy b) && String.eqb (ct_occ_bins a) (ct_occ_bins b) &&
  String.eqb (ct_unocc_bins a) (ct_unocc_bins b) && String.eqb (ct_segment_type a) (ct_segment_type b) &&
  list_eqb (fun p q : ukey * uentry => ukey_eqb (fst p) (fst q) && json_eqb (uentry_doc (snd p)) (uentry_doc (snd q))) (ct_unc a) (ct_unc b) &&
  jlist_eqb (warns_payload (ct_warnings a)) (warns_payload (ct_warnings b)) &&
  json_eqb (ct_metadata a) (ct_metadata b) && json_eqb (ct_settings a) (ct_settings b) &&
  json_eqb (JObj (metrics_payload (ct_totals a))) (JObj (metrics_payload (ct_totals b))) &&
  json_eqb (JObj (metrics_payload (ct_avgs a))) (JObj (metrics_payload (ct_avgs b))).

(* stream "reload-caltrack": document, attributes of the reloaded wrapper as a state literal, and what the reloaded
   wrapper serialises to (None = raised), against from_dict / to_dict as coded *)
Definition check_creload (cs : json * option ct_state * option json) : bool :=
  let '(d, s2, redump) := cs in
  match s2 with
  | None => match ct_from_doc d with None => true | Some _ => false end
  | Some s2 =>
      match ct_from_doc d with
      | Some r => ct_state_eqb r s2 && ojson_eqb (ct_to_doc r) redump
      | None => false
      end
  end.
