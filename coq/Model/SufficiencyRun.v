(* Executable glue for the C10 correspondence: the parameters the code has *now* (from Generated/SufficiencyGen.v),
   binary64 helpers for the threshold tables, run-length encoded frames, and the comparison functions. *)
From Coq Require Import ZArith QArith Qabs List Bool PrimFloat Uint63.
From V Require Import Model.CasesLib Model.Sufficiency Model.BillingRows Generated.SufficiencyGen.
Import ListNotations.
Open Scope Z_scope.

(* ---------------- binary64 helpers ---------------- *)

Definition of_Z (z : Z) : float := PrimFloat.of_uint63 (Uint63.of_Z z).
Definition fdiv (a b : float) : float := PrimFloat.div a b.
Definition fmul (a b : float) : float := PrimFloat.mul a b.
Definition fltb (a b : float) : bool := PrimFloat.ltb a b.
Definition fleb (a b : float) : bool := PrimFloat.leb a b.

(* n / float(d) < thr   and   n / d > thr   as the code evaluates them *)
Definition frac_lt (thr : float) (n d : Z) : bool := fltb (fdiv (of_Z n) (of_Z d)) thr.
Definition frac_gt (thr : float) (n d : Z) : bool := fltb thr (fdiv (of_Z n) (of_Z d)).

Definition zrange (lo : Z) (k : nat) : list Z := map (fun i => lo + Z.of_nat i) (seq 0 k).
Definition THRESHOLD_BOUND : nat := 1000.
(* for every 0 <= n <= bound, 1 <= d <= bound: the float comparisons agree with 10 n < 9 d and 9 d < 10 n
   (the conversions to binary64 are shared between the rows of the table) *)
Definition threshold_table (bound : nat) (thr : float) : bool :=
  let ns := map (fun z => (z, of_Z z)) (zrange 0 (S bound)) in
  forallb (fun df : Z * float =>
    (fst df =? 0) ||
    forallb (fun nf : Z * float =>
       Bool.eqb (fltb (fdiv (snd nf) (snd df)) thr) (10 * fst nf <? 9 * fst df)
       && Bool.eqb (fltb thr (fdiv (snd nf) (snd df))) (9 * fst df <? 10 * fst nf)) ns) ns.
Definition threshold_table_ok (thr : float) : bool := threshold_table THRESHOLD_BOUND thr.

(* math.ceil / math.floor of a non-negative binary64 below 4000, by search *)
Fixpoint ceil_search (fuel : nat) (k : Z) (x : float) : Z :=
  match fuel with
  | O => k
  | S f => if fleb x (of_Z k) then k else ceil_search f (k + 1) x
  end.
Fixpoint floor_search (fuel : nat) (k : Z) (x : float) : Z :=
  match fuel with
  | O => k
  | S f => if fltb x (of_Z (k + 1)) then k else floor_search f (k + 1) x
  end.
Definition apply_rounding (r : rounding) (x : float) : Z :=
  match r with
  | RCeil => ceil_search 4000 0 x
  | RFloor => floor_search 4000 0 x
  | RNearest => floor_search 4000 0 (PrimFloat.add x (0x1p-1)%float)
  end.

(* MIN_BASELINE_LENGTH = ceil(0.9 * MAX_BASELINE_LENGTH), evaluated in binary64 as python does *)
Definition code_min_len : Z :=
  apply_rounding gen_min_length_rounding (fmul gen_min_length_factor (of_Z gen_max_baseline_length)).

(* the parameters of the code as it is now; the fractions are the rationals 9/10, justified for the regenerated
   binary64 constants by [threshold_exact] (Proofs/SufficiencyProofs.v) *)
Definition code_params : params :=
  {| p_max_len := gen_max_baseline_length; p_min_len := code_min_len;
     p_cov_num := 9; p_cov_den := 10; p_tcov_num := 9; p_tcov_den := 10;
     p_baseline_seq := gen_baseline_seq; p_reporting_seq := gen_reporting_seq;
     p_reporting_flag := gen_reporting_flag; p_offcycle_dq := gen_offcycle_dq;
     p_span_ignores_usage := gen_span_ignores_usage; p_baseline_adds_usage := gen_baseline_adds_usage |}.

(* ---------------- run-length encoded frames ---------------- *)

(* civil month of a day number (days since 1970-01-01), Hinnant's algorithm *)
Definition month_of_days (days : Z) : Z :=
  let z := days + 719468 in
  let era := z / 146097 in
  let doe := z - era * 146097 in
  let yoe := (doe - doe / 1460 + doe / 36524 - doe / 146096) / 365 in
  let doy := doe - (365 * yoe + yoe / 4 - yoe / 100) in
  let mp := (5 * doy + 2) / 153 in
  if mp <? 10 then mp + 3 else mp - 9.
Definition month_of_local (secs : Z) : Z := month_of_days (secs / 86400).

(* (first ts, step, number of rows, utc offset in force, observed, temperature?, coverage, ghi?, aux?) *)
Definition seg := (Z * Z * Z * Z * option Q * bool * option (Z * Z) * bool * bool)%type.

(* the civil month is recomputed only when the local day changes: (dend, m) = end of the local day (local seconds)
   for which m was computed; [expand_seg_simple] is the plain definition, Proofs/SufficiencyProofs.v shows they agree *)
Fixpoint expand_seg_aux (k : nat) (t step off dend m : Z) (obs : option Q) (tp : bool) (cov : option (Z * Z)) (g a : bool)
  : list row :=
  match k with
  | O => []
  | S k' =>
      let loc := t + off in
      let same := (dend - 86400 <=? loc) && (loc <? dend) in
      let dend' := if same then dend else (loc / 86400 + 1) * 86400 in
      let m' := if same then m else month_of_days (loc / 86400) in
      mkrow t m' obs tp cov g a :: expand_seg_aux k' (t + step) step off dend' m' obs tp cov g a
  end.
Fixpoint expand_seg_simple (k : nat) (t step off : Z) (obs : option Q) (tp : bool) (cov : option (Z * Z)) (g a : bool)
  : list row :=
  match k with
  | O => []
  | S k' => mkrow t (month_of_local (t + off)) obs tp cov g a :: expand_seg_simple k' (t + step) step off obs tp cov g a
  end.
Definition expand_seg (s : seg) : list row :=
  let '(t, step, n, off, obs, tp, cov, g, a) := s in
  expand_seg_aux (Z.to_nat n) t step off ((t + off) / 86400 * 86400) (month_of_days ((t + off) / 86400 - 1)) obs tp cov g a.
Definition expand (l : list seg) : list row := flat_map expand_seg l.

(* ---------------- comparison ---------------- *)

Definition exn_eqb (a b : exn) : bool :=
  match a, b with AttributeError, AttributeError => true | OtherError, OtherError => true | _, _ => false end.
Definition outcome_eqb (a b : outcome) : bool :=
  match a, b with
  | Accepted d1 w1, Accepted d2 w2 => list_eqb dq_eqb d1 d2 && list_eqb w_eqb w1 w2
  | Raised e1, Raised e2 => exn_eqb e1 e2
  | _, _ => false
  end.

(* the implementation's count equals the exact one, or is one below it where the exact sum is a whole number
   reached through non-dyadic period lengths (binary64 accumulation, D20) *)
(* ... unless the code rounds the sum before truncating (gen_day_sum_rounded): then the counts are the exact ones *)
Definition count_agrees (exact impl : Z) (near : unit -> bool) : bool :=
  if impl =? exact then true else if gen_day_sum_rounded then false else if impl =? exact - 1 then near tt else false.

Record case := mkcase {
  k_family : family; k_period : period; k_electric : bool; k_ctx : ctx;
  k_has_obs : bool; k_has_ghi : bool; k_segs : list seg;
  k_counts : option counts;     (* n_days_total, n_valid_days, n_valid_meter_value_days, n_valid_temperature_days *)
  k_outcome : outcome;          (* canonicalised observation of the implementation *)
  k_drop_extreme : bool         (* the extreme-value limit is within rounding distance of a usage value: not compared *)
}.

Definition case_frame (c : case) : frame := mkframe (k_has_obs c) (k_has_ghi c) (expand (k_segs c)).

Definition drop_extreme (o : outcome) : outcome :=
  match o with
  | Accepted d w => Accepted d (filter (fun n => negb (w_eqb n ExtremeValues)) w)
  | Raised e => Raised e
  end.
Definition outcome_agrees (c : case) (m : outcome) : bool :=
  if k_drop_extreme c then outcome_eqb (drop_extreme m) (drop_extreme (k_outcome c)) else outcome_eqb m (k_outcome c).

Definition check_case (c : case) : bool :=
  let fr0 := case_frame c in
  let p := code_params in
  let is_rep := is_reporting_flag p (k_family c) (k_period c) in
  match k_counts c with
  | None => outcome_agrees c (dataclass p (k_family c) (k_period c) (k_electric c) (k_ctx c) fr0)
  | Some ic =>
      let fr := handed_frame p (k_family c) (k_period c) fr0 in
      let ex := compute_counts p is_rep fr in
      let rows := f_rows fr in
      (* the near-integer test is evaluated only when the counts differ by one *)
      opt_eqb Z.eqb (c_total ex) (c_total ic)
      && count_agrees (c_valid ex) (c_valid ic) (fun _ => near_integer_from_below (valid_row p is_rep) rows)
      && (is_rep || count_agrees (c_meter ex) (c_meter ic) (fun _ => near_integer_from_below valid_meter_row rows))
      && count_agrees (c_temp ex) (c_temp ic) (fun _ => near_integer_from_below (valid_temp_row p) rows)
      && outcome_agrees c (dataclass_with_counts p (k_family c) (k_period c) (k_electric c) (k_ctx c) fr ic)
  end.

(* diagnostics for a disagreeing case *)
Definition show_case (c : case) :=
  let fr := case_frame c in
  let p := code_params in
  let is_rep := is_reporting_flag p (k_family c) (k_period c) in
  (dataclass p (k_family c) (k_period c) (k_electric c) (k_ctx c) fr, compute_counts p is_rep fr,
   near_flags p is_rep fr, Z.of_nat (length (f_rows fr))).

(* calendar check used by the harness: months of a list of local second stamps *)
Definition check_months (c : list (Z * Z)) : bool :=
  forallb (fun '(secs, m) => month_of_local secs =? m) c.

(* ---------------- daily / hourly rows handed to the billing classes ---------------- *)

(* within 1e-9 relative: the code sums and spreads in binary64, the model in exact rationals *)
Definition q_close (a b : Q) : bool :=
  Qle_bool (Qabs (a - b)) ((1 # 1000000000) * (Qabs a + 1)).

(* the days of the span with the values supplied, and per day what the frame carries:
   None = the day is not a row of the frame (trimmed by from_series), Some None = NaN, Some (Some q) = a usage value *)
Definition brcase := (list dayrow * list (option (option Q)))%type.

Fixpoint agree_rows (m : list (option Q)) (seen : list (option (option Q))) : bool :=
  match m, seen with
  | [], [] => true
  | a :: m', s :: seen' =>
      match s with
      | None => true
      | Some None => match a with None => true | Some _ => false end
      | Some (Some q) => match a with Some x => q_close x q | None => false end
      end && agree_rows m' seen'
  | _, _ => false
  end.

Definition check_billing_rows (c : brcase) : bool :=
  agree_rows (spread gen_billing_month_min_count (fst c)) (snd c).
