(* Model of the meter-data resampling path of opendsm/eemeter (property C08):
     common/data_processor_utilities.py : day_counts, compute_minimum_granularity, clean_billing_data,
                                          as_freq (series_type = "cumulative"), downsample_and_clean_daily_data,
                                          clean_billing_daily_data
     models/daily/data.py   : _DailyData._compute_meter_value_df
     models/billing/data.py : _BillingData._compute_meter_value_df
   Time is Z = whole minutes since the Unix epoch (UTC).  Values are exact rationals (Q); None = NaN.
   Local-day boundaries ("bs", the UTC minutes of consecutive local midnights) are DATA supplied by the harness
   from the tz database, so a 23-, 24- or 25-hour day is just a bucket of 1380, 1440 or 1500 minutes.
   Executable definitions only; lemmas are in Proofs/ResampleProofs.v. *)
From Coq Require Import ZArith QArith List Bool Sorting.Mergesort Orders.
Import ListNotations.
Open Scope Z_scope.

(* ------------------------------------------------------------------------------------------------ *)
(* 0. small list / option helpers                                                                    *)
(* ------------------------------------------------------------------------------------------------ *)

Definition reading := (Z * option Q)%type.        (* (stamp, value) *)
Definition stamp (r : reading) : Z := fst r.
Definition rval (r : reading) : option Q := snd r.

Definition is_some {A} (o : option A) : bool := match o with Some _ => true | None => false end.
Definition oq0 (o : option Q) : Q := match o with Some x => x | None => 0%Q end.

(* sums; Qred keeps the numerals small under vm_compute and is invisible up to == *)
Definition qsum (l : list Q) : Q := fold_right (fun x acc => Qred (x + acc)) 0%Q l.
Definition zsum (l : list Z) : Z := fold_right Z.add 0 l.

Definition first_stamp (rs : list reading) : Z := match rs with r :: _ => stamp r | [] => 0 end.
Fixpoint last_stamp (rs : list reading) : Z :=
  match rs with [] => 0 | [r] => stamp r | _ :: rest => last_stamp rest end.

(* Series.dropna() *)
Definition dropna (rs : list reading) : list reading := filter (fun r => is_some (rval r)) rs.

(* ------------------------------------------------------------------------------------------------ *)
(* 1. day_counts and compute_minimum_granularity   (kept small: reused by Model/Sufficiency.v)        *)
(* ------------------------------------------------------------------------------------------------ *)

(* differences between consecutive stamps, in minutes.  day_counts(index) of the code is
   [d / 1440 | d <- deltas] followed by one NaN (the last stamp has no successor). *)
Fixpoint deltas (ts : list Z) : list Z :=
  match ts with
  | a :: ((b :: _) as rest) => (b - a) :: deltas rest
  | _ => []
  end.
Definition day_counts (ts : list Z) : list Q := map (fun d => (d # 1440)%Q) (deltas ts).

Module ZLeBool <: TotalLeBool.
  Definition t := Z.
  Definition leb := Z.leb.
  Infix "<=?" := leb (at level 70, no associativity).
  Theorem leb_total : forall a1 a2, is_true (a1 <=? a2) \/ is_true (a2 <=? a1).
  Proof. intros a b. unfold leb, is_true. rewrite !Z.leb_le. apply Z.le_ge_cases. Qed.
End ZLeBool.
Module ZSort := Sort ZLeBool.

(* twice the median of a list of integers (pandas: mean of the two middle elements for an even count);
   None on the empty list.  The NaN entry of day_counts is skipped by pandas' median. *)
Definition median2 (l : list Z) : option Z :=
  let s := ZSort.sort l in
  let n := length s in
  match n with
  | O => None
  | _ => if Nat.even n
         then Some (nth (n / 2 - 1) s 0 + nth (n / 2) s 0)
         else Some (2 * nth (n / 2) s 0)
  end.

Inductive gran := Hourly | Daily | BillingMonthly | BillingBimonthly | OtherGran.
Definition is_billing (g : gran) : bool :=
  match g with BillingMonthly | BillingBimonthly => true | _ => false end.

(* what pandas' DatetimeIndex.inferred_freq returned for the index (pandas is not modelled: the harness
   reads this from pandas and passes it in).  Fixed m = a fixed-length frequency of m minutes (15min, h, D = 1440,
   30D = 43200, ...; also what freq_as_timedelta makes of the calendar offsets it knows: nW-XXX = n weeks, nB
   (BusinessDay) = n days, nbh (BusinessHour) = n hours), Months n = MonthBegin/MonthEnd with multiple n,
   OtherFreq = anything else (the comparison with a Timedelta raises TypeError). *)
Inductive inferred := NoFreq | Fixed (minutes : Z) | Months (n : Z) | OtherFreq.

(* compute_minimum_granularity(index, default); None = the code raises (TypeError: <offset> <= Timedelta) *)
Definition granularity (inf : inferred) (ts : list Z) (dflt : gran) : option gran :=
  if (Nat.leb (length ts) 1) then Some dflt else
  match inf with
  | NoFreq =>
      match median2 (deltas ts) with
      | None => Some dflt
      | Some m2 =>                               (* m2 = 2 * median, in minutes *)
          if m2 <? 2 * 1440 then Some Hourly
          else if m2 =? 2 * 1440 then Some Daily
          else if m2 <=? 2 * 35 * 1440 then Some BillingMonthly
          else if m2 <=? 2 * 70 * 1440 then Some BillingBimonthly
          else Some dflt
      end
  | Months n => if n =? 1 then Some BillingMonthly else Some BillingBimonthly
  | Fixed m =>
      if m <=? 60 then Some Hourly
      else if m <=? 1440 then Some Daily
      else if m <=? 30 * 1440 then Some BillingMonthly
      else Some BillingBimonthly
  | OtherFreq => None
  end.

(* ------------------------------------------------------------------------------------------------ *)
(* 2. as_freq, cumulative series, at interval level                                                  *)
(* ------------------------------------------------------------------------------------------------ *)

(* reading i is the constant rate v_i / (t_{i+1} - t_i) on [t_i, t_{i+1}); the last reading is open-ended
   (its spread factor is NaT -> NaN) and therefore yields no interval *)
Record interval := mkI { ilo : Z; ihi : Z; ival : option Q }.

Fixpoint intervals (rs : list reading) : list interval :=
  match rs with
  | r :: ((r' :: _) as rest) => mkI (stamp r) (stamp r') (rval r) :: intervals rest
  | _ => []
  end.

Definition ilen (iv : interval) : Z := ihi iv - ilo iv.

(* |[a,b) ∩ [c,d)| *)
Definition overlap (a b c d : Z) : Z := Z.max 0 (Z.min b d - Z.max a c).

(* usage of interval iv that falls into the bucket [lo,hi) *)
Definition contrib (lo hi : Z) (iv : interval) : Q :=
  match ival iv with
  | Some v =>
      let ov := overlap (ilo iv) (ihi iv) lo hi in
      if ov =? 0 then 0%Q else (v * inject_Z ov / inject_Z (ilen iv))%Q
  | None => 0%Q
  end.
(* minutes of the bucket covered by a non-null rate *)
Definition covered (lo hi : Z) (iv : interval) : Z :=
  match ival iv with Some _ => overlap (ilo iv) (ihi iv) lo hi | None => 0 end.

Definition bucket_sum (lo hi : Z) (ivs : list interval) : Q := qsum (map (contrib lo hi) ivs).
Definition bucket_count (lo hi : Z) (ivs : list interval) : Z := zsum (map (covered lo hi) ivs).

(* resample(...).sum() masked by resample(...).first().notnull(): NaN iff no non-null minute in the bucket *)
Definition bucket_value (lo hi : Z) (ivs : list interval) : option Q :=
  if bucket_count lo hi ivs =? 0 then None else Some (bucket_sum lo hi ivs).

(* n_coverage / n_total.  n_total of every bucket but the last is its length in minutes; the 1-minute index
   that the code builds from the resampled (daily) index stops at the START of the last bucket, so the last
   bucket has n_total = 1 and its quotient, when above 1, is reset to 1. *)
Definition coverage (lo hi : Z) (ivs : list interval) (last : bool) : Q :=
  let c := bucket_count lo hi ivs in
  if last then (if 0 <? c then 1%Q else 0%Q)
  else (inject_Z c / inject_Z (hi - lo))%Q.

(* consecutive pairs of the boundary list: the day buckets *)
Fixpoint pairs (bs : list Z) : list (Z * Z) :=
  match bs with
  | a :: ((b :: _) as rest) => (a, b) :: pairs rest
  | _ => []
  end.

(* the buckets pandas creates: from the one holding the first stamp to the one holding the last stamp *)
Definition relevant (rs : list reading) (b : Z * Z) : bool :=
  (first_stamp rs <? snd b) && (fst b <=? last_stamp rs).

Record drow := mkD { d_lo : Z; d_hi : Z; d_val : option Q; d_cov : Q }.

Fixpoint rows_of (ivs : list interval) (bk : list (Z * Z)) : list drow :=
  match bk with
  | [] => []
  | (lo, hi) :: rest =>
      let last := match rest with [] => true | _ => false end in
      mkD lo hi (bucket_value lo hi ivs) (coverage lo hi ivs last) :: rows_of ivs rest
  end.

(* as_freq(series, "D", series_type="cumulative", include_coverage=True) *)
Definition as_freq_cum (rs : list reading) (bs : list Z) : list drow :=
  rows_of (intervals rs) (filter (relevant rs) (pairs bs)).

(* ------------------------------------------------------------------------------------------------ *)
(* 3. the code's literal 1-minute materialisation (for lemma minute_grid_eq)                          *)
(* ------------------------------------------------------------------------------------------------ *)

(* value of  (series * spread_factor).asfreq("1 Min", method="ffill")  at minute m: the spread value of the
   latest stamp <= m (index sorted); None before the first stamp, at/after the last stamp (NaT spread factor)
   and on NaN readings *)
Fixpoint atom (rs : list reading) (m : Z) : option Q :=
  match rs with
  | r :: ((r' :: _) as rest) =>
      if stamp r' <=? m then atom rest m
      else if stamp r <=? m
           then option_map (fun v => (v * inject_Z 1 / inject_Z (stamp r' - stamp r))%Q) (rval r)
           else None
  | _ => None
  end.

(* sum / count of f over the minutes lo, lo+1, ..., lo+n-1 *)
Fixpoint grid_sum (f : Z -> Q) (lo : Z) (n : nat) : Q :=
  match n with O => 0%Q | S k => Qred (grid_sum f lo k + f (lo + Z.of_nat k)%Z)%Q end.
Fixpoint grid_count (f : Z -> bool) (lo : Z) (n : nat) : Z :=
  match n with O => 0 | S k => grid_count f lo k + (if f (lo + Z.of_nat k) then 1 else 0) end.

(* resample(freq).sum() and .count() of the atomic series over the bucket [lo,hi): NaN minutes are skipped by
   both; minutes outside the atomic index are absent there and None here, which is the same for sum/count/first *)
Definition grid_bucket_sum (rs : list reading) (lo hi : Z) : Q :=
  grid_sum (fun m => oq0 (atom rs m)) lo (Z.to_nat (hi - lo)).
Definition grid_bucket_count (rs : list reading) (lo hi : Z) : Z :=
  grid_count (fun m => is_some (atom rs m)) lo (Z.to_nat (hi - lo)).

(* ------------------------------------------------------------------------------------------------ *)
(* 4. downsample_and_clean_daily_data                                                                *)
(* ------------------------------------------------------------------------------------------------ *)

Definition half : Q := (1 # 2)%Q.
Definition qltb (a b : Q) : bool := negb (Qle_bool b a).

(* coverage > 0.5 -> value / coverage, else NaN *)
Definition clean_value (v : option Q) (c : Q) : option Q :=
  if qltb half c then option_map (fun x => (x / c)%Q) v else None.

Definition clean_day (lo hi : Z) (ivs : list interval) (last : bool) : option Q :=
  clean_value (bucket_value lo hi ivs) (coverage lo hi ivs last).

Definition downsample_and_clean (rs : list reading) (bs : list Z) : list (Z * option Q) :=
  map (fun r => (d_lo r, clean_value (d_val r) (d_cov r))) (as_freq_cum rs bs).

(* ------------------------------------------------------------------------------------------------ *)
(* 5. clean_billing_data                                                                             *)
(* ------------------------------------------------------------------------------------------------ *)

(* upper bound of a regular period in whole days: 35 (billing_monthly) / 70 (billing_bimonthly) *)
Definition max_days (g : gran) : Z := match g with BillingBimonthly => 70 | _ => 35 end.

(* (index[1:] - index[:-1]).days : whole days of ELAPSED time (floor) *)
Definition whole_days_elapsed (a b : Z) : Z := (b - a) / 1440.

(* UTC offset (minutes) in force at a stamp: tz-database DATA handed in for the stamps that need it (0 elsewhere) *)
Definition offset_of (offs : list (Z * Z)) (t : Z) : Z :=
  match find (fun p => fst p =? t) offs with Some p => snd p | None => 0 end.

(* cal = false: the code as it is.  cal = true: the repaired count (proposed-fixes/C08-1.diff): whole days between the
   two reads on the LOCAL WALL CLOCK, so that a spring-forward day inside the period does not make it a day short *)
Definition whole_days (cal : bool) (offs : list (Z * Z)) (a b : Z) : Z :=
  if cal then ((b + offset_of offs b) - (a + offset_of offs a)) / 1440 else whole_days_elapsed a b.
Definition valid_len (g : gran) (d : Z) : bool := (25 <=? d) && (d <=? max_days g).

(* data[(filter_ <= max) & (filter_ >= 25)].reindex(data.index): values of off-cycle periods, and of the
   final row (its filter_ is NaN), become NaN; the rows stay *)
Fixpoint offcycle_filter (cal : bool) (offs : list (Z * Z)) (g : gran) (rs : list reading) : list reading :=
  match rs with
  | r :: ((r' :: _) as rest) =>
      (stamp r, if valid_len g (whole_days cal offs (stamp r) (stamp r')) then rval r else None)
      :: offcycle_filter cal offs g rest
  | [r] => [(stamp r, None)]
  | [] => []
  end.

(* a billing row with the optional "estimated" flag *)
Definition brow := (Z * option Q * bool)%type.
Definition b_stamp (r : brow) : Z := fst (fst r).
Definition b_val (r : brow) : option Q := snd (fst r).
Definition b_est (r : brow) : bool := snd r.
Definition unest (r : brow) : option Q := if b_est r then None else b_val r.
Definition estv (r : brow) : option Q := if b_est r then b_val r else None.
Definition oadd (a b : option Q) : option Q :=
  match a, b with Some x, Some y => Some (x + y)%Q | _, _ => None end.

(* CalTRACK 2.2.3.1 as coded.  The loop runs over all rows but the last; [est_adds] gives, for each of them,
   (add_estimated_i, "remove the predecessor"): a row whose predecessor has no un-estimated value receives the
   predecessor's estimated value (NaN if it has none), and the predecessor is removed when the row itself
   carries an un-estimated value. *)
Fixpoint est_adds (prev : option brow) (body : list brow) : list (option Q * bool) :=
  match body with
  | [] => []
  | r :: rest =>
      (match prev with
       | Some p => if is_some (unest p) then (Some 0%Q, false) else (estv p, is_some (unest r))
       | None => (Some 0%Q, false)
       end) :: est_adds (Some r) rest
  end.

Definition fold_estimated (rows : list brow) : list reading :=
  match rev rows with
  | [] => []
  | lastrow :: _ =>
      let body := removelast rows in
      let ar := est_adds None body in
      let vals := map (fun p => (b_stamp (fst p), oadd (unest (fst p)) (fst (snd p)))) (combine body ar) in
      let rm := tl (map snd ar) ++ [false] in            (* row i is removed iff entry i+1 says so *)
      map snd (filter (fun p => negb (fst p)) (combine rm vals)) ++ [(b_stamp lastrow, None)]
  end.

Definition all_nan (rs : list reading) : bool := forallb (fun r => negb (is_some (rval r))) rs.

(* clean_billing_data(data, "billing_monthly" | "billing_bimonthly", warnings) without an "estimated" column *)
Definition clean_billing (cal : bool) (offs : list (Z * Z)) (g : gran) (rs : list reading) : list reading :=
  if all_nan rs then [] else
  let f := offcycle_filter cal offs g rs in
  if all_nan f then [] else f.

(* ... with the column.  None = the code raises (ValueError: an off-cycle row inside data[:-1] leaves a NaN in
   the boolean mask) *)
Definition clean_billing_est (cal : bool) (offs : list (Z * Z)) (g : gran) (rows : list brow) : option (list reading) :=
  let rs := map fst rows in
  if all_nan rs then Some [] else
  let f := offcycle_filter cal offs g rs in
  let flags := map snd rows in
  (* a row of data[:-1] whose period is off-cycle lost its flag *)
  let body_ok :=
    forallb (fun p => valid_len g (whole_days cal offs (fst p) (snd p))) (pairs (map stamp rs)) in
  if negb body_ok then None else
  let folded := fold_estimated (combine f flags) in
  if all_nan folded then Some [] else Some folded.

(* ------------------------------------------------------------------------------------------------ *)
(* 6. the data classes: per-local-day observed usage                                                 *)
(* ------------------------------------------------------------------------------------------------ *)

Inductive class_result :=
| Days (vals : list (option Q))      (* one entry per day bucket of bs *)
| ErrBilling                         (* ValueError: billing data in the daily class *)
| ErrType                            (* TypeError from compute_minimum_granularity *)
| Unsupported.                       (* outside the model: sub-monthly data in the billing class, empty results *)

Definition lookup_day (rows : list (Z * option Q)) (lo : Z) : option Q :=
  match find (fun r => fst r =? lo) rows with Some r => snd r | None => None end.

(* sum of the non-null readings stamped inside [lo,hi); None when there is none (pass-through of daily data,
   seen per local day) *)
Definition day_passthrough (rs : list reading) (b : Z * Z) : option Q :=
  let inside := filter (fun r => (fst b <=? stamp r) && (stamp r <? snd b) && is_some (rval r)) rs in
  match inside with [] => None | _ => Some (qsum (map (fun r => oq0 (rval r)) inside)) end.

(* electricity: zero readings are NaN *)
Definition zero_to_nan (elec : bool) (rs : list reading) : list reading :=
  if elec then map (fun r => (stamp r, match rval r with
                                       | Some v => if Qeq_bool v 0 then None else Some v
                                       | None => None end)) rs
  else rs.

(* _DailyData._compute_meter_value_df seen per local day.  [inf] is pandas' inferred frequency of the index of
   the non-null readings.  NaN readings are dropped BEFORE the series is spread (meter_series = dropna()). *)
Definition daily_class (elec : bool) (inf : inferred) (rows : list reading) (bs : list Z) : class_result :=
  let rs := dropna (zero_to_nan elec rows) in
  match rs with
  | [] => Days (map (fun _ => None) (pairs bs))
  | _ =>
    match granularity inf (map stamp rs) Daily with
    | None => ErrType
    | Some g =>
      if is_billing g then ErrBilling
      else match g with
           | Daily => Days (map (day_passthrough rs) (pairs bs))
           | _ => let d := downsample_and_clean rs bs in
                  Days (map (fun b => lookup_day d (fst b)) (pairs bs))
           end
    end
  end.

(* largest boundary <= t (the local midnight of t's day); t itself when there is none *)
Definition floor_boundary (bs : list Z) (t : Z) : Z :=
  fold_left (fun acc b => if b <=? t then b else acc) bs t.

Fixpoint removelast_rows (l : list drow) : list drow :=
  match l with [] => [] | [_] => [] | x :: rest => x :: removelast_rows rest end.

(* _BillingData._compute_meter_value_df seen per local day, for meters read at local midnight.
   rows = the "observed" column (NaN rows may be thinned out by the harness except the first and the last one,
   which fix start_date / end_date). *)
Definition billing_class (cal : bool) (offs : list (Z * Z)) (elec : bool) (inf : inferred) (rows : list reading) (bs : list Z) : class_result :=
  let rs := dropna (zero_to_nan elec rows) in
  match rs with
  | [] => Days (map (fun _ => None) (pairs bs))
  | _ =>
    match granularity inf (map stamp rs) BillingBimonthly with
    | None => ErrType
    | Some g =>
      if negb (is_billing g) then Unsupported
      else
        (* end_date = index.max().replace(hour = 0): the local midnight of the last row's day, KEEPING the minutes
           of that row (a frame whose last row is stamped hh:30 closes the final period at 00:30) *)
        let fb := floor_boundary bs (last_stamp rows) in
        let end_date := fb + (last_stamp rows - fb) mod 60 in
        (* meter_series[end_date + 1 day] = NaN : 24 elapsed hours, not a calendar day *)
        let rs' := rs ++ [(end_date + 1440, None)] in
        match clean_billing cal offs g rs' with
        | [] => Unsupported
        | cl =>
            let d := map (fun r => (d_lo r, d_val r)) (removelast_rows (as_freq_cum cl bs)) in
            Days (map (fun b => lookup_day d (fst b)) (pairs bs))
        end
    end
  end.
