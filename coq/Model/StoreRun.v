(* comparison helpers for the C02 store correspondence (cases written by harness/c02coq.py) *)
From Coq Require Import ZArith List Bool Arith.
From V Require Import Model.CasesLib Model.Gate Model.Store.
Import ListNotations.

Definition dclass_eqb (a b : dclass) : bool :=
  match a, b with
  | DailyB, DailyB | DailyR, DailyR | BillingB, BillingB | BillingR, BillingR
  | HourlyB, HourlyB | HourlyR, HourlyR | CaltrackB, CaltrackB | CaltrackR, CaltrackR => true
  | _, _ => false
  end.

Definition cfg_of (l : list (dclass * ccfg)) (c : dclass) : ccfg :=
  match find (fun e => dclass_eqb (fst e) c) l with Some e => snd e | None => safe_ccfg end.

(* locations (of the store before the step) whose content differs after it *)
Fixpoint changed_from (i : nat) (a b : list cell) : list nat :=
  match a, b with
  | x :: a', y :: b' => (if frame_eqb (val x) (val y) then [] else [i]) ++ changed_from (S i) a' b'
  | _, _ => []
  end.

(* what the harness saw at a step: which existing locations changed, how many locations were created *)
Definition sobs := (list nat * nat)%type.

Fixpoint strace (g : cfg) (s : store) (ops : list sop) : list sobs :=
  match ops with
  | [] => []
  | o :: rest =>
      let s' := step g s o in
      (changed_from 0%nat (cells s) (cells s'), (length (cells s') - length (cells s))%nat) :: strace g s' rest
  end.

Definition sobs_eqb (a b : sobs) : bool := list_eqb Nat.eqb (fst a) (fst b) && Nat.eqb (snd a) (snd b).

Definition check_store (c : list (dclass * ccfg) * list cell * list sop * list sobs) : bool :=
  let '(g, init, ops, expected) := c in
  list_eqb sobs_eqb (strace (cfg_of g) {| cells := init; held := [] |} ops) expected.

(* fit(): (copies, poor, length of the data object's list before) against (data list after, model list after) *)
Definition iota (n : nat) : list Z := map Z.of_nat (seq 0%nat n).
Definition check_fit_lists (c : bool * bool * nat * (nat * nat)) : bool :=
  let '(copies, poor, n, (nd, nm)) := c in
  let r := fit_lists copies poor (iota n) in
  Nat.eqb (length (l_data r)) nd && Nat.eqb (length (l_model r)) nm.
