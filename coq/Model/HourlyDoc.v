(* Stored hourly models (C01): state, document, reload.

   Mirrors opendsm/eemeter/models/hourly/model.py HourlyModel.to_dict / from_dict (through
   opendsm/eemeter/models/hourly/settings.py SerializeModel, ModelInfo).
   [hourly_state] = exactly the attributes to_dict reads:
     settings                     self.settings (dumped with model_dump)
     _df_temporal_clusters        rows (month, day_of_week, temporal_cluster)
     _T_bin_edges                 incl. -inf / +inf
     _T_edge_bin_coeffs           {int: {"t_a","t_b","k","a"}} or None (include_edge_bins off)   -- INTEGER keys
     _ts_features, _categorical_features
     _feature_scaler              location / scale arrays, positional (to_dict keys them by _ts_features[i])
     _y_scaler, _model.coef_, _model.intercept_
     baseline_metrics             a tree (BaselineMetrics / the dynamically created model of a reloaded object)
     warnings, disqualification, error, baseline_timezone, version
   What is modelled because bugs live there: integer keys become strings in the document and must be turned
   back; the scaler dictionary is rebuilt positionally; `temperature_edge_bin_coefficients` may be null; the
   settings are validated again by pydantic on reload, which turns an int stored in a float-typed field into a
   float (the list of float-typed fields is regenerated from the settings classes: Generated/C01Gen.v).
   The numerical prediction (clustering lookup, binning, scaling, ElasticNet product, DST repair) is NOT modelled:
   it is a function of the fields collected in [hourly_inputs] (a Section variable in the proofs).
   Executable definitions only. *)
From Coq Require Import ZArith List Bool String Ascii PrimFloat.
From V Require Import Model.Json Model.DailyDoc.
Import ListNotations.
Open Scope string_scope.

Record hourly_state := {
  hs_settings : json;
  hs_clusters : list (Z * Z * Z);
  hs_bin_edges : list float;
  hs_edge_coeffs : option (list (Z * list (string * float)));
  hs_ts_features : list string;
  hs_cat_features : list string;
  hs_loc : list float;
  hs_scale : list float;
  hs_y : float * float;
  hs_coef : list (list float);
  hs_intercept : list float;
  hs_metrics : json;
  hs_warnings : list warning;
  hs_dq : list warning;
  hs_error : json;
  hs_tz : string;
  hs_version : string
}.

(* ---------------------------------------------------------------- to_dict; None = an exception *)

Definition jfloats (l : list float) : json := JArr (map JNum l).
Definition jstrings (l : list string) : json := JArr (map JStr l).

(* SerializeModel inherits the BaseSettings config str_to_lower / str_strip_whitespace: every value pydantic validates
   as a `str` is stripped and lower-cased when the document is built.  That touches the KEYS of
   feature_scaler : Dict[str, list[float]] (harmless: from_dict reads that dictionary positionally) and nothing else:
   ts_features / categorical_features are untyped lists whose elements pass through verbatim. *)
Definition lower_char (c : ascii) : ascii :=
  let n := nat_of_ascii c in if (Nat.leb 65 n && Nat.leb n 90)%bool then ascii_of_nat (n + 32) else c.
Fixpoint lower (s : string) : string :=
  match s with EmptyString => EmptyString | String c r => String (lower_char c) (lower r) end.
Definition is_space (c : ascii) : bool :=
  let n := nat_of_ascii c in Nat.eqb n 32 || (Nat.leb 9 n && Nat.leb n 13).
Fixpoint lstrip (s : string) : string :=
  match s with EmptyString => EmptyString | String c r => if is_space c then lstrip r else s end.
Fixpoint srev (s acc : string) : string :=
  match s with EmptyString => acc | String c r => srev r (String c acc) end.
Definition strip (s : string) : string := srev (lstrip (srev (lstrip s) "")) "".
Definition str_config (s : string) : string := lower (strip s).

(* for i, key in enumerate(self._ts_features): feature_scaler[key] = [loc[i], scale[i]]   (IndexError if short);
   the keys as the document shows them went through [str_config] *)
Fixpoint scaler_doc (ts : list string) (loc scale : list float) : option (list (string * json)) :=
  match ts with
  | [] => Some []
  | k :: ts' =>
      match loc, scale with
      | a :: loc', b :: scale' =>
          match scaler_doc ts' loc' scale' with
          | Some r => Some ((str_config k, JArr [JNum a; JNum b]) :: r)
          | None => None
          end
      | _, _ => None
      end
  end.

Definition edge_doc (e : option (list (Z * list (string * float)))) : json :=
  match e with
  | None => JNull
  | Some l => JObj (map (fun kv => (string_of_Z (fst kv), JObj (map (fun p => (fst p, JNum (snd p))) (snd kv)))) l)
  end.

Definition hourly_to_doc (s : hourly_state) : option json :=
  match scaler_doc (hs_ts_features s) (hs_loc s) (hs_scale s) with
  | None => None
  | Some fs =>
      Some (JObj [
        ("settings", hs_settings s);
        ("temporal_clusters", JArr (map (fun r => let '(a, b, c) := r in JArr [JInt a; JInt b; JInt c]) (hs_clusters s)));
        ("temperature_bin_edges", jfloats (hs_bin_edges s));
        ("temperature_edge_bin_coefficients", edge_doc (hs_edge_coeffs s));
        ("ts_features", jstrings (hs_ts_features s));
        ("categorical_features", jstrings (hs_cat_features s));
        ("feature_scaler", JObj fs);
        ("catagorical_scaler", JNull);
        ("y_scaler", JArr [JNum (fst (hs_y s)); JNum (snd (hs_y s))]);
        ("coefficients", JArr (map jfloats (hs_coef s)));
        ("intercept", jfloats (hs_intercept s));
        ("baseline_metrics", hs_metrics s);
        ("info", JObj [("warnings", JArr (map warning_doc (hs_warnings s)));
                       ("disqualification", JArr (map warning_doc (hs_dq s)));
                       ("error", hs_error s);
                       ("baseline_timezone", JStr (hs_tz s));
                       ("version", JStr (hs_version s))])])
  end.

(* regression witness model (seeded change C01-4): a writer whose ts_features / categorical_features are typed
   list[str], so that the feature NAMES go through [str_config] as well *)
Definition with_names (f : string -> string) (s : hourly_state) : hourly_state :=
  {| hs_settings := hs_settings s; hs_clusters := hs_clusters s; hs_bin_edges := hs_bin_edges s;
     hs_edge_coeffs := hs_edge_coeffs s; hs_ts_features := map f (hs_ts_features s);
     hs_cat_features := map f (hs_cat_features s); hs_loc := hs_loc s; hs_scale := hs_scale s; hs_y := hs_y s;
     hs_coef := hs_coef s; hs_intercept := hs_intercept s; hs_metrics := hs_metrics s; hs_warnings := hs_warnings s;
     hs_dq := hs_dq s; hs_error := hs_error s; hs_tz := hs_tz s; hs_version := hs_version s |}.
Definition hourly_to_doc_lowercasing (s : hourly_state) : option json := hourly_to_doc (with_names str_config s).

(* ---------------------------------------------------------------- settings re-validation *)

Fixpoint map_key (k : string) (f : json -> json) (o : list (string * json)) : list (string * json) :=
  match o with
  | [] => []
  | (k', v) :: rest => if String.eqb k k' then (k', f v) :: rest else (k', v) :: map_key k f rest
  end.

(* pydantic: an int found in a float-typed field becomes that float *)
Fixpoint coerce_path (p : list string) (j : json) : json :=
  match p with
  | [] => match j with JInt z => JNum (float_of_Z z) | _ => j end
  | k :: rest => match j with JObj o => JObj (map_key k (coerce_path rest) o) | _ => j end
  end.

Definition coerce (paths : list (list string)) (j : json) : json :=
  fold_left (fun j p => coerce_path p j) paths j.

(* ---------------------------------------------------------------- from_dict *)

Definition parse_triple (j : json) : option (Z * Z * Z) :=
  match j with
  | JArr [JInt a; JInt b; JInt c] => Some (a, b, c)
  | _ => None
  end.

Definition parse_floats (j : json) : option (list float) :=
  bind (as_arr j) (fun l => opt_all (map as_float l)).
Definition parse_strings (j : json) : option (list string) :=
  bind (as_arr j) (fun l => opt_all (map as_string l)).

Definition parse_coeff_entry (kv : string * json) : option (string * float) :=
  match as_float (snd kv) with Some f => Some (fst kv, f) | None => None end.

Definition parse_edge_entry (kv : string * json) : option (Z * list (string * float)) :=
  match Z_of_string (fst kv), snd kv with
  | Some n, JObj o => match opt_all (map parse_coeff_entry o) with Some l => Some (n, l) | None => None end
  | _, _ => None
  end.

Section Reload.
Variable float_paths : list (list string).

(* [null_edges_ok] = true: the code as it is (since /repo c3a9d07e) keeps a stored null (include_edge_bins off) as
   None; false: the reader before that commit, which called .items() on it and raised (regression witness) *)
(* the stored scaler entries re-ordered by NAME along another list of names *)
Definition reorder (names : list string) (fs : list (string * json)) : option (list (string * json)) :=
  opt_all (map (fun k => option_map (fun v => (k, v)) (get k fs)) names).

(* [by_train_features] = false: the code as it is -- the scaler arrays are the stored values in the stored order, which
   is the order of the stored ts_features (the sorted order the scalers were fitted in); true: a reader that looks the
   values up by name along settings.train_features (the order the user listed them in) -- a regression witness *)
Definition hourly_from_doc_gen (null_edges_ok by_train_features : bool) (d : json) : option hourly_state :=
  do st <- field "settings" d;
  do tf <- bind (field "train_features" st) parse_strings;
  do cl <- bind (bind (field "temporal_clusters" d) as_arr) (fun l => opt_all (map parse_triple l));
  do edges <- bind (field "temperature_bin_edges" d) parse_floats;
  do ec <- match field "temperature_edge_bin_coefficients" d with
           | Some (JObj o) => option_map Some (opt_all (map parse_edge_entry o))
           | Some JNull => if null_edges_ok then Some None else None
           | _ => None
           end;
  do ts <- bind (field "ts_features" d) parse_strings;
  do cat <- bind (field "categorical_features" d) parse_strings;
  do fs0 <- bind (field "feature_scaler" d) as_obj;
  do fs <- (if by_train_features then reorder tf fs0 else Some fs0);
  do pairs <- opt_all (map (fun kv => match snd kv with
                                      | JArr (a :: b :: _) => match as_float a, as_float b with
                                                             | Some x, Some y => Some (x, y) | _, _ => None end
                                      | _ => None end) fs);
  do y <- match field "y_scaler" d with
          | Some (JArr (a :: b :: _)) => match as_float a, as_float b with Some x, Some y => Some (x, y) | _, _ => None end
          | _ => None end;
  do coef <- bind (bind (field "coefficients" d) as_arr) (fun l => opt_all (map parse_floats l));
  do icpt <- bind (field "intercept" d) parse_floats;
  do bm <- field "baseline_metrics" d;
  do _bm <- as_obj bm;
  do info <- field "info" d;
  do ws <- parse_warnings (field "warnings" info);
  do dq <- parse_warnings (field "disqualification" info);
  do err <- field "error" info;
  do tz <- bind (field "baseline_timezone" info) as_string;
  do ver <- bind (field "version" info) as_string;
  Some {| hs_settings := coerce float_paths st; hs_clusters := cl; hs_bin_edges := edges; hs_edge_coeffs := ec;
          hs_ts_features := ts; hs_cat_features := cat; hs_loc := map fst pairs; hs_scale := map snd pairs;
          hs_y := y; hs_coef := coef; hs_intercept := icpt; hs_metrics := bm; hs_warnings := ws; hs_dq := dq;
          hs_error := err; hs_tz := tz; hs_version := ver |}.

Definition hourly_from_doc := hourly_from_doc_gen true false.
Definition hourly_from_doc_before_c3a9d07e := hourly_from_doc_gen false false.
Definition hourly_from_doc_by_train_features := hourly_from_doc_gen true true.

End Reload.

(* ---------------------------------------------------------------- what the prediction path reads *)

Record hourly_inputs := {
  hi_settings : json;
  hi_clusters : list (Z * Z * Z);
  hi_bin_edges : list float;
  hi_edge_coeffs : option (list (Z * list (string * float)));
  hi_ts_features : list string;
  hi_cat_features : list string;
  hi_loc : list float;
  hi_scale : list float;
  hi_y : float * float;
  hi_coef : list (list float);
  hi_intercept : list float;
  hi_tz : string;                       (* the timezone guard *)
  hi_dq : list warning                  (* the disqualification gate *)
}.

Definition inputs_of (s : hourly_state) : hourly_inputs :=
  {| hi_settings := hs_settings s; hi_clusters := hs_clusters s; hi_bin_edges := hs_bin_edges s;
     hi_edge_coeffs := hs_edge_coeffs s; hi_ts_features := hs_ts_features s; hi_cat_features := hs_cat_features s;
     hi_loc := hs_loc s; hi_scale := hs_scale s; hi_y := hs_y s; hi_coef := hs_coef s;
     hi_intercept := hs_intercept s; hi_tz := hs_tz s; hi_dq := hs_dq s |}.

(* the (location, scale) the scalers apply to a feature column: column i of the scaler arrays belongs to
   _ts_features[i] (the scalers were fitted on df[train_features] in the sorted feature order) *)
Fixpoint scaler_of (name : string) (ts : list string) (loc scale : list float) : option (float * float) :=
  match ts, loc, scale with
  | k :: ts', a :: loc', b :: scale' => if String.eqb k name then Some (a, b) else scaler_of name ts' loc' scale'
  | _, _, _ => None
  end.
Definition feature_scaler_of (s : hourly_state) (name : string) : option (float * float) :=
  scaler_of name (hs_ts_features s) (hs_loc s) (hs_scale s).

(* the edge-bin coefficient the prediction path looks up: self._T_edge_bin_coeffs[n] with an int n *)
Fixpoint edge_lookup (n : Z) (l : list (Z * list (string * float))) : option (list (string * float)) :=
  match l with
  | [] => None
  | (k, v) :: rest => if (k =? n)%Z then Some v else edge_lookup n rest
  end.
