(* Executable comparison helpers used by the C08 / C09 correspondences (harness/c08.py, harness/c09.py).
   Case files carry their numbers as primitive 63-bit integers (literals that Coq parses in constant time; a
   decimal Z literal costs ~0.4 ms to elaborate, which dominated the run time of the case files) and as
   run-length encoded lists; everything is decoded here into the Z / Q data the models work on. *)
From Coq Require Import ZArith QArith Qabs List Bool Uint63.
From V Require Import Model.CasesLib Model.Resample.
Import ListNotations.
Open Scope Z_scope.

(* ------------------------------------------------------------------------------------------------ *)
(* decoding                                                                                          *)
(* ------------------------------------------------------------------------------------------------ *)

Definition zi (i : int) : Z := Uint63.to_Z i.
Definition pi (i : int) : positive := Z.to_pos (zi i).

(* an optional rational: absent, numerator/denominator below 2^62, a negated one, or arbitrary *)
Inductive qv := QN | QV (n d : int) | QM (n d : int) | QB (n : Z) (d : positive).
Definition qv_to (q : qv) : option Q :=
  match q with
  | QN => None
  | QV n d => Some (zi n # pi d)%Q
  | QM n d => Some ((- zi n) # pi d)%Q
  | QB n d => Some (n # d)%Q
  end.

(* readings given row by row *)
Definition rds (l : list (int * qv)) : list reading := map (fun p => (zi (fst p), qv_to (snd p))) l.

(* compact encoding of a regular series: slot i is stamped t0 + i*step *)
Inductive slot := V (n : int) | NaN | Absent.

Fixpoint grid_from (t : Z) (step : Z) (den : positive) (sl : list slot) : list reading :=
  match sl with
  | [] => []
  | V n :: rest => (t, Some (zi n # den)%Q) :: grid_from (t + step) step den rest
  | NaN :: rest => (t, None) :: grid_from (t + step) step den rest
  | Absent :: rest => grid_from (t + step) step den rest
  end.
Definition grid (t0 step den : int) (sl : list slot) : list reading := grid_from (zi t0) (zi step) (pi den) sl.

(* local-day boundaries: the first one, then runs of (count, day length in minutes) *)
Fixpoint steps (n : nat) (b len : Z) : list Z :=
  match n with O => [] | S k => (b + len) :: steps k (b + len) len end.
Fixpoint run_bounds (b : Z) (runs : list (int * int)) : list Z :=
  match runs with
  | [] => []
  | (c, len) :: rest => steps (Z.to_nat (zi c)) b (zi len) ++ run_bounds (b + zi c * zi len) rest
  end.
Definition bounds (b0 : int) (runs : list (int * int)) : list Z := zi b0 :: run_bounds (zi b0) runs.

(* run-length encoded list of optional values *)
Definition vals (runs : list (int * qv)) : list (option Q) :=
  flat_map (fun p => repeat (qv_to (snd p)) (Z.to_nat (zi (fst p)))) runs.

(* ------------------------------------------------------------------------------------------------ *)
(* comparison                                                                                        *)
(* ------------------------------------------------------------------------------------------------ *)

(* |a-b| <= 1e-9 * max(1,|a|,|b|) *)
Definition qmax (a b : Q) : Q := if Qle_bool a b then b else a.
Definition tol : Q := (1 # 1000000000)%Q.
Definition q_close (a b : Q) : bool :=
  Qle_bool (Qabs (a - b)) (tol * qmax 1 (qmax (Qabs a) (Qabs b))).
Definition oq_close (a b : option Q) : bool := opt_eqb q_close a b.

Definition reading_close (a b : reading) : bool := (fst a =? fst b) && oq_close (snd a) (snd b).

Fixpoint list_eqb2 {A B} (f : A -> B -> bool) (a : list A) (b : list B) : bool :=
  match a, b with
  | [], [] => true
  | x :: a', y :: b' => f x y && list_eqb2 f a' b'
  | _, _ => false
  end.

(* the rows start at the bucket the implementation's first row is labelled with (the harness has checked that
   the implementation's labels are consecutive entries of bs) *)
Definition starts_at (rows : list drow) (first : int) : bool :=
  match rows with [] => true | r :: _ => d_lo r =? zi first end.

(* as_freq(series, "D", include_coverage=True): (value, coverage) per row *)
Definition check_asfreq (c : list reading * list Z * int * list (qv * qv)) : bool :=
  let '(rs, bs, first, e) := c in
  let rows := as_freq_cum rs bs in
  starts_at rows first &&
  list_eqb2 (fun r x => oq_close (d_val r) (qv_to (fst x)) && oq_close (Some (d_cov r)) (qv_to (snd x))) rows e.

(* as_freq(..., "D") without coverage (the billing class' call); expected values run-length encoded *)
Definition check_asfreq_values (c : list reading * list Z * int * list (int * qv)) : bool :=
  let '(rs, bs, first, e) := c in
  let rows := as_freq_cum rs bs in
  starts_at rows first && list_eqb2 oq_close (map d_val rows) (vals e).

Definition check_downsample (c : list reading * list Z * int * list qv) : bool :=
  let '(rs, bs, first, e) := c in
  let rows := downsample_and_clean rs bs in
  match rows with [] => true | r :: _ => fst r =? zi first end &&
  list_eqb2 oq_close (map snd rows) (map qv_to e).

Definition gran_eqb (a b : gran) : bool :=
  match a, b with
  | Hourly, Hourly | Daily, Daily | BillingMonthly, BillingMonthly
  | BillingBimonthly, BillingBimonthly | OtherGran, OtherGran => true
  | _, _ => false
  end.

Definition check_granularity (c : inferred * list int * gran * option gran) : bool :=
  let '(inf, ts, dflt, e) := c in opt_eqb gran_eqb (granularity inf (map zi ts) dflt) e.

(* what the harness observed of a data class: df['observed'] per local day (run-length encoded) or the error *)
Inductive class_obs := ODays (runs : list (int * qv)) | OErrBilling | OErrType.

Definition class_close (a : class_result) (b : class_obs) : bool :=
  match a, b with
  | Days x, ODays y => list_eqb2 oq_close x (vals y)
  | ErrBilling, OErrBilling | ErrType, OErrType => true
  | _, _ => false
  end.

Definition check_daily_class (c : bool * inferred * list reading * list Z * class_obs) : bool :=
  let '(elec, inf, rows, bs, e) := c in class_close (daily_class elec inf rows bs) e.

(* UTC offsets given as (stamp, offset) pairs *)
Definition offsets (l : list (int * int)) : list (Z * Z) := map (fun p => (zi (fst p), zi (snd p) - 1440)) l.

Definition check_billing_class (c : bool * list (Z * Z) * bool * inferred * list reading * list Z * class_obs) : bool :=
  let '(cal, offs, elec, inf, rows, bs, e) := c in class_close (billing_class cal offs elec inf rows bs) e.

Definition check_clean_billing (c : bool * list (Z * Z) * gran * list reading * list reading) : bool :=
  let '(cal, offs, g, rs, e) := c in list_eqb2 reading_close (clean_billing cal offs g rs) e.

Definition brows (l : list (int * qv * bool)) : list brow :=
  map (fun p => (zi (fst (fst p)), qv_to (snd (fst p)), snd p)) l.

Definition check_clean_billing_est (c : bool * list (Z * Z) * gran * list brow * option (list reading)) : bool :=
  let '(cal, offs, g, rows, e) := c in opt_eqb (list_eqb2 reading_close) (clean_billing_est cal offs g rows) e.

(* lemma minute_grid_eq, executed: the literal 1-minute materialisation against the interval formula *)
Definition check_grid (c : list reading * int * int) : bool :=
  let '(rs, lo, hi) := c in
  Qeq_bool (grid_bucket_sum rs (zi lo) (zi hi)) (bucket_sum (zi lo) (zi hi) (intervals rs)) &&
  (grid_bucket_count rs (zi lo) (zi hi) =? bucket_count (zi lo) (zi hi) (intervals rs)).
