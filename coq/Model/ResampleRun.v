(* Executable comparison helpers used by the C08 correspondence (harness/c08.py). *)
From Coq Require Import ZArith QArith Qabs List Bool.
From V Require Import Model.CasesLib Model.Resample.
Import ListNotations.
Open Scope Z_scope.

(* compact encoding of a regular sub-daily / daily series: slot i is stamped t0 + i*step *)
Inductive slot := V (n : Z) | NaN | Absent.

Fixpoint grid_from (t : Z) (step : Z) (den : positive) (sl : list slot) : list reading :=
  match sl with
  | [] => []
  | V n :: rest => (t, Some (n # den)%Q) :: grid_from (t + step) step den rest
  | NaN :: rest => (t, None) :: grid_from (t + step) step den rest
  | Absent :: rest => grid_from (t + step) step den rest
  end.

(* |a-b| <= 1e-9 * max(1,|a|,|b|) *)
Definition qmax (a b : Q) : Q := if Qle_bool a b then b else a.
Definition tol : Q := (1 # 1000000000)%Q.
Definition q_close (a b : Q) : bool :=
  Qle_bool (Qabs (a - b)) (tol * qmax 1 (qmax (Qabs a) (Qabs b))).
Definition oq_close (a b : option Q) : bool := opt_eqb q_close a b.

Definition reading_close (a b : reading) : bool := (fst a =? fst b) && oq_close (snd a) (snd b).

Definition drow_close (r : drow) (e : Z * option Q * Q) : bool :=
  let '(lo, v, c) := e in (d_lo r =? lo) && oq_close (d_val r) v && q_close (d_cov r) c.

Fixpoint list_eqb2 {A B} (f : A -> B -> bool) (a : list A) (b : list B) : bool :=
  match a, b with
  | [], [] => true
  | x :: a', y :: b' => f x y && list_eqb2 f a' b'
  | _, _ => false
  end.

Definition check_asfreq (c : list reading * list Z * list (Z * option Q * Q)) : bool :=
  let '(rs, bs, e) := c in list_eqb2 drow_close (as_freq_cum rs bs) e.

(* as_freq(..., "D") without coverage (the billing class' call) *)
Definition check_asfreq_values (c : list reading * list Z * list (Z * option Q)) : bool :=
  let '(rs, bs, e) := c in
  list_eqb2 reading_close (map (fun r => (d_lo r, d_val r)) (as_freq_cum rs bs)) e.

Definition check_downsample (c : list reading * list Z * list (Z * option Q)) : bool :=
  let '(rs, bs, e) := c in list_eqb2 reading_close (downsample_and_clean rs bs) e.

Definition gran_eqb (a b : gran) : bool :=
  match a, b with
  | Hourly, Hourly | Daily, Daily | BillingMonthly, BillingMonthly
  | BillingBimonthly, BillingBimonthly | OtherGran, OtherGran => true
  | _, _ => false
  end.

Definition check_granularity (c : inferred * list Z * gran * option gran) : bool :=
  let '(inf, ts, dflt, e) := c in opt_eqb gran_eqb (granularity inf ts dflt) e.

Definition class_close (a b : class_result) : bool :=
  match a, b with
  | Days x, Days y => list_eqb2 oq_close x y
  | ErrBilling, ErrBilling | ErrType, ErrType | Unsupported, Unsupported => true
  | _, _ => false
  end.

Definition check_daily_class (c : bool * inferred * list reading * list Z * class_result) : bool :=
  let '(elec, inf, rows, bs, e) := c in class_close (daily_class elec inf rows bs) e.

Definition check_billing_class (c : bool * inferred * list reading * list Z * class_result) : bool :=
  let '(elec, inf, rows, bs, e) := c in class_close (billing_class elec inf rows bs) e.

Definition check_clean_billing (c : gran * list reading * list reading) : bool :=
  let '(g, rs, e) := c in list_eqb2 reading_close (clean_billing g rs) e.

Definition check_clean_billing_est (c : gran * list brow * option (list reading)) : bool :=
  let '(g, rows, e) := c in opt_eqb (list_eqb2 reading_close) (clean_billing_est g rows) e.

(* lemma minute_grid_eq, executed: the literal 1-minute materialisation against the interval formula *)
Definition check_grid (c : list reading * Z * Z) : bool :=
  let '(rs, lo, hi) := c in
  Qeq_bool (grid_bucket_sum rs lo hi) (bucket_sum lo hi (intervals rs)) &&
  (grid_bucket_count rs lo hi =? bucket_count lo hi (intervals rs)).
