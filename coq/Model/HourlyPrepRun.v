(* Executable comparison used by the C17 correspondence: the model of Model/HourlyPrep.v instantiated at the payload
   A := binary64 (PrimFloat), run on the input of one implementation execution and compared with what the
   implementation returned.  The theorems of Properties/C17.v hold for every payload type, zero test, interpolation
   function and estimator, hence for this instance.

   A frame of two years has 17 544 rows; as list literals of Z / Q numerals the cases files cost tens of GB of memory
   in coqc.  The harness therefore writes every column as a primitive array of binary64 / 63-bit integer literals (one
   machine word per cell); NaN is [None]. *)
From Coq Require Import PrimFloat Uint63 PArray.
From Coq Require Import ZArith List Bool.
From V Require Import Model.CasesLib Model.HourlyPrep.
Import ListNotations.
Open Scope Z_scope.

(* ------------------------------------------------------------------ the binary64 instance (primitives eta-expanded) *)
Definition fzero (x : float) : bool := PrimFloat.eqb x 0%float.          (* df["observed"] == 0 : true for -0.0 as well *)
Definition fofz (z : Z) : float := PrimFloat.of_uint63 (Uint63.of_Z z).  (* distances are small non-negative integers *)
(* np.interp on an equally spaced index: y0 + (y1 - y0) / (x1 - x0) * (x - x0) *)
Definition flin (v0 v1 : float) (d0 d1 : Z) : float :=
  PrimFloat.add v0 (PrimFloat.mul (PrimFloat.div (PrimFloat.sub v1 v0) (fofz (d0 + d1))) (fofz d0)).

(* |a - b| <= 1e-9 * max(1, |a|, |b|)  (DESIGN 3.1: interpolated values go through float division) *)
Definition fmax (x y : float) : float := if PrimFloat.ltb x y then y else x.
Definition close (x y : float) : bool :=
  PrimFloat.eqb x y ||
  PrimFloat.leb (PrimFloat.abs (PrimFloat.sub x y))
                (PrimFloat.mul 0x1.12e0be826d695p-30%float (fmax 1%float (fmax (PrimFloat.abs x) (PrimFloat.abs y)))).

Definition frow := row float.
Definition fcell (x : float) : option float := if PrimFloat.is_nan x then None else Some x.

Definition triple (B : Type) := (B * B * B)%type.
Definition sel3 {B} (p : triple B) (c : colname) : B :=
  match c with Temp => fst (fst p) | Obs => snd (fst p) | Ghi => snd p end.

Record case := mkcase {
  k_elec : bool;
  k_bnds : list Z;                       (* local-day starts (UTC minutes), ascending *)
  k_edges : edges;
  k_rows : list frow;                    (* the input frame, in the order given (duplicates, any order) *)
  k_est : triple (list (option float));  (* proposal of the autocorrelation stage per column: recorded from the
                                            execution, or — when it could not be recorded — the final column itself *)
  k_lo : Z;                              (* observed: first stamp, number of rows *)
  k_n : nat;
  k_val : triple (list (option float));  (* observed columns *)
  k_flag : triple (list bool)            (* observed interpolated_<col> *)
}.

Definition model_col (k : case) (c : colname) : out_col float :=
  prep_col_fast fzero flin (fun c _ => sel3 (k_est k) c) (k_elec k) (k_bnds k) (k_edges k) (k_rows k) c.
Definition model_col_spec (k : case) (c : colname) : out_col float :=
  prep_col fzero flin (fun c _ => sel3 (k_est k) c) (k_elec k) (k_bnds k) (k_edges k) (k_rows k) c.

Definition agrees (k : case) (c : colname) (out : out_col float) : bool :=
  list_eqb Z.eqb (map (fun p : Z * option float * bool => fst (fst p)) out) (grid_from (k_n k) (k_lo k))
  && list_eqb (opt_eqb close) (map (fun p : Z * option float * bool => snd (fst p)) out) (sel3 (k_val k) c)
  && list_eqb Bool.eqb (map (fun p : Z * option float * bool => snd p) out) (sel3 (k_flag k) c).

Definition check_col (k : case) (c : colname) : bool := agrees k c (model_col k c).
Definition check_case (k : case) : bool := check_col k Temp && check_col k Obs && check_col k Ghi.

(* the quadratic specification, used on small frames to tie [prep_col] itself (not only the finite-map variant) *)
Definition check_case_spec (k : case) : bool :=
  agrees k Temp (model_col_spec k Temp) && agrees k Obs (model_col_spec k Obs) && agrees k Ghi (model_col_spec k Ghi)
  && check_case k.

(* diagnostics: positions where model and observation differ, per column: (index, stamp, model value, model flag) *)
Fixpoint diff_from (i : Z) (m : out_col float) (v : list (option float)) (f : list bool)
  : list (Z * Z * option float * bool) :=
  match m, v, f with
  | (t, mv, mf) :: m', ev :: v', ef :: f' =>
      if opt_eqb close mv ev && Bool.eqb mf ef then diff_from (i + 1) m' v' f'
      else (i, t, mv, mf) :: diff_from (i + 1) m' v' f'
  | _, _, _ => []
  end.
Definition explain (k : case) (c : colname) :=
  let out := model_col k c in
  (List.length out, hd 0 (map (fun p : Z * option float * bool => fst (fst p)) out),
   firstn 5 (diff_from 0 out (sel3 (k_val k) c) (sel3 (k_flag k) c))).

(* ------------------------------------------------------------------ compact case files *)
Fixpoint tolist {B} (a : array B) (n : nat) (i : int) : list B :=
  match n with O => [] | S n' => PArray.get a i :: tolist a n' (Uint63.add i 1%uint63) end.
Definition alen {B} (a : array B) : nat := Z.to_nat (Uint63.to_Z (PArray.length a)).
Definition alist {B} (a : array B) : list B := tolist a (alen a) 0%uint63.
Definition fcol (a : array float) : list (option float) := map fcell (alist a).
(* an empty array stands for a column that is missing throughout (no ghi / no observed column) *)
Definition fcol_n (n : nat) (a : array float) : list (option float) :=
  match alen a with O => repeat None n | _ => fcol a end.
Definition zcol (a : array int) : list Z := map Uint63.to_Z (alist a).
(* interpolated_<col> of the three columns packed into one integer per row: bit 0 temperature, 1 observed, 2 ghi *)
Definition bitcol (k : int) (a : array int) : list bool :=
  map (fun i => negb (Uint63.eqb (Uint63.land (Uint63.lsr i k) 1%uint63) 0%uint63)) (alist a).
(* the imputer's proposal as (position, value) pairs, positions ascending; everything else is "no proposal" *)
Fixpoint dense (n : nat) (i : Z) (pos : list Z) (val : list (option float)) : list (option float) :=
  match n with
  | O => []
  | S n' =>
      match pos, val with
      | p :: pos', v :: val' => if p =? i then v :: dense n' (i + 1) pos' val' else None :: dense n' (i + 1) pos val
      | _, _ => None :: dense n' (i + 1) [] []
      end
  end.

Record acase := mkacase {
  a_elec : bool; a_lo_fwd : int; a_hi_back : int;
  a_bnds : array int;
  a_ts : array int; a_temp : array float; a_obs : array float; a_ghi : array float;
  a_est : bool;                                        (* a proposal of the autocorrelation stage is given *)
  a_pos_t : array int; a_est_t : array float;
  a_pos_o : array int; a_est_o : array float;
  a_pos_g : array int; a_est_g : array float;
  a_lo : int; a_n : int;
  a_val_t : array float; a_val_o : array float; a_val_g : array float;
  a_flags : array int
}.

Fixpoint rows_of (t : list Z) (a b c : list (option float)) : list frow :=
  match t, a, b, c with
  | t0 :: t', a0 :: a', b0 :: b', c0 :: c' => mkrow t0 a0 b0 c0 :: rows_of t' a' b' c'
  | _, _, _, _ => []
  end.

Definition to_case (a : acase) : case :=
  let n_in := alen (a_ts a) in
  let n := Z.to_nat (Uint63.to_Z (a_n a)) in
  let est := fun (p : array int) (v : array float) => if a_est a then dense n 0 (zcol p) (fcol v) else [] in
  mkcase (a_elec a) (zcol (a_bnds a)) (mkedges (Uint63.to_Z (a_lo_fwd a)) (Uint63.to_Z (a_hi_back a)))
         (rows_of (zcol (a_ts a)) (fcol (a_temp a)) (fcol_n n_in (a_obs a)) (fcol_n n_in (a_ghi a)))
         (est (a_pos_t a) (a_est_t a), est (a_pos_o a) (a_est_o a), est (a_pos_g a) (a_est_g a))
         (Uint63.to_Z (a_lo a)) n
         (fcol (a_val_t a), fcol_n n (a_val_o a), fcol_n n (a_val_g a))
         (bitcol 0%uint63 (a_flags a), bitcol 1%uint63 (a_flags a), bitcol 2%uint63 (a_flags a)).

Definition check_acase (a : acase) : bool := check_case (to_case a).
Definition check_acase_spec (a : acase) : bool := check_case_spec (to_case a).
Definition aexplain (a : acase) := let k := to_case a in (explain k Temp, explain k Obs, explain k Ghi).

(* tag printed by the cases files next to the diagnostics of a case *)
Inductive diag (B : Type) := DIAG (i : Z) (d : B).
Arguments DIAG {B} i d.
