(* Executable comparison used by the C17 correspondence: the model of Model/HourlyPrep.v at A := Q,
   run on the input of one implementation execution and compared with what the implementation returned. *)
From Coq Require Import ZArith QArith Qabs Qminmax List Bool.
From V Require Import Model.CasesLib Model.HourlyPrep.
Import ListNotations.
Open Scope Z_scope.

Definition qzero (q : Q) : bool := Qnum q =? 0.
(* np.interp: y0 + (y1 - y0) / (x1 - x0) * (x - x0) on an equally spaced index *)
Definition qlin (v0 v1 : Q) (d0 d1 : Z) : Q :=
  Qred (v0 + (v1 - v0) * inject_Z d0 / inject_Z (d0 + d1))%Q.

(* |a - b| <= 1e-9 * max(1, |a|, |b|)  (DESIGN 3.1: interpolated values go through float division) *)
Definition close (a b : Q) : bool :=
  Qeq_bool a b ||
  Qle_bool (Qabs (a - b)) ((1 # 1000000000) * Qmax 1 (Qmax (Qabs a) (Qabs b)))%Q.

Definition qrow := row Q.
(* compact literals: a binary64 value is n / 2^e *)
Definition F (n e : Z) : option Q := Some (Qmake n (Z.to_pos (2 ^ e))).
Definition R (t : Z) (a b c : option Q) : qrow := mkrow t a b c.

Definition triple (B : Type) := (B * B * B)%type.
Definition sel3 {B} (p : triple B) (c : colname) : B :=
  match c with Temp => fst (fst p) | Obs => snd (fst p) | Ghi => snd p end.

Record case := mkcase {
  k_elec : bool;
  k_bnds : list Z;                       (* local-day starts (UTC minutes), ascending *)
  k_edges : edges;
  k_rows : list qrow;                    (* the input frame, in the order given (duplicates, any order) *)
  k_est : triple (list (option Q));      (* proposal of the autocorrelation stage per column: recorded from the
                                            execution, or — when it could not be recorded — the final column itself *)
  k_lo : Z;                              (* observed: first stamp, number of rows *)
  k_n : nat;
  k_val : triple (list (option Q));      (* observed columns *)
  k_flag : triple (list bool)            (* observed interpolated_<col> *)
}.

Definition model_col (k : case) (c : colname) : out_col Q :=
  prep_col_fast qzero qlin (fun c _ => sel3 (k_est k) c) (k_elec k) (k_bnds k) (k_edges k) (k_rows k) c.

Definition check_col (k : case) (c : colname) : bool :=
  let out := model_col k c in
  list_eqb Z.eqb (map (fun p => fst (fst p)) out) (grid_from (k_n k) (k_lo k))
  && list_eqb (opt_eqb close) (map (fun p => snd (fst p)) out) (sel3 (k_val k) c)
  && list_eqb Bool.eqb (map snd out) (sel3 (k_flag k) c).

Definition check_case (k : case) : bool := check_col k Temp && check_col k Obs && check_col k Ghi.

(* the quadratic specification, used on small frames to tie [prep_col] itself (not only the fast variant) *)
Definition check_col_spec (k : case) (c : colname) : bool :=
  let out := prep_col qzero qlin (fun c _ => sel3 (k_est k) c) (k_elec k) (k_bnds k) (k_edges k) (k_rows k) c in
  list_eqb Z.eqb (map (fun p => fst (fst p)) out) (grid_from (k_n k) (k_lo k))
  && list_eqb (opt_eqb close) (map (fun p => snd (fst p)) out) (sel3 (k_val k) c)
  && list_eqb Bool.eqb (map snd out) (sel3 (k_flag k) c).
Definition check_case_spec (k : case) : bool :=
  check_col_spec k Temp && check_col_spec k Obs && check_col_spec k Ghi && check_case k.

(* diagnostics: positions where model and observation differ, per column: (index, model value, model flag) *)
Fixpoint diff_from (i : Z) (m : out_col Q) (v : list (option Q)) (f : list bool)
  : list (Z * Z * option Q * bool) :=
  match m, v, f with
  | (t, mv, mf) :: m', ev :: v', ef :: f' =>
      if opt_eqb close mv ev && Bool.eqb mf ef then diff_from (i + 1) m' v' f'
      else (i, t, mv, mf) :: diff_from (i + 1) m' v' f'
  | _, _, _ => []
  end.
Definition explain (k : case) (c : colname) :=
  let out := model_col k c in
  (length out, hd 0 (map (fun p => fst (fst p)) out), firstn 5 (diff_from 0 out (sel3 (k_val k) c) (sel3 (k_flag k) c))).

(* ------------------------------------------------------------------ compact case files
   A frame of two years has 17 544 rows; as list literals of Z / Q numerals the cases files cost tens of GB of
   memory in coqc.  The harness therefore writes every column as a primitive array of binary64 / 63-bit integer
   literals (one machine word per cell) and the comparison converts them here: a binary64 value is read exactly
   (Prim2SF: sign, mantissa, exponent), NaN is [None]. *)
From Coq Require Import PrimFloat Uint63 FloatOps SpecFloat PArray.

Definition f2q (x : float) : option Q :=
  match Prim2SF x with
  | S754_zero _ => Some (0 # 1)%Q
  | S754_finite s m e =>
      let v := if e <? 0 then Qmake (Zpos m) (Z.to_pos (2 ^ (- e))) else Qmake (Zpos m * 2 ^ e) 1 in
      Some (Qred (if s then Qopp v else v))
  | _ => None
  end.

Fixpoint tolist {B} (a : array B) (n : nat) (i : int) : list B :=
  match n with O => [] | S n' => PArray.get a i :: tolist a n' (Uint63.add i 1%uint63) end.
Definition alist {B} (a : array B) : list B := tolist a (Z.to_nat (Uint63.to_Z (PArray.length a))) 0%uint63.
Definition qcol (a : array float) : list (option Q) := map f2q (alist a).
Definition bcol (a : array int) : list bool := map (fun i => negb (Uint63.eqb i 0%uint63)) (alist a).
Definition zcol (a : array int) : list Z := map Uint63.to_Z (alist a).

Record acase := mkacase {
  a_elec : bool; a_lo_fwd : int; a_hi_back : int;
  a_bnds : array int;
  a_ts : array int; a_temp : array float; a_obs : array float; a_ghi : array float;
  a_est_t : array float; a_est_o : array float; a_est_g : array float;
  a_lo : int; a_n : int;
  a_val_t : array float; a_val_o : array float; a_val_g : array float;
  a_flag_t : array int; a_flag_o : array int; a_flag_g : array int
}.

Fixpoint rows_of (t : list Z) (a b c : list (option Q)) : list qrow :=
  match t, a, b, c with
  | t0 :: t', a0 :: a', b0 :: b', c0 :: c' => mkrow t0 a0 b0 c0 :: rows_of t' a' b' c'
  | _, _, _, _ => []
  end.

Definition to_case (a : acase) : case :=
  mkcase (a_elec a) (zcol (a_bnds a)) (mkedges (Uint63.to_Z (a_lo_fwd a)) (Uint63.to_Z (a_hi_back a)))
         (rows_of (zcol (a_ts a)) (qcol (a_temp a)) (qcol (a_obs a)) (qcol (a_ghi a)))
         (qcol (a_est_t a), qcol (a_est_o a), qcol (a_est_g a))
         (Uint63.to_Z (a_lo a)) (Z.to_nat (Uint63.to_Z (a_n a)))
         (qcol (a_val_t a), qcol (a_val_o a), qcol (a_val_g a))
         (bcol (a_flag_t a), bcol (a_flag_o a), bcol (a_flag_g a)).

Definition check_acase (a : acase) : bool := check_case (to_case a).
Definition check_acase_spec (a : acase) : bool := check_case_spec (to_case a).
Definition aexplain (a : acase) := let k := to_case a in (explain k Temp, explain k Obs, explain k Ghi).

(* tag printed by the cases files next to the diagnostics of a case *)
Inductive diag (B : Type) := DIAG (i : Z) (d : B).
Arguments DIAG {B} i d.
