(* Executable comparison for the utils stream of the C16 correspondence (harness/c16.py). *)
From Coq Require Import ZArith QArith Qabs Qminmax List Bool PrimFloat.
From V Require Import Model.CasesLib Model.Metrics Model.MetricsRun Model.MetricsUtils.
Import ListNotations.
Open Scope Q_scope.

Definition int_obs (z : option Z) (o : obsv) : bool :=
  match z, o with
  | Some k, ONum f => Qeq_bool (inject_Z k) f
  | None, ORaise => true
  | _, _ => false
  end.

(* OoM(x, method) for one finite element *)
Definition check_oom (c : oom_method * float * xobs) : bool :=
  let '(m, x, o) := c in int_obs (oom m (q_of_float x)) (to_obsv o).

(* RoundToSigFigs(x, p) for one finite element *)
Definition check_round_sig (c : float * Z * xobs) : bool :=
  let '(x, p, o) := c in
  match round_sig (q_of_float x) p, to_obsv o with
  | Some r, ONum f => close 0 r f
  | _, _ => false
  end.

(* np.clip inside numba-compiled code *)
Definition check_clip (c : float * float * float * xobs) : bool :=
  let '(a, lo, hi, o) := c in
  let ca := match obsv_of_float a with ONum q => Some q | _ => None end in
  match clip ca (q_of_float lo) (q_of_float hi), to_obsv o with
  | None, ONaN => true
  | Some q, ONum f => Qeq_bool q f
  | _, _ => false
  end.

Record fcase := {
  fc_den : positive; fc_x : list Z; fc_w : option (list Z); fc_wden : positive; fc_mean : option Z; fc_exp : xobs
}.
Definition check_fast_std (c : fcase) : bool :=
  let l := mk_list (fc_den c) (fc_x c) in
  let w := match fc_w c with Some ws => Some (mk_list (fc_wden c) ws) | None => None end in
  let m := match fc_mean c with Some z => Some (Qmake z (fc_den c)) | None => None end in
  val_match 0 (Root false (fast_var l w m)) (to_obsv (fc_exp c)).

Record mcase := { mc_den : positive; mc_x : list Z; mc_mu : option Z; mc_k : float; mc_exp : xobs }.
Definition check_mad (c : mcase) : bool :=
  let l := mk_list (mc_den c) (mc_x c) in
  let mu := match mc_mu c with Some z => Some (Qmake z (mc_den c)) | None => None end in
  let k := q_of_float (mc_k c) in
  num_match (k * (maxabs l + match mu with Some m => Qabs m | None => 0 end))
            (median_absolute_deviation k l mu) (to_obsv (mc_exp c)).

(* t_stat: the (percentile, degrees of freedom) handed to t.ppf, or the exception *)
Definition check_t_args (c : float * Z * Z * xobs * xobs) : bool :=
  let '(alpha, n, tail, operc, odof) := c in
  match t_args (q_of_float alpha) n tail, to_obsv operc, to_obsv odof with
  | Some (pc, d), ONum f, ONum g => close 0 pc f && Qeq_bool (inject_Z d) g
  | None, ORaise, _ => true
  | _, _, _ => false
  end.

(* unc_factor(n, interval) given the t it obtained *)
Definition check_unc (c : float * Z * interval * xobs) : bool :=
  let '(t, n, i, o) := c in
  match unc_factor (q_of_float t) n i, to_obsv o with
  | Some (b, r), ONum f => val_match 0 r (ONum (f - b))
  | None, ONone => true
  | _, _ => false
  end.
