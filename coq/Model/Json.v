(* JSON trees (DESIGN 3.4): the level at which stored models are modelled for C01.

   null, bool, number, string, array, object with string keys in insertion order.
   Numbers: Python's json distinguishes the *texts* "12" (an int) and "12.0" (a float), and
   `from_json(js).to_json() == js` is a comparison of texts, so the two are different constructors
   here ([JInt] / [JNum]); a float payload is an IEEE binary64 ([PrimFloat]) and NaN / +-Infinity are
   ordinary payloads (json.dumps writes the tokens NaN / Infinity and json.loads reads them back:
   CPython contract, trusted).

   Executable definitions only. *)
From Coq Require Import ZArith List Bool String Ascii PrimFloat Uint63.
Import ListNotations.
Open Scope string_scope.

Inductive json :=
| JNull
| JBool (b : bool)
| JInt (z : Z)
| JNum (f : float)
| JStr (s : string)
| JArr (l : list json)
| JObj (l : list (string * json)).

(* ---------------------------------------------------------------- float payload identity *)

(* same JSON text: same value with the same sign of zero, or both NaN *)
Definition f_is_nan (a : float) : bool := negb (PrimFloat.eqb a a).
Definition fbits_eqb (a b : float) : bool :=
  (PrimFloat.eqb a b && PrimFloat.eqb (PrimFloat.div 1%float a) (PrimFloat.div 1%float b))
  || (f_is_nan a && f_is_nan b).

(* int -> float as Python's float(int) for |z| < 2^62 (enough for every integer a document carries) *)
Definition float_of_Z (z : Z) : float :=
  match z with
  | Z0 => 0%float
  | Zpos _ => PrimFloat.of_uint63 (Uint63.of_Z z)
  | Zneg p => PrimFloat.opp (PrimFloat.of_uint63 (Uint63.of_Z (Zpos p)))
  end.

(* ---------------------------------------------------------------- structural equality (same text) *)

Fixpoint json_eqb (a b : json) : bool :=
  match a, b with
  | JNull, JNull => true
  | JBool x, JBool y => Bool.eqb x y
  | JInt x, JInt y => Z.eqb x y
  | JNum x, JNum y => fbits_eqb x y
  | JStr x, JStr y => String.eqb x y
  | JArr l1, JArr l2 =>
      (fix go (l1 l2 : list json) : bool :=
         match l1, l2 with
         | [], [] => true
         | x :: r1, y :: r2 => json_eqb x y && go r1 r2
         | _, _ => false
         end) l1 l2
  | JObj l1, JObj l2 =>
      (fix go (l1 l2 : list (string * json)) : bool :=
         match l1, l2 with
         | [], [] => true
         | (k1, v1) :: r1, (k2, v2) :: r2 => String.eqb k1 k2 && json_eqb v1 v2 && go r1 r2
         | _, _ => false
         end) l1 l2
  | _, _ => false
  end.

(* equality of *values*: an int and a float with the same value are equal (Python's ==, used by the
   developer-mode lock and by json.loads(a) == json.loads(b)); objects compared in order *)
Definition num_of (j : json) : option float :=
  match j with JInt z => Some (float_of_Z z) | JNum f => Some f | _ => None end.

Fixpoint json_veqb (a b : json) : bool :=
  match a, b with
  | JNull, JNull => true
  | JBool x, JBool y => Bool.eqb x y
  | JInt x, JInt y => Z.eqb x y
  | JNum x, JNum y => PrimFloat.eqb x y
  | JInt x, JNum y => PrimFloat.eqb (float_of_Z x) y
  | JNum x, JInt y => PrimFloat.eqb x (float_of_Z y)
  | JStr x, JStr y => String.eqb x y
  | JArr l1, JArr l2 =>
      (fix go (l1 l2 : list json) : bool :=
         match l1, l2 with
         | [], [] => true
         | x :: r1, y :: r2 => json_veqb x y && go r1 r2
         | _, _ => false
         end) l1 l2
  | JObj l1, JObj l2 =>
      (fix go (l1 l2 : list (string * json)) : bool :=
         match l1, l2 with
         | [], [] => true
         | (k1, v1) :: r1, (k2, v2) :: r2 => String.eqb k1 k2 && json_veqb v1 v2 && go r1 r2
         | _, _ => false
         end) l1 l2
  | _, _ => false
  end.

(* ---------------------------------------------------------------- access *)

Fixpoint get (k : string) (o : list (string * json)) : option json :=
  match o with
  | [] => None
  | (k', v) :: rest => if String.eqb k k' then Some v else get k rest
  end.

(* dict[k] = v on an existing key keeps its position; a new key is appended *)
Fixpoint set (k : string) (v : json) (o : list (string * json)) : list (string * json) :=
  match o with
  | [] => [(k, v)]
  | (k', v') :: rest => if String.eqb k k' then (k, v) :: rest else (k', v') :: set k v rest
  end.

Definition field (k : string) (j : json) : option json :=
  match j with JObj o => get k o | _ => None end.

(* readers: what pydantic / the from_dict code accept for a field of that type *)
Definition as_float (j : json) : option float :=
  match j with JNum f => Some f | JInt z => Some (float_of_Z z) | _ => None end.
Definition as_opt_float (j : json) : option (option float) :=
  match j with JNull => Some None | JNum f => Some (Some f) | JInt z => Some (Some (float_of_Z z)) | _ => None end.
Definition as_string (j : json) : option string := match j with JStr s => Some s | _ => None end.
Definition as_int (j : json) : option Z := match j with JInt z => Some z | _ => None end.
Definition as_bool (j : json) : option bool := match j with JBool b => Some b | _ => None end.
Definition as_arr (j : json) : option (list json) := match j with JArr l => Some l | _ => None end.
Definition as_obj (j : json) : option (list (string * json)) := match j with JObj l => Some l | _ => None end.

Fixpoint opt_all {A} (l : list (option A)) : option (list A) :=
  match l with
  | [] => Some []
  | Some v :: rest => match opt_all rest with Some r => Some (v :: r) | None => None end
  | None :: _ => None
  end.

Definition jopt_float (o : option float) : json := match o with Some f => JNum f | None => JNull end.

(* ---------------------------------------------------------------- decimal text of integer keys *)

(* str(n) for the integer keys that become JSON object keys (json.dumps stringifies int keys) *)
Definition digit (d : Z) : ascii := ascii_of_nat (48 + Z.to_nat d).

Fixpoint dec_digits (fuel : nat) (n : Z) (acc : string) : string :=
  match fuel with
  | O => acc
  | S fuel' =>
      let acc' := String (digit (n mod 10)) acc in
      if (n / 10 =? 0)%Z then acc' else dec_digits fuel' (n / 10) acc'
  end.

Definition string_of_Z (z : Z) : string :=
  match z with
  | Z0 => "0"
  | Zpos _ => dec_digits 20 z ""
  | Zneg p => String "-" (dec_digits 20 (Zpos p) "")
  end.

(* int(s) for such keys; None = ValueError *)
Fixpoint parse_digits (s : string) (acc : Z) : option Z :=
  match s with
  | EmptyString => Some acc
  | String c rest =>
      let n := Z.of_nat (nat_of_ascii c) in
      if ((48 <=? n) && (n <=? 57))%Z then parse_digits rest (acc * 10 + (n - 48)) else None
  end.

Definition Z_of_string (s : string) : option Z :=
  match s with
  | EmptyString => None
  | String "-" rest => match rest with EmptyString => None | _ => option_map Z.opp (parse_digits rest 0) end
  | _ => parse_digits s 0
  end.
